import ColaVerif.Model.Cost
import Mathlib.Tactic.Ring
import Mathlib.Tactic.Linarith

/-!
# C19, cost level: no allocation of `A @ X` has an `n × n` term

`Op.allocs_le`: for every in-scope well-formed tree, every array allocated by `A._matmat(X)`
(`allocs A b`) has at most `vol A · b + leafStorage A` entries.
`Op.vol_eq_rows`: with square leaves `vol A = rows A`.
-/

namespace Op
variable {R : Type}

/-! ## lists of naturals -/

theorem le_sum_of_mem' {l : List Nat} {x : Nat} (h : x ∈ l) : x ≤ l.sum := by
  induction l with
  | nil => cases h
  | cons y ys ih =>
    simp only [List.mem_cons] at h
    simp only [List.sum_cons]
    rcases h with rfl | h
    · omega
    · have := ih h; omega

theorem le_maxL_of_mem {l : List Nat} {x : Nat} (h : x ∈ l) : x ≤ maxL l := by
  induction l with
  | nil => cases h
  | cons y ys ih =>
    simp only [List.mem_cons] at h
    simp only [maxL, List.foldr_cons]
    rcases h with rfl | h
    · exact Nat.le_max_left _ _
    · exact Nat.le_trans (ih h) (Nat.le_max_right _ _)

theorem maxL_le {l : List Nat} {k : Nat} (h : ∀ x ∈ l, x ≤ k) : maxL l ≤ k := by
  induction l with
  | nil => simp [maxL]
  | cons y ys ih =>
    simp only [maxL, List.foldr_cons]
    exact Nat.max_le.mpr ⟨h y (by simp), ih (fun x hx => h x (by simp [hx]))⟩

theorem prod_map_le {α : Type} (L : List α) (f g : α → Nat) (h : ∀ M ∈ L, f M ≤ g M) :
    (L.map f).prod ≤ (L.map g).prod := by
  induction L with
  | nil => simp
  | cons M L ih =>
    simp only [List.map_cons, List.prod_cons]
    exact Nat.mul_le_mul (h M (by simp)) (ih (fun N hN => h N (by simp [hN])))

theorem dotSum_map_le {α : Type} (L : List α) (f g : α → Nat) (mults : List Nat)
    (h : ∀ M ∈ L, f M ≤ g M) : dotSum (L.map f) mults ≤ dotSum (L.map g) mults := by
  induction L generalizing mults with
  | nil => simp [dotSum]
  | cons M L ih =>
    cases mults with
    | nil => simp [dotSum]
    | cons m ms =>
      have h1 := h M (by simp)
      have h2 := ih ms (fun N hN => h N (by simp [hN]))
      simp only [dotSum, List.map_cons, List.zip_cons_cons, List.sum_cons] at h2 ⊢
      have := Nat.mul_le_mul_right m h1
      omega

theorem dotSum_cons (a : Nat) (l : List Nat) (m : Nat) (ms : List Nat) :
    dotSum (a :: l) (m :: ms) = a * m + dotSum l ms := by
  simp [dotSum]

/-! ## the per-kind loops -/

/-- what the recursion carries for one member -/
def CostOK (M : Op R) : Prop :=
  M.rows ≤ M.vol ∧ M.cols ≤ M.vol ∧ ∀ b s, s ∈ M.allocs b → s ≤ M.vol * b + M.leafStorage

def toFac (M : Op R) : FacCost := ⟨M.rows, M.cols, fun b' => M.allocs b'⟩

theorem map_toFac_c (L : List (Op R)) : (L.map toFac).map (·.c) = L.map (·.cols) := by
  simp [toFac, List.map_map, Function.comp_def]

theorem map_toFac_r (L : List (Op R)) : (L.map toFac).map (·.r) = L.map (·.rows) := by
  simp [toFac, List.map_map, Function.comp_def]

theorem kronCostLoop_le (b : Nat) : ∀ (L : List (Op R)), (∀ M ∈ L, CostOK M) → ∀ (pre s : Nat),
    s ∈ kronCostLoop b pre (L.map toFac) →
      s ≤ pre * (L.map (·.vol)).prod * b + (L.map (·.leafStorage)).sum
  | [], _, pre, s, hs => by simp [kronCostLoop] at hs
  | M :: L, h, pre, s, hs => by
    have hM := h M (by simp)
    have hL : ∀ N ∈ L, CostOK N := fun N hN => h N (by simp [hN])
    have hc : (L.map (·.cols)).prod ≤ (L.map (·.vol)).prod :=
      prod_map_le L _ _ (fun N hN => (hL N hN).2.1)
    simp only [List.map_cons, kronCostLoop, List.mem_cons, List.mem_append, map_toFac_c] at hs
    simp only [List.map_cons, List.prod_cons, List.sum_cons]
    have key : pre * M.cols * (L.map (·.cols)).prod * b ≤ pre * (M.vol * (L.map (·.vol)).prod) * b := by
      have := Nat.mul_le_mul (Nat.mul_le_mul (Nat.le_refl pre) hM.2.1) hc
      calc pre * M.cols * (L.map (·.cols)).prod * b
          ≤ pre * M.vol * (L.map (·.vol)).prod * b := Nat.mul_le_mul_right b this
        _ = pre * (M.vol * (L.map (·.vol)).prod) * b := by ring
    rcases hs with rfl | hs | hs
    · have e : (toFac M).c = M.cols := rfl
      rw [e]
      omega
    · have h1 := hM.2.2 _ s hs
      have h2 : M.vol * (pre * (L.map (·.cols)).prod * b) ≤ pre * (M.vol * (L.map (·.vol)).prod) * b := by
        have := Nat.mul_le_mul (Nat.le_refl (pre * M.vol)) hc
        calc M.vol * (pre * (L.map (·.cols)).prod * b)
            = pre * M.vol * (L.map (·.cols)).prod * b := by ring
          _ ≤ pre * M.vol * (L.map (·.vol)).prod * b := Nat.mul_le_mul_right b this
          _ = pre * (M.vol * (L.map (·.vol)).prod) * b := by ring
      omega
    · have ih := kronCostLoop_le b L hL (pre * M.rows) s hs
      have h2 : pre * M.rows * (L.map (·.vol)).prod * b ≤ pre * (M.vol * (L.map (·.vol)).prod) * b := by
        have := Nat.mul_le_mul_right ((L.map (·.vol)).prod) (Nat.mul_le_mul (Nat.le_refl pre) hM.1)
        calc pre * M.rows * (L.map (·.vol)).prod * b
            ≤ pre * M.vol * (L.map (·.vol)).prod * b := Nat.mul_le_mul_right b this
          _ = pre * (M.vol * (L.map (·.vol)).prod) * b := by ring
      omega

theorem kronSumCostLoop_le (b : Nat) : ∀ (L : List (Op R)), (∀ M ∈ L, CostOK M) → ∀ (pre s : Nat),
    s ∈ kronSumCostLoop b pre (L.map toFac) →
      s ≤ pre * (L.map (·.vol)).prod * b + (L.map (·.leafStorage)).sum
  | [], _, pre, s, hs => by simp [kronSumCostLoop] at hs
  | M :: L, h, pre, s, hs => by
    have hM := h M (by simp)
    have hL : ∀ N ∈ L, CostOK N := fun N hN => h N (by simp [hN])
    have hc : (L.map (·.cols)).prod ≤ (L.map (·.vol)).prod :=
      prod_map_le L _ _ (fun N hN => (hL N hN).2.1)
    simp only [List.map_cons, kronSumCostLoop, List.mem_cons, List.mem_append, map_toFac_c] at hs
    simp only [List.map_cons, List.prod_cons, List.sum_cons]
    have key : pre * M.cols * (L.map (·.cols)).prod * b ≤ pre * (M.vol * (L.map (·.vol)).prod) * b := by
      have := Nat.mul_le_mul (Nat.mul_le_mul (Nat.le_refl pre) hM.2.1) hc
      calc pre * M.cols * (L.map (·.cols)).prod * b
          ≤ pre * M.vol * (L.map (·.vol)).prod * b := Nat.mul_le_mul_right b this
        _ = pre * (M.vol * (L.map (·.vol)).prod) * b := by ring
    rcases hs with rfl | hs | hs
    · have e : (toFac M).c = M.cols := rfl
      rw [e]
      omega
    · have h1 := hM.2.2 _ s hs
      have h2 : M.vol * (pre * (L.map (·.cols)).prod * b) ≤ pre * (M.vol * (L.map (·.vol)).prod) * b := by
        have := Nat.mul_le_mul (Nat.le_refl (pre * M.vol)) hc
        calc M.vol * (pre * (L.map (·.cols)).prod * b)
            = pre * M.vol * (L.map (·.cols)).prod * b := by ring
          _ ≤ pre * M.vol * (L.map (·.vol)).prod * b := Nat.mul_le_mul_right b this
          _ = pre * (M.vol * (L.map (·.vol)).prod) * b := by ring
      omega
    · have ih := kronSumCostLoop_le b L hL (pre * M.cols) s hs
      have h2 : pre * M.cols * (L.map (·.vol)).prod * b ≤ pre * (M.vol * (L.map (·.vol)).prod) * b := by
        have := Nat.mul_le_mul_right ((L.map (·.vol)).prod) (Nat.mul_le_mul (Nat.le_refl pre) hM.2.1)
        calc pre * M.cols * (L.map (·.vol)).prod * b
            ≤ pre * M.vol * (L.map (·.vol)).prod * b := Nat.mul_le_mul_right b this
          _ = pre * (M.vol * (L.map (·.vol)).prod) * b := by ring
      omega

theorem bdiagCostLoop_le (b : Nat) : ∀ (L : List (Op R)) (mults : List Nat), (∀ M ∈ L, CostOK M) →
    ∀ s, s ∈ bdiagCostLoop b ((L.map toFac).zip mults) →
      s ≤ dotSum (L.map (·.vol)) mults * b + (L.map (·.leafStorage)).sum
  | [], _, _, s, hs => by simp [bdiagCostLoop] at hs
  | _ :: _, [], _, s, hs => by simp [bdiagCostLoop] at hs
  | M :: L, m :: ms, h, s, hs => by
    have hM := h M (by simp)
    have hL : ∀ N ∈ L, CostOK N := fun N hN => h N (by simp [hN])
    simp only [List.map_cons, List.zip_cons_cons, bdiagCostLoop, List.mem_cons, List.mem_append] at hs
    simp only [List.map_cons, dotSum_cons, List.sum_cons]
    have e : (M.vol * m + dotSum (L.map (·.vol)) ms) * b = M.vol * m * b + dotSum (L.map (·.vol)) ms * b := by
      ring
    rw [e]
    rcases hs with rfl | hs | rfl | hs
    · have : m * (toFac M).c * b ≤ M.vol * m * b := by
        have := Nat.mul_le_mul_right b (Nat.mul_le_mul_left m hM.2.1)
        calc m * (toFac M).c * b = m * M.cols * b := rfl
          _ ≤ m * M.vol * b := this
          _ = M.vol * m * b := by ring
      omega
    · have h1 := hM.2.2 _ s hs
      have : M.vol * (b * m) = M.vol * m * b := by ring
      omega
    · have : m * (toFac M).r * b ≤ M.vol * m * b := by
        have := Nat.mul_le_mul_right b (Nat.mul_le_mul_left m hM.1)
        calc m * (toFac M).r * b = m * M.rows * b := rfl
          _ ≤ m * M.vol * b := this
          _ = M.vol * m * b := by ring
      omega
    · have ih := bdiagCostLoop_le b L ms hL s hs
      omega

/-! ## shapes are below the linear size -/

theorem head?_getD_le_maxL (L : List (Op R)) (f g : Op R → Nat) (h : ∀ M ∈ L, f M ≤ g M) :
    (L.map f).head?.getD 0 ≤ maxL (L.map g) := by
  cases L with
  | nil => simp [maxL]
  | cons M L =>
    simp only [List.map_cons, List.head?_cons, Option.getD_some, maxL, List.foldr_cons]
    exact Nat.le_trans (h M (by simp)) (Nat.le_max_left _ _)

theorem getLast?_getD_le_maxL (L : List (Op R)) (f g : Op R → Nat) (h : ∀ M ∈ L, f M ≤ g M) :
    (L.map f).getLast?.getD 0 ≤ maxL (L.map g) := by
  cases hl : (L.map f).getLast? with
  | none => simp
  | some x =>
    have hx : x ∈ L.map f := List.mem_of_getLast? hl
    obtain ⟨M, hM, rfl⟩ := List.mem_map.mp hx
    simp only [Option.getD_some]
    exact Nat.le_trans (h M hM) (le_maxL_of_mem (List.mem_map.mpr ⟨M, hM, rfl⟩))

theorem scope_members {Ms : List (Op R)} (h : (Ms.map (·.inScope)).all id = true) :
    ∀ M ∈ Ms, M.inScope = true := by
  intro M hM
  rw [List.all_eq_true] at h
  exact h _ (List.mem_map.mpr ⟨M, hM, rfl⟩)

theorem wf_members' {Ms : List (Op R)} (h : (Ms.map (·.wf)).all id = true) :
    ∀ M ∈ Ms, M.wf = true := by
  intro M hM
  rw [List.all_eq_true] at h
  exact h _ (List.mem_map.mpr ⟨M, hM, rfl⟩)

/-! ## per-kind statements -/

theorem allocs_kron_eq (Ms : List (Op R)) (b : Nat) :
    (kron Ms).allocs b = kronCost (Ms.map toFac) b := by
  simp only [Op.allocs]; rfl

theorem allocs_kronsum_eq (Ms : List (Op R)) (b : Nat) :
    (kronsum Ms).allocs b = kronSumCost (Ms.map toFac) b := by
  simp only [Op.allocs]; rfl

theorem allocs_bdiag_eq (Ms : List (Op R)) (mults : List Nat) (b : Nat) :
    (bdiag Ms mults).allocs b =
      bdiagCostLoop b ((Ms.map toFac).zip mults) ++ [dotSum (Ms.map (·.rows)) mults * b] := by
  simp only [Op.allocs]; rfl

theorem costOK_prod (Ms : List (Op R)) (h : ∀ M ∈ Ms, CostOK M) : CostOK (prod Ms) := by
  refine ⟨?_, ?_, ?_⟩
  · simp only [Op.rows, Op.vol]
    exact head?_getD_le_maxL Ms _ _ (fun M hM => (h M hM).1)
  · simp only [Op.cols, Op.vol]
    exact getLast?_getD_le_maxL Ms _ _ (fun M hM => (h M hM).2.1)
  · intro b s hs
    simp only [Op.allocs, List.mem_flatten, List.mem_map] at hs
    obtain ⟨l, ⟨M, hM, rfl⟩, hs⟩ := hs
    have h1 := (h M hM).2.2 b s hs
    have h2 : M.vol ≤ maxL (Ms.map (·.vol)) := le_maxL_of_mem (List.mem_map.mpr ⟨M, hM, rfl⟩)
    have h3 : M.leafStorage ≤ (Ms.map (·.leafStorage)).sum :=
      le_sum_of_mem' (List.mem_map.mpr ⟨M, hM, rfl⟩)
    have h4 := Nat.mul_le_mul_right b h2
    simp only [Op.vol, Op.leafStorage]
    omega

theorem costOK_sum (Ms : List (Op R)) (h : ∀ M ∈ Ms, CostOK M) : CostOK (sum Ms) := by
  refine ⟨?_, ?_, ?_⟩
  · simp only [Op.rows, Op.vol]
    exact head?_getD_le_maxL Ms _ _ (fun M hM => (h M hM).1)
  · simp only [Op.cols, Op.vol]
    exact head?_getD_le_maxL Ms _ _ (fun M hM => (h M hM).2.1)
  · intro b s hs
    simp only [Op.allocs, List.mem_flatten, List.mem_map] at hs
    obtain ⟨l, ⟨M, hM, rfl⟩, hs⟩ := hs
    have h2 : M.vol ≤ maxL (Ms.map (·.vol)) := le_maxL_of_mem (List.mem_map.mpr ⟨M, hM, rfl⟩)
    have h3 : M.leafStorage ≤ (Ms.map (·.leafStorage)).sum :=
      le_sum_of_mem' (List.mem_map.mpr ⟨M, hM, rfl⟩)
    have h4 := Nat.mul_le_mul_right b h2
    simp only [Op.vol, Op.leafStorage]
    simp only [List.mem_append, List.mem_singleton] at hs
    rcases hs with hs | rfl
    · have h1 := (h M hM).2.2 b s hs
      omega
    · have := Nat.mul_le_mul_right b (h M hM).1
      omega

theorem costOK_kron (Ms : List (Op R)) (h : ∀ M ∈ Ms, CostOK M) : CostOK (kron Ms) := by
  refine ⟨?_, ?_, ?_⟩
  · simp only [Op.rows, Op.vol]
    exact prod_map_le Ms _ _ (fun M hM => (h M hM).1)
  · simp only [Op.cols, Op.vol]
    exact prod_map_le Ms _ _ (fun M hM => (h M hM).2.1)
  · intro b s hs
    rw [allocs_kron_eq] at hs
    simp only [kronCost, List.mem_append, List.mem_singleton, map_toFac_r] at hs
    simp only [Op.vol, Op.leafStorage]
    rcases hs with hs | rfl
    · have := kronCostLoop_le b Ms h 1 s hs
      simpa using this
    · have := Nat.mul_le_mul_right b (prod_map_le Ms (·.rows) (·.vol) (fun M hM => (h M hM).1))
      omega

theorem costOK_kronsum (Ms : List (Op R)) (h : ∀ M ∈ Ms, CostOK M) : CostOK (kronsum Ms) := by
  refine ⟨?_, ?_, ?_⟩
  · simp only [Op.rows, Op.vol]
    exact prod_map_le Ms _ _ (fun M hM => (h M hM).1)
  · simp only [Op.cols, Op.vol]
    exact prod_map_le Ms _ _ (fun M hM => (h M hM).2.1)
  · intro b s hs
    rw [allocs_kronsum_eq] at hs
    simp only [kronSumCost, List.mem_append, List.mem_cons, map_toFac_r,
      map_toFac_c, List.not_mem_nil, or_false] at hs
    simp only [Op.vol, Op.leafStorage]
    have hc := Nat.mul_le_mul_right b (prod_map_le Ms (·.cols) (·.vol) (fun M hM => (h M hM).2.1))
    have hr := Nat.mul_le_mul_right b (prod_map_le Ms (·.rows) (·.vol) (fun M hM => (h M hM).1))
    rcases hs with ((rfl | rfl) | hs) | rfl
    · omega
    · omega
    · have := kronSumCostLoop_le b Ms h 1 s hs
      simpa using this
    · omega

theorem costOK_bdiag (Ms : List (Op R)) (mults : List Nat) (h : ∀ M ∈ Ms, CostOK M) :
    CostOK (bdiag Ms mults) := by
  refine ⟨?_, ?_, ?_⟩
  · simp only [Op.rows, Op.vol]
    exact dotSum_map_le Ms _ _ mults (fun M hM => (h M hM).1)
  · simp only [Op.cols, Op.vol]
    exact dotSum_map_le Ms _ _ mults (fun M hM => (h M hM).2.1)
  · intro b s hs
    rw [allocs_bdiag_eq] at hs
    simp only [List.mem_append, List.mem_singleton] at hs
    simp only [Op.vol, Op.leafStorage]
    rcases hs with hs | rfl
    · exact bdiagCostLoop_le b Ms mults h s hs
    · have := Nat.mul_le_mul_right b (dotSum_map_le Ms (·.rows) (·.vol) mults (fun M hM => (h M hM).1))
      omega

/-- **every allocation of `A @ X` is linear in the size of the operator** -/
theorem costOK : ∀ (A : Op R), A.inScope = true → A.wf = true → CostOK A
  | dense dt r c a, _, _ => by
    refine ⟨?_, ?_, ?_⟩
    · simp only [Op.rows, Op.vol]; exact Nat.le_max_left _ _
    · simp only [Op.cols, Op.vol]; exact Nat.le_max_right _ _
    · intro b s hs
      simp only [Op.allocs, List.mem_cons, List.not_mem_nil, or_false] at hs
      simp only [Op.vol, Op.leafStorage]
      have h1 := Nat.mul_le_mul_right b (Nat.le_max_left r c)
      have h2 := Nat.mul_le_mul_right b (Nat.le_max_right r c)
      rcases hs with rfl | rfl | rfl <;> omega
  | tri dt r c l a, _, _ => by
    refine ⟨?_, ?_, ?_⟩
    · simp only [Op.rows, Op.vol]; exact Nat.le_max_left _ _
    · simp only [Op.cols, Op.vol]; exact Nat.le_max_right _ _
    · intro b s hs
      simp only [Op.allocs, List.mem_cons, List.not_mem_nil, or_false] at hs
      simp only [Op.vol, Op.leafStorage]
      have h1 := Nat.mul_le_mul_right b (Nat.le_max_left r c)
      have h2 := Nat.mul_le_mul_right b (Nat.le_max_right r c)
      rcases hs with rfl | rfl | rfl <;> omega
  | sparse dt r c e, _, _ => by
    refine ⟨?_, ?_, ?_⟩
    · simp only [Op.rows, Op.vol]; exact Nat.le_max_left _ _
    · simp only [Op.cols, Op.vol]; exact Nat.le_max_right _ _
    · intro b s hs
      simp only [Op.allocs, List.mem_cons, List.not_mem_nil, or_false] at hs
      simp only [Op.vol, Op.leafStorage]
      have h1 := Nat.mul_le_mul_right b (Nat.le_max_left r c)
      have h2 := Nat.mul_le_mul_right b (Nat.le_max_right r c)
      rcases hs with rfl | rfl <;> omega
  | scalar dt s n, _, _ => by
    refine ⟨by simp [Op.rows, Op.vol], by simp [Op.cols, Op.vol], ?_⟩
    intro b s hs
    simp only [Op.allocs, List.mem_cons, List.not_mem_nil, or_false] at hs
    simp only [Op.vol, Op.leafStorage]; omega
  | eye dt n, _, _ => by
    refine ⟨by simp [Op.rows, Op.vol], by simp [Op.cols, Op.vol], ?_⟩
    intro b s hs
    simp only [Op.allocs, List.mem_cons, List.not_mem_nil, or_false] at hs
    simp only [Op.vol, Op.leafStorage]; omega
  | diag dt n d, _, _ => by
    refine ⟨by simp [Op.rows, Op.vol], by simp [Op.cols, Op.vol], ?_⟩
    intro b s hs
    simp only [Op.allocs, List.mem_cons, List.not_mem_nil, or_false] at hs
    simp only [Op.vol, Op.leafStorage]; omega
  | tridiag dt n al be ga, _, hwf => by
    refine ⟨by simp [Op.rows, Op.vol], by simp [Op.cols, Op.vol], ?_⟩
    intro b s hs
    simp only [Op.wf, decide_eq_true_eq] at hwf
    simp only [Op.allocs, List.mem_cons, List.not_mem_nil, or_false] at hs
    simp only [Op.vol, Op.leafStorage]
    have h1 : b ≤ n * b := Nat.le_mul_of_pos_left b hwf
    have h2 : (n - 1) * b ≤ n * b := Nat.mul_le_mul_right b (Nat.sub_le n 1)
    rcases hs with rfl | rfl | rfl | rfl | rfl | rfl | rfl | rfl | rfl <;> omega
  | perm dt p, _, _ => by
    refine ⟨by simp [Op.rows, Op.vol], by simp [Op.cols, Op.vol], ?_⟩
    intro b s hs
    simp only [Op.allocs, List.mem_cons, List.not_mem_nil, or_false] at hs
    simp only [Op.vol, Op.leafStorage]
    rcases hs with rfl | rfl <;> omega
  | prod Ms, hs, hwf => by
    simp only [Op.inScope] at hs
    simp only [Op.wf, Bool.and_eq_true] at hwf
    exact costOK_prod Ms (fun M hM => costOK M (scope_members hs M hM) (wf_members' hwf.1.2 M hM))
  | sum Ms, hs, hwf => by
    simp only [Op.inScope] at hs
    simp only [Op.wf, Bool.and_eq_true] at hwf
    exact costOK_sum Ms (fun M hM => costOK M (scope_members hs M hM) (wf_members' hwf.1.2 M hM))
  | kron Ms, hs, hwf => by
    simp only [Op.inScope] at hs
    simp only [Op.wf, Bool.and_eq_true] at hwf
    exact costOK_kron Ms (fun M hM => costOK M (scope_members hs M hM) (wf_members' hwf.2 M hM))
  | kronsum Ms, hs, hwf => by
    simp only [Op.inScope] at hs
    simp only [Op.wf, Bool.and_eq_true] at hwf
    exact costOK_kronsum Ms (fun M hM => costOK M (scope_members hs M hM) (wf_members' hwf.1.2 M hM))
  | bdiag Ms mults, hs, hwf => by
    simp only [Op.inScope] at hs
    simp only [Op.wf, Bool.and_eq_true] at hwf
    exact costOK_bdiag Ms mults (fun M hM => costOK M (scope_members hs M hM) (wf_members' hwf.1.2 M hM))
  | generic A, hs, hwf => by
    simp only [Op.inScope] at hs
    simp only [Op.wf] at hwf
    have ih := costOK A hs hwf
    refine ⟨?_, ?_, ?_⟩
    · simpa only [Op.rows, Op.vol] using ih.1
    · simpa only [Op.cols, Op.vol] using ih.2.1
    · intro b s h
      simp only [Op.allocs] at h
      simpa only [Op.vol, Op.leafStorage] using ih.2.2 b s h
  | annot a A, hs, hwf => by
    simp only [Op.inScope] at hs
    simp only [Op.wf] at hwf
    have ih := costOK A hs hwf
    refine ⟨?_, ?_, ?_⟩
    · simpa only [Op.rows, Op.vol] using ih.1
    · simpa only [Op.cols, Op.vol] using ih.2.1
    · intro b s h
      simp only [Op.allocs] at h
      simpa only [Op.vol, Op.leafStorage] using ih.2.2 b s h
  | transpose A, hs, _ => by simp [Op.inScope] at hs
  | adjoint A, hs, _ => by simp [Op.inScope] at hs
  | sliced A s0 s1, hs, _ => by simp [Op.inScope] at hs
  | concat ax Ms, hs, _ => by simp [Op.inScope] at hs
  | house dt n v beta, hs, _ => by
    simp only [Op.inScope, decide_eq_true_eq] at hs
    refine ⟨by simp [Op.rows, Op.vol], by simp [Op.cols, Op.vol], ?_⟩
    intro b s h
    simp only [Op.allocs, List.mem_cons, List.not_mem_nil, or_false] at h
    simp only [Op.vol, Op.leafStorage]
    have h1 : b ≤ n * b := Nat.le_mul_of_pos_left b hs
    rcases h with rfl | rfl | rfl | rfl | rfl | rfl <;> omega
termination_by A => sizeOf A
decreasing_by
  all_goals simp_wf
  all_goals (have := List.sizeOf_lt_of_mem hM; omega)

/-! ## square leaves: the linear size is the dimension -/

theorem sq_members {Ms : List (Op R)} (h : (Ms.map (·.squareLeaves)).all id = true) :
    ∀ M ∈ Ms, M.squareLeaves = true := by
  intro M hM
  rw [List.all_eq_true] at h
  exact h _ (List.mem_map.mpr ⟨M, hM, rfl⟩)

theorem maxL_const {l : List Nat} {d : Nat} (hne : l ≠ []) (h : ∀ x ∈ l, x = d) : maxL l = d := by
  apply Nat.le_antisymm
  · exact maxL_le (fun x hx => Nat.le_of_eq (h x hx))
  · obtain ⟨x, hx⟩ := List.exists_mem_of_ne_nil l hne
    have := le_maxL_of_mem hx
    rw [h x hx] at this
    exact this

/-- along a well-formed chain of square members every member has the dimension of the first -/
theorem chain_all_eq : ∀ (L : List (Op R)) (d : Nat),
    chainOk (L.map (fun M => (M.rows, M.cols))) = true → (∀ M ∈ L, M.rows = M.cols) →
    (L.map (·.rows)).head?.getD 0 = d → ∀ M ∈ L, M.rows = d
  | [], _, _, _, _, M, hM => by cases hM
  | [M0], d, _, _, hd, M, hM => by
    simp only [List.mem_singleton] at hM
    subst hM
    simpa using hd
  | M0 :: M1 :: rest, d, hc, hsq, hd, M, hM => by
    simp only [List.map_cons, chainOk, Bool.and_eq_true, beq_iff_eq] at hc
    have h0 : M0.rows = d := by simpa using hd
    have h1 : M1.rows = d := by
      rw [← hc.1, ← hsq M0 (by simp), h0]
    simp only [List.mem_cons] at hM
    rcases hM with rfl | hM
    · exact h0
    · have hc' : chainOk ((M1 :: rest).map (fun M => (M.rows, M.cols))) = true := by
        simpa only [List.map_cons] using hc.2
      exact chain_all_eq (M1 :: rest) d hc' (fun N hN => hsq N (by simp [hN]))
        (by simpa using h1) M (by simpa using hM)

/-- a well-formed in-scope tree with square leaves is square and `vol` is its dimension -/
theorem square_vol : ∀ (A : Op R), A.inScope = true → A.wf = true → A.squareLeaves = true →
    A.rows = A.cols ∧ A.vol = A.rows
  | dense dt r c a, _, _, hq => by
    simp only [Op.squareLeaves, beq_iff_eq] at hq
    subst hq
    simp [Op.rows, Op.cols, Op.vol]
  | tri dt r c l a, _, _, hq => by
    simp only [Op.squareLeaves, beq_iff_eq] at hq
    subst hq
    simp [Op.rows, Op.cols, Op.vol]
  | sparse dt r c e, _, _, hq => by
    simp only [Op.squareLeaves, beq_iff_eq] at hq
    subst hq
    simp [Op.rows, Op.cols, Op.vol]
  | scalar dt s n, _, _, _ => by simp [Op.rows, Op.cols, Op.vol]
  | eye dt n, _, _, _ => by simp [Op.rows, Op.cols, Op.vol]
  | diag dt n d, _, _, _ => by simp [Op.rows, Op.cols, Op.vol]
  | tridiag dt n al be ga, _, _, _ => by simp [Op.rows, Op.cols, Op.vol]
  | perm dt p, _, _, _ => by simp [Op.rows, Op.cols, Op.vol]
  | prod Ms, hs, hwf, hq => by
    simp only [Op.inScope] at hs
    simp only [Op.wf, Bool.and_eq_true, Bool.not_eq_true', List.isEmpty_eq_false_iff] at hwf
    simp only [Op.squareLeaves] at hq
    have ih : ∀ M ∈ Ms, M.rows = M.cols ∧ M.vol = M.rows := fun M hM =>
      square_vol M (scope_members hs M hM) (wf_members' hwf.1.2 M hM) (sq_members hq M hM)
    have hall := chain_all_eq Ms _ hwf.2 (fun M hM => (ih M hM).1) rfl
    have hne : Ms ≠ [] := hwf.1.1
    simp only [Op.rows, Op.cols, Op.vol]
    constructor
    · cases hl : (Ms.map (·.cols)).getLast? with
      | none =>
        have : Ms.map (·.cols) = [] := List.getLast?_eq_none_iff.mp hl
        simp at this
        exact absurd this hne
      | some x =>
        obtain ⟨M, hM, rfl⟩ := List.mem_map.mp (List.mem_of_getLast? hl)
        simp only [Option.getD_some]
        rw [← (ih M hM).1, hall M hM]
    · apply maxL_const (by simpa using hne)
      intro x hx
      obtain ⟨M, hM, rfl⟩ := List.mem_map.mp hx
      rw [(ih M hM).2, hall M hM]
  | sum Ms, hs, hwf, hq => by
    simp only [Op.inScope] at hs
    simp only [Op.wf, Bool.and_eq_true, Bool.not_eq_true', List.isEmpty_eq_false_iff,
      List.all_eq_true, beq_iff_eq] at hwf
    simp only [Op.squareLeaves] at hq
    have ih : ∀ M ∈ Ms, M.rows = M.cols ∧ M.vol = M.rows := fun M hM =>
      square_vol M (scope_members hs M hM) (wf_members' (by simpa [List.all_eq_true] using hwf.1.2) M hM)
        (sq_members hq M hM)
    have hne : Ms ≠ [] := hwf.1.1
    obtain ⟨M0, Ms', rfl⟩ := List.exists_cons_of_ne_nil hne
    have hshape : ∀ M ∈ M0 :: Ms', M.rows = M0.rows := by
      intro M hM
      have := hwf.2 (M.rows, M.cols) (List.mem_map.mpr ⟨M, hM, rfl⟩)
      simp only [List.map_cons, List.head?_cons, Option.getD_some, Prod.mk.injEq] at this
      exact this.1
    simp only [Op.rows, Op.cols, Op.vol, List.map_cons, List.head?_cons, Option.getD_some]
    refine ⟨(ih M0 (by simp)).1, ?_⟩
    rw [← List.map_cons]
    apply maxL_const (by simp)
    intro x hx
    obtain ⟨M, hM, rfl⟩ := List.mem_map.mp hx
    rw [(ih M hM).2, hshape M hM]
  | kron Ms, hs, hwf, hq => by
    simp only [Op.inScope] at hs
    simp only [Op.wf, Bool.and_eq_true] at hwf
    simp only [Op.squareLeaves] at hq
    have ih : ∀ M ∈ Ms, M.rows = M.cols ∧ M.vol = M.rows := fun M hM =>
      square_vol M (scope_members hs M hM) (wf_members' hwf.2 M hM) (sq_members hq M hM)
    simp only [Op.rows, Op.cols, Op.vol]
    rw [List.map_congr_left (fun M hM => (ih M hM).1), List.map_congr_left (fun M hM => (ih M hM).2),
      List.map_congr_left (fun M hM => (ih M hM).1)]
    exact ⟨rfl, rfl⟩
  | kronsum Ms, hs, hwf, hq => by
    simp only [Op.inScope] at hs
    simp only [Op.wf, Bool.and_eq_true] at hwf
    simp only [Op.squareLeaves] at hq
    have ih : ∀ M ∈ Ms, M.rows = M.cols ∧ M.vol = M.rows := fun M hM =>
      square_vol M (scope_members hs M hM) (wf_members' hwf.1.2 M hM) (sq_members hq M hM)
    simp only [Op.rows, Op.cols, Op.vol]
    rw [List.map_congr_left (fun M hM => (ih M hM).1), List.map_congr_left (fun M hM => (ih M hM).2),
      List.map_congr_left (fun M hM => (ih M hM).1)]
    exact ⟨rfl, rfl⟩
  | bdiag Ms mults, hs, hwf, hq => by
    simp only [Op.inScope] at hs
    simp only [Op.wf, Bool.and_eq_true] at hwf
    simp only [Op.squareLeaves] at hq
    have ih : ∀ M ∈ Ms, M.rows = M.cols ∧ M.vol = M.rows := fun M hM =>
      square_vol M (scope_members hs M hM) (wf_members' hwf.1.2 M hM) (sq_members hq M hM)
    simp only [Op.rows, Op.cols, Op.vol]
    rw [List.map_congr_left (fun M hM => (ih M hM).1), List.map_congr_left (fun M hM => (ih M hM).2),
      List.map_congr_left (fun M hM => (ih M hM).1)]
    exact ⟨rfl, rfl⟩
  | generic A, hs, hwf, hq => by
    simp only [Op.inScope] at hs
    simp only [Op.wf] at hwf
    simp only [Op.squareLeaves] at hq
    have ih := square_vol A hs hwf hq
    simpa only [Op.rows, Op.cols, Op.vol] using ih
  | annot a A, hs, hwf, hq => by
    simp only [Op.inScope] at hs
    simp only [Op.wf] at hwf
    simp only [Op.squareLeaves] at hq
    have ih := square_vol A hs hwf hq
    simpa only [Op.rows, Op.cols, Op.vol] using ih
  | transpose A, hs, _, _ => by simp [Op.inScope] at hs
  | adjoint A, hs, _, _ => by simp [Op.inScope] at hs
  | sliced A s0 s1, hs, _, _ => by simp [Op.inScope] at hs
  | concat ax Ms, hs, _, _ => by simp [Op.inScope] at hs
  | house dt n v beta, _, _, _ => by simp [Op.rows, Op.cols, Op.vol]
termination_by A => sizeOf A
decreasing_by
  all_goals simp_wf
  all_goals (have := List.sizeOf_lt_of_mem hM; omega)

end Op
