import ColaVerif.Lemmas.KrylovCompose
import ColaVerif.Lemmas.UnaryMatFun
import ColaVerif.Properties.C14
import Mathlib.Analysis.Matrix.Spectrum

/-!
# `LanczosUnary` as a matrix-valued MODEL on the loop model of C14, and the path theorem applied to it
(used by C07 and C09; round 3)

`Lemmas/KrylovCompose.lean` proves `lanczos_unary_exact` (= `C09_lanczos_path`) with the small eigendecomposition
`(P, θ)` as free variables constrained by hypotheses.  Here the eigensolver is a PARAMETER `eigh : Eigh 𝕜` (a function
of the size and the matrix) with the LAPACK contract `EighContract` (unitary `P`, `T P = P diag θ` on Hermitian input)
— satisfiable for every size: `eighSpectral` (Mathlib's spectral theorem) — and the model of what
`LanczosUnary(A, g) @ v` returns is the DEFINITION `lanczosUnaryVec` (run `Lanczos.lanczosExact`, `eigh` of the
returned `T`, `Q P (g(θ) ⊙ Pᴴ ‖v‖e₁)`); `lanczosUnaryMat` = its outputs on the identity columns.

* `lanczos_factorisation` — the factorisation the path theorem uses, exposed: `A Q = Q T`, `v = ‖v‖ Q e₁`, `T` Hermitian;
* `lanczos_exhausted_of_cap` — `tol = 0`, cap `≥ n`: the run is exhausted for EVERY Hermitian input and start vector
  (cited: `C14_grade_exists`, `C14_grade`), so `exhausted` is then no hypothesis about the run;
* `lanczosUnaryVec_eq` — the path theorem applied: the model's vector is `g(M) v`, every `g`;
* `lanczosUnaryMat_isMatFun` — the model's matrix is `g(M)` in the sense of C09 (`IsMatFunOn`);
* `lanczos_exM2_closed`, `_poly`, `_log` — the closed statements on `[[2,1],[1,2]]`, `e₀`.
-/

set_option linter.unusedSectionVars false

open Matrix KrylovPoly MatFun Polynomial
open scoped InnerProductSpace

namespace KrylovCompose

section lanczosFact
open Lanczos
attribute [local instance] exactNum exactVec
variable {𝕜 : Type} [RCLike 𝕜] {n : ℕ}

/-- the first canonical vector of length `k` (no proof of `0 < k` needed) -/
def e0 (k : ℕ) : Fin k → 𝕜 := fun j => if j.val = 0 then 1 else 0

theorem e0_eq_single {k : ℕ} (hk : 0 < k) :
    (e0 k : Fin k → 𝕜) = _root_.Pi.single (⟨0, hk⟩ : Fin k) (1 : 𝕜) := by
  funext j
  by_cases h : j = ⟨0, hk⟩
  · subst h; simp [e0]
  · have : j.val ≠ 0 := fun h0 => h (Fin.ext h0)
    simp [e0, this, Pi.single_eq_of_ne h]

theorem lanczos_factorisation (Am : Matrix (Fin n) (Fin n) 𝕜)
    (A_hermitian : (Matrix.toEuclideanLin Am).IsSymmetric) (nn max_iters : ℕ)
    (v : EuclideanSpace 𝕜 (Fin n)) (tol : ℝ) (start_nonzero : v ≠ 0) (tol_nonneg : 0 ≤ tol)
    (cap_pos : 1 ≤ min max_iters nn)
    (exhausted : (lanczosExact (Matrix.toEuclideanLin Am) nn #[v] max_iters tol).resid
      (Matrix.toEuclideanLin Am) 0 = 0) :
    0 < (lanczosExact (Matrix.toEuclideanLin Am) nn #[v] max_iters tol).iters ∧
    Am * colMat ((lanczosExact (Matrix.toEuclideanLin Am) nn #[v] max_iters tol).q 0)
        (lanczosExact (Matrix.toEuclideanLin Am) nn #[v] max_iters tol).iters
      = colMat ((lanczosExact (Matrix.toEuclideanLin Am) nn #[v] max_iters tol).q 0)
        (lanczosExact (Matrix.toEuclideanLin Am) nn #[v] max_iters tol).iters *
        blockMat ((lanczosExact (Matrix.toEuclideanLin Am) nn #[v] max_iters tol).T 0)
          (lanczosExact (Matrix.toEuclideanLin Am) nn #[v] max_iters tol).iters ∧
    v.ofLp = ((‖v‖ : ℝ) : 𝕜) •
      colMat ((lanczosExact (Matrix.toEuclideanLin Am) nn #[v] max_iters tol).q 0)
        (lanczosExact (Matrix.toEuclideanLin Am) nn #[v] max_iters tol).iters *ᵥ
        e0 (lanczosExact (Matrix.toEuclideanLin Am) nn #[v] max_iters tol).iters ∧
    (blockMat ((lanczosExact (Matrix.toEuclideanLin Am) nn #[v] max_iters tol).T 0)
      (lanczosExact (Matrix.toEuclideanLin Am) nn #[v] max_iters tol).iters).IsHermitian := by
  obtain ⟨h1, _, _, _, _, _, hs, _⟩ :=
    single_out (Matrix.toEuclideanLin Am) A_hermitian nn max_iters v tol start_nonzero tol_nonneg cap_pos
  revert exhausted
  generalize (lanczosExact (Matrix.toEuclideanLin Am) nn #[v] max_iters tol).resid
    (Matrix.toEuclideanLin Am) 0 = r at *
  generalize (lanczosExact (Matrix.toEuclideanLin Am) nn #[v] max_iters tol).q 0 = q at *
  generalize (lanczosExact (Matrix.toEuclideanLin Am) nn #[v] max_iters tol).T 0 = T at *
  generalize (lanczosExact (Matrix.toEuclideanLin Am) nn #[v] max_iters tol).iters = k at *
  intro hr
  have hk : 0 < k := h1
  refine ⟨hk, ?_, ?_, ?_⟩
  · exact mul_eq_of_column_relation (k := k) Am q T (fun c hc => by
      have := hs.rel c hc
      rw [hr] at this
      simp only [ite_self] at this
      exact sub_eq_zero.mp this)
  · rw [e0_eq_single hk]
    exact start_of_first q k hk v start_nonzero hs.first
  · exact hs.matrix_herm

/-- with `tol = 0` and a cap of at least `n = dim` the run is exhausted, whatever the input
(cited: `C14_grade_exists`, `C14_grade`) -/
theorem lanczos_exhausted_of_cap (Am : Matrix (Fin n) (Fin n) 𝕜)
    (A_hermitian : (Matrix.toEuclideanLin Am).IsSymmetric) (max_iters : ℕ)
    (v : EuclideanSpace 𝕜 (Fin n)) (start_nonzero : v ≠ 0) (hn : 1 ≤ n) (hcap : n ≤ max_iters) :
    (lanczosExact (Matrix.toEuclideanLin Am) n #[v] max_iters 0).resid
      (Matrix.toEuclideanLin Am) 0 = 0 := by
  obtain ⟨hg, hle, _⟩ := C14_grade_exists (Matrix.toEuclideanLin Am) v
  rw [finrank_euclideanSpace_fin] at hle
  obtain ⟨_, h2, _, h4⟩ := C14_grade (Matrix.toEuclideanLin Am) A_hermitian n max_iters v 0
    start_nonzero (le_refl _) (by simp; omega) hg
  apply h4.mpr
  rw [h2 rfl]
  omega

/-! ## the model of `LanczosUnary` as a matrix, `eigh` a parameter with its LAPACK contract -/

/-- what `xnp.eigh` returns for a `m × m` matrix: eigenvector matrix and eigenvalues -/
abbrev Eigh (𝕜 : Type) := ∀ m : ℕ, Matrix (Fin m) (Fin m) 𝕜 → Matrix (Fin m) (Fin m) 𝕜 × (Fin m → 𝕜)

/-- **the LAPACK contract of `eigh`** on Hermitian input: unitary eigenvector matrix, `T P = P diag θ` -/
def EighContract (eigh : Eigh 𝕜) : Prop :=
  ∀ (m : ℕ) (T : Matrix (Fin m) (Fin m) 𝕜), T.IsHermitian →
    (eigh m T).1ᴴ * (eigh m T).1 = 1 ∧ T * (eigh m T).1 = (eigh m T).1 * Matrix.diagonal (eigh m T).2

/-- the contract is satisfiable for every size (spectral theorem, Mathlib) -/
noncomputable def eighSpectral : Eigh 𝕜 := fun _ T =>
  open Classical in
  if h : T.IsHermitian then ((h.eigenvectorUnitary : Matrix _ _ 𝕜), fun i => ((h.eigenvalues i : ℝ) : 𝕜))
  else (1, fun _ => 0)

theorem eighSpectral_contract : EighContract (eighSpectral (𝕜 := 𝕜)) := by
  intro m T hT
  unfold eighSpectral
  rw [dif_pos hT]
  have hU := hT.eigenvectorUnitary.2
  have h1 : (hT.eigenvectorUnitary : Matrix (Fin m) (Fin m) 𝕜)ᴴ * (hT.eigenvectorUnitary : Matrix _ _ 𝕜) = 1 := by
    have := Unitary.star_mul_self_of_mem hU
    simpa [Matrix.star_eq_conjTranspose] using this
  refine ⟨h1, ?_⟩
  have hs := hT.spectral_theorem
  rw [Unitary.conjStarAlgAut_apply] at hs
  simp only
  have hd : Matrix.diagonal (RCLike.ofReal ∘ hT.eigenvalues) =
      Matrix.diagonal (fun i => ((hT.eigenvalues i : ℝ) : 𝕜)) := rfl
  rw [hd] at hs
  generalize (hT.eigenvectorUnitary : Matrix (Fin m) (Fin m) 𝕜) = U at h1 hs ⊢
  calc T * U = (U * Matrix.diagonal (fun i => ((hT.eigenvalues i : ℝ) : 𝕜)) * star U) * U :=
        congrArg (· * U) hs
    _ = U * Matrix.diagonal (fun i => ((hT.eigenvalues i : ℝ) : 𝕜)) := by
        rw [Matrix.mul_assoc, Matrix.star_eq_conjTranspose, h1, Matrix.mul_one]

/-- **`LanczosUnary(A, g) @ v`** on the loop model of C14: `Q P (g(θ) ⊙ Pᴴ (‖v‖ e₁))` -/
noncomputable def lanczosUnaryVec (eigh : Eigh 𝕜) (M : Matrix (Fin n) (Fin n) 𝕜) (max_iters : ℕ) (tol : ℝ)
    (g : 𝕜 → 𝕜) (v : EuclideanSpace 𝕜 (Fin n)) : Fin n → 𝕜 :=
  krylovVec (colMat ((lanczosExact (Matrix.toEuclideanLin M) n #[v] max_iters tol).q 0)
      (lanczosExact (Matrix.toEuclideanLin M) n #[v] max_iters tol).iters)
    (eigh _ (blockMat ((lanczosExact (Matrix.toEuclideanLin M) n #[v] max_iters tol).T 0)
      (lanczosExact (Matrix.toEuclideanLin M) n #[v] max_iters tol).iters)).1
    (eigh _ (blockMat ((lanczosExact (Matrix.toEuclideanLin M) n #[v] max_iters tol).T 0)
      (lanczosExact (Matrix.toEuclideanLin M) n #[v] max_iters tol).iters)).1ᴴ
    (eigh _ (blockMat ((lanczosExact (Matrix.toEuclideanLin M) n #[v] max_iters tol).T 0)
      (lanczosExact (Matrix.toEuclideanLin M) n #[v] max_iters tol).iters)).2 g
    (((‖v‖ : ℝ) : 𝕜) • e0 (lanczosExact (Matrix.toEuclideanLin M) n #[v] max_iters tol).iters)

/-- the matrix of `LanczosUnary(A, g)`: its outputs on the identity columns (what the exact trace and
`to_dense` see) -/
noncomputable def lanczosUnaryMat (eigh : Eigh 𝕜) (M : Matrix (Fin n) (Fin n) 𝕜) (max_iters : ℕ) (tol : ℝ)
    (g : 𝕜 → 𝕜) : Matrix (Fin n) (Fin n) 𝕜 :=
  fun a i => lanczosUnaryVec eigh M max_iters tol g (EuclideanSpace.single i 1) a

/-- **the path theorem applied to the model**: under the `eigh` contract, on a Hermitian diagonalisable
matrix with an exhausted run, the model's vector is `g(M) v`, for every `g` -/
theorem lanczosUnaryVec_eq (eigh : Eigh 𝕜) (contract : EighContract eigh) (M : Matrix (Fin n) (Fin n) 𝕜)
    (herm : M.IsHermitian) (max_iters : ℕ) (tol : ℝ) (tol_nonneg : 0 ≤ tol)
    (cap_pos : 1 ≤ min max_iters n) (v : EuclideanSpace 𝕜 (Fin n)) (start_nonzero : v ≠ 0)
    (exhausted : (lanczosExact (Matrix.toEuclideanLin M) n #[v] max_iters tol).resid
      (Matrix.toEuclideanLin M) 0 = 0)
    {V Vi : Matrix (Fin n) (Fin n) 𝕜} {d : Fin n → 𝕜} (hV : Vi * V = 1)
    (hA : M = V * Matrix.diagonal d * Vi) (g : 𝕜 → 𝕜) :
    lanczosUnaryVec eigh M max_iters tol g v = (V * Matrix.diagonal (fun i => g (d i)) * Vi) *ᵥ v.ofLp := by
  have hsym : (Matrix.toEuclideanLin M).IsSymmetric := Matrix.isSymmetric_toEuclideanLin_iff.mpr herm
  obtain ⟨hk, _, _, hTh⟩ := lanczos_factorisation M hsym n max_iters v tol start_nonzero tol_nonneg
    cap_pos exhausted
  obtain ⟨hP, hT⟩ := contract _ _ hTh
  obtain ⟨hk', h⟩ := lanczos_unary_exact M hsym n max_iters v tol start_nonzero tol_nonneg cap_pos
    exhausted hV hA hP hT g
  unfold lanczosUnaryVec
  rw [e0_eq_single hk']
  exact h

theorem single_ne_zero (i : Fin n) : (EuclideanSpace.single i (1 : 𝕜)) ≠ 0 := by
  intro h
  have := congrArg (fun x : EuclideanSpace 𝕜 (Fin n) => x i) h
  simp at this

/-- **the matrix of the model IS `g(M)`** (specification of C09) -/
theorem lanczosUnaryMat_isMatFun (eigh : Eigh 𝕜) (contract : EighContract eigh) {S : Set 𝕜}
    (M : Matrix (Fin n) (Fin n) 𝕜) (herm : M.IsHermitian) (hdiag : DiagonalisableOn S M)
    (max_iters : ℕ) (tol : ℝ) (tol_nonneg : 0 ≤ tol) (cap_pos : 1 ≤ min max_iters n)
    (exhausted : ∀ i : Fin n, (lanczosExact (Matrix.toEuclideanLin M) n
      #[EuclideanSpace.single i (1 : 𝕜)] max_iters tol).resid (Matrix.toEuclideanLin M) 0 = 0)
    (g : 𝕜 → 𝕜) : IsMatFunOn S g M (lanczosUnaryMat eigh M max_iters tol g) := by
  obtain ⟨V, Vi, d, h1, h2, h3⟩ := hdiag
  refine ⟨V, Vi, d, h1, h2, h3, ?_⟩
  ext a i
  unfold lanczosUnaryMat
  rw [lanczosUnaryVec_eq eigh contract M herm max_iters tol tol_nonneg cap_pos _ (single_ne_zero i)
    (exhausted i) h1 h3 g]
  simp

end lanczosFact
/-! ## closed statements on `[[2,1],[1,2]]`, start `e₀` (the run of `C14_eigh_contract_witness`) -/

section closed
open Lanczos
attribute [local instance] exactNum exactVec

/-- eigenvectors of `[[2,1],[1,2]]` -/
def exV2 : Matrix (Fin 2) (Fin 2) ℝ := !![1, 1; 1, -1]
noncomputable def exVi2 : Matrix (Fin 2) (Fin 2) ℝ := !![1/2, 1/2; 1/2, -1/2]
def exd2 : Fin 2 → ℝ := ![3, 1]

theorem diag2 (a b : ℝ) : Matrix.diagonal ![a, b] = !![a, 0; 0, b] := by
  ext i j
  fin_cases i <;> fin_cases j <;> simp

theorem exd2_map (g : ℝ → ℝ) : (fun i => g (exd2 i)) = ![g 3, g 1] := by
  funext i
  fin_cases i <;> simp [exd2]

theorem exVi2_mul : exVi2 * exV2 = 1 := by
  ext i j
  fin_cases i <;> fin_cases j <;> simp [exVi2, exV2, Matrix.mul_apply, Fin.sum_univ_two] <;> norm_num

theorem exM2_eq : exM2 = exV2 * Matrix.diagonal exd2 * exVi2 := by
  unfold exd2
  rw [diag2]
  ext i j
  fin_cases i <;> fin_cases j <;>
    simp [exM2, exVi2, exV2, Matrix.mul_apply, Fin.sum_univ_two] <;> norm_num

theorem exM2_herm : exM2.IsHermitian := by
  ext i j
  fin_cases i <;> fin_cases j <;> simp [exM2, Matrix.conjTranspose]

theorem exM2_diagonalisable : DiagonalisableOn (Set.Ioi (0 : ℝ)) exM2 :=
  ⟨exV2, exVi2, exd2, exVi2_mul, fun i => by fin_cases i <;> simp [exd2], exM2_eq⟩

/-- **closed statement, every `g`, every eigensolver that meets the contract**: the model of
`LanczosUnary([[2,1],[1,2]], g) @ e₀` (cap `5 > n`, `tol = 0`) returns `g(A) e₀ = ((g 3 + g 1)/2, (g 3 - g 1)/2)` -/
theorem lanczos_exM2_closed (eigh : Eigh ℝ) (contract : EighContract eigh) (g : ℝ → ℝ) :
    lanczosUnaryVec eigh exM2 5 0 g exv2 = ![(g 3 + g 1) / 2, (g 3 - g 1) / 2] := by
  have hsym : (Matrix.toEuclideanLin exM2).IsSymmetric := Matrix.isSymmetric_toEuclideanLin_iff.mpr exM2_herm
  rw [lanczosUnaryVec_eq eigh contract exM2 exM2_herm 5 0 (le_refl _) (by decide) exv2 exv2_ne
    (lanczos_exhausted_of_cap exM2 hsym 5 exv2 exv2_ne (by norm_num) (by norm_num)) exVi2_mul exM2_eq g]
  rw [exd2_map, diag2]
  funext i
  fin_cases i <;>
    simp [exv2, exVi2, exV2, Matrix.mul_apply, Matrix.mulVec, dotProduct, Fin.sum_univ_two] <;> ring

/-- **polynomial `f`**: the model returns `p(A) e₀` -/
theorem lanczos_exM2_poly (eigh : Eigh ℝ) (contract : EighContract eigh) (p : ℝ[X]) :
    lanczosUnaryVec eigh exM2 5 0 (fun x => p.eval x) exv2 = aeval exM2 p *ᵥ ![1, 0] := by
  have hsym : (Matrix.toEuclideanLin exM2).IsSymmetric := Matrix.isSymmetric_toEuclideanLin_iff.mpr exM2_herm
  rw [lanczosUnaryVec_eq eigh contract exM2 exM2_herm 5 0 (le_refl _) (by decide) exv2 exv2_ne
    (lanczos_exhausted_of_cap exM2 hsym 5 exv2 exv2_ne (by norm_num) (by norm_num)) exVi2_mul exM2_eq _]
  conv_rhs => rw [exM2_eq, KrylovPoly.aeval_conj_diagonal exd2 exVi2_mul]
  congr 1

/-- **a non-polynomial `f` through interpolation**: `log` on the spectrum `{1, 3}` is interpolated by
`p = (log 3 / 2)(X - 1)`; the model returns `p(A) e₀ = (log 3 / 2, log 3 / 2)` -/
theorem lanczos_exM2_log (eigh : Eigh ℝ) (contract : EighContract eigh) :
    lanczosUnaryVec eigh exM2 5 0 Real.log exv2
        = aeval exM2 (C (Real.log 3 / 2) * (X - C 1)) *ᵥ ![1, 0] ∧
      lanczosUnaryVec eigh exM2 5 0 Real.log exv2 = ![Real.log 3 / 2, Real.log 3 / 2] := by
  have h2 := lanczos_exM2_closed eigh contract Real.log
  have h1 := lanczos_exM2_closed eigh contract (fun x => (C (Real.log 3 / 2) * (X - C 1) : ℝ[X]).eval x)
  rw [lanczos_exM2_poly eigh contract] at h1
  refine ⟨?_, ?_⟩
  · rw [h1, h2]
    funext i
    fin_cases i <;> simp <;> ring
  · rw [h2]
    funext i
    fin_cases i <;> simp

end closed

end KrylovCompose
