import ColaVerif.Lemmas.InvMatrix
import ColaVerif.Lemmas.OpMatmat

/-!
# `B @ X` for the operators `inv` returns (C01 for `InvOp`)

`MmOKI E B`: the code model of `B._matmat` multiplies by the matrix `B` represents.  One lemma per
`InvOp` kind; the composite kinds reuse the kernel theorems of C01 (`kronMatmat_eq`,
`bdiagMatmat_eq`) through the forced-action kernels.
-/

open Finset

namespace Inv
variable {R : Type} [CommRing R] [StarRing R] [DecidableEq R]

/-- `B._matmat` is multiplication by `den B` -/
def MmOKI (E : Ext R) (B : InvOp R) : Prop :=
  ∀ (b : Nat) (X : MatF R), EqOn B.rows b (B.mm E b X).f (mmul B.cols (B.den E).f X)

/-- a member as `mm` of the composite kinds sees it -/
def facMmI (E : Ext R) (M : InvOp R) : FacV R := ⟨M.rows, M.cols, (M.den E).f, fun b' m => M.mm E b' m⟩
/-- a member as `den` of the composite kinds sees it -/
def facDenI (E : Ext R) (M : InvOp R) : FacAct R := ⟨M.rows, M.cols, (M.den E).f, fun _ m => MatV.of m⟩

theorem facMmI_ok (E : Ext R) (M : InvOp R) (h : MmOKI E M) : (facMmI E M).toAct.Ok := by
  intro b m p f hp hf
  exact (h b m p f hp hf).trans (mmul_apply _ _ _ _ _)

theorem facEqOnI (E : Ext R) (Ms : List (InvOp R)) :
    FacEqOn Ms (fun M => (facMmI E M).toAct) (facDenI E) :=
  fun _ _ => ⟨rfl, rfl, EqOn.refl _ _ _⟩

theorem mmOKI_op (E : Ext R) (X : Op R) (h : Op.MmOK X) : MmOKI E (.op X) := by
  intro b Y
  simp only [InvOp.rows, InvOp.cols]
  rw [InvOp.mm, InvOp.den]
  exact h b Y

theorem mmOKI_triInv (E : Ext R) (dt : DType) (n : Nat) (lower : Bool) (a : MatF R)
    (ht : if lower then LowerTri n a else UpperTri n a) (hd : DiagUnit E.recip n a) :
    MmOKI E (.triInv dt n lower a) := by
  intro b X
  simp only [InvOp.rows, InvOp.cols]
  rw [InvOp.mm, InvOp.den]
  exact (rinv_tri E.recip n lower a ht hd).solve_unique (solvetri_spec E.recip n lower a ht hd b X)

theorem mmOKI_iterInv (E : Ext R) (alg : Alg) (A : Op R) (hsq : A.cols = A.rows)
    (hc : ∀ (b : Nat) (X : MatF R), EqOn A.rows b (mmul A.rows A.den.f (E.solve alg A b X).f) X) :
    MmOKI E (.iterInv A alg) := by
  intro b X
  simp only [InvOp.rows, InvOp.cols]
  rw [InvOp.mm, InvOp.den, hsq]
  have hr : RInv A.rows A.den.f (E.solve alg A A.rows eyeM).f := hc A.rows eyeM
  exact hr.solve_unique (hc b X)

theorem mmOKI_kron (E : Ext R) (Ms : List (InvOp R)) (h : ∀ M ∈ Ms, MmOKI E M) :
    MmOKI E (.kron Ms) := by
  intro b X I col hI hcol
  simp only [InvOp.rows] at hI
  let fm : InvOp R → FacAct R := fun M => (facMmI E M).toAct
  have hmap : (Ms.map (facMmI E)).map FacV.toAct = Ms.map fm := by rw [List.map_map]; rfl
  have hOk : ∀ F ∈ Ms.map fm, F.Ok := by
    intro F hF
    obtain ⟨M, hM, rfl⟩ := List.mem_map.mp hF
    exact facMmI_ok E M (h M hM)
  have hr : (Ms.map fm).map (·.r) = Ms.map (·.rows) := by rw [List.map_map]; rfl
  have hc : (Ms.map fm).map (·.c) = Ms.map (·.cols) := by rw [List.map_map]; rfl
  have hI' : I < ((Ms.map fm).map (·.r)).prod := by rw [hr]; exact hI
  have key := kronMatmat_eq (Ms.map fm) hOk b X I col hI' hcol
  rw [mmul_apply, InvOp.mm, InvOp.den]
  simp only [forceV_f, InvOp.cols]
  rw [show (Ms.map (fun M => (⟨M.rows, M.cols, (M.den E).f, fun b' m => M.mm E b' m⟩ : FacV R)))
    = Ms.map (facMmI E) from rfl, kronMatmatV_eq, hmap]
  refine key.trans ?_
  rw [hc]
  apply Finset.sum_congr rfl
  intro J hJ
  have hJ' : J < ((Ms.map fm).map (·.c)).prod := by rw [hc]; exact Finset.mem_range.mp hJ
  rw [kronDen_congr fm (facDenI E) Ms (facEqOnI E Ms) I J hI' hJ']
  rfl

theorem mmOKI_bdiag (E : Ext R) (Ms : List (InvOp R)) (mults : List Nat)
    (h : ∀ M ∈ Ms, MmOKI E M) : MmOKI E (.bdiag Ms mults) := by
  intro b X I col hI hcol
  simp only [InvOp.rows] at hI
  let fm : InvOp R → FacAct R := fun M => (facMmI E M).toAct
  have hOk : ∀ p ∈ (Ms.map fm).zip mults, p.1.Ok := by
    intro p hp
    have hF := (List.of_mem_zip (a := p.1) (b := p.2) hp).1
    obtain ⟨M, hM, hMe⟩ := List.mem_map.mp hF
    rw [← hMe]
    exact facMmI_ok E M (h M hM)
  have hI' : I < (((Ms.map fm).zip mults).map (fun p => p.2 * p.1.r)).sum := by
    rw [← dotSum_rows fm Ms mults]; exact hI
  have key := bdiagMatmat_eq ((Ms.map fm).zip mults) hOk b X I col hI' hcol
  rw [mmul_apply, InvOp.mm, InvOp.den]
  simp only [forceV_f, InvOp.cols]
  rw [show (Ms.map (fun M => (⟨M.rows, M.cols, (M.den E).f, fun b' m => M.mm E b' m⟩ : FacV R)))
    = Ms.map (facMmI E) from rfl, bdiagMatmatV_eq]
  have hz : ((Ms.map (facMmI E)).zip mults).map (fun p => (p.1.toAct, p.2)) = (Ms.map fm).zip mults := by
    rw [List.zip_map_left, List.zip_map_left, List.map_map]
    rfl
  rw [hz]
  refine key.trans ?_
  rw [← dotSum_cols fm Ms mults]
  apply Finset.sum_congr rfl
  intro J _
  rw [bdiagDen_congr fm (facDenI E) Ms mults (facEqOnI E Ms) I J]
  rfl

omit [StarRing R] [DecidableEq R] in
/-- the fold in `den (prod Ms)` when every inner dimension is `n` -/
theorem foldr_chain {α : Type} (n : Nat) (c : α → Nat) (d : α → MatF R) : ∀ (L : List α),
    (∀ x ∈ L, c x = n) →
    (L.map (fun x => (c x, d x))).foldr (fun p acc => mmul p.1 p.2 acc) eyeM = chainM n (L.map d)
  | [], _ => rfl
  | x :: L, h => by
    have ih := foldr_chain n c d L (fun y hy => h y (List.mem_cons_of_mem _ hy))
    simp only [List.map_cons, List.foldr_cons, chainM] at ih ⊢
    rw [ih, h x List.mem_cons_self]

theorem head_getD_of_all {α : Type} (f : α → Nat) (n : Nat) : ∀ (L : List α), L ≠ [] →
    (∀ x ∈ L, f x = n) → (L.map f).head?.getD 0 = n
  | [], h, _ => absurd rfl h
  | x :: L, _, h => by simp [h x List.mem_cons_self]

theorem getLast_getD_of_all {α : Type} (f : α → Nat) (n : Nat) (L : List α) (hne : L ≠ [])
    (h : ∀ x ∈ L, f x = n) : (L.map f).getLast?.getD 0 = n := by
  have hne' : L.map f ≠ [] := by simpa using hne
  rw [List.getLast?_eq_getLast_of_ne_nil hne', Option.getD_some]
  have hm := List.getLast_mem hne'
  obtain ⟨x, hx, hxe⟩ := List.mem_map.mp hm
  rw [← hxe, h x hx]

/-- `Product._matmat` for members of one common size `n` -/
theorem prod_mmI_aux (E : Ext R) (n b : Nat) (X : MatF R) : ∀ (Ms : List (InvOp R)),
    (∀ M ∈ Ms, M.rows = n ∧ M.cols = n) → (∀ M ∈ Ms, MmOKI E M) →
    EqOn n b (Ms.foldr (fun M acc => M.mm E b acc.f) (MatV.of X)).f
      (mmul n (chainM n (Ms.map (fun M => (M.den E).f))) X)
  | [], _, _ => by
    simp only [List.foldr_nil, MatV.of_f, List.map_nil, chainM]
    exact (eqOn_mmul_eyeM_left n b X).symm
  | M :: Ms, hsh, h => by
    have ih := prod_mmI_aux E n b X Ms (fun M' hM' => hsh M' (List.mem_cons_of_mem _ hM'))
      (fun M' hM' => h M' (List.mem_cons_of_mem _ hM'))
    have hM := h M List.mem_cons_self b (Ms.foldr (fun M acc => M.mm E b acc.f) (MatV.of X)).f
    rw [(hsh M List.mem_cons_self).1, (hsh M List.mem_cons_self).2] at hM
    simp only [List.foldr_cons, List.map_cons, chainM] at ih ⊢
    refine hM.trans ((mmul_congr (EqOn.refl n n _) ih).trans ?_)
    intro i j _ _
    exact (mmul_assoc' _ _ _ _ _ i j).symm

theorem mmOKI_prod (E : Ext R) (n : Nat) (Ms : List (InvOp R)) (hne : Ms ≠ [])
    (hsh : ∀ M ∈ Ms, M.rows = n ∧ M.cols = n) (h : ∀ M ∈ Ms, MmOKI E M) : MmOKI E (.prod Ms) := by
  intro b X
  have hr : (InvOp.prod Ms).rows = n := by
    simp only [InvOp.rows]
    exact head_getD_of_all _ n Ms hne (fun M hM => (hsh M hM).1)
  have hc : (InvOp.prod Ms).cols = n := by
    simp only [InvOp.cols]
    exact getLast_getD_of_all _ n Ms hne (fun M hM => (hsh M hM).2)
  rw [hr, hc, InvOp.mm, InvOp.den]
  simp only [forceV_f]
  rw [foldr_chain n (fun B : InvOp R => B.cols) (fun B => (B.den E).f) Ms (fun B hB => (hsh B hB).2)]
  exact prod_mmI_aux E n b X Ms hsh h

end Inv
