import ColaVerif.Model.Rng

/-!
# C17 — frame lemmas for programs over the random primitives

* `randnRun_canonical` — executing the statement list `[fallback, save, seed, draw, restore, return]`
  gives `draw (seed key)` and puts the world back (`keyedNormal`), for a given and for a missing key;
* `randnRun_noRestore`, `randnRun_noSeed` — what the two obvious mutants compute instead;
* `Prog.run_bind`, `Prog.frame` — a program without global draws leaves the world alone and its
  value does not depend on the world; `Prog.frame_iff_conforms`;
* `progOfSites_usesOnlyKeyed` — the table-to-program bridge;
* `hutchLoop_*` — the Hutchinson loop: only keyed draws, `i ≤ max 1 maxIters`, really exits.
-/

namespace ColaVerif.Rng

variable {S Z : Type}

/-! ## the primitive -/

theorem randnRun_canonical (G : Gen S Z) (shape : List Nat) (key : Nat) (w : World S) :
    randnRun G shape canonicalRandnBody (some key) w = (some (keyedNormal G key shape w).1, w) := by
  simp [randnRun, canonicalRandnBody, stepRun, keyedNormal]

theorem randnRun_canonical_unkeyed (G : Gen S Z) (shape : List Nat) (w : World S) :
    randnRun G shape canonicalRandnBody none w = (some (unkeyedNormal G shape w).1, w) := by
  simp [randnRun, canonicalRandnBody, stepRun, keyedNormal, unkeyedNormal]

theorem keyedNormal_world (G : Gen S Z) (key : Nat) (shape : List Nat) (w : World S) :
    (keyedNormal G key shape w).2 = w := rfl

theorem keyedNormal_value (G : Gen S Z) (key : Nat) (shape : List Nat) (w w' : World S) :
    (keyedNormal G key shape w).1 = (keyedNormal G key shape w').1 := rfl

/-- mutant: `np.random.set_state(old_state)` dropped — the world is left at the advanced seeded state -/
theorem randnRun_noRestore (G : Gen S Z) (shape : List Nat) (key : Nat) (w : World S) :
    randnRun G shape [.fallbackConst, .saveState, .seedKey, .draw, .return] (some key) w
      = (some (G.draw (G.seed key) shape).1, ⟨(G.draw (G.seed key) shape).2⟩) := by
  simp [randnRun, stepRun]

/-- mutant: `np.random.seed(key)` dropped — the sample is drawn from the caller's state -/
theorem randnRun_noSeed (G : Gen S Z) (shape : List Nat) (key : Nat) (w : World S) :
    randnRun G shape [.fallbackConst, .saveState, .draw, .restoreState, .return] (some key) w
      = (some (G.draw w.globalState shape).1, w) := by
  simp [randnRun, stepRun]

/-! ## programs -/

namespace Prog

variable {α β : Type}

theorem run_bind (G : Gen S Z) (p : Prog Z α) (f : α → Prog Z β) (w : World S) :
    run G (bind p f) w = run G (f (run G p w).1) (run G p w).2 := by
  induction p generalizing w with
  | ret a => simp [bind, run]
  | draw q k ih => simp only [bind, run]; exact ih _ _

theorem prim_run_of_not_global (G : Gen S Z) (p : Prim) (h : p.kind ≠ .globalDraw) (w w' : World S) :
    (p.run G w).2 = w ∧ (p.run G w).1 = (p.run G w').1 := by
  cases p with
  | keyedNormal key shape => exact ⟨rfl, rfl⟩
  | unkeyedNormalFallbackKey0 shape => exact ⟨rfl, rfl⟩
  | globalDraw shape => exact absurd rfl h
  | localGenerator seed shape => exact ⟨rfl, rfl⟩

/-- the frame property: no global draw ⟹ world unchanged and value independent of the world -/
theorem frame (G : Gen S Z) {p : Prog Z α} (h : UsesOnlyKeyed p) :
    ∀ w : World S, (run G p w).2 = w ∧ ∀ w', (run G p w).1 = (run G p w').1 := by
  induction h with
  | ret a => intro w; exact ⟨rfl, fun _ => rfl⟩
  | draw q k hq _ ih =>
    intro w
    have hp := prim_run_of_not_global G q hq
    simp only [run]
    refine ⟨?_, fun w' => ?_⟩
    · rw [(ih _ _).1]; exact (hp w w).1
    · rw [(hp w w').2, (hp w w').1, (hp w' w').1]
      exact (ih _ _).2 _

theorem usesOnlyKeyed_bind {p : Prog Z α} {f : α → Prog Z β} (hp : UsesOnlyKeyed p)
    (hf : ∀ a, UsesOnlyKeyed (f a)) : UsesOnlyKeyed (bind p f) := by
  induction hp with
  | ret a => exact hf a
  | draw q k hq _ ih => exact .draw q _ hq (fun z => ih z)

theorem usesOnlyKeyed_of_conforms {kinds : List PrimKind} (hk : PrimKind.globalDraw ∉ kinds)
    {p : Prog Z α} (h : Conforms kinds p) : UsesOnlyKeyed p := by
  induction h with
  | ret a => exact .ret a
  | draw q k hq _ ih =>
    exact .draw q k (fun e => hk (e ▸ hq)) ih

end Prog

/-! ## table → program -/

theorem Site.toPrim_kind_of_ok (hash : Nat → Nat) (key : Nat) (s : Site) (h : s.ok = true) :
    (s.toPrim hash key).kind ≠ .globalDraw := by
  simp only [Site.ok, Bool.and_eq_true, decide_eq_true_eq] at h
  obtain ⟨h1, h2⟩ := h
  unfold Site.toPrim
  rw [if_neg h2]
  cases hp : s.prim <;> simp_all [Prim.kind]

theorem progOfSites_usesOnlyKeyed (hash : Nat → Nat) (key : Nat) :
    ∀ (sites : List Site), sites.all Site.ok = true →
      Prog.UsesOnlyKeyed (progOfSites (Z := Z) hash key sites)
  | [], _ => .ret _
  | s :: rest, h => by
    simp only [List.all_cons, Bool.and_eq_true] at h
    refine .draw _ _ (Site.toPrim_kind_of_ok hash key s h.1) (fun z => ?_)
    exact Prog.usesOnlyKeyed_bind (progOfSites_usesOnlyKeyed hash key rest h.2) (fun _ => .ret _)

theorem kinds_no_global (r : Routine) (h : r.sites.all Site.ok = true) :
    PrimKind.globalDraw ∉ r.kinds := by
  intro hm
  simp only [Routine.kinds, List.mem_map] at hm
  obtain ⟨s, hs, he⟩ := hm
  have := List.all_eq_true.mp h s hs
  simp only [Site.ok, Bool.and_eq_true, decide_eq_true_eq] at this
  by_cases ho : s.keySrc = .opaque
  · exact this.2 ho
  · rw [if_neg ho] at he; exact this.1 he

/-! ## the Hutchinson loop -/

theorem hutchLoop_usesOnlyKeyed (hash : Nat → Nat) (shape : List Nat) (maxIters : Nat)
    (goOn : Nat → List Z → Bool) :
    ∀ (fuel : Nat) (s : HState Z), Prog.UsesOnlyKeyed (hutchLoop hash shape maxIters goOn fuel s)
  | 0, s => .ret s
  | fuel + 1, s => by
    unfold hutchLoop
    split
    · exact .draw _ _ (by simp [Prim.kind]) (fun z => hutchLoop_usesOnlyKeyed hash shape maxIters goOn fuel _)
    · exact .ret s

/-- invariant of the loop: `i ≤ max 1 maxIters` is preserved -/
theorem hutchLoop_cap (G : Gen S Z) (shape : List Nat) (maxIters : Nat) (goOn : Nat → List Z → Bool) :
    ∀ (fuel : Nat) (s : HState Z) (w : World S), s.i ≤ max 1 maxIters →
      (Prog.run G (hutchLoop G.hash shape maxIters goOn fuel s) w).1.i ≤ max 1 maxIters
  | 0, s, w, h => by simpa [hutchLoop, Prog.run] using h
  | fuel + 1, s, w, h => by
    unfold hutchLoop
    split
    · rename_i hc
      simp only [Prog.run]
      apply hutchLoop_cap G shape maxIters goOn fuel
      simp only [hutchCond, Bool.or_eq_true, beq_iff_eq, Bool.and_eq_true, decide_eq_true_eq] at hc
      simp only
      omega
    · simpa [Prog.run] using h

/-- the iteration counter grows by at most one per unit of fuel and the loop exits (condition false)
as soon as the fuel exceeds `max 1 maxIters - i` -/
theorem hutchLoop_exits (G : Gen S Z) (shape : List Nat) (maxIters : Nat) (goOn : Nat → List Z → Bool) :
    ∀ (fuel : Nat) (s : HState Z) (w : World S), max 1 maxIters - s.i < fuel → s.i ≤ max 1 maxIters →
      hutchCond maxIters goOn (Prog.run G (hutchLoop G.hash shape maxIters goOn fuel s) w).1 = false
  | 0, s, w, h, _ => by omega
  | fuel + 1, s, w, h, hi => by
    unfold hutchLoop
    split
    · rename_i hc
      simp only [Prog.run]
      have hc' := hc
      simp only [hutchCond, Bool.or_eq_true, beq_iff_eq, Bool.and_eq_true, decide_eq_true_eq] at hc'
      apply hutchLoop_exits G shape maxIters goOn fuel
      · simp only; omega
      · simp only; omega
    · rename_i hc
      simpa [Prog.run] using hc

/-- the number of probes drawn equals the iteration counter -/
theorem hutchLoop_acc (G : Gen S Z) (shape : List Nat) (maxIters : Nat) (goOn : Nat → List Z → Bool) :
    ∀ (fuel : Nat) (s : HState Z) (w : World S), s.acc.length = s.i →
      (Prog.run G (hutchLoop G.hash shape maxIters goOn fuel s) w).1.acc.length
        = (Prog.run G (hutchLoop G.hash shape maxIters goOn fuel s) w).1.i
  | 0, s, w, h => by simpa [hutchLoop, Prog.run] using h
  | fuel + 1, s, w, h => by
    unfold hutchLoop
    split
    · simp only [Prog.run]
      apply hutchLoop_acc G shape maxIters goOn fuel
      simp [h]
    · simpa [Prog.run] using h

end ColaVerif.Rng
