import ColaVerif.Lemmas.CGOptimal

/-!
# The guarded recurrence of `take_cg_step` in an abstract inner product space (level 1)

`gStep A M ε` is `take_cg_step` for one column with the guards still in: the `has_converged` mask
(`‖r‖ < ε ⇒ α = β = 0`) and the two guarded divisions (`do_safe_div`: `d = 0 ⇒ d := ε`, an exact zero
test since the repair 1a4d949 of /repo; before it the test was `‖d‖ < ε`).
`gRun` adds the normalisation of `run_batched_cg` (`mult = ‖b‖`, `b / mult`, `x0 / mult`, final
`x * mult`).

* `gSeq_core` — while no guard is active the guarded recurrence IS the unguarded `cgSeq`
  (bridge level 1 → 2);
* `cgSeq_smul` — the unguarded recurrence is homogeneous, so the normalisation is invisible;
* `gRun_eq_cgSeq`, `gRun_optimal` — the value returned after `k` steps is the `k`-th CG iterate of
  the ORIGINAL system and minimises the energy over `x0 + K_k(MA, M r0)`;
* `gStep_frozen` — once the mask is on, `x` and `r` never change again.
-/

namespace CG

open scoped InnerProductSpace ComplexConjugate

variable {𝕜 E : Type*} [RCLike 𝕜] [NormedAddCommGroup E] [InnerProductSpace 𝕜 E]

/-- `do_safe_div` in exact arithmetic (exact zero test) -/
noncomputable def sdiv (ε : ℝ) (a d : 𝕜) : 𝕜 := a / (if d = 0 then (ε : 𝕜) else d)

theorem sdiv_of_ne {ε : ℝ} {d : 𝕜} (h : d ≠ 0) (a : 𝕜) : sdiv ε a d = a / d := by
  unfold sdiv; rw [if_neg h]

theorem sdiv_of_le {ε : ℝ} (hε : 0 < ε) {d : 𝕜} (h : ε ≤ ‖d‖) (a : 𝕜) : sdiv ε a d = a / d :=
  sdiv_of_ne (fun h0 => by rw [h0, norm_zero] at h; linarith) a

/-- one column of the loop state `(x, r, p, alpha, beta, gamma)` -/
structure GState (𝕜 E : Type*) where
  x : E
  r : E
  p : E
  α : 𝕜
  β : 𝕜
  γ : 𝕜

/-- the part of the state the recurrence depends on -/
def GState.core (s : GState 𝕜 E) : CGState 𝕜 E := ⟨s.x, s.r, s.p, s.γ⟩

variable (A M : E →ₗ[𝕜] E)

/-- `initialize` -/
noncomputable def gInit (b x0 : E) : GState 𝕜 E :=
  let r0 := b - A x0
  ⟨x0, r0, M r0, 0, 0, ⟪r0, M r0⟫_𝕜⟩

/-- `take_cg_step` -/
noncomputable def gStep (ε : ℝ) (s : GState 𝕜 E) : GState 𝕜 E :=
  let Ap := A s.p
  let α := if ‖s.r‖ < ε then 0 else sdiv ε s.γ ⟪s.p, Ap⟫_𝕜
  let r1 := s.r - α • Ap
  let z1 := M r1
  let γ1 := ⟪r1, z1⟫_𝕜
  let β := if ‖s.r‖ < ε then 0 else sdiv ε γ1 s.γ
  ⟨s.x + α • s.p, r1, z1 + β • s.p, α, β, γ1⟩

variable {A M}

theorem gInit_core (b x0 : E) : (gInit A M b x0).core = cgInit A M b x0 := rfl

/-- mask off and no denominator exactly zero ⇒ the guarded step is the unguarded one -/
theorem gStep_core {ε : ℝ} {s : GState 𝕜 E} (hr : ε ≤ ‖s.r‖) (hγ : s.γ ≠ 0)
    (hd : ⟪s.p, A s.p⟫_𝕜 ≠ 0) : (gStep A M ε s).core = cgStep A M s.core := by
  unfold gStep cgStep cgAlpha GState.core
  simp only [if_neg (not_lt.mpr hr), sdiv_of_ne hd, sdiv_of_ne hγ]

/-- the guards of step `i` in the form of the code BEFORE the repair (three thresholds), read off the
unguarded sequence; kept as the hypothesis of the round-1 theorems (it implies `StepOK` for `ε > 0`) -/
def GuardsOff (A M : E →ₗ[𝕜] E) (ε : ℝ) (b x0 : E) (i : ℕ) : Prop :=
  ε ≤ ‖(cgSeq A M b x0 i).r‖ ∧ ε ≤ ‖(cgSeq A M b x0 i).γ‖ ∧
    ε ≤ ‖⟪(cgSeq A M b x0 i).p, A (cgSeq A M b x0 i).p⟫_𝕜‖

/-- what the repaired code needs at step `i`: the mask is off (`ε ≤ ‖r_i‖`) and neither denominator is
exactly zero -/
def StepOK (A M : E →ₗ[𝕜] E) (ε : ℝ) (b x0 : E) (i : ℕ) : Prop :=
  ε ≤ ‖(cgSeq A M b x0 i).r‖ ∧ (cgSeq A M b x0 i).γ ≠ 0 ∧
    ⟪(cgSeq A M b x0 i).p, A (cgSeq A M b x0 i).p⟫_𝕜 ≠ 0

theorem GuardsOff.stepOK {ε : ℝ} (hε : 0 < ε) {b x0 : E} {i : ℕ} (h : GuardsOff A M ε b x0 i) :
    StepOK A M ε b x0 i :=
  ⟨h.1, fun h0 => by have := h.2.1; rw [h0, norm_zero] at this; linarith,
   fun h0 => by have := h.2.2; rw [h0, norm_zero] at this; linarith⟩

/-- **bridge level 1 → 2**: while the mask is off and no denominator vanishes the guarded recurrence
is `cgSeq` -/
theorem gSeq_core_ok {ε : ℝ} {b x0 : E} (k : ℕ) (h : ∀ i < k, StepOK A M ε b x0 i) :
    ((gStep A M ε)^[k] (gInit A M b x0)).core = cgSeq A M b x0 k := by
  induction k with
  | zero => rfl
  | succ k ih =>
    have ih' := ih (fun i hi => h i (Nat.lt_succ_of_lt hi))
    have hk := h k (Nat.lt_succ_self k)
    rw [Function.iterate_succ_apply']
    have e : cgSeq A M b x0 (k + 1) = cgStep A M (cgSeq A M b x0 k) := rfl
    rw [e, ← ih']
    unfold StepOK at hk
    rw [← ih'] at hk
    exact gStep_core hk.1 hk.2.1 hk.2.2

/-- the same from the three thresholds of the round-1 statements (`ε > 0`) -/
theorem gSeq_core {ε : ℝ} (hε : 0 < ε) {b x0 : E} (k : ℕ) (h : ∀ i < k, GuardsOff A M ε b x0 i) :
    ((gStep A M ε)^[k] (gInit A M b x0)).core = cgSeq A M b x0 k :=
  gSeq_core_ok k (fun i hi => (h i hi).stepOK hε)

/-- once `‖r‖ < ε` the mask freezes `x` and `r` -/
theorem gStep_frozen {ε : ℝ} {s : GState 𝕜 E} (h : ‖s.r‖ < ε) :
    (gStep A M ε s).x = s.x ∧ (gStep A M ε s).r = s.r := by
  unfold gStep
  simp [if_pos h]

theorem gStep_frozen_iter {ε : ℝ} {s : GState 𝕜 E} (h : ‖s.r‖ < ε) (j : ℕ) :
    ((gStep A M ε)^[j] s).x = s.x ∧ ((gStep A M ε)^[j] s).r = s.r := by
  induction j with
  | zero => exact ⟨rfl, rfl⟩
  | succ j ih =>
    rw [Function.iterate_succ_apply']
    have hr : ‖((gStep A M ε)^[j] s).r‖ < ε := by rw [ih.2]; exact h
    have := gStep_frozen (A := A) (M := M) hr
    exact ⟨this.1.trans ih.1, this.2.trans ih.2⟩

/-! ## homogeneity of the unguarded recurrence -/

/-- the state scaled by `c` -/
def CGState.scale (c : 𝕜) (s : CGState 𝕜 E) : CGState 𝕜 E :=
  ⟨c • s.x, c • s.r, c • s.p, (conj c * c) * s.γ⟩

theorem cgInit_smul (c : 𝕜) (b x0 : E) :
    cgInit A M (c • b) (c • x0) = (cgInit A M b x0).scale c := by
  unfold cgInit CGState.scale
  simp only [map_smul, ← smul_sub, inner_smul_left, inner_smul_right]
  congr 1
  ring

theorem cgStep_smul {c : 𝕜} (hc : c ≠ 0) (s : CGState 𝕜 E) :
    cgStep A M (s.scale c) = (cgStep A M s).scale c := by
  have hcc : conj c * c ≠ 0 := mul_ne_zero ((map_ne_zero _).mpr hc) hc
  have hα : cgAlpha A (s.scale c) = cgAlpha A s := by
    unfold cgAlpha CGState.scale
    simp only [map_smul, inner_smul_left, inner_smul_right]
    rw [show c * (conj c * ⟪s.p, A s.p⟫_𝕜) = (conj c * c) * ⟪s.p, A s.p⟫_𝕜 by ring]
    exact mul_div_mul_left _ _ hcc
  have hr1 : c • s.r - cgAlpha A s • A (c • s.p) = c • (s.r - cgAlpha A s • A s.p) := by
    rw [map_smul, smul_sub, smul_comm]
  have hγ1 : ∀ v : E, ⟪c • v, M (c • v)⟫_𝕜 = (conj c * c) * ⟪v, M v⟫_𝕜 := by
    intro v; rw [map_smul, inner_smul_left, inner_smul_right]; ring
  show CGState.mk _ _ _ _ = CGState.mk _ _ _ _
  simp only [hα]
  show CGState.mk (c • s.x + cgAlpha A s • c • s.p) (c • s.r - cgAlpha A s • A (c • s.p))
      (M (c • s.r - cgAlpha A s • A (c • s.p)) +
        (⟪c • s.r - cgAlpha A s • A (c • s.p), M (c • s.r - cgAlpha A s • A (c • s.p))⟫_𝕜 /
          ((conj c * c) * s.γ)) • c • s.p)
      ⟪c • s.r - cgAlpha A s • A (c • s.p), M (c • s.r - cgAlpha A s • A (c • s.p))⟫_𝕜 = _
  rw [hr1, hγ1, mul_div_mul_left _ _ hcc, map_smul]
  congr 1
  · show _ = c • (s.x + cgAlpha A s • s.p)
    rw [smul_add, smul_comm]
  · show _ = c • (M (s.r - cgAlpha A s • A s.p) +
      (⟪s.r - cgAlpha A s • A s.p, M (s.r - cgAlpha A s • A s.p)⟫_𝕜 / s.γ) • s.p)
    rw [smul_add, smul_comm c]

theorem cgSeq_smul {c : 𝕜} (hc : c ≠ 0) (b x0 : E) (k : ℕ) :
    cgSeq A M (c • b) (c • x0) k = (cgSeq A M b x0 k).scale c := by
  induction k with
  | zero => exact cgInit_smul c b x0
  | succ k ih =>
    show cgStep A M (cgSeq A M (c • b) (c • x0) k) = (cgStep A M (cgSeq A M b x0 k)).scale c
    rw [ih, cgStep_smul hc]

/-! ## the normalised run of `run_batched_cg`, one column -/

/-- the divisor of the normalisation: `scale = where(mult == 0, 1, mult)`, `mult = ‖b‖` -/
noncomputable def nscale (b : E) : 𝕜 :=
  if (((‖b‖ : ℝ) : 𝕜)) = 0 then 1 else ((‖b‖ : ℝ) : 𝕜)

omit [InnerProductSpace 𝕜 E] in
theorem nscale_of_ne {b : E} (h : b ≠ 0) : nscale (𝕜 := 𝕜) b = ((‖b‖ : ℝ) : 𝕜) := by
  unfold nscale
  have : (((‖b‖ : ℝ) : 𝕜)) ≠ 0 := by
    have : ‖b‖ ≠ 0 := norm_ne_zero_iff.mpr h
    exact_mod_cast this
  rw [if_neg this]

/-- the normalised right-hand side does not change when `b` is scaled by `c > 0` -/
theorem nscale_smul {c : ℝ} (hc : 0 < c) (b : E) :
    (nscale (𝕜 := 𝕜) ((c : 𝕜) • b))⁻¹ • ((c : 𝕜) • b) = (nscale (𝕜 := 𝕜) b)⁻¹ • b := by
  by_cases hb0 : b = 0
  · subst hb0; simp
  · have hc' : ((c : ℝ) : 𝕜) ≠ 0 := by exact_mod_cast hc.ne'
    have hcb : (c : 𝕜) • b ≠ 0 := smul_ne_zero hc' hb0
    have hn : ‖(c : 𝕜) • b‖ = c * ‖b‖ := by
      rw [norm_smul, RCLike.norm_ofReal, abs_of_pos hc]
    have hμ : (((‖b‖ : ℝ)) : 𝕜) ≠ 0 := by
      have : ‖b‖ ≠ 0 := norm_ne_zero_iff.mpr hb0
      exact_mod_cast this
    rw [nscale_of_ne hcb, nscale_of_ne hb0, hn, smul_smul]
    congr 1
    push_cast
    field_simp

variable (A M) in
/-- `x * mult` after `k` guarded steps on `(b / scale, x0 / scale)`, `mult = ‖b‖`,
`scale = where(mult == 0, 1, mult)` -/
noncomputable def gRun (ε : ℝ) (b x0 : E) (k : ℕ) : E :=
  ((‖b‖ : ℝ) : 𝕜) • ((gStep A M ε)^[k] (gInit A M ((nscale (𝕜 := 𝕜) b)⁻¹ • b) ((nscale (𝕜 := 𝕜) b)⁻¹ • x0))).x

/-- **scaling** (`x0 = 0`): the run on `c • b`, `c > 0`, returns `c` times the run on `b` -/
theorem gRun_smul {ε : ℝ} {c : ℝ} (hc : 0 < c) (b : E) (k : ℕ) :
    gRun A M ε ((c : 𝕜) • b) 0 k = (c : 𝕜) • gRun A M ε b 0 k := by
  unfold gRun
  rw [nscale_smul hc b, smul_zero, smul_zero, norm_smul, RCLike.norm_ofReal, abs_of_pos hc, smul_smul]
  push_cast
  rfl

/-- zero right-hand side ⇒ exactly zero, whatever `x0`, `k` and the guards do -/
theorem gRun_zero (ε : ℝ) (x0 : E) (k : ℕ) : gRun A M ε (0 : E) x0 k = 0 := by
  unfold gRun; simp

/-- the guards of the first `k` steps of the normalised system (three thresholds, round-1 form) -/
def GuardsOffN (A M : E →ₗ[𝕜] E) (ε : ℝ) (b x0 : E) (k : ℕ) : Prop :=
  ∀ i < k, GuardsOff A M ε ((((‖b‖ : ℝ) : 𝕜))⁻¹ • b) ((((‖b‖ : ℝ) : 𝕜))⁻¹ • x0) i

/-- what the repaired code needs in the first `k` steps of the normalised system -/
def StepOKN (A M : E →ₗ[𝕜] E) (ε : ℝ) (b x0 : E) (k : ℕ) : Prop :=
  ∀ i < k, StepOK A M ε ((((‖b‖ : ℝ) : 𝕜))⁻¹ • b) ((((‖b‖ : ℝ) : 𝕜))⁻¹ • x0) i

theorem GuardsOffN.stepOKN {ε : ℝ} (hε : 0 < ε) {b x0 : E} {k : ℕ} (h : GuardsOffN A M ε b x0 k) :
    StepOKN A M ε b x0 k := fun i hi => (h i hi).stepOK hε

/-- with no guard active, the value returned after `k` steps is the `k`-th iterate of textbook
preconditioned CG on the ORIGINAL system -/
theorem gRun_eq_cgSeq_ok {ε : ℝ} {b x0 : E} (hb : b ≠ 0) {k : ℕ}
    (hg : StepOKN A M ε b x0 k) : gRun A M ε b x0 k = (cgSeq A M b x0 k).x := by
  have hμ0 : (((‖b‖ : ℝ) : 𝕜)) ≠ 0 := by
    have : ‖b‖ ≠ 0 := norm_ne_zero_iff.mpr hb
    exact_mod_cast this
  unfold gRun
  rw [nscale_of_ne hb]
  have h1 := gSeq_core_ok (A := A) (M := M) k hg
  have hx : ((gStep A M ε)^[k] (gInit A M ((((‖b‖ : ℝ) : 𝕜))⁻¹ • b) ((((‖b‖ : ℝ) : 𝕜))⁻¹ • x0))).x
      = (cgSeq A M ((((‖b‖ : ℝ) : 𝕜))⁻¹ • b) ((((‖b‖ : ℝ) : 𝕜))⁻¹ • x0) k).x := by
    rw [← h1]; rfl
  rw [hx, cgSeq_smul (inv_ne_zero hμ0)]
  show ((‖b‖ : ℝ) : 𝕜) • ((((‖b‖ : ℝ) : 𝕜))⁻¹ • (cgSeq A M b x0 k).x) = _
  rw [smul_smul, mul_inv_cancel₀ hμ0, one_smul]

/-- with no guard active (round-1 form), the value returned after `k` steps is the `k`-th iterate of
textbook preconditioned CG on the ORIGINAL system -/
theorem gRun_eq_cgSeq {ε : ℝ} (hε : 0 < ε) {b x0 : E} (hb : b ≠ 0) {k : ℕ}
    (hg : GuardsOffN A M ε b x0 k) : gRun A M ε b x0 k = (cgSeq A M b x0 k).x :=
  gRun_eq_cgSeq_ok hb (hg.stepOKN hε)

/-- residuals of the original system are non-zero while the mask of the normalised one is off -/
theorem r_ne_zero_of_ok {ε : ℝ} (hε : 0 < ε) {b x0 : E} (hb : b ≠ 0) {k : ℕ}
    (hg : StepOKN A M ε b x0 k) : ∀ i < k, (cgSeq A M b x0 i).r ≠ 0 := by
  intro i hi h0
  have hμ0 : (((‖b‖ : ℝ) : 𝕜)) ≠ 0 := by
    have : ‖b‖ ≠ 0 := norm_ne_zero_iff.mpr hb
    exact_mod_cast this
  have h1 := (hg i hi).1
  rw [cgSeq_smul (inv_ne_zero hμ0)] at h1
  have : ((cgSeq A M b x0 i).scale (((‖b‖ : ℝ) : 𝕜))⁻¹).r = 0 := by
    show (((‖b‖ : ℝ) : 𝕜))⁻¹ • (cgSeq A M b x0 i).r = 0
    rw [h0, smul_zero]
  rw [this, norm_zero] at h1
  linarith

theorem r_ne_zero_of_guards {ε : ℝ} (hε : 0 < ε) {b x0 : E} (hb : b ≠ 0) {k : ℕ}
    (hg : GuardsOffN A M ε b x0 k) : ∀ i < k, (cgSeq A M b x0 i).r ≠ 0 :=
  r_ne_zero_of_ok hε hb (hg.stepOKN hε)

/-- the mask of the first `k` steps is off, stated on the TEXTBOOK residuals `r_i = b - A x_i` of the
original system: `ε ‖b‖ ≤ ‖r_i‖` -/
def MaskOffN (A M : E →ₗ[𝕜] E) (ε : ℝ) (b x0 : E) (k : ℕ) : Prop :=
  ∀ i < k, ε * ‖b‖ ≤ ‖(cgSeq A M b x0 i).r‖

/-- **for symmetric positive definite `A`, `M` the mask is the only guard that can act**: the two
guarded denominators are non-zero as long as the residuals are -/
theorem stepOKN_of_maskOff (hA : A.IsSymmetric) (hM : M.IsSymmetric) (pA : PosDefOp A)
    (pM : PosDefOp M) {ε : ℝ} (hε : 0 < ε) {b x0 : E} (hb : b ≠ 0) {k : ℕ}
    (h : MaskOffN A M ε b x0 k) : StepOKN A M ε b x0 k := by
  have hbpos : 0 < ‖b‖ := norm_pos_iff.mpr hb
  have hμ0 : (((‖b‖ : ℝ) : 𝕜)) ≠ 0 := by exact_mod_cast hbpos.ne'
  have hc : ((((‖b‖ : ℝ) : 𝕜))⁻¹) ≠ 0 := inv_ne_zero hμ0
  have hcc : conj ((((‖b‖ : ℝ) : 𝕜))⁻¹) * (((‖b‖ : ℝ) : 𝕜))⁻¹ ≠ 0 :=
    mul_ne_zero ((map_ne_zero _).mpr hc) hc
  have hr : ∀ i < k, (cgSeq A M b x0 i).r ≠ 0 := by
    intro i hi h0
    have := h i hi
    rw [h0, norm_zero] at this
    have : 0 < ε * ‖b‖ := mul_pos hε hbpos
    linarith
  have hnb := noBreak_of_posDef hA hM pA pM k hr
  intro i hi
  unfold StepOK
  rw [cgSeq_smul hc]
  refine ⟨?_, ?_, ?_⟩
  · show ε ≤ ‖(((‖b‖ : ℝ) : 𝕜))⁻¹ • (cgSeq A M b x0 i).r‖
    rw [norm_smul, norm_inv, RCLike.norm_ofReal, abs_of_pos hbpos, le_inv_mul_iff₀ hbpos, mul_comm]
    exact h i hi
  · show conj ((((‖b‖ : ℝ) : 𝕜))⁻¹) * (((‖b‖ : ℝ) : 𝕜))⁻¹ * (cgSeq A M b x0 i).γ ≠ 0
    exact mul_ne_zero hcc (hnb i hi).1
  · show ⟪(((‖b‖ : ℝ) : 𝕜))⁻¹ • (cgSeq A M b x0 i).p,
      A ((((‖b‖ : ℝ) : 𝕜))⁻¹ • (cgSeq A M b x0 i).p)⟫_𝕜 ≠ 0
    rw [map_smul, inner_smul_left, inner_smul_right, ← mul_assoc]
    exact mul_ne_zero hcc (hnb i hi).2

/-- Krylov optimality of the guarded, normalised run from the mask condition alone -/
theorem gRun_optimal_mask (hA : A.IsSymmetric) (hM : M.IsSymmetric) (pA : PosDefOp A)
    (pM : PosDefOp M) {ε : ℝ} (hε : 0 < ε) {b x0 : E} (hb : b ≠ 0) {k : ℕ}
    (hg : MaskOffN A M ε b x0 k) {xs : E} (hxs : A xs = b) :
    gRun A M ε b x0 k = (cgSeq A M b x0 k).x ∧
    gRun A M ε b x0 k - x0 ∈ krylov (M ∘ₗ A) (M (b - A x0)) k ∧
    (∀ y : E, y - x0 ∈ krylov (M ∘ₗ A) (M (b - A x0)) k →
      energy A xs (gRun A M ε b x0 k) ≤ energy A xs y) ∧
    (∀ y : E, y - x0 ∈ krylov (M ∘ₗ A) (M (b - A x0)) k →
      energy A xs y ≤ energy A xs (gRun A M ε b x0 k) → y = gRun A M ε b x0 k) := by
  have hok := stepOKN_of_maskOff hA hM pA pM hε hb hg
  have he := gRun_eq_cgSeq_ok hb hok
  rw [he]
  have hr := r_ne_zero_of_ok hε hb hok
  exact ⟨rfl, x_mem_krylov k, fun y hy => cg_optimal_krylov hA hM pA pM hxs hr hy,
    fun y hy hle => cg_optimal_unique hA hM pA pM hxs hr hy hle⟩

/-- **Krylov optimality of the guarded, normalised run** (one column, round-1 form): for symmetric
positive definite `A`, `M`, `b ≠ 0` and no guard active in the first `k` steps, the returned vector
lies in `x0 + K_k(MA, M r0)` and minimises the energy (squared `A`-norm of the error) over that set. -/
theorem gRun_optimal (hA : A.IsSymmetric) (hM : M.IsSymmetric) (pA : PosDefOp A) (pM : PosDefOp M)
    {ε : ℝ} (hε : 0 < ε) {b x0 : E} (hb : b ≠ 0) {k : ℕ} (hg : GuardsOffN A M ε b x0 k)
    {xs : E} (hxs : A xs = b) :
    gRun A M ε b x0 k - x0 ∈ krylov (M ∘ₗ A) (M (b - A x0)) k ∧
    (∀ y : E, y - x0 ∈ krylov (M ∘ₗ A) (M (b - A x0)) k →
      energy A xs (gRun A M ε b x0 k) ≤ energy A xs y) ∧
    (∀ y : E, y - x0 ∈ krylov (M ∘ₗ A) (M (b - A x0)) k →
      energy A xs y ≤ energy A xs (gRun A M ε b x0 k) → y = gRun A M ε b x0 k) := by
  rw [gRun_eq_cgSeq hε hb hg]
  have hr := r_ne_zero_of_guards hε hb hg
  exact ⟨x_mem_krylov k, fun y hy => cg_optimal_krylov hA hM pA pM hxs hr hy,
    fun y hy hle => cg_optimal_unique hA hM pA pM hxs hr hy hle⟩

/-- once the residual of the (normalised) column is below `ε`, further steps do not change the
returned value -/
theorem gRun_frozen {ε : ℝ} {b x0 : E} {t k : ℕ} (htk : t ≤ k)
    (hr : ‖((gStep A M ε)^[t] (gInit A M ((nscale (𝕜 := 𝕜) b)⁻¹ • b)
      ((nscale (𝕜 := 𝕜) b)⁻¹ • x0))).r‖ < ε) :
    gRun A M ε b x0 k = gRun A M ε b x0 t := by
  unfold gRun
  obtain ⟨d, rfl⟩ := Nat.exists_eq_add_of_le htk
  rw [Nat.add_comm, Function.iterate_add_apply, (gStep_frozen_iter hr d).1]

/-- the recursively updated residual of the normalised column IS the true residual of the returned
vector, in units of `‖b‖`, AND the textbook residual `r_k / ‖b‖`, while the mask is off and no
denominator vanishes.  (The first conjunct holds with `b ≠ 0` alone — `gState_r_true_any` in
`Lemmas/CGResidual.lean`: `x` and `r` are updated with the same `α`; the hypotheses are needed for the
second conjunct only.) -/
theorem gState_r_true_ok (hA : A.IsSymmetric) (hM : M.IsSymmetric) (pA : PosDefOp A)
    (pM : PosDefOp M) {ε : ℝ} (hε : 0 < ε) {b x0 : E} (hb : b ≠ 0) {k : ℕ}
    (hg : StepOKN A M ε b x0 k) :
    ((gStep A M ε)^[k] (gInit A M ((nscale (𝕜 := 𝕜) b)⁻¹ • b) ((nscale (𝕜 := 𝕜) b)⁻¹ • x0))).r =
      (((‖b‖ : ℝ) : 𝕜))⁻¹ • (b - A (gRun A M ε b x0 k)) ∧
    ((gStep A M ε)^[k] (gInit A M ((nscale (𝕜 := 𝕜) b)⁻¹ • b) ((nscale (𝕜 := 𝕜) b)⁻¹ • x0))).r =
      (((‖b‖ : ℝ) : 𝕜))⁻¹ • (cgSeq A M b x0 k).r := by
  have hμ0 : (((‖b‖ : ℝ) : 𝕜)) ≠ 0 := by
    have : ‖b‖ ≠ 0 := norm_ne_zero_iff.mpr hb
    exact_mod_cast this
  rw [gRun_eq_cgSeq_ok hb hg, nscale_of_ne hb]
  have h1 := gSeq_core_ok (A := A) (M := M) k hg
  have hr : ((gStep A M ε)^[k] (gInit A M ((((‖b‖ : ℝ) : 𝕜))⁻¹ • b) ((((‖b‖ : ℝ) : 𝕜))⁻¹ • x0))).r
      = (cgSeq A M ((((‖b‖ : ℝ) : 𝕜))⁻¹ • b) ((((‖b‖ : ℝ) : 𝕜))⁻¹ • x0) k).r := by
    rw [← h1]; rfl
  rw [hr, cgSeq_smul (inv_ne_zero hμ0)]
  have hnb := noBreak_of_posDef hA hM pA pM k (r_ne_zero_of_ok hε hb hg)
  have hinv := cgInv_all hA hM k hnb k le_rfl
  refine ⟨?_, rfl⟩
  show (((‖b‖ : ℝ) : 𝕜))⁻¹ • (cgSeq A M b x0 k).r = _
  rw [hinv.res]

/-- round-1 form of `gState_r_true_ok` -/
theorem gState_r_true (hA : A.IsSymmetric) (hM : M.IsSymmetric) (pA : PosDefOp A) (pM : PosDefOp M)
    {ε : ℝ} (hε : 0 < ε) {b x0 : E} (hb : b ≠ 0) {k : ℕ} (hg : GuardsOffN A M ε b x0 k) :
    ((gStep A M ε)^[k] (gInit A M ((nscale (𝕜 := 𝕜) b)⁻¹ • b) ((nscale (𝕜 := 𝕜) b)⁻¹ • x0))).r =
      (((‖b‖ : ℝ) : 𝕜))⁻¹ • (b - A (gRun A M ε b x0 k)) :=
  (gState_r_true_ok hA hM pA pM hε hb (hg.stepOKN hε)).1

/-- **the unconditional statement (any `k`, no hypothesis on the residuals)**: for symmetric positive
definite `A`, `M` and `b ≠ 0` the value returned after `k` steps is the textbook iterate `x_{k'}` of some
`k' ≤ k`, where either `k' = k`, or the relative residual of `x_{k'}` is already below `ε`
(`‖b - A x_{k'}‖ < ε ‖b‖`: the mask froze the column there); the mask was off before `k'`. -/
theorem gRun_final (hA : A.IsSymmetric) (hM : M.IsSymmetric) (pA : PosDefOp A) (pM : PosDefOp M)
    {ε : ℝ} (hε : 0 < ε) {b x0 : E} (hb : b ≠ 0) (k : ℕ) :
    ∃ k', k' ≤ k ∧ MaskOffN A M ε b x0 k' ∧
      (k' = k ∨ ‖(cgSeq A M b x0 k').r‖ < ε * ‖b‖) ∧
      gRun A M ε b x0 k = (cgSeq A M b x0 k').x := by
  classical
  have hbpos : 0 < ‖b‖ := norm_pos_iff.mpr hb
  by_cases hex : ∃ i, i < k ∧ ‖(cgSeq A M b x0 i).r‖ < ε * ‖b‖
  · let k' := Nat.find hex
    have hk' : k' < k ∧ ‖(cgSeq A M b x0 k').r‖ < ε * ‖b‖ := Nat.find_spec hex
    have hmask : MaskOffN A M ε b x0 k' := by
      intro i hi
      by_contra hcon
      exact Nat.find_min hex hi ⟨lt_trans hi hk'.1, not_le.mp hcon⟩
    have hok := stepOKN_of_maskOff hA hM pA pM hε hb hmask
    have hres := (gState_r_true_ok hA hM pA pM hε hb hok).2
    have hfro : gRun A M ε b x0 k = gRun A M ε b x0 k' := by
      apply gRun_frozen hk'.1.le
      rw [hres, norm_smul, norm_inv, RCLike.norm_ofReal, abs_of_pos hbpos, inv_mul_lt_iff₀ hbpos,
        mul_comm]
      exact hk'.2
    exact ⟨k', hk'.1.le, hmask, Or.inr hk'.2, by rw [hfro]; exact gRun_eq_cgSeq_ok hb hok⟩
  · have hmask : MaskOffN A M ε b x0 k := by
      intro i hi
      by_contra hcon
      exact hex ⟨i, hi, not_le.mp hcon⟩
    exact ⟨k, le_rfl, hmask, Or.inl rfl,
      gRun_eq_cgSeq_ok hb (stepOKN_of_maskOff hA hM pA pM hε hb hmask)⟩

end CG
