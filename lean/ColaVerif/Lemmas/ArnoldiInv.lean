import Mathlib.Analysis.InnerProductSpace.Basic
import Mathlib.Algebra.BigOperators.Intervals
import ColaVerif.Lemmas.ArnoldiInst

/-!
# The Arnoldi invariant of the code model (exact arithmetic)

`Arnoldi.Inv M v tol j c`: what is true of the buffers `c` of one start vector `v` after `j`
evaluations of `arnoldi_fact.body_fun` — *including* the clipped normalisation: the relation is
stated with the factor `max β (tol/2)` the code divides by, so it holds unconditionally; the
textbook Arnoldi relation and orthonormality follow when the clip is inactive.
-/

open scoped InnerProductSpace
open Finset

namespace Arnoldi

variable {𝕜 E : Type} [RCLike 𝕜] [NormedAddCommGroup E] [InnerProductSpace 𝕜 E]

/-! ## the Gram–Schmidt sweep -/

section sweep
variable (c : Col 𝕜 E) (w0 : E) (K : Nat)

/-- the vector after `k` sweep iterations -/
noncomputable def swVec (k : Nat) : E := (sweep c k (w0, zerosS (α := 𝕜) K)).1
/-- the coefficient computed in sweep iteration `l` -/
noncomputable def swCoef (l : Nat) : 𝕜 := ⟪c.q l, swVec c w0 K l⟫_𝕜

theorem swVec_zero : swVec c w0 K 0 = w0 := rfl

theorem swVec_succ (k : Nat) :
    swVec c w0 K (k + 1) = swVec c w0 K k - swCoef c w0 K k • c.q k := rfl

theorem sweep_snd_succ (k : Nat) :
    (sweep c (k + 1) (w0, zerosS (α := 𝕜) K)).2 =
      (sweep c k (w0, zerosS (α := 𝕜) K)).2.setIfInBounds k (swCoef c w0 K k) := rfl

theorem sweep_size (k : Nat) : (sweep c k (w0, zerosS (α := 𝕜) K)).2.size = K := by
  induction k with
  | zero => simp [sweep, zerosS]
  | succ k ih => rw [sweep_snd_succ, Array.size_setIfInBounds, ih]

theorem sweep_get (k : Nat) (hk : k ≤ K) (l : Nat) :
    (sweep c k (w0, zerosS (α := 𝕜) K)).2.getD l 0 = if l < k then swCoef c w0 K l else 0 := by
  induction k with
  | zero =>
    simp only [sweep, zerosS, Nat.not_lt_zero, if_false]
    exact getD_replicate K l (0 : 𝕜)
  | succ k ih =>
    rw [sweep_snd_succ, getD_setIfInBounds, sweep_size, ih (Nat.le_of_succ_le hk)]
    by_cases h : k = l
    · subst h
      simp [Nat.lt_of_succ_le hk]
    · have : (l < k + 1) = (l < k) := by
        apply propext
        constructor
        · intro h1; omega
        · intro h1; omega
      simp [h, this]

theorem sweep_decomp (k : Nat) :
    w0 = swVec c w0 K k + ∑ l ∈ range k, swCoef c w0 K l • c.q l := by
  induction k with
  | zero => simp [swVec_zero]
  | succ k ih =>
    rw [sum_range_succ, swVec_succ]
    calc w0 = swVec c w0 K k + ∑ l ∈ range k, swCoef c w0 K l • c.q l := ih
      _ = _ := by abel

theorem sweep_orth (k : Nat)
    (hON : ∀ a, a < k → ∀ b, b < k → ⟪c.q a, c.q b⟫_𝕜 = if a = b then 1 else 0) :
    ∀ l, l < k → ⟪c.q l, swVec c w0 K k⟫_𝕜 = 0 := by
  induction k with
  | zero => intro l hl; omega
  | succ k ih =>
    intro l hl
    have hON' : ∀ a, a < k → ∀ b, b < k → ⟪c.q a, c.q b⟫_𝕜 = if a = b then 1 else 0 :=
      fun a ha b hb => hON a (by omega) b (by omega)
    rw [swVec_succ, inner_sub_right, inner_smul_right]
    by_cases h : l = k
    · subst h
      rw [hON l (by omega) l (by omega), if_pos rfl, mul_one]
      exact sub_self _
    · have hlk : l < k := by omega
      rw [ih hON' l hlk, hON l (by omega) k (by omega), if_neg h, mul_zero, sub_zero]

theorem swVec_of_zero (k : Nat) : swVec c (0 : E) K k = 0 := by
  induction k with
  | zero => rfl
  | succ k ih => rw [swVec_succ, swCoef, ih]; simp

theorem swCoef_of_zero (k : Nat) : swCoef c (0 : E) K k = 0 := by
  rw [swCoef, swVec_of_zero]; simp

end sweep

/-! ## the invariant -/

/-- buffers of start vector `v` after `j` steps -/
structure Inv (A : E →ₗ[𝕜] E) (M : Nat) (v : E) (tol : ℝ) (j : Nat) (c : Col 𝕜 E) : Prop where
  sizeQ : c.Q.size = M + 1
  sizeH : c.H.size = M
  /-- every column of `H` has `M + 1` entries -/
  sizeHc : ∀ i, i < M → (c.H.getD i #[]).size = M + 1
  z0 : c.z = 0
  /-- first column `v / ‖v‖` -/
  q0 : c.q 0 = ((‖v‖ : ℝ) : 𝕜)⁻¹ • v
  /-- untouched columns of `Q` are zero -/
  qZero : ∀ l, j < l → c.q l = 0
  /-- untouched columns of `H` are zero -/
  hZeroCol : ∀ i, j ≤ i → ∀ l, c.h l i = 0
  /-- `H` is upper Hessenberg -/
  hHess : ∀ i l, i + 1 < l → c.h l i = 0
  /-- the relation the code establishes in step `i` (with the clip factor) -/
  rel : ∀ i, i < j → ∃ β : ℝ, 0 ≤ β ∧ c.h (i + 1) i = ((β : ℝ) : 𝕜) ∧
    A (c.q i) = (∑ l ∈ range (i + 1), c.h l i • c.q l) + (((max β (tol / 2) : ℝ)) : 𝕜) • c.q (i + 1) ∧
    ‖(((max β (tol / 2) : ℝ)) : 𝕜) • c.q (i + 1)‖ = β
  /-- while the clip was inactive in the steps before the last one: the columns before the last
  are orthonormal and the last column is orthogonal to them (it may itself be clipped) -/
  orth : (∀ i, i + 1 < j → tol / 2 ≤ RCLike.re (c.h (i + 1) i)) →
    (∀ a, a < j → ∀ b, b < j → ⟪c.q a, c.q b⟫_𝕜 = if a = b then 1 else 0) ∧
    (∀ a, a < j → ⟪c.q a, c.q j⟫_𝕜 = 0)
  /-- the last column is a unit vector when the clip was never active -/
  unitLast : (∀ i, i < j → tol / 2 ≤ RCLike.re (c.h (i + 1) i)) → ⟪c.q j, c.q j⟫_𝕜 = 1
  /-- a zero column stays dead: its `H` column is zero and so is the next column of `Q`
  (start vectors of a batch that have broken down keep being stepped) -/
  dead : ∀ i, i < j → c.q i = 0 → (∀ l, c.h l i = 0) ∧ c.q (i + 1) = 0
  /-- the `norm` entry of the loop state -/
  normEq : c.norm = if j = 0 then ((‖v‖ : ℝ) : 𝕜) else c.h j (j - 1)

section init

theorem initCol_q (M : Nat) (v : E) (l : Nat) :
    (initCol (α := 𝕜) M v).q l = if l = 0 then ((‖v‖ : ℝ) : 𝕜)⁻¹ • v else 0 := by
  unfold Col.q initCol
  simp only [vec_zeroLike, vec_norm, vec_divs]
  rw [getD_setIfInBounds]
  by_cases h : l = 0
  · subst h; simp
  · have : ¬ (0 = l ∧ 0 < (Array.replicate (M + 1) (0 : E)).size) := by
      intro hh; exact h hh.1.symm
    rw [if_neg this, if_neg h]
    exact getD_replicate _ _ _

theorem initCol_h (M : Nat) (v : E) (l i : Nat) : (initCol (α := 𝕜) M v).h l i = 0 := by
  unfold Col.h initCol
  simp only
  by_cases h : i < M
  · rw [getD_replicate' M i _ _ h]
    exact getD_replicate _ _ _
  · have : (Array.replicate M (zerosS (α := 𝕜) (M + 1))).getD i #[] = #[] := by
      simp [Array.getD_eq_getD_getElem?, h]
    rw [this]; simp

theorem inv_init (A : E →ₗ[𝕜] E) (M : Nat) (v : E) (tol : ℝ) (hv : v ≠ 0) :
    Inv A M v tol 0 (initCol (α := 𝕜) M v) where
  sizeQ := by simp [initCol]
  sizeH := by simp [initCol]
  sizeHc := fun i hi => by
    simp only [initCol]
    rw [getD_replicate' M i _ _ hi]
    simp [zerosS]
  z0 := rfl
  q0 := by rw [initCol_q]; simp
  qZero := fun l hl => by rw [initCol_q, if_neg (by omega)]
  hZeroCol := fun i _ l => initCol_h M v l i
  hHess := fun i l _ => initCol_h M v l i
  rel := fun i hi => by omega
  dead := fun i hi => by omega
  orth := fun _ => ⟨fun a ha => by omega, fun a ha => by omega⟩
  unitLast := fun _ => by
    rw [initCol_q, if_pos rfl, inner_smul_left, inner_smul_right,
      inner_self_eq_norm_sq_to_K]
    have hn : ((‖v‖ : ℝ) : 𝕜) ≠ 0 := by
      exact_mod_cast (norm_ne_zero_iff.mpr hv)
    simp only [map_inv₀, RCLike.conj_ofReal]
    field_simp
  normEq := by simp [initCol]

end init

section step

variable (A : E →ₗ[𝕜] E) (M : Nat) (v : E) (tol : ℝ)

/-- the un-normalised new vector of step `j` -/
noncomputable def stepW (j : Nat) (c : Col 𝕜 E) : E := swVec c (A (c.q j)) c.Q.size (j + 1)

theorem stepCol_q (j : Nat) (c : Col 𝕜 E) (hj : j + 1 < c.Q.size) (l : Nat) :
    (stepCol (⇑A) ((tol : ℝ) : 𝕜) j c).q l =
      if l = j + 1 then (((max ‖stepW A j c‖ (tol / 2) : ℝ)) : 𝕜)⁻¹ • stepW A j c else c.q l := by
  unfold Col.q stepCol
  simp only [vec_norm, vec_divs]
  rw [getD_setIfInBounds, num_half_tol, num_max_ofReal]
  by_cases h : l = j + 1
  · subst h
    simp only [hj, and_self, if_true]
    rfl
  · have : ¬ (j + 1 = l ∧ j + 1 < c.Q.size) := fun hh => h hh.1.symm
    rw [if_neg this, if_neg h]

theorem stepCol_h (j : Nat) (c : Col 𝕜 E) (hjH : j < c.H.size) (hjQ : j + 1 < c.Q.size)
    (l i : Nat) :
    (stepCol (⇑A) ((tol : ℝ) : 𝕜) j c).h l i =
      if i = j then
        (if l = j + 1 then ((‖stepW A j c‖ : ℝ) : 𝕜)
         else if l < j + 1 then swCoef c (A (c.q j)) c.Q.size l else 0)
      else c.h l i := by
  unfold Col.h stepCol
  simp only [vec_norm]
  rw [getD_setIfInBounds]
  by_cases h : i = j
  · subst h
    simp only [hjH, and_self, if_true]
    rw [getD_setIfInBounds, sweep_size]
    by_cases h2 : l = i + 1
    · subst h2
      simp only [hjQ, and_self, if_true]
      rfl
    · have : ¬ (i + 1 = l ∧ i + 1 < c.Q.size) := fun hh => h2 hh.1.symm
      rw [if_neg this, if_neg h2]
      exact sweep_get c _ _ (i + 1) (Nat.le_of_lt hjQ) l
  · have : ¬ (j = i ∧ j < c.H.size) := fun hh => h hh.1.symm
    rw [if_neg this, if_neg h]

theorem inv_step (htol : 0 < tol) (j : Nat) (hj : j < M) (c : Col 𝕜 E)
    (hc : Inv A M v tol j c) : Inv A M v tol (j + 1) (stepCol (⇑A) ((tol : ℝ) : 𝕜) j c) := by
  have hjQ : j + 1 < c.Q.size := by rw [hc.sizeQ]; omega
  have hjH : j < c.H.size := by rw [hc.sizeH]; exact hj
  set w := stepW A j c with hw
  set cl : ℝ := max ‖w‖ (tol / 2) with hcl
  have hclpos : 0 < cl := lt_of_lt_of_le (by linarith) (le_max_right _ _)
  have hclne : ((cl : ℝ) : 𝕜) ≠ 0 := by exact_mod_cast (ne_of_gt hclpos)
  have hq : ∀ l, (stepCol (⇑A) ((tol : ℝ) : 𝕜) j c).q l =
      if l = j + 1 then ((cl : ℝ) : 𝕜)⁻¹ • w else c.q l := stepCol_q A tol j c hjQ
  have hh := stepCol_h A tol j c hjH hjQ
  refine
    { sizeQ := ?_, sizeH := ?_, sizeHc := ?_, z0 := hc.z0, q0 := ?_, qZero := ?_, hZeroCol := ?_, hHess := ?_,
      rel := ?_, orth := ?_, unitLast := ?_, dead := ?_, normEq := ?_ }
  · simp [stepCol, hc.sizeQ]
  · simp [stepCol, hc.sizeH]
  · intro i hi
    simp only [stepCol]
    rw [getD_setIfInBounds]
    by_cases h : j = i ∧ j < c.H.size
    · rw [if_pos h, Array.size_setIfInBounds, sweep_size]; exact hc.sizeQ
    · rw [if_neg h]; exact hc.sizeHc i hi
  · rw [hq, if_neg (by omega)]; exact hc.q0
  · intro l hl
    rw [hq, if_neg (by omega)]
    exact hc.qZero l (by omega)
  · intro i hi l
    rw [hh, if_neg (by omega)]
    exact hc.hZeroCol i (by omega) l
  · intro i l hil
    rw [hh]
    by_cases h : i = j
    · subst h
      rw [if_pos rfl, if_neg (by omega), if_neg (by omega)]
    · rw [if_neg h]; exact hc.hHess i l hil
  · intro i hi
    by_cases h : i = j
    · subst h
      refine ⟨‖w‖, norm_nonneg _, ?_, ?_, ?_⟩
      · rw [hh, if_pos rfl, if_pos rfl]
      · rw [hq, if_neg (by omega), hq, if_pos rfl, smul_smul, mul_inv_cancel₀ hclne, one_smul]
        have hsum : ∑ l ∈ range (i + 1), (stepCol (⇑A) ((tol : ℝ) : 𝕜) i c).h l i •
            (stepCol (⇑A) ((tol : ℝ) : 𝕜) i c).q l =
            ∑ l ∈ range (i + 1), swCoef c (A (c.q i)) c.Q.size l • c.q l := by
          apply sum_congr rfl
          intro l hl
          have hl' : l < i + 1 := mem_range.mp hl
          rw [hh, if_pos rfl, if_neg (by omega), if_pos hl', hq, if_neg (by omega)]
        rw [hsum, add_comm]
        exact sweep_decomp c (A (c.q i)) c.Q.size (i + 1)
      · rw [hq, if_pos rfl, smul_smul, mul_inv_cancel₀ hclne, one_smul]
    · have hij : i < j := by omega
      obtain ⟨β, hβ0, hβ, hrel, hnorm⟩ := hc.rel i hij
      refine ⟨β, hβ0, ?_, ?_, ?_⟩
      · rw [hh, if_neg h]; exact hβ
      · rw [hq, if_neg (by omega), hq, if_neg (by omega)]
        have hsum : ∑ l ∈ range (i + 1), (stepCol (⇑A) ((tol : ℝ) : 𝕜) j c).h l i •
            (stepCol (⇑A) ((tol : ℝ) : 𝕜) j c).q l = ∑ l ∈ range (i + 1), c.h l i • c.q l := by
          apply sum_congr rfl
          intro l hl
          have hl' : l < i + 1 := mem_range.mp hl
          rw [hh, if_neg h, hq, if_neg (by omega)]
        rw [hsum]; exact hrel
      · rw [hq, if_neg (by omega)]; exact hnorm
  · intro hno
    -- clip inactive in all steps before j
    have hno' : ∀ i, i < j → tol / 2 ≤ RCLike.re (c.h (i + 1) i) := by
      intro i hi
      have := hno i (by omega)
      rwa [hh, if_neg (by omega)] at this
    obtain ⟨hON0, hlast⟩ := hc.orth (fun i hi => hno' i (by omega))
    have hunit := hc.unitLast hno'
    have hON : ∀ a, a < j + 1 → ∀ b, b < j + 1 → ⟪c.q a, c.q b⟫_𝕜 = if a = b then 1 else 0 := by
      intro a ha b hb
      by_cases ha' : a = j
      · by_cases hb' : b = j
        · rw [ha', hb', if_pos rfl]; exact hunit
        · rw [ha', if_neg (by omega), ← inner_conj_symm, hlast b (by omega)]; simp
      · by_cases hb' : b = j
        · rw [hb', if_neg ha']; exact hlast a (by omega)
        · exact hON0 a (by omega) b (by omega)
    have horth : ∀ l, l < j + 1 → ⟪c.q l, w⟫_𝕜 = 0 :=
      sweep_orth c (A (c.q j)) c.Q.size (j + 1) hON
    refine ⟨?_, ?_⟩
    · intro a ha b hb
      rw [hq, hq, if_neg (by omega), if_neg (by omega)]
      exact hON a ha b hb
    · intro a ha
      rw [hq, hq, if_neg (by omega), if_pos rfl, inner_smul_right, horth a ha, mul_zero]
  · intro hno
    have hβ : tol / 2 ≤ ‖w‖ := by
      have := hno j (by omega)
      rwa [hh, if_pos rfl, if_pos rfl, RCLike.ofReal_re] at this
    have hcleq : cl = ‖w‖ := max_eq_left hβ
    have hwpos : 0 < ‖w‖ := lt_of_lt_of_le (by linarith) hβ
    have hwne : ((‖w‖ : ℝ) : 𝕜) ≠ 0 := by exact_mod_cast (ne_of_gt hwpos)
    rw [hq, if_pos rfl, hcleq, inner_smul_left, inner_smul_right, inner_self_eq_norm_sq_to_K]
    simp only [map_inv₀, RCLike.conj_ofReal]
    field_simp
  · intro i hi hqi
    rw [hq, if_neg (by omega)] at hqi
    by_cases h : i = j
    · subst h
      have hw0 : w = 0 := by
        rw [hw, stepW, hqi, map_zero, swVec_of_zero]
      refine ⟨fun l => ?_, ?_⟩
      · rw [hh, if_pos rfl, hqi, map_zero, swCoef_of_zero, ← hw, hw0]
        simp
      · rw [hq, if_pos rfl, hw0, smul_zero]
    · obtain ⟨h1, h2⟩ := hc.dead i (by omega) hqi
      refine ⟨fun l => ?_, ?_⟩
      · rw [hh, if_neg h]; exact h1 l
      · rw [hq, if_neg (by omega)]; exact h2
  · show ((‖w‖ : ℝ) : 𝕜) = _
    rw [if_neg (by omega), hh, if_pos (by omega), if_pos (by omega)]

end step

/-! ## `j` steps of one start vector -/

/-- the buffers of one start vector after `j` evaluations of the loop body -/
def colAfter {α V : Type} [Num α] [VecOps α V] (A : V → V) (tol : α) : Nat → Col α V → Col α V
  | 0, c => c
  | j + 1, c => stepCol A tol j (colAfter A tol j c)

theorem inv_colAfter (A : E →ₗ[𝕜] E) (M : Nat) (v : E) (tol : ℝ) (hv : v ≠ 0) (htol : 0 < tol)
    (j : Nat) (hj : j ≤ M) :
    Inv A M v tol j (colAfter (⇑A) ((tol : ℝ) : 𝕜) j (initCol (α := 𝕜) M v)) := by
  induction j with
  | zero => exact inv_init A M v tol hv
  | succ j ih => exact inv_step A M v tol htol j (by omega) _ (ih (by omega))

end Arnoldi
