import ColaVerif.Lemmas.SvdTotal

/-!
# C16 (round 3): the eigenvector operator `lanczos_eigs` returns is well-formed; the ORDER in the
eigensolver / LAPACK contracts

* `good_prod_pair`, `good_lanczosW`: `Op.Good` for `Product(Orthonormal(Dense Q), Dense Y)` — the shape of
  the eigenvector operator `lanczos_eigs` returns (`V = Q @ lazify(eigvectors[:, idx])`) — from shapes
  alone, so `W_good` of `C16_svd_krylov_tall` / `_wide` / `_link` is discharged for it.
* `EigsSorted`: the eigensolver CONTRACT in full strength — ALL `j` returned columns orthonormal
  eigenvectors of the Gram matrix, eigenvalues real, positive and ASCENDING (`eigh` / `lanczos_eigs` sort
  ascending).  `EigsSorted.select`: the old per-selection `eigs_contract` follows from it.
  `svdKrylov_select_sorted`: under it `get_slice` picks exactly the `k` largest (`'LM'`) resp. smallest
  (`'SM'`) eigenvalues, hence (sqrt is monotone) singular values.
* `LapackSorted`: the LAPACK CONTRACT with the DESCENDING order of `np.linalg.svd`; `LapackSorted.old`:
  the old `lapack_contract` follows from it.
-/

open Matrix ExprSound

namespace Svd
open Op Ex

set_option linter.unusedSectionVars false
set_option linter.unusedVariables false

section good
variable {R : Type} [RCLike R] [DecidableEq R]

/-- a `Product` of two well-formed members with matching inner dimension that does not report `SelfAdjoint` -/
theorem good_prod_pair (X Y : Op R) (hX : Op.Good X) (hY : Op.Good Y) (hdim : X.cols = Y.rows)
    (hisa : (Op.prod [X, Y]).isa .selfAdjoint = false) : Op.Good (Op.prod [X, Y]) := by
  refine ⟨?_, ?_, ?_⟩
  · simp [Op.wf, hX.wf, hY.wf, Op.chainOk, hdim]
  · simp [Op.dupSlice, hX.nd, hY.nd]
  · simp only [HermOK]
    refine ⟨(fun h => by rw [hisa] at h; cases h), ?_⟩
    intro M hM
    simp only [List.mem_cons, List.not_mem_nil, or_false] at hM
    rcases hM with rfl | rfl
    · exact hX.herm
    · exact hY.herm

/-- the eigenvector operator `lanczos_eigs` returns: `Product(Orthonormal(Dense Q), Dense Y)` -/
theorem lanczosW_isa (dq dy : DType) (r j c : Nat) (q y : MatF R) :
    (Op.prod [orthonormal (Op.dense dq r j q), Op.dense dy j c y]).isa .selfAdjoint = false := by
  have hy : (Op.dense dy j c y).anns = [] := anns_dense dy j c y
  have hq : (Op.dense dq r j q).anns = [] := anns_dense dq r j q
  unfold orthonormal
  split
  · simp only [Op.isa]
    rw [Op.anns]
    simp [hy, Op.isTA, Op.core, Op.isScalarMul, AnnSet.interAll, AnnSet.inter, AnnSet.isa]
  · simp only [Op.isa]
    rw [Op.anns]
    simp [hy, Op.isTA, Op.core, Op.isScalarMul, AnnSet.interAll, AnnSet.inter, AnnSet.isa]

theorem good_lanczosW (dq dy : DType) (r j c : Nat) (q y : MatF R) :
    Op.Good (Op.prod [orthonormal (Op.dense dq r j q), Op.dense dy j c y]) := by
  have hQ : Op.Good (orthonormal (Op.dense dq r j q)) := by
    apply good_orthonormal _ (good_dense' _ _ _ _)
    unfold orthonormal
    split <;> (simp only [Op.isa]; rw [Op.anns, anns_dense]; simp [AnnSet.union, AnnSet.isa, Ann.sub])
  refine good_prod_pair _ _ hQ (good_dense' _ _ _ _) ?_ (lanczosW_isa dq dy r j c q y)
  rw [orthonormal_cols]; simp only [Op.cols, Op.rows]

/-- the shapes of the eigenvector operator the real eigensolvers return: `lanczos_eigs` —
`Product(Orthonormal(Dense Q), Dense Y)`; `lobpcg` — `Dense(V)` -/
def EigShape (W : Op R) : Prop :=
  (∃ dq dy r j c q y, W = Op.prod [orthonormal (Op.dense dq r j q), Op.dense dy j c y]) ∨
  (∃ dt r c a, W = Op.dense dt r c a)

/-- `W_good` follows from the shape alone -/
theorem EigShape.good {W : Op R} (h : EigShape W) : Op.Good W := by
  rcases h with ⟨dq, dy, r, j, c, q, y, rfl⟩ | ⟨dt, r, c, a, rfl⟩
  · exact good_lanczosW dq dy r j c q y
  · exact good_dense' dt r c a

end good

section sorted
variable {𝕜 : Type} [RCLike 𝕜] [DecidableEq 𝕜]

/-- CONTRACT of `lanczos_eigs` / `lobpcg` / `eigh` on the `n × n` Gram matrix `G`, in full strength and WITH
THE ORDER: the `j` returned columns `W` are orthonormal eigenvectors, `G W = W diag μ`, the returned values
are the real numbers `μ`, positive (full rank) and ASCENDING (`eigh` and `lanczos_eigs` sort ascending) -/
structure EigsSorted (n j : Nat) (G W : MatF 𝕜) (vals : Nat → 𝕜) (mu : Nat → ℝ) : Prop where
  orth : (MatF.toMatrix n j W)ᴴ * MatF.toMatrix n j W = 1
  eig : MatF.toMatrix n n G * MatF.toMatrix n j W =
    MatF.toMatrix n j W * diagonal (fun i : Fin j => ((mu i.val : ℝ) : 𝕜))
  real : ∀ t, t < j → vals t = ((mu t : ℝ) : 𝕜)
  pos : ∀ t, t < j → 0 < mu t
  ascending : ∀ s t, s ≤ t → t < j → mu s ≤ mu t

theorem toMatrix_selCols' (m r : Nat) (X : MatF 𝕜) (idx : List Nat) (h : ∀ t ∈ idx, t < r) :
    MatF.toMatrix m idx.length (selCols X idx) =
      (MatF.toMatrix m r X).submatrix id (MatF.idxFin r idx h) := rfl

/-- the OLD contract (`eigs_contract` of `C16_svd_krylov_tall` / `_wide`, on the selected columns)
follows from the strengthened one, for every duplicate-free selection -/
theorem EigsSorted.select {n j : Nat} {G W : MatF 𝕜} {vals : Nat → 𝕜} {mu : Nat → ℝ}
    (hc : EigsSorted n j G W vals mu) (pos : List Nat) (hlt : ∀ t ∈ pos, t < j) (hnd : pos.Nodup) :
    let Vs := MatF.toMatrix n pos.length (selCols W pos)
    Vsᴴ * Vs = 1 ∧
    MatF.toMatrix n n G * Vs =
      Vs * diagonal (fun i : Fin pos.length => ((mu (pos.getD i.val 0) : ℝ) : 𝕜)) ∧
    ∀ t, t < pos.length → vals (pos.getD t 0) = ((mu (pos.getD t 0) : ℝ) : 𝕜) ∧ 0 < mu (pos.getD t 0) := by
  intro Vs
  have hVs : Vs = (MatF.toMatrix n j W).submatrix id (MatF.idxFin j pos hlt) := toMatrix_selCols' n j W pos hlt
  have hinj := idxFin_injective j pos hlt hnd
  refine ⟨?_, ?_, ?_⟩
  · rw [hVs, conjTranspose_submatrix]
    have : ((MatF.toMatrix n j W)ᴴ.submatrix (MatF.idxFin j pos hlt) id) *
        ((MatF.toMatrix n j W).submatrix id (MatF.idxFin j pos hlt)) =
        ((MatF.toMatrix n j W)ᴴ * MatF.toMatrix n j W).submatrix (MatF.idxFin j pos hlt) (MatF.idxFin j pos hlt) := by
      ext a b
      simp [Matrix.mul_apply]
    rw [this, hc.orth]
    ext a b
    simp only [submatrix_apply, Matrix.one_apply, hinj.eq_iff]
  · rw [hVs]
    have h1 : MatF.toMatrix n n G * (MatF.toMatrix n j W).submatrix id (MatF.idxFin j pos hlt) =
        (MatF.toMatrix n n G * MatF.toMatrix n j W).submatrix id (MatF.idxFin j pos hlt) := by
      ext a b
      simp [Matrix.mul_apply]
    rw [h1, hc.eig]
    ext a b
    simp only [submatrix_apply, Matrix.mul_diagonal, id]
    rfl
  · intro t ht
    have hm : pos.getD t 0 < j := hlt _ (MatF.getD_mem_of_lt' pos t ht)
    exact ⟨hc.real _ hm, hc.pos _ hm⟩


/-- **the selection under the strengthened contract**: `positions` picks the END of the ascending array
(`'LM'`) resp. its BEGINNING (`'SM'`), the selected columns satisfy the old `eigs_contract`, and the
selected values are the `k` largest / smallest of the `o.j` the eigensolver returned -/
theorem svdKrylov_select_sorted (P : Params 𝕜) (eigs : Op 𝕜 → Eigs 𝕜) (forceTall : Bool)
    (A : Op 𝕜) (k : Nat) (w : Which) (o : KrylovOut 𝕜)
    (h : svdKrylov P eigs forceTall A (k : Int) w = .ok o) (n : Nat) (mu : Nat → ℝ)
    (sorted : EigsSorted n o.j o.G.den.f (eigs o.G).W.den.f (eigs o.G).vals mu)
    (hk1 : 1 ≤ k) (hkj : k ≤ o.j) :
    (w = .LM ∧ o.pos = List.range' (o.j - k) k ∨ w = .SM ∧ o.pos = List.range k) ∧
    o.pos.length = k ∧
    (let Vs := MatF.toMatrix n o.pos.length (selCols (eigs o.G).W.den.f o.pos)
     Vsᴴ * Vs = 1 ∧
     MatF.toMatrix n n o.G.den.f * Vs =
       Vs * diagonal (fun i : Fin o.pos.length => ((mu (o.pos.getD i.val 0) : ℝ) : 𝕜)) ∧
     ∀ t, t < o.pos.length → (eigs o.G).vals (o.pos.getD t 0) = ((mu (o.pos.getD t 0) : ℝ) : 𝕜) ∧
       0 < mu (o.pos.getD t 0)) ∧
    (w = .LM → ∀ p ∈ o.pos, ∀ q, q < o.j → q ∉ o.pos →
      mu q ≤ mu p ∧ Real.sqrt (mu q) ≤ Real.sqrt (mu p)) ∧
    (w = .SM → ∀ p ∈ o.pos, ∀ q, q < o.j → q ∉ o.pos →
      mu p ≤ mu q ∧ Real.sqrt (mu p) ≤ Real.sqrt (mu q)) := by
  have hspec := svdKrylov_spec P eigs forceTall A (k : Int) w o h
  have hpos := hspec.1
  have hnd : o.pos.Nodup := positions_nodup o.j k w o.pos hpos
  have hmin : min k o.j = k := Nat.min_eq_left hkj
  have hform : w = .LM ∧ o.pos = List.range' (o.j - k) k ∨ w = .SM ∧ o.pos = List.range k := by
    cases w with
    | LM =>
      rw [positions_LM o.j k hk1, hmin] at hpos
      injection hpos with hpos
      exact Or.inl ⟨rfl, hpos.symm⟩
    | SM =>
      rw [positions_SM o.j k, hmin] at hpos
      injection hpos with hpos
      exact Or.inr ⟨rfl, hpos.symm⟩
    | other =>
      rw [positions_other o.j k (by omega)] at hpos
      cases hpos
  have hlt : ∀ t ∈ o.pos, t < o.j := by
    intro t ht
    rcases hform with ⟨_, hp⟩ | ⟨_, hp⟩
    · rw [hp, List.mem_range'_1] at ht; omega
    · rw [hp, List.mem_range] at ht; omega
  have hlen : o.pos.length = k := by
    rcases hform with ⟨_, hp⟩ | ⟨_, hp⟩
    · rw [hp, List.length_range']
    · rw [hp, List.length_range]
  refine ⟨hform, hlen, sorted.select o.pos hlt hnd, ?_, ?_⟩
  · intro hw p hp q hq hnq
    rcases hform with ⟨_, hf⟩ | ⟨hw', _⟩
    · rw [hf, List.mem_range'_1] at hp hnq
      have : mu q ≤ mu p := sorted.ascending q p (by omega) (by omega)
      exact ⟨this, Real.sqrt_le_sqrt this⟩
    · rw [hw] at hw'; cases hw'
  · intro hw p hp q hq hnq
    rcases hform with ⟨hw', _⟩ | ⟨_, hf⟩
    · rw [hw] at hw'; cases hw'
    · rw [hf, List.mem_range] at hp hnq
      have : mu p ≤ mu q := sorted.ascending p q (by omega) hq
      exact ⟨this, Real.sqrt_le_sqrt this⟩

/-- CONTRACT of `xnp.svd(X, full_matrices=True)` (LAPACK `gesdd` through `np.linalg.svd`) with the ORDER:
the first `r = min(m, n)` columns are a thin SVD of `X`, the singular values are real, non-negative and
DESCENDING -/
structure LapackSorted (m n : Nat) (X : MatF 𝕜) (o : SvdFull 𝕜) (s : Nat → ℝ) : Prop where
  real : ∀ i, i < min m n → o.s i = ((s i : ℝ) : 𝕜) ∧ 0 ≤ s i
  orthU : (MatF.toMatrix m (min m n) o.U)ᴴ * MatF.toMatrix m (min m n) o.U = 1
  orthV : (MatF.toMatrix n (min m n) o.V)ᴴ * MatF.toMatrix n (min m n) o.V = 1
  recon : MatF.toMatrix m (min m n) o.U * diagonal (fun i : Fin (min m n) => o.s i.val) *
    (MatF.toMatrix n (min m n) o.V)ᴴ = MatF.toMatrix m n X
  descending : ∀ i j, i ≤ j → j < min m n → s j ≤ s i

/-- the OLD `lapack_contract` (hypothesis of `C16_svd_dense`) follows from the strengthened one -/
theorem LapackSorted.old {m n : Nat} {X : MatF 𝕜} {o : SvdFull 𝕜} {s : Nat → ℝ}
    (h : LapackSorted m n X o s) :
    (∀ i, i < min m n → o.s i = ((s i : ℝ) : 𝕜) ∧ 0 ≤ s i) ∧
    (MatF.toMatrix m (min m n) o.U)ᴴ * MatF.toMatrix m (min m n) o.U = 1 ∧
    (MatF.toMatrix n (min m n) o.V)ᴴ * MatF.toMatrix n (min m n) o.V = 1 ∧
    MatF.toMatrix m (min m n) o.U * diagonal (fun i : Fin (min m n) => o.s i.val) *
      (MatF.toMatrix n (min m n) o.V)ᴴ = MatF.toMatrix m n X :=
  ⟨h.real, h.orthU, h.orthV, h.recon⟩

end sorted

end Svd
