import ColaVerif.Lemmas.RngLaw
import Mathlib.Probability.Moments.MGFAnalytic

/-!
# C17 — exact variance of one Hutchinson probe column

For i.i.d. probe entries `φ(g)`, `g ~ ν`, with mean `0`, second moment `1` and fourth moment `m4`
(`StdEntry4 ν φ m4`), the per-column estimator `estimator[t, c] = Σ_q A[r,q] z[q,c] z[s,c]`
(`r = rowA k t`, `s = rowZ k t`) satisfies

  `E[(estimator[t,c] - diag_k[t])²] = Σ_{q ≠ s} A[r,q]² + (m4 - 1) · A[r,s]²`.

The third moment drops out (it only ever multiplies a first moment).

* `pi_monomial` — under the product measure, monomials `∏ i, φ(ω i)^(e i)` (`e i ≤ 4`) are
  integrable and their integral factorises (`integral_fintype_prod_eq_prod`);
* `pi_moment4`, `entryZ_moments4` — `E[Z_q Z_q' Z_s²] = [q = q'] · (m4 if q = s else 1)`;
* `est_variance` — the variance over an ARBITRARY probability space, from the second and fourth
  order mixed moments of the probe column (the companion of `est_integral`);
* `est_variance_iid` — the variance for every `StdEntry4`;
* `integral_pow4_gaussian` — `∫ x⁴ dN(0,1) = 3` (fourth derivative of the mgf `exp(t²/2)` at 0);
* `stdEntry4_gaussian` (`m4 = 3`), `stdEntry4_signGaussian` (`m4 = 1`), `stdEntry4_rademacher`
  (`m4 = 1`);
* `est_variance_rademacher`, `est_variance_signGaussian` — `Σ_{q ≠ s} A[r,q]²`;
  `est_variance_gaussian` — `Σ_{q ≠ s} A[r,q]² + 2 A[r,s]²`.
-/

open MeasureTheory ProbabilityTheory Finset Real

namespace ColaVerif.Hutch

/-- law of one probe entry, to fourth order: a `StdEntry` with finite fourth moment `m4` -/
structure StdEntry4 (ν : Measure ℝ) (φ : ℝ → ℝ) (m4 : ℝ) : Prop extends StdEntry ν φ where
  memLp4 : MemLp φ 4 ν
  fourth : ∫ x, φ x ^ 4 ∂ν = m4

variable {ν : Measure ℝ} {φ : ℝ → ℝ} {m4 : ℝ}

/-- all powers up to the fourth are integrable (probability measure) -/
theorem StdEntry4.integrable_pow (h : StdEntry4 ν φ m4) (j : ℕ) (hj : j ≤ 4) :
    Integrable (fun x => φ x ^ j) ν := by
  have := h.prob
  have hm := h.memLp4.aestronglyMeasurable
  have h4 : Integrable (fun x => ‖φ x‖ ^ 4) ν := by
    have : MemLp φ ((4 : ℕ) : ENNReal) ν := by simpa using h.memLp4
    exact this.integrable_norm_pow (by norm_num)
  have hjn := integrable_norm_pow_of_le hm hj h4
  exact hjn.mono' (hm.pow j) (ae_of_all _ fun x => by simp [norm_pow])

theorem StdEntry4.moment_zero (h : StdEntry4 ν φ m4) : ∫ x, φ x ^ 0 ∂ν = 1 := by
  have := h.prob
  simp

theorem StdEntry4.moment_one (h : StdEntry4 ν φ m4) : ∫ x, φ x ^ 1 ∂ν = 0 := by
  simpa using h.mean

theorem StdEntry4.moment_two (h : StdEntry4 ν φ m4) : ∫ x, φ x ^ 2 ∂ν = 1 := by
  simpa [sq] using h.second

/-- i.i.d. entries: monomials of degree `≤ 4` per coordinate are integrable under the product
measure and their integral is the product of the one-dimensional moments -/
theorem pi_monomial {ι : Type} [Fintype ι] (h : StdEntry4 ν φ m4) (e : ι → ℕ) (he : ∀ i, e i ≤ 4) :
    Integrable (fun ω : ι → ℝ => ∏ i, φ (ω i) ^ e i) (Measure.pi fun _ => ν) ∧
    ∫ ω : ι → ℝ, ∏ i, φ (ω i) ^ e i ∂(Measure.pi fun _ => ν) = ∏ i, ∫ x, φ x ^ e i ∂ν := by
  have := h.prob
  exact ⟨Integrable.fintype_prod (f := fun i x => φ x ^ e i) (μ := fun _ => ν)
      (fun i => h.integrable_pow (e i) (he i)),
    integral_fintype_prod_eq_prod (f := fun i x => φ x ^ e i) (μ := fun _ : ι => ν)⟩

theorem prod_pow_ite {ι : Type} [Fintype ι] [DecidableEq ι] (x : ι → ℝ) (a : ι) (k : ℕ) :
    ∏ i, x i ^ (if i = a then k else 0) = x a ^ k := by
  rw [Fintype.prod_eq_single a (fun b hb => by simp [hb])]
  simp

/-- `E[Z_q Z_q' Z_s²] = [q = q'] · (m4 if q = s else 1)`; the third moment never contributes -/
theorem pi_moment4 {ι : Type} [Fintype ι] [DecidableEq ι] (h : StdEntry4 ν φ m4) (q q' s : ι) :
    Integrable (fun ω : ι → ℝ => φ (ω q) * φ (ω q') * φ (ω s) ^ 2) (Measure.pi fun _ => ν) ∧
    ∫ ω : ι → ℝ, φ (ω q) * φ (ω q') * φ (ω s) ^ 2 ∂(Measure.pi fun _ => ν)
      = if q = q' then (if q = s then m4 else 1) else 0 := by
  set e : ι → ℕ := fun i =>
    (if i = q then 1 else 0) + (if i = q' then 1 else 0) + (if i = s then 2 else 0) with he
  have hle : ∀ i, e i ≤ 4 := fun i => by
    simp only [he]; split_ifs <;> omega
  have hf : (fun ω : ι → ℝ => φ (ω q) * φ (ω q') * φ (ω s) ^ 2)
      = fun ω : ι → ℝ => ∏ i, φ (ω i) ^ e i := by
    funext ω
    simp only [he, pow_add, Finset.prod_mul_distrib, prod_pow_ite (fun i => φ (ω i)), pow_one]
  obtain ⟨h1, h2⟩ := pi_monomial h e hle
  rw [hf]
  refine ⟨h1, ?_⟩
  rw [h2]
  by_cases hqq : q = q'
  · subst hqq
    rw [if_pos rfl]
    by_cases hqs : q = s
    · subst hqs
      rw [if_pos rfl, Fintype.prod_eq_single q]
      · have : e q = 4 := by simp [he]
        rw [this, h.fourth]
      · intro i hi
        have : e i = 0 := by simp [he, hi]
        rw [this, h.moment_zero]
    · rw [if_neg hqs]
      refine Finset.prod_eq_one fun i _ => ?_
      by_cases hiq : i = q
      · have : e i = 2 := by
          subst hiq; simp [he, hqs]
        rw [this, h.moment_two]
      · by_cases his : i = s
        · have : e i = 2 := by
            subst his; simp [he, hiq]
          rw [this, h.moment_two]
        · have : e i = 0 := by simp [he, hiq, his]
          rw [this, h.moment_zero]
  · rw [if_neg hqq]
    by_cases hqs : q = s
    · subst hqs
      refine Finset.prod_eq_zero (Finset.mem_univ q') ?_
      have : e q' = 1 := by simp [he, Ne.symm hqq]
      rw [this, h.moment_one]
    · refine Finset.prod_eq_zero (Finset.mem_univ q) ?_
      have : e q = 1 := by simp [he, hqq, hqs]
      rw [this, h.moment_one]


/-- fourth-order mixed moments of column `c` of the probe block -/
theorem entryZ_moments4 (h : StdEntry4 ν φ m4) (n bs c : Nat) (hc : c < bs)
    (j l s : Nat) (hj : j < n) (hl : l < n) (hs : s < n) :
    Integrable (fun ω => entryZ φ n bs ω j c * entryZ φ n bs ω l c * entryZ φ n bs ω s c ^ 2)
      (blockLaw ν n bs) ∧
    ∫ ω, entryZ φ n bs ω j c * entryZ φ n bs ω l c * entryZ φ n bs ω s c ^ 2 ∂(blockLaw ν n bs)
      = if j = l then (if j = s then m4 else 1) else 0 := by
  have e : (fun ω => entryZ φ n bs ω j c * entryZ φ n bs ω l c * entryZ φ n bs ω s c ^ 2)
      = fun ω : Fin n × Fin bs → ℝ =>
        φ (ω (⟨j, hj⟩, ⟨c, hc⟩)) * φ (ω (⟨l, hl⟩, ⟨c, hc⟩)) * φ (ω (⟨s, hs⟩, ⟨c, hc⟩)) ^ 2 := by
    funext ω; simp [entryZ, hj, hl, hs, hc]
  have := pi_moment4 (ι := Fin n × Fin bs) h (⟨j, hj⟩, ⟨c, hc⟩) (⟨l, hl⟩, ⟨c, hc⟩) (⟨s, hs⟩, ⟨c, hc⟩)
  rw [e]
  refine ⟨this.1, ?_⟩
  unfold blockLaw
  rw [this.2]
  simp [Prod.ext_iff, Fin.ext_iff]

/-- variance of the per-column estimator over an arbitrary probability space, from the second and
fourth order mixed moments of the probe column -/
theorem est_variance {Ω : Type} [MeasurableSpace Ω] (μ : Measure Ω) [IsProbabilityMeasure μ]
    (n : Nat) (A : MatF ℝ) (Z : Ω → MatF ℝ) (k : Int) (hk : k.natAbs < n) (t c : Nat)
    (ht : t < n - k.natAbs) (m4 : ℝ)
    (hint : ∀ j l, j < n → l < n → Integrable (fun ω => Z ω j c * Z ω l c) μ)
    (hmom : ∀ j l, j < n → l < n → ∫ ω, Z ω j c * Z ω l c ∂μ = if j = l then 1 else 0)
    (hint4 : ∀ j l, j < n → l < n →
      Integrable (fun ω => Z ω j c * Z ω l c * Z ω (rowZ k t) c ^ 2) μ)
    (hmom4 : ∀ j l, j < n → l < n → ∫ ω, Z ω j c * Z ω l c * Z ω (rowZ k t) c ^ 2 ∂μ
      = if j = l then (if j = rowZ k t then m4 else 1) else 0) :
    Integrable (fun ω => (est n A (Z ω) k t c - diagK A k t) ^ 2) μ ∧
    ∫ ω, (est n A (Z ω) k t c - diagK A k t) ^ 2 ∂μ
      = (∑ q ∈ (range n).erase (rowZ k t), A (rowA k t) q ^ 2)
        + (m4 - 1) * A (rowA k t) (rowZ k t) ^ 2 := by
  set s := rowZ k t with hs
  set a : ℕ → ℝ := fun q => A (rowA k t) q with ha
  have hsn : s < n := rowZ_lt n k t ht
  have hX : Integrable (fun ω => est n A (Z ω) k t c) μ :=
    est_integrable μ n A Z k hk t c ht hint
  have hEX : ∫ ω, est n A (Z ω) k t c ∂μ = a s := by
    rw [est_integral μ n A Z k hk t c ht hint hmom, diagK_eq]
  have hsq : (fun ω => est n A (Z ω) k t c ^ 2)
      = fun ω => ∑ q ∈ range n, ∑ q' ∈ range n,
          a q * a q' * (Z ω q c * Z ω q' c * Z ω s c ^ 2) := by
    funext ω
    rw [est_sum_form n A (Z ω) k hk t c ht, sq, Finset.sum_mul_sum]
    exact Finset.sum_congr rfl fun q _ => Finset.sum_congr rfl fun q' _ => by ring
  have hXX : Integrable (fun ω => est n A (Z ω) k t c ^ 2) μ := by
    rw [hsq]
    exact integrable_finsetSum _ fun q hq => integrable_finsetSum _ fun q' hq' =>
      (hint4 q q' (Finset.mem_range.mp hq) (Finset.mem_range.mp hq')).const_mul _
  have hEXX : ∫ ω, est n A (Z ω) k t c ^ 2 ∂μ
      = (∑ q ∈ (range n).erase s, a q ^ 2) + m4 * a s ^ 2 := by
    rw [hsq, integral_finsetSum _ fun q hq => integrable_finsetSum _ fun q' hq' =>
      (hint4 q q' (Finset.mem_range.mp hq) (Finset.mem_range.mp hq')).const_mul _]
    have h1 : ∀ q ∈ range n, ∫ ω, ∑ q' ∈ range n,
          a q * a q' * (Z ω q c * Z ω q' c * Z ω s c ^ 2) ∂μ
        = a q ^ 2 * (if q = s then m4 else 1) := by
      intro q hq
      rw [integral_finsetSum _ fun q' hq' =>
        (hint4 q q' (Finset.mem_range.mp hq) (Finset.mem_range.mp hq')).const_mul _]
      have h2 : ∀ q' ∈ range n, ∫ ω, a q * a q' * (Z ω q c * Z ω q' c * Z ω s c ^ 2) ∂μ
          = if q = q' then a q ^ 2 * (if q = s then m4 else 1) else 0 := by
        intro q' hq'
        rw [integral_const_mul, hmom4 q q' (Finset.mem_range.mp hq) (Finset.mem_range.mp hq')]
        by_cases e : q = q'
        · subst e; simp only [if_true]; ring
        · simp [e]
      rw [Finset.sum_congr rfl h2, Finset.sum_ite_eq (range n) q, if_pos hq]
    rw [Finset.sum_congr rfl h1, ← Finset.add_sum_erase (range n) _ (Finset.mem_range.mpr hsn),
      if_pos rfl, add_comm]
    congr 1
    · exact Finset.sum_congr rfl fun q hq => by
        rw [if_neg (Finset.ne_of_mem_erase hq), mul_one]
    · ring
  have hexp : (fun ω => (est n A (Z ω) k t c - diagK A k t) ^ 2)
      = fun ω => est n A (Z ω) k t c ^ 2 - 2 * a s * est n A (Z ω) k t c + a s ^ 2 := by
    funext ω; rw [diagK_eq]; ring
  rw [hexp]
  have hX2 : Integrable (fun ω => 2 * a s * est n A (Z ω) k t c) μ := hX.const_mul _
  have hI : Integrable (fun ω => est n A (Z ω) k t c ^ 2 - 2 * a s * est n A (Z ω) k t c) μ :=
    hXX.sub hX2
  refine ⟨hI.add (integrable_const _), ?_⟩
  rw [integral_add hI (integrable_const _), integral_sub hXX hX2, integral_const_mul, hEX, hEXX]
  simp only [integral_const, probReal_univ, smul_eq_mul, one_mul]
  ring

/-- **exact variance of one Hutchinson probe column**, i.i.d. entries with mean 0, second moment 1,
fourth moment `m4` -/
theorem est_variance_iid (h : StdEntry4 ν φ m4) (n bs : Nat) (A : MatF ℝ) (k : Int)
    (hk : k.natAbs < n) (t c : Nat) (ht : t < n - k.natAbs) (hc : c < bs) :
    Integrable (fun ω => (est n A (entryZ φ n bs ω) k t c - diagK A k t) ^ 2) (blockLaw ν n bs) ∧
    ∫ ω, (est n A (entryZ φ n bs ω) k t c - diagK A k t) ^ 2 ∂(blockLaw ν n bs)
      = (∑ q ∈ (range n).erase (rowZ k t), A (rowA k t) q ^ 2)
        + (m4 - 1) * A (rowA k t) (rowZ k t) ^ 2 := by
  have := h.prob
  have : IsProbabilityMeasure (blockLaw ν n bs) := by unfold blockLaw; infer_instance
  have hsn := rowZ_lt n k t ht
  exact est_variance (blockLaw ν n bs) n A (entryZ φ n bs) k hk t c ht m4
    (fun j l hj hl => (entryZ_moments h.toStdEntry n bs c hc j l hj hl).1)
    (fun j l hj hl => (entryZ_moments h.toStdEntry n bs c hc j l hj hl).2)
    (fun j l hj hl => (entryZ_moments4 h n bs c hc j l _ hj hl hsn).1)
    (fun j l hj hl => (entryZ_moments4 h n bs c hc j l _ hj hl hsn).2)


/-! ## the three laws, to fourth order -/

/-- `d/dt (p(t) e^{t²/2}) = (p'(t) + t p(t)) e^{t²/2}` -/
theorem hasDerivAt_mul_expSq (p p' : ℝ → ℝ) (t : ℝ) (hp : HasDerivAt p (p' t) t) :
    HasDerivAt (fun t => p t * rexp (t ^ 2 / 2)) ((p' t + t * p t) * rexp (t ^ 2 / 2)) t := by
  have h1 : HasDerivAt (fun t : ℝ => t ^ 2 / 2) t t := by
    have := ((hasDerivAt_id t).pow 2).div_const 2
    simpa using this
  have h2 : HasDerivAt (fun t => p t * rexp (t ^ 2 / 2)) _ t := hp.fun_mul h1.exp
  have e : (p' t + t * p t) * rexp (t ^ 2 / 2)
      = p' t * rexp (t ^ 2 / 2) + p t * (rexp (t ^ 2 / 2) * t) := by ring
  rw [e]; exact h2

/-- fourth moment of the standard normal law, from the fourth derivative of its mgf at `0` -/
theorem integral_pow4_gaussian : ∫ x, x ^ 4 ∂(gaussianReal 0 1) = 3 := by
  have h0 : ∫ x, x ^ 4 ∂(gaussianReal 0 1)
      = iteratedDeriv 4 (mgf (fun x ↦ x) (gaussianReal 0 1)) 0 := by
    rw [iteratedDeriv_mgf_zero] <;> simp
  rw [h0, mgf_fun_id_gaussianReal]
  have e0 : (fun t : ℝ => rexp ((0:ℝ) * t + ((1 : NNReal) : ℝ) * t ^ 2 / 2))
      = fun t => (fun _ => (1:ℝ)) t * rexp (t ^ 2 / 2) := by
    funext t; simp
  have d1 : deriv (fun t : ℝ => (fun _ => (1:ℝ)) t * rexp (t ^ 2 / 2))
      = fun t => (fun t => t) t * rexp (t ^ 2 / 2) := by
    funext t
    have := (hasDerivAt_mul_expSq (fun _ => 1) (fun _ => 0) t (hasDerivAt_const t 1)).deriv
    rw [this]; ring
  have d2 : deriv (fun t : ℝ => (fun t => t) t * rexp (t ^ 2 / 2))
      = fun t => (fun t => 1 + t ^ 2) t * rexp (t ^ 2 / 2) := by
    funext t
    have := (hasDerivAt_mul_expSq (fun t => t) (fun _ => 1) t (hasDerivAt_id t)).deriv
    rw [this]; ring
  have d3 : deriv (fun t : ℝ => (fun t => 1 + t ^ 2) t * rexp (t ^ 2 / 2))
      = fun t => (fun t => 3 * t + t ^ 3) t * rexp (t ^ 2 / 2) := by
    funext t
    have hp : HasDerivAt (fun t : ℝ => 1 + t ^ 2) (2 * t) t := by
      have := ((hasDerivAt_id t).pow 2).const_add 1
      simpa using this
    have := (hasDerivAt_mul_expSq (fun t => 1 + t ^ 2) (fun t => 2 * t) t hp).deriv
    rw [this]; ring
  have d4 : deriv (fun t : ℝ => (fun t => 3 * t + t ^ 3) t * rexp (t ^ 2 / 2))
      = fun t => (fun t => 3 + 6 * t ^ 2 + t ^ 4) t * rexp (t ^ 2 / 2) := by
    funext t
    have hp : HasDerivAt (fun t : ℝ => 3 * t + t ^ 3) (3 + 3 * t ^ 2) t := by
      have := ((hasDerivAt_id' t).const_mul 3).fun_add ((hasDerivAt_id' t).fun_pow 3)
      simpa using this
    have := (hasDerivAt_mul_expSq (fun t => 3 * t + t ^ 3) (fun t => 3 + 3 * t ^ 2) t hp).deriv
    rw [this]; ring
  rw [e0, iteratedDeriv_succ', iteratedDeriv_succ', iteratedDeriv_succ', iteratedDeriv_succ',
    iteratedDeriv_zero, d1, d2, d3, d4]
  simp


/-- `rand='normal'`: fourth moment 3 -/
theorem stdEntry4_gaussian : StdEntry4 (gaussianReal 0 1) id 3 where
  toStdEntry := stdEntry_gaussian
  memLp4 := memLp_id_gaussianReal 4
  fourth := by simpa using integral_pow4_gaussian

/-- `rand='rademacher'` as coded (`sign(randn)`): fourth moment 1 -/
theorem stdEntry4_signGaussian : StdEntry4 (gaussianReal 0 1) Real.sign 1 where
  toStdEntry := stdEntry_signGaussian
  memLp4 := by
    refine MemLp.of_bound measurable_realSign.aestronglyMeasurable 1 (ae_of_all _ fun x => ?_)
    rcases Real.sign_apply_eq x with h | h | h <;> rw [h] <;> norm_num
  fourth := by
    have := nullSingletonClass_gaussianReal (μ := 0) (v := 1) one_ne_zero
    have hae : (fun x => Real.sign x ^ 4) =ᵐ[gaussianReal 0 1] fun _ => (1 : ℝ) := by
      filter_upwards [sign_mul_self_ae (gaussianReal 0 1) (measure_singleton 0)] with x hx
      have : Real.sign x ^ 4 = (Real.sign x * Real.sign x) ^ 2 := by ring
      rw [this, hx]; norm_num
    rw [integral_congr_ae hae]
    simp

/-- the uniform law on `{1, -1}`: fourth moment 1 -/
theorem stdEntry4_rademacher : StdEntry4 rademacherReal id 1 where
  toStdEntry := stdEntry_rademacher
  memLp4 := by
    refine (integrable_norm_rpow_iff measurable_id.aestronglyMeasurable (by norm_num)
      (by norm_num)).mp (integrable_rademacherReal _)
  fourth := by rw [integral_rademacherReal]; simp; norm_num

/-! ## readable corollaries -/

/-- Rademacher probes (uniform on `{±1}`): `Var(estimator[t,c]) = Σ_{q ≠ s} A[r,q]²` -/
theorem est_variance_rademacher (n bs : Nat) (A : MatF ℝ) (k : Int) (hk : k.natAbs < n)
    (t c : Nat) (ht : t < n - k.natAbs) (hc : c < bs) :
    ∫ ω, (est n A (entryZ id n bs ω) k t c - diagK A k t) ^ 2 ∂(blockLaw rademacherReal n bs)
      = ∑ q ∈ (range n).erase (rowZ k t), A (rowA k t) q ^ 2 := by
  rw [(est_variance_iid stdEntry4_rademacher n bs A k hk t c ht hc).2]; ring

/-- Rademacher probes as coded, `z = sign(randn(n, bs))`: `Var(estimator[t,c]) = Σ_{q ≠ s} A[r,q]²` -/
theorem est_variance_signGaussian (n bs : Nat) (A : MatF ℝ) (k : Int) (hk : k.natAbs < n)
    (t c : Nat) (ht : t < n - k.natAbs) (hc : c < bs) :
    ∫ ω, (est n A (entryZ Real.sign n bs ω) k t c - diagK A k t) ^ 2
        ∂(blockLaw (gaussianReal 0 1) n bs)
      = ∑ q ∈ (range n).erase (rowZ k t), A (rowA k t) q ^ 2 := by
  rw [(est_variance_iid stdEntry4_signGaussian n bs A k hk t c ht hc).2]; ring

/-- Gaussian probes: `Var(estimator[t,c]) = Σ_{q ≠ s} A[r,q]² + 2 A[r,s]²` -/
theorem est_variance_gaussian (n bs : Nat) (A : MatF ℝ) (k : Int) (hk : k.natAbs < n)
    (t c : Nat) (ht : t < n - k.natAbs) (hc : c < bs) :
    ∫ ω, (est n A (entryZ id n bs ω) k t c - diagK A k t) ^ 2 ∂(blockLaw (gaussianReal 0 1) n bs)
      = (∑ q ∈ (range n).erase (rowZ k t), A (rowA k t) q ^ 2)
        + 2 * A (rowA k t) (rowZ k t) ^ 2 := by
  rw [(est_variance_iid stdEntry4_gaussian n bs A k hk t c ht hc).2]; ring

end ColaVerif.Hutch
