import ColaVerif.Model.MatmatDtype
import ColaVerif.Model.Wf
import ColaVerif.Lemmas.OpDtype

/-!
# The result dtype the code model computes is the promotion of operator and operand dtype

`Op.mmDt_rmmDt_eq` — for every tree the constructors accept (`A.wf`) and every operand dtype `x`:
`A.mmDt x = promote A.dtype x` and `A.rmmDt x = promote A.dtype x` (joint recursion over the tree,
as for the values in `Lemmas/OpMatmat.lean`).  `wf` is needed: a `BlockDiag` with fewer
multiplicities than blocks multiplies only the zipped prefix (its result does not see the dtypes of
the remaining blocks, its `dtype` attribute does), and the constructors reject empty member lists.

`Op.mmDt_eq_spec`, `Op.rmmDt_eq_spec` — combined with `Op.dtype_eq_dtypeSpec`: the join of the leaf
dtypes and the operand dtype.  `Op.kronsum_member_dt` — inside `KronSum._matmat` every member
product already has the accumulator's dtype, so the in-place `out += …` never casts.
-/

namespace DType

theorem npBin_self (a : DType) : npBin a a = a := promote_self a

theorem castTo_promote (dt x : DType) : castTo x (promote dt x) = promote dt x := by
  cases dt <;> cases x <;> rfl

theorem promote_promote_right (a x : DType) : promote (promote a x) x = promote a x := by
  cases a <;> cases x <;> rfl

theorem promote_left_comm (a b c : DType) : promote a (promote b c) = promote b (promote a c) := by
  cases a <;> cases b <;> cases c <;> rfl

/-- joining the promotions with `x` of a NON-EMPTY list is promoting the join with `x` -/
theorem npJoin_map_promote (x : DType) : ∀ (l : List DType), l ≠ [] →
    npJoin (l.map (fun d => promote d x)) = promote (l.foldl promote .f32) x
  | [], h => absurd rfl h
  | [d], _ => by
    simp only [npJoin, List.map_cons, List.map_nil, foldl_promote_cons, List.foldl_nil,
      promote_f32_right]
  | d :: e :: l, _ => by
    have ih := npJoin_map_promote x (e :: l) (by simp)
    simp only [npJoin] at ih ⊢
    rw [List.map_cons, foldl_promote_cons, ih, foldl_promote_cons (a := d)]
    generalize (e :: l).foldl promote .f32 = j
    cases d <;> cases j <;> cases x <;> rfl

end DType

namespace Op
set_option linter.unusedSectionVars false
variable {R : Type} [CommRing R] [StarRing R] [DecidableEq R]

open DType

/-- `Product._matmat`: the operand's dtype is promoted with every factor's, right to left -/
theorem foldr_mmDt (f : Op R → DType → DType) : ∀ (Ms : List (Op R)) (x : DType),
    (∀ M ∈ Ms, ∀ y, f M y = promote M.dtype y) →
    Ms.foldr (fun M acc => f M acc) x = promote ((Ms.map (·.dtype)).foldl promote .f32) x
  | [], x, _ => by simp [promote_f32_left]
  | M :: Ms, x, h => by
    rw [List.foldr_cons, foldr_mmDt f Ms x (fun N hN => h N (List.mem_cons_of_mem _ hN)),
      h M List.mem_cons_self, List.map_cons, foldl_promote_cons, promote_assoc]

/-- `Kronecker._matmat` / `Product._rmatmat`: left to right -/
theorem foldl_mmDt (f : Op R → DType → DType) : ∀ (Ms : List (Op R)) (x : DType),
    (∀ M ∈ Ms, ∀ y, f M y = promote M.dtype y) →
    Ms.foldl (fun acc M => f M acc) x = promote ((Ms.map (·.dtype)).foldl promote .f32) x
  | [], x, _ => by simp [promote_f32_left]
  | M :: Ms, x, h => by
    rw [List.foldl_cons, foldl_mmDt f Ms _ (fun N hN => h N (List.mem_cons_of_mem _ hN)),
      h M List.mem_cons_self, List.map_cons, foldl_promote_cons, promote_assoc,
      promote_left_comm]

/-- `Sum`, `BlockDiag`, `Concatenated`: join of the members' results -/
theorem npJoin_mmDt (f : Op R → DType → DType) (Ms : List (Op R)) (x : DType) (hne : Ms ≠ [])
    (h : ∀ M ∈ Ms, f M x = promote M.dtype x) :
    npJoin (Ms.map (fun M => f M x)) = promote ((Ms.map (·.dtype)).foldl promote .f32) x := by
  have e : Ms.map (fun M => f M x) = (Ms.map (·.dtype)).map (fun d => promote d x) := by
    rw [List.map_map]
    exact List.map_congr_left (fun M hM => h M hM)
  rw [e]
  exact npJoin_map_promote x _ (by simpa using hne)

theorem zip_map_fst {α β : Type} : ∀ (l : List α) (m : List β), l.length = m.length →
    (l.zip m).map (·.1) = l
  | [], [], _ => rfl
  | a :: l, b :: m, h => by
    simp only [List.zip_cons_cons, List.map_cons]
    rw [zip_map_fst l m (by simpa using h)]
  | [], _ :: _, h => by simp at h
  | _ :: _, [], h => by simp at h

/-- the kinds without an explicit `_rmatmat` run the default of `operator_base.py` -/
theorem rmmDt_default (A : Op R) (h1 : A.hasExplicitRmm = false) (h2 : ∀ a B, A ≠ annot a B)
    (x : DType) :
    A.rmmDt x =
      if A.isa .selfAdjoint = true then A.mmDt x else npBin (A.mmDt (promote x x)) x := by
  cases A with
  | annot a B => exact absurd rfl (h2 a B)
  | dense => simp [hasExplicitRmm] at h1
  | tri => simp [hasExplicitRmm] at h1
  | sparse => simp [hasExplicitRmm] at h1
  | prod => simp [hasExplicitRmm] at h1
  | sum => simp [hasExplicitRmm] at h1
  | diag => simp [hasExplicitRmm] at h1
  | transpose => simp [hasExplicitRmm] at h1
  | adjoint => simp [hasExplicitRmm] at h1
  | sliced => simp [hasExplicitRmm] at h1
  | scalar => rw [Op.rmmDt] <;> intros <;> simp_all
  | eye => rw [Op.rmmDt] <;> intros <;> simp_all
  | kron => rw [Op.rmmDt] <;> intros <;> simp_all
  | kronsum => rw [Op.rmmDt] <;> intros <;> simp_all
  | bdiag => rw [Op.rmmDt] <;> intros <;> simp_all
  | tridiag => rw [Op.rmmDt] <;> intros <;> simp_all
  | perm => rw [Op.rmmDt] <;> intros <;> simp_all
  | concat => rw [Op.rmmDt] <;> intros <;> simp_all
  | house => rw [Op.rmmDt] <;> intros <;> simp_all
  | generic => rw [Op.rmmDt] <;> intros <;> simp_all

/-- the default `_rmatmat` returns the promoted dtype as soon as `_matmat` does (both branches) -/
theorem rmmDt_of_default (A : Op R) (h1 : A.hasExplicitRmm = false) (h2 : ∀ a B, A ≠ annot a B)
    (hmm : ∀ y, A.mmDt y = promote A.dtype y) (x : DType) : A.rmmDt x = promote A.dtype x := by
  rw [rmmDt_default A h1 h2 x]
  split
  · exact hmm x
  · rw [hmm, promote_self, npBin, promote_promote_right]

theorem wf_mem_of_all {Ms : List (Op R)} (h : (Ms.map (·.wf)).all id = true) :
    ∀ M ∈ Ms, M.wf = true := by
  intro M hM
  simp only [List.all_map, List.all_eq_true, Function.comp_apply, id_eq] at h
  exact h M hM

/-- **the code model's result dtype is `promote_types(A.dtype, x)`**, for `A @ X` and `X @ A` -/
theorem mmDt_rmmDt_eq : ∀ (A : Op R), A.wf = true →
    (∀ x, A.mmDt x = promote A.dtype x) ∧ (∀ x, A.rmmDt x = promote A.dtype x)
  | dense dt r c a, _ => by
    constructor <;> intro x <;> simp only [Op.mmDt, Op.rmmDt, Op.dtype, npBin_self]
  | tri dt r c l a, _ => by
    constructor <;> intro x <;> simp only [Op.mmDt, Op.rmmDt, Op.dtype, npBin_self]
  | sparse dt r c e, _ => by
    constructor <;> intro x <;> simp only [Op.mmDt, Op.rmmDt, Op.dtype, npBin]
  | diag dt n d, _ => by
    constructor <;> intro x <;> simp only [Op.mmDt, Op.rmmDt, Op.dtype, npBin]
  | scalar dt s n, _ => by
    have hm : ∀ y, (scalar dt s n : Op R).mmDt y = promote (scalar dt s n : Op R).dtype y := by
      intro y; simp only [Op.mmDt, Op.dtype, npBin]
    exact ⟨hm, rmmDt_of_default _ (by simp [hasExplicitRmm]) (by intro a B e; cases e) hm⟩
  | eye dt n, _ => by
    have hm : ∀ y, (eye dt n : Op R).mmDt y = promote (eye dt n : Op R).dtype y := by
      intro y; simp only [Op.mmDt, Op.dtype, castTo_promote]
    exact ⟨hm, rmmDt_of_default _ (by simp [hasExplicitRmm]) (by intro a B e; cases e) hm⟩
  | perm dt p, _ => by
    have hm : ∀ y, (perm dt p : Op R).mmDt y = promote (perm dt p : Op R).dtype y := by
      intro y; simp only [Op.mmDt, Op.dtype, castTo_promote]
    exact ⟨hm, rmmDt_of_default _ (by simp [hasExplicitRmm]) (by intro a B e; cases e) hm⟩
  | tridiag dt n al be ga, _ => by
    have hm : ∀ y, (tridiag dt n al be ga : Op R).mmDt y
        = promote (tridiag dt n al be ga : Op R).dtype y := by
      intro y; simp only [Op.mmDt, Op.dtype]; cases dt <;> cases y <;> rfl
    exact ⟨hm, rmmDt_of_default _ (by simp [hasExplicitRmm]) (by intro a B e; cases e) hm⟩
  | house dt n v beta, _ => by
    have hm : ∀ y, (house dt n v beta : Op R).mmDt y
        = promote (house dt n v beta : Op R).dtype y := by
      intro y; simp only [Op.mmDt, Op.dtype]; cases dt <;> cases y <;> rfl
    exact ⟨hm, rmmDt_of_default _ (by simp [hasExplicitRmm]) (by intro a B e; cases e) hm⟩
  | prod Ms, h => by
    simp only [Op.wf, Bool.and_eq_true] at h
    have ih := fun M hM => mmDt_rmmDt_eq M (wf_mem_of_all h.1.2 M hM)
    constructor <;> intro x
    · rw [Op.mmDt, Op.dtype]; exact foldr_mmDt _ Ms x (fun M hM => (ih M hM).1)
    · rw [Op.rmmDt, Op.dtype]; exact foldl_mmDt _ Ms x (fun M hM => (ih M hM).2)
  | sum Ms, h => by
    simp only [Op.wf, Bool.and_eq_true] at h
    have ih := fun M hM => mmDt_rmmDt_eq M (wf_mem_of_all h.1.2 M hM)
    have hne : Ms ≠ [] := by intro e; simp [e] at h
    constructor <;> intro x
    · rw [Op.mmDt, Op.dtype]; exact npJoin_mmDt _ Ms x hne (fun M hM => (ih M hM).1 x)
    · rw [Op.rmmDt, Op.dtype]; exact npJoin_mmDt _ Ms x hne (fun M hM => (ih M hM).2 x)
  | kron Ms, h => by
    simp only [Op.wf, Bool.and_eq_true] at h
    have ih := fun M hM => mmDt_rmmDt_eq M (wf_mem_of_all h.2 M hM)
    have hm : ∀ y, (kron Ms).mmDt y = promote (kron Ms).dtype y := by
      intro y; rw [Op.mmDt, Op.dtype]; exact foldl_mmDt _ Ms y (fun M hM => (ih M hM).1)
    exact ⟨hm, rmmDt_of_default _ (by simp [hasExplicitRmm]) (by intro a B e; cases e) hm⟩
  | kronsum Ms, _ => by
    have hm : ∀ y, (kronsum Ms).mmDt y = promote (kronsum Ms).dtype y := by
      intro y; rw [Op.mmDt, Op.dtype, npBin_self]
    exact ⟨hm, rmmDt_of_default _ (by simp [hasExplicitRmm]) (by intro a B e; cases e) hm⟩
  | bdiag Ms mults, h => by
    simp only [Op.wf, Bool.and_eq_true, beq_iff_eq] at h
    have ih := fun M hM => mmDt_rmmDt_eq M (wf_mem_of_all h.1.2 M hM)
    have hne : Ms ≠ [] := by intro e; simp [e] at h
    have hm : ∀ y, (bdiag Ms mults).mmDt y = promote (bdiag Ms mults).dtype y := by
      intro y
      rw [Op.mmDt, Op.dtype, zip_map_fst _ _ (by simpa using h.2)]
      exact npJoin_mmDt _ Ms y hne (fun M hM => (ih M hM).1 y)
    exact ⟨hm, rmmDt_of_default _ (by simp [hasExplicitRmm]) (by intro a B e; cases e) hm⟩
  | concat ax Ms, h => by
    simp only [Op.wf, Bool.and_eq_true] at h
    have ih := fun M hM => mmDt_rmmDt_eq M (wf_mem_of_all h.1.2 M hM)
    have hne : Ms ≠ [] := by intro e; simp [e] at h
    have hm : ∀ y, (concat ax Ms).mmDt y = promote (concat ax Ms).dtype y := by
      intro y; rw [Op.mmDt, Op.dtype]; exact npJoin_mmDt _ Ms y hne (fun M hM => (ih M hM).1 y)
    exact ⟨hm, rmmDt_of_default _ (by simp [hasExplicitRmm]) (by intro a B e; cases e) hm⟩
  | transpose A, h => by
    have ih := mmDt_rmmDt_eq A (by simpa [Op.wf] using h)
    constructor <;> intro x
    · rw [Op.mmDt, Op.dtype]; exact ih.2 x
    · rw [Op.rmmDt, Op.dtype]; exact ih.1 x
  | adjoint A, h => by
    have ih := mmDt_rmmDt_eq A (by simpa [Op.wf] using h)
    constructor <;> intro x
    · rw [Op.mmDt, Op.dtype]; exact ih.2 x
    · rw [Op.rmmDt, Op.dtype]; exact ih.1 x
  | sliced A s0 s1, h => by
    simp only [Op.wf, Bool.and_eq_true] at h
    have ih := mmDt_rmmDt_eq A h.1.1
    constructor <;> intro x
    · rw [Op.mmDt, Op.dtype, ih.1, ← promote_assoc, promote_self]
    · rw [Op.rmmDt, Op.dtype, ih.2, ← promote_assoc, promote_self]
  | generic A, h => by
    have ih := mmDt_rmmDt_eq A (by simpa [Op.wf] using h)
    have hm : ∀ y, (generic A).mmDt y = promote (generic A).dtype y := by
      intro y; rw [Op.mmDt, Op.dtype]; exact ih.1 y
    exact ⟨hm, rmmDt_of_default _ (by simp [hasExplicitRmm]) (by intro a B e; cases e) hm⟩
  | annot a A, h => by
    have ih := mmDt_rmmDt_eq A (by simpa [Op.wf] using h)
    have hm : ∀ y, (annot a A).mmDt y = promote (annot a A).dtype y := by
      intro y; rw [Op.mmDt, Op.dtype]; exact ih.1 y
    refine ⟨hm, fun x => ?_⟩
    rw [Op.rmmDt, Op.dtype]
    split
    · exact ih.2 x
    · split
      · exact ih.1 x
      · rw [ih.1, promote_self, npBin, promote_promote_right]
termination_by A => sizeOf A
decreasing_by
  all_goals simp_wf
  all_goals first
    | omega
    | (have := List.sizeOf_lt_of_mem ‹_ ∈ _›; omega)

/-- `A @ X`: the dtype the code model computes by recursion over the tree is the join of the leaf
dtypes and the operand's dtype -/
theorem mmDt_eq_spec (A : Op R) (hwf : A.wf = true) (x : DType) : A.mmDt x = A.mmDtypeSpec x := by
  rw [(mmDt_rmmDt_eq A hwf).1 x]; exact mmDtype_eq_spec A x

/-- `X @ A` likewise -/
theorem rmmDt_eq_spec (A : Op R) (hwf : A.wf = true) (x : DType) : A.rmmDt x = A.mmDtypeSpec x := by
  rw [(mmDt_rmmDt_eq A hwf).2 x]; exact mmDtype_eq_spec A x

/-- inside `KronSum._matmat` every member product `M @ ev…` already has the dtype of the accumulator
`out = 0 * cast(v, dtype)`, so the in-place `out += …` never has to cast (NumPy would raise on a
complex-to-real in-place cast) -/
theorem kronsum_member_dt (Ms : List (Op R)) (hwf : (kronsum Ms).wf = true) (x : DType) :
    ∀ M ∈ Ms, M.mmDt (promote (kronsum Ms).dtype x) = (kronsum Ms).mmDt x := by
  intro M hM
  simp only [Op.wf, Bool.and_eq_true] at hwf
  rw [(mmDt_rmmDt_eq M (wf_mem_of_all hwf.1.2 M hM)).1, Op.mmDt, npBin_self, ← Op.dtype,
    ← promote_assoc]
  congr 1
  -- a member's dtype is below the fold of all members' dtypes
  have : ∀ (l : List (Op R)), M ∈ l →
      promote M.dtype ((l.map (·.dtype)).foldl promote .f32) = (l.map (·.dtype)).foldl promote .f32 := by
    intro l
    induction l with
    | nil => intro h; cases h
    | cons N l ih =>
      intro h
      rw [List.map_cons, foldl_promote_cons]
      rcases List.mem_cons.mp h with rfl | h'
      · rw [← promote_assoc, promote_self]
      · rw [promote_left_comm, ih h']
  simpa [Op.dtype] using this Ms hM

/-- `wf` cannot be dropped: `BlockDiag(A_f32, B_c128, multiplicities=[1])` reports dtype c128 but
multiplies only the zipped prefix, so a float32 operand gives a float32 result -/
theorem mmDt_wf_needed :
    let A : Op Int := bdiag [dense .f32 1 1 (fun _ _ => 1), dense .c128 1 1 (fun _ _ => 1)] [1]
    A.wf = false ∧ A.mmDt .f32 = .f32 ∧ promote A.dtype .f32 = .c128 := by
  refine ⟨by simp [Op.wf], ?_, ?_⟩
  · simp [Op.mmDt, npJoin, npBin, promote, DType.mk, isComplex, isDouble]
  · simp [Op.dtype, promote, DType.mk, isComplex, isDouble]

end Op

#print axioms Op.mmDt_wf_needed
#print axioms Op.mmDt_rmmDt_eq
#print axioms Op.mmDt_eq_spec
#print axioms Op.rmmDt_eq_spec
#print axioms Op.kronsum_member_dt
