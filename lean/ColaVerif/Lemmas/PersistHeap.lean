/-
  C18 — soundness of the write discipline of Model/Heap.lean:
  a program accepted by `absRun` never changes the contents or the ownership of a caller-owned buffer.
-/
import ColaVerif.Model.Heap

namespace ColaVerif.Heap

/-- the abstract state is correct: every variable it lists is bound to a locally owned buffer -/
def Sound (L : Locals) (s : St) : Prop :=
  ∀ x, x ∈ L → ∃ b, s.env x = some b ∧ s.own b = Owner.localBuf

/-- caller-owned buffers of `s` are still caller-owned in `s'` and hold the same contents -/
def Preserves (s s' : St) : Prop :=
  ∀ b, s.own b = Owner.caller → s'.own b = Owner.caller ∧ s'.heap b = s.heap b

theorem Preserves.refl (s : St) : Preserves s s := fun _ h => ⟨h, rfl⟩

theorem Preserves.trans {s s' s'' : St} (h1 : Preserves s s') (h2 : Preserves s' s'') : Preserves s s'' := by
  intro b hb
  obtain ⟨h1o, h1h⟩ := h1 b hb
  obtain ⟨h2o, h2h⟩ := h2 b h1o
  exact ⟨h2o, h2h.trans h1h⟩

theorem mem_dropVar {L : Locals} {x z : Var} (h : z ∈ dropVar L x) : z ∈ L ∧ z ≠ x := by
  unfold dropVar at h
  rw [List.mem_filter] at h
  refine ⟨h.1, ?_⟩
  intro e
  subst e
  simp at h

theorem contains_iff {L : Locals} {x : Var} : L.contains x = true ↔ x ∈ L := by
  simp

/-! ### allocation and binding -/

theorem alloc_wf {s : St} (x : Var) (v : Nat) (hwf : s.WF) : (s.alloc x v).WF := by
  intro b hb
  simp only [St.alloc] at hb ⊢
  by_cases e : b = s.next
  · simp [e] at hb
  · simp only [e, if_false] at hb
    exact Nat.lt_succ_of_lt (hwf b hb)

theorem alloc_preserves {s : St} (x : Var) (v : Nat) (hwf : s.WF) : Preserves s (s.alloc x v) := by
  intro b hb
  have hne : b ≠ s.next := Nat.ne_of_lt (hwf b hb)
  simp [St.alloc, hne, hb]

theorem alloc_sound {s : St} {L : Locals} (x : Var) (v : Nat) (h : Sound L s) : Sound (x :: L) (s.alloc x v) := by
  intro z hz
  by_cases e : z = x
  · subst e
    exact ⟨s.next, by simp [St.alloc], by simp [St.alloc]⟩
  · have hz' : z ∈ L := by
      cases hz with
      | head => exact absurd rfl e
      | tail _ h' => exact h'
    obtain ⟨b, hb, ho⟩ := h z hz'
    refine ⟨b, by simp [St.alloc, e, hb], ?_⟩
    simp only [St.alloc]
    by_cases e2 : b = s.next
    · simp [e2]
    · simp [e2, ho]

/-- after rebinding x to anything, the other local variables are still fine -/
theorem alloc_sound_drop {s : St} {L : Locals} (x : Var) (v : Nat) (h : Sound L s) :
    Sound (dropVar L x) (s.alloc x v) := by
  intro z hz
  obtain ⟨hzL, hne⟩ := mem_dropVar hz
  exact alloc_sound x v h z (List.mem_cons_of_mem _ hzL)

theorem bind_wf {s : St} (x : Var) (b : Buf) (hwf : s.WF) : (s.bind x b).WF := hwf

theorem bind_preserves (s : St) (x : Var) (b : Buf) : Preserves s (s.bind x b) := fun _ h => ⟨h, rfl⟩

theorem bind_sound_local {s : St} {L : Locals} (x : Var) (b : Buf) (h : Sound L s)
    (hb : s.own b = Owner.localBuf) : Sound (x :: L) (s.bind x b) := by
  intro z hz
  by_cases e : z = x
  · subst e
    exact ⟨b, by simp [St.bind], hb⟩
  · have hz' : z ∈ L := by
      cases hz with
      | head => exact absurd rfl e
      | tail _ h' => exact h'
    obtain ⟨c, hc, ho⟩ := h z hz'
    exact ⟨c, by simp [St.bind, e, hc], ho⟩

theorem bind_sound_drop {s : St} {L : Locals} (x : Var) (b : Buf) (h : Sound L s) :
    Sound (dropVar L x) (s.bind x b) := by
  intro z hz
  obtain ⟨hzL, hne⟩ := mem_dropVar hz
  obtain ⟨c, hc, ho⟩ := h z hzL
  exact ⟨c, by simp [St.bind, hne, hc], ho⟩

/-- binding x to the buffer of some y of `ys`, all of which are local -/
theorem bind_sound_all {s : St} {L : Locals} {ys : List Var} {y : Var} {b : Buf} (x : Var) (h : Sound L s)
    (hall : ys.all L.contains = true) (hy : y ∈ ys) (hb : s.env y = some b) : Sound (x :: L) (s.bind x b) := by
  have hyL : y ∈ L := by
    rw [List.all_eq_true] at hall
    exact contains_iff.mp (hall y hy)
  obtain ⟨c, hc, ho⟩ := h y hyL
  rw [hb] at hc
  cases hc
  exact bind_sound_local x b h ho

/-! ### writes -/

theorem store_preserves {s : St} {L : Locals} {x : Var} {b : Buf} (v : Nat) (h : Sound L s) (hx : x ∈ L)
    (hb : s.env x = some b) : Preserves s (s.store b v) := by
  intro c hc
  obtain ⟨b', hb', ho⟩ := h x hx
  rw [hb] at hb'
  cases hb'
  have hne : c ≠ b := by
    intro e
    subst e
    rw [hc] at ho
    cases ho
  exact ⟨hc, by simp [St.store, hne]⟩

theorem store_sound {s : St} {L : Locals} (b : Buf) (v : Nat) (h : Sound L s) : Sound L (s.store b v) := h

theorem writesOnly_preserves {s s' : St} {L : Locals} {ws : List Var} (h : Sound L s)
    (hall : ws.all L.contains = true) (hw : WritesOnly ws s s') : Preserves s s' := by
  obtain ⟨_, hown, _, hheap⟩ := hw
  intro c hc
  refine ⟨by rw [hown]; exact hc, hheap c ?_⟩
  intro w hwm e
  have hwL : w ∈ L := by
    rw [List.all_eq_true] at hall
    exact contains_iff.mp (hall w hwm)
  obtain ⟨b, hb, ho⟩ := h w hwL
  rw [e] at hb
  cases hb
  rw [hc] at ho
  cases ho

theorem writesOnly_sound {s s' : St} {L : Locals} {ws : List Var} (h : Sound L s) (hw : WritesOnly ws s s') :
    Sound L s' := by
  obtain ⟨henv, hown, _, _⟩ := hw
  intro x hx
  obtain ⟨b, hb, ho⟩ := h x hx
  exact ⟨b, by rw [henv]; exact hb, by rw [hown]; exact ho⟩

theorem writesOnly_wf {s s' : St} {ws : List Var} (hwf : s.WF) (hw : WritesOnly ws s s') : s'.WF := by
  obtain ⟨_, hown, hnext, _⟩ := hw
  intro b hb
  rw [hown] at hb
  rw [hnext]
  exact hwf b hb

/-! ### one instruction, then programs -/

theorem step_sound {i : Instr} {L L' : Locals} {s s' : St} (habs : absStep i L = some L') (hs : Sound L s)
    (hwf : s.WF) (hstep : Step i s s') : Sound L' s' ∧ s'.WF ∧ Preserves s s' := by
  cases hstep with
  | fresh _ x v =>
    simp only [absStep, Option.some.injEq] at habs
    subst habs
    exact ⟨alloc_sound x v hs, alloc_wf x v hwf, alloc_preserves x v hwf⟩
  | alias _ x y b hy =>
    simp only [absStep, Option.some.injEq] at habs
    subst habs
    refine ⟨?_, bind_wf x b hwf, bind_preserves s x b⟩
    by_cases hc : L.contains y = true
    · rw [if_pos hc]
      obtain ⟨c, hc', ho⟩ := hs y (contains_iff.mp hc)
      rw [hy] at hc'
      cases hc'
      exact bind_sound_local x b hs ho
    · rw [if_neg hc]
      exact bind_sound_drop x b hs
  | mayNew _ x ys v =>
    simp only [absStep, Option.some.injEq] at habs
    subst habs
    refine ⟨?_, alloc_wf x v hwf, alloc_preserves x v hwf⟩
    by_cases hc : ys.all L.contains = true
    · rw [if_pos hc]
      exact alloc_sound x v hs
    · rw [if_neg hc]
      exact alloc_sound_drop x v hs
  | mayOld _ x ys y b hy hb =>
    simp only [absStep, Option.some.injEq] at habs
    subst habs
    refine ⟨?_, bind_wf x b hwf, bind_preserves s x b⟩
    by_cases hc : ys.all L.contains = true
    · rw [if_pos hc]
      exact bind_sound_all x hs hc hy hb
    · rw [if_neg hc]
      exact bind_sound_drop x b hs
  | write _ x b v hb =>
    simp only [absStep] at habs
    by_cases hc : L.contains x = true
    · rw [if_pos hc] at habs
      cases habs
      exact ⟨store_sound b v hs, hwf, store_preserves v hs (contains_iff.mp hc) hb⟩
    · rw [if_neg hc] at habs
      cases habs
  | callNew _ s1 ws x ys v _ hw =>
    simp only [absStep] at habs
    by_cases hc : ws.all L.contains = true
    · rw [if_pos hc] at habs
      cases habs
      have hs1 := writesOnly_sound hs hw
      have hwf1 := writesOnly_wf hwf hw
      refine ⟨?_, alloc_wf x v hwf1, (writesOnly_preserves hs hc hw).trans (alloc_preserves x v hwf1)⟩
      by_cases hy : ys.all L.contains = true
      · rw [if_pos hy]
        exact alloc_sound x v hs1
      · rw [if_neg hy]
        exact alloc_sound_drop x v hs1
    · rw [if_neg hc] at habs
      cases habs
  | callOld _ s1 ws x ys y b _ hw hy hb =>
    simp only [absStep] at habs
    by_cases hc : ws.all L.contains = true
    · rw [if_pos hc] at habs
      cases habs
      have hs1 := writesOnly_sound hs hw
      have hwf1 := writesOnly_wf hwf hw
      refine ⟨?_, bind_wf x b hwf1, (writesOnly_preserves hs hc hw).trans (bind_preserves s1 x b)⟩
      by_cases hyy : ys.all L.contains = true
      · rw [if_pos hyy]
        exact bind_sound_all x hs1 hyy hy hb
      · rw [if_neg hyy]
        exact bind_sound_drop x b hs1
    · rw [if_neg hc] at habs
      cases habs

theorem exec_sound {p : Prog} : ∀ {L L' : Locals} {s s' : St}, absRun p L = some L' → Sound L s → s.WF →
    Exec p s s' → Sound L' s' ∧ s'.WF ∧ Preserves s s' := by
  induction p with
  | nil =>
    intro L L' s s' habs hs hwf hex
    cases hex
    simp only [absRun, Option.some.injEq] at habs
    subst habs
    exact ⟨hs, hwf, Preserves.refl s⟩
  | cons i p ih =>
    intro L L' s s' habs hs hwf hex
    cases hex with
    | cons _ _ _ s1 _ hstep hrest =>
      simp only [absRun] at habs
      cases hi : absStep i L with
      | none => rw [hi] at habs; cases habs
      | some L1 =>
        rw [hi] at habs
        obtain ⟨hs1, hwf1, hp1⟩ := step_sound hi hs hwf hstep
        obtain ⟨hs2, hwf2, hp2⟩ := ih habs hs1 hwf1 hrest
        exact ⟨hs2, hwf2, hp1.trans hp2⟩

theorem sound_nil (s : St) : Sound [] s := by
  intro x hx
  cases hx

/-- the discipline is not vacuous in the other direction either: a write through a variable bound at
    entry CAN change a caller-owned buffer (so rejecting it is necessary) -/
theorem write_param_can_change :
    ∃ s s' : St, s.WF ∧ Exec [.write 0] s s' ∧ ∃ b, s.own b = Owner.caller ∧ s'.heap b ≠ s.heap b := by
  let s : St := { env := fun _ => some 0, heap := fun _ => 0, own := fun b => if b = 0 then Owner.caller else Owner.localBuf, next := 1 }
  refine ⟨s, s.store 0 1, ?_, ?_, 0, ?_, ?_⟩
  · intro b hb
    by_cases e : b = 0
    · subst e; exact Nat.zero_lt_one
    · simp [s, e] at hb
  · exact Exec.cons _ _ _ _ _ (Step.write s 0 0 1 rfl) (Exec.nil _)
  · simp [s]
  · simp [s, St.store]

/-- ... and so can a write into the result of `A @ x` with `x` caller-owned (Identity returns x) -/
theorem write_matmul_result_can_change :
    ∃ s s' : St, s.WF ∧ Exec [.mayAlias 1 [0], .write 1] s s' ∧ ∃ b, s.own b = Owner.caller ∧ s'.heap b ≠ s.heap b := by
  let s : St := { env := fun x => if x = 0 then some 0 else none, heap := fun _ => 0,
                  own := fun b => if b = 0 then Owner.caller else Owner.localBuf, next := 1 }
  refine ⟨s, (s.bind 1 0).store 0 1, ?_, ?_, 0, ?_, ?_⟩
  · intro b hb
    by_cases e : b = 0
    · subst e; exact Nat.zero_lt_one
    · simp [s, e] at hb
  · refine Exec.cons _ _ _ _ _ (Step.mayOld s 1 [0] 0 0 (by simp) (by simp [s])) ?_
    exact Exec.cons _ _ _ _ _ (Step.write _ 1 0 1 (by simp [St.bind])) (Exec.nil _)
  · simp [s]
  · simp [s, St.store, St.bind]

end ColaVerif.Heap
