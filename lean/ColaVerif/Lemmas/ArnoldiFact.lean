import Mathlib.Analysis.InnerProductSpace.PiL2
import ColaVerif.Lemmas.ArnoldiRun

/-!
# From the code invariant to the textbook Arnoldi factorisation

`Inv` (what the code establishes, clip factor included) ⟹ the Arnoldi relation, orthonormality,
zero padding, the dimension cap — under the clause `NoClip` (the absolute clip
`clip(norm, tol/2)` never alters a non-zero norm).
-/

open scoped InnerProductSpace
open Finset

namespace Arnoldi

variable {𝕜 E : Type} [RCLike 𝕜] [NormedAddCommGroup E] [InnerProductSpace 𝕜 E]

/-- sub-diagonal entry `H[i+1, i]` as a real number -/
noncomputable def Col.beta (c : Col 𝕜 E) (i : Nat) : ℝ := RCLike.re (c.h (i + 1) i)

/-- clause: in the first `j` steps the clipped normalisation `new_vec /= clip(norm, tol/2)` never
changed a non-zero norm -/
def NoClip (tol : ℝ) (j : Nat) (c : Col 𝕜 E) : Prop :=
  ∀ i, i < j → c.beta i = 0 ∨ tol / 2 ≤ c.beta i

variable {A : E →ₗ[𝕜] E} {M : Nat} {v : E} {tol : ℝ}

theorem Inv.beta_eq {j : Nat} {c : Col 𝕜 E} (hc : Inv A M v tol j c) (i : Nat) (hi : i < j) :
    c.h (i + 1) i = ((c.beta i : ℝ) : 𝕜) ∧ 0 ≤ c.beta i := by
  obtain ⟨β, h0, h1, _, _⟩ := hc.rel i hi
  unfold Col.beta
  rw [h1, RCLike.ofReal_re]
  exact ⟨rfl, h0⟩

/-- sub-diagonal is real and non-negative everywhere in the buffer -/
theorem Inv.subdiag_nonneg {j : Nat} {c : Col 𝕜 E} (hc : Inv A M v tol j c) (i : Nat) :
    c.h (i + 1) i = ((c.beta i : ℝ) : 𝕜) ∧ 0 ≤ c.beta i := by
  by_cases hi : i < j
  · exact hc.beta_eq i hi
  · have : c.h (i + 1) i = 0 := hc.hZeroCol i (by omega) _
    unfold Col.beta
    rw [this]; simp

/-- the clip factor of step `i` is positive -/
theorem clip_pos (htol : 0 < tol) (β : ℝ) : 0 < max β (tol / 2) :=
  lt_of_lt_of_le (by linarith) (le_max_right _ _)

/-- exact breakdown in step `i`: the next column of `Q` is zero -/
theorem Inv.next_zero_of_beta_zero (htol : 0 < tol) {j : Nat} {c : Col 𝕜 E}
    (hc : Inv A M v tol j c) (i : Nat) (hi : i < j) (hβ : c.beta i = 0) : c.q (i + 1) = 0 := by
  obtain ⟨β, _, h1, _, h3⟩ := hc.rel i hi
  have hβ' : β = 0 := by
    have := congrArg RCLike.re h1
    rw [RCLike.ofReal_re] at this
    rw [← this]; exact hβ
  rw [hβ', norm_smul] at h3
  have hne : ‖(((max (0 : ℝ) (tol / 2) : ℝ)) : 𝕜)‖ ≠ 0 := by
    rw [norm_ne_zero_iff]
    exact_mod_cast (ne_of_gt (clip_pos htol 0))
  have := (mul_eq_zero.mp h3).resolve_left hne
  exact norm_eq_zero.mp this

/-- **Arnoldi relation** for the executed steps: `A q_i = Σ_{l ≤ i+1} H[l,i] q_l` -/
theorem Inv.relation (htol : 0 < tol) {j : Nat} {c : Col 𝕜 E} (hc : Inv A M v tol j c)
    (hnc : NoClip tol j c) (i : Nat) (hi : i < j) :
    A (c.q i) = ∑ l ∈ range (i + 2), c.h l i • c.q l := by
  obtain ⟨β, h0, h1, h2, h3⟩ := hc.rel i hi
  have hb : c.beta i = β := by
    unfold Col.beta; rw [h1, RCLike.ofReal_re]
  rw [sum_range_succ, h2]
  congr 1
  rcases hnc i hi with hz | hge
  · rw [hc.next_zero_of_beta_zero htol i hi hz]; simp
  · rw [hb] at hge
    rw [max_eq_left hge, h1]

/-- the relation the code establishes when the clip *is* active (`0 < β < tol/2`): the textbook
relation fails by `(tol/2 − β) q_{i+1} ≠ 0` -/
theorem Inv.relation_fails_of_clip {j : Nat} {c : Col 𝕜 E}
    (hc : Inv A M v tol j c) (i : Nat) (hi : i < j) (hpos : 0 < c.beta i)
    (hlt : c.beta i < tol / 2) :
    A (c.q i) ≠ ∑ l ∈ range (i + 2), c.h l i • c.q l := by
  obtain ⟨β, h0, h1, h2, h3⟩ := hc.rel i hi
  have hb : c.beta i = β := by
    unfold Col.beta; rw [h1, RCLike.ofReal_re]
  rw [hb] at hpos hlt
  rw [sum_range_succ, h2, max_eq_right (le_of_lt hlt), h1]
  intro heq
  have heq' := add_left_cancel heq
  have hq : c.q (i + 1) ≠ 0 := by
    intro hz
    rw [hz, smul_zero, norm_zero] at h3
    linarith
  have : (((tol / 2 : ℝ) : 𝕜) - ((β : ℝ) : 𝕜)) • c.q (i + 1) = 0 := by
    rw [sub_smul, heq', sub_self]
  rcases smul_eq_zero.mp this with h | h
  · have h' : ((tol / 2 - β : ℝ) : 𝕜) = 0 := by rw [RCLike.ofReal_sub]; exact h
    have : tol / 2 - β = 0 := by exact_mod_cast h'
    linarith
  · exact hq h

/-! ### later steps do not touch earlier columns -/

theorem colAfter_frozen (htol : 0 < tol) (hv : v ≠ 0) (j' : Nat) :
    ∀ j, j' ≤ j → j ≤ M →
      (∀ l, l ≤ j' → (colAfter (⇑A) ((tol : ℝ) : 𝕜) j (initCol (α := 𝕜) M v)).q l =
          (colAfter (⇑A) ((tol : ℝ) : 𝕜) j' (initCol (α := 𝕜) M v)).q l) ∧
      (∀ i, i < j' → ∀ l, (colAfter (⇑A) ((tol : ℝ) : 𝕜) j (initCol (α := 𝕜) M v)).h l i =
          (colAfter (⇑A) ((tol : ℝ) : 𝕜) j' (initCol (α := 𝕜) M v)).h l i) := by
  intro j hj
  induction j, hj using Nat.le_induction with
  | base => intro _; exact ⟨fun _ _ => rfl, fun _ _ _ => rfl⟩
  | succ j hj ih =>
    intro hjM
    obtain ⟨ih1, ih2⟩ := ih (by omega)
    have hinv := inv_colAfter A M v tol hv htol j (by omega)
    have hjQ : j + 1 < (colAfter (⇑A) ((tol : ℝ) : 𝕜) j (initCol (α := 𝕜) M v)).Q.size := by
      rw [hinv.sizeQ]; omega
    have hjH : j < (colAfter (⇑A) ((tol : ℝ) : 𝕜) j (initCol (α := 𝕜) M v)).H.size := by
      rw [hinv.sizeH]; omega
    constructor
    · intro l hl
      show (stepCol (⇑A) ((tol : ℝ) : 𝕜) j _).q l = _
      rw [stepCol_q A tol j _ hjQ, if_neg (by omega)]
      exact ih1 l hl
    · intro i hi l
      show (stepCol (⇑A) ((tol : ℝ) : 𝕜) j _).h l i = _
      rw [stepCol_h A tol j _ hjH hjQ, if_neg (by omega)]
      exact ih2 i hi l

/-- orthonormality of the first `r + 1` columns when the clip was inactive in the first `r`
steps — for the buffers after any number `j ≥ r` of steps -/
theorem orthonormal_prefix (htol : 0 < tol) (hv : v ≠ 0) (r j : Nat) (hr : r ≤ j) (hj : j ≤ M)
    (hun : ∀ i, i < r →
      tol / 2 ≤ (colAfter (⇑A) ((tol : ℝ) : 𝕜) j (initCol (α := 𝕜) M v)).beta i) :
    ∀ a, a ≤ r → ∀ b, b ≤ r →
      ⟪(colAfter (⇑A) ((tol : ℝ) : 𝕜) j (initCol (α := 𝕜) M v)).q a,
        (colAfter (⇑A) ((tol : ℝ) : 𝕜) j (initCol (α := 𝕜) M v)).q b⟫_𝕜 = if a = b then 1 else 0 := by
  obtain ⟨f1, f2⟩ := colAfter_frozen (A := A) (M := M) htol hv r j hr hj
  have hinv := inv_colAfter A M v tol hv htol r (by omega)
  have hun' : ∀ i, i < r →
      tol / 2 ≤ RCLike.re ((colAfter (⇑A) ((tol : ℝ) : 𝕜) r (initCol (α := 𝕜) M v)).h (i + 1) i) := by
    intro i hi
    have := hun i hi
    unfold Col.beta at this
    rwa [f2 i hi] at this
  obtain ⟨hON, hlast⟩ := hinv.orth (fun i hi => hun' i (by omega))
  have hunit := hinv.unitLast hun'
  intro a ha b hb
  rw [f1 a ha, f1 b hb]
  by_cases ha' : a = r
  · by_cases hb' : b = r
    · rw [ha', hb', if_pos rfl]; exact hunit
    · rw [ha', if_neg (by omega), ← inner_conj_symm, hlast b (by omega)]; simp
  · by_cases hb' : b = r
    · rw [hb', if_neg ha']; exact hlast a (by omega)
    · exact hON a (by omega) b (by omega)

/-! ### rank of the factorisation -/

omit [NormedAddCommGroup E] [InnerProductSpace 𝕜 E] in
/-- under `NoClip` there is a rank `r`: the first `r` sub-diagonal entries are `≥ tol/2` (hence
positive), and either `r = j` (no breakdown) or `β_r = 0` (exact breakdown in step `r`) -/
theorem exists_rank {j : Nat} {c : Col 𝕜 E} (hnc : NoClip tol j c) :
    ∃ r, r ≤ j ∧ (∀ i, i < r → tol / 2 ≤ c.beta i) ∧ (r = j ∨ c.beta r = 0) := by
  induction j with
  | zero => exact ⟨0, le_refl _, fun i hi => by omega, Or.inl rfl⟩
  | succ j ih =>
    obtain ⟨r, hr, h1, h2⟩ := ih (fun i hi => hnc i (by omega))
    rcases h2 with h2 | h2
    · subst h2
      rcases hnc r (by omega) with h0 | hge
      · exact ⟨r, by omega, h1, Or.inr h0⟩
      · refine ⟨r + 1, le_refl _, ?_, Or.inl rfl⟩
        intro i hi
        by_cases h : i = r
        · subst h; exact hge
        · exact h1 i (by omega)
    · exact ⟨r, by omega, h1, Or.inr h2⟩

/-- after an exact breakdown in step `r` every later column of `Q` and of `H` is zero -/
theorem Inv.zero_after_breakdown (htol : 0 < tol) {j : Nat} {c : Col 𝕜 E}
    (hc : Inv A M v tol j c) (r : Nat) (hr : r < j) (hβ : c.beta r = 0) :
    (∀ l, r < l → c.q l = 0) ∧ (∀ i, r < i → ∀ l, c.h l i = 0) := by
  have hq : ∀ l, r < l → c.q l = 0 := by
    intro l hl
    induction l, hl using Nat.le_induction with
    | base => exact hc.next_zero_of_beta_zero htol r hr hβ
    | succ l hl ih =>
      by_cases hlj : l < j
      · exact (hc.dead l hlj ih).2
      · exact hc.qZero (l + 1) (by omega)
  refine ⟨hq, ?_⟩
  intro i hi l
  by_cases hij : i < j
  · exact (hc.dead i hij (hq i hi)).1 l
  · exact hc.hZeroCol i (by omega) l

/-- **full-buffer relation** `A Q[:, :M] = Q H`: holds when the loop ran to the requested cap or
the column after the last executed step is zero (exact breakdown) -/
theorem Inv.full_relation (htol : 0 < tol) {j : Nat} {c : Col 𝕜 E} (hc : Inv A M v tol j c)
    (_hjM : j ≤ M) (hnc : NoClip tol j c) (hstop : j = M ∨ c.q j = 0) (i : Nat) (hi : i < M) :
    A (c.q i) = ∑ l ∈ range (M + 1), c.h l i • c.q l := by
  by_cases hij : i < j
  · rw [hc.relation htol hnc i hij]
    apply sum_subset
    · intro l hl; rw [mem_range] at hl ⊢; omega
    · intro l _ hl
      rw [mem_range] at hl
      rw [hc.hHess i l (by omega), zero_smul]
  · have hq : c.q i = 0 := by
      by_cases h : i = j
      · rcases hstop with h' | h'
        · omega
        · rw [h]; exact h'
      · exact hc.qZero i (by omega)
    rw [hq, map_zero]
    symm
    apply sum_eq_zero
    intro l _
    rw [hc.hZeroCol i (by omega) l, zero_smul]

/-! ### the dimension cap: with `n = dim E` orthonormal columns the next one vanishes -/

theorem eq_zero_of_orthogonal_of_card [FiniteDimensional 𝕜 E] (n : Nat) (hn0 : 0 < n)
    (hn : Module.finrank 𝕜 E = n) (q : Nat → E)
    (hON : ∀ a, a < n → ∀ b, b < n → ⟪q a, q b⟫_𝕜 = if a = b then 1 else 0)
    (x : E) (hx : ∀ a, a < n → ⟪q a, x⟫_𝕜 = 0) : x = 0 := by
  have : Nonempty (Fin n) := ⟨⟨0, hn0⟩⟩
  let f : Fin n → E := fun a => q a.val
  have hf : Orthonormal 𝕜 f := by
    rw [orthonormal_iff_ite]
    intro a b
    rw [hON a.val a.isLt b.val b.isLt]
    by_cases h : a = b
    · simp [h]
    · have : a.val ≠ b.val := fun hh => h (Fin.ext hh)
      simp [h, this]
  have hcard : Fintype.card (Fin n) = Module.finrank 𝕜 E := by simp [hn]
  let b := basisOfOrthonormalOfCardEqFinrank hf hcard
  have hb : ⇑b = f := coe_basisOfOrthonormalOfCardEqFinrank hf hcard
  let ob : OrthonormalBasis (Fin n) 𝕜 E :=
    OrthonormalBasis.mk (v := f) hf (by rw [← hb]; exact (Module.Basis.span_eq b).ge)
  have hob : ⇑ob = f := OrthonormalBasis.coe_mk hf _
  rw [← ob.sum_repr' x]
  apply sum_eq_zero
  intro a _
  rw [hob]
  show ⟪q a.val, x⟫_𝕜 • q a.val = 0
  rw [hx a.val a.isLt, zero_smul]

/-- **(c)**: after `n = dim E` unclipped steps the `(n+1)`-th column of `Q` is zero and the
last sub-diagonal entry vanishes: "m+1 orthonormal columns" is impossible for `m = n` -/
theorem Inv.cap_column_zero [FiniteDimensional 𝕜 E] {n : Nat} {c : Col 𝕜 E}
    (hn : Module.finrank 𝕜 E = n) (hn0 : 0 < n) (hc : Inv A M v tol n c)
    (hun : ∀ i, i + 1 < n → tol / 2 ≤ c.beta i) :
    c.q n = 0 ∧ c.beta (n - 1) = 0 := by
  obtain ⟨hON, hlast⟩ := hc.orth hun
  have hq : c.q n = 0 := eq_zero_of_orthogonal_of_card n hn0 hn c.q hON (c.q n) hlast
  refine ⟨hq, ?_⟩
  obtain ⟨β, h0, h1, _, h3⟩ := hc.rel (n - 1) (by omega)
  have hn1 : n - 1 + 1 = n := by omega
  rw [hn1] at h1 h3
  rw [hq, smul_zero, norm_zero] at h3
  unfold Col.beta
  rw [hn1, h1, RCLike.ofReal_re]
  exact h3.symm

end Arnoldi
