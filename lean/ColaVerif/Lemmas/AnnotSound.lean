import ColaVerif.Lemmas.AnnotSoundAux
import ColaVerif.Lemmas.OpMatmat

/-!
# C05: the annotation inference (`Op.anns`) is sound for the represented matrix

* `Op.sameObj_sound` — operators that the model identifies (`sameObj`, Python `is`) have the same
  shape and the same represented matrix on the window.
* `Op.LeavesTrue` — every *declared* annotation (`annot a B` = `cola.PSD(B)` etc.) is true.
* `Op.scalarTimesAnnotated` (Bool) / `Op.NoScalarTimesAnnotated` — the recorded defect of the
  inference: a `Product` with a `ScalarMul` member and exactly one other member inherits that
  member's annotations.
* `Op.GramTransposeReal` — at a Gram pattern detected through a `Transpose` wrapper (accepted by
  the code only for a real dtype) the member's payload really is real (`star`-fixed).
* `Op.anns_sound` — under these hypotheses every reported annotation holds, at every node;
  `Op.hermOK_of_sound` — hence `HermOK`.
-/

open Matrix
open scoped Kronecker ComplexOrder

/-! ## membership in the list-coded annotation sets -/

namespace AnnSet

theorem mem_inter {a : Ann} {s t : AnnSet} : a ∈ inter s t ↔ a ∈ s ∧ a ∈ t := by
  simp [inter]

theorem mem_diff {a : Ann} {s t : AnnSet} : a ∈ diff s t ↔ a ∈ s ∧ a ∉ t := by
  simp [diff]

theorem mem_union {a : Ann} {s t : AnnSet} : a ∈ union s t ↔ a ∈ s ∨ a ∈ t := by
  simp only [union, List.mem_append, List.mem_filter, List.contains_eq_mem, Bool.not_eq_true',
    decide_eq_false_iff_not]
  constructor
  · rintro (h | ⟨h, _⟩)
    · exact Or.inl h
    · exact Or.inr h
  · rintro (h | h)
    · exact Or.inl h
    · by_cases hs : a ∈ s
      · exact Or.inl hs
      · exact Or.inr ⟨h, hs⟩

theorem mem_foldl_inter {a : Ann} : ∀ (rest : List AnnSet) (s : AnnSet),
    a ∈ rest.foldl inter s ↔ a ∈ s ∧ ∀ t ∈ rest, a ∈ t
  | [], s => by simp
  | t :: rest, s => by
    rw [List.foldl_cons, mem_foldl_inter rest, mem_inter]
    simp only [List.mem_cons, forall_eq_or_imp, and_assoc]

theorem mem_interAll {a : Ann} {L : List AnnSet} (h : a ∈ interAll L) : ∀ s ∈ L, a ∈ s := by
  cases L with
  | nil => simp [interAll] at h
  | cons s rest =>
    rw [interAll, mem_foldl_inter] at h
    intro t ht
    rcases List.mem_cons.mp ht with rfl | ht
    · exact h.1
    · exact h.2 t ht

theorem mem_interAll_map {α : Type} {a : Ann} {L : List α} {f : α → AnnSet}
    (h : a ∈ interAll (L.map f)) : ∀ x ∈ L, a ∈ f x :=
  fun x hx => mem_interAll h _ (List.mem_map.mpr ⟨x, hx, rfl⟩)

theorem mem_interAll_iff {a : Ann} {L : List AnnSet} (hne : L ≠ []) :
    a ∈ interAll L ↔ ∀ s ∈ L, a ∈ s := by
  refine ⟨mem_interAll, fun h => ?_⟩
  cases L with
  | nil => exact absurd rfl hne
  | cons s rest =>
    rw [interAll, mem_foldl_inter]
    exact ⟨h s List.mem_cons_self, fun t ht => h t (List.mem_cons_of_mem _ ht)⟩

end AnnSet

/-- an annotation outside `{unitary, stiefel}` is `selfAdjoint` or `psd` -/
theorem Ann.sa_or_psd {a : Ann} (h : a ∉ [Ann.unitary, Ann.stiefel]) :
    a = .selfAdjoint ∨ a = .psd := by
  cases a <;> simp at h ⊢

theorem Ann.st_or_un {a : Ann} (h : a ∈ [Ann.unitary, Ann.stiefel]) :
    a = .stiefel ∨ a = .unitary := by
  cases a <;> simp at h ⊢

namespace Op

section generic
variable {R : Type} [CommRing R] [StarRing R] [DecidableEq R]

/-! ## declaration wrappers do not change shape or matrix -/

omit [CommRing R] [StarRing R] [DecidableEq R] in
theorem core_rows : ∀ (A : Op R), A.core.rows = A.rows
  | annot a A => by rw [core, core_rows A]; simp only [Op.rows]
  | dense .. | tri .. | sparse .. | scalar .. | eye .. | prod .. | sum .. | kron .. | kronsum ..
  | bdiag .. | diag .. | tridiag .. | transpose .. | adjoint .. | sliced .. | perm .. | concat ..
  | house .. | generic .. => by simp only [core]

omit [CommRing R] [StarRing R] [DecidableEq R] in
theorem core_cols : ∀ (A : Op R), A.core.cols = A.cols
  | annot a A => by rw [core, core_cols A]; simp only [Op.cols]
  | dense .. | tri .. | sparse .. | scalar .. | eye .. | prod .. | sum .. | kron .. | kronsum ..
  | bdiag .. | diag .. | tridiag .. | transpose .. | adjoint .. | sliced .. | perm .. | concat ..
  | house .. | generic .. => by simp only [core]

omit [DecidableEq R] in
theorem core_den : ∀ (A : Op R), A.core.den = A.den
  | annot a A => by rw [core, core_den A]; simp only [Op.den]
  | dense .. | tri .. | sparse .. | scalar .. | eye .. | prod .. | sum .. | kron .. | kronsum ..
  | bdiag .. | diag .. | tridiag .. | transpose .. | adjoint .. | sliced .. | perm .. | concat ..
  | house .. | generic .. => by simp only [core]

omit [CommRing R] [StarRing R] [DecidableEq R] in
theorem core_wf : ∀ (A : Op R), A.core.wf = A.wf
  | annot a A => by rw [core, core_wf A]; simp only [Op.wf]
  | dense .. | tri .. | sparse .. | scalar .. | eye .. | prod .. | sum .. | kron .. | kronsum ..
  | bdiag .. | diag .. | tridiag .. | transpose .. | adjoint .. | sliced .. | perm .. | concat ..
  | house .. | generic .. => by simp only [core]

/-! ## `sameObj` (Python `is`) identifies operators with the same window matrix -/

omit [CommRing R] [StarRing R] in
theorem winEq_eqOn {r c : Nat} {a b : MatF R} (h : winEq r c a b = true) : EqOn r c a b := by
  intro i j hi hj
  simp only [winEq, List.all_eq_true, List.mem_range, decide_eq_true_eq] at h
  exact h i hi j hj

omit [CommRing R] [StarRing R] in
theorem vecEq_eq {n : Nat} {a b : Nat → R} (h : vecEq n a b = true) : ∀ i, i < n → a i = b i := by
  simp only [vecEq, List.all_eq_true, List.mem_range, decide_eq_true_eq] at h
  exact h

/-- same shape and same represented matrix on the window -/
def Same (A B : Op R) : Prop :=
  A.rows = B.rows ∧ A.cols = B.cols ∧ EqOn A.rows A.cols A.den.f B.den.f

omit [CommRing R] [StarRing R] in
theorem sameList_forall₂ : ∀ (Ms Ms' : List (Op R)), sameObj.sameList Ms Ms' = true →
    List.Forall₂ (fun M M' => sameObj M M' = true) Ms Ms'
  | [], [], _ => List.Forall₂.nil
  | M :: Ms, M' :: Ms', h => by
    simp only [sameObj.sameList, Bool.and_eq_true] at h
    exact List.Forall₂.cons h.1 (sameList_forall₂ Ms Ms' h.2)
  | [], _ :: _, h => by simp [sameObj.sameList] at h
  | _ :: _, [], h => by simp [sameObj.sameList] at h

omit [DecidableEq R] in
theorem same_members {Ms Ms' : List (Op R)} {P : Op R → Op R → Prop}
    (h : List.Forall₂ P Ms Ms') (ih : ∀ M ∈ Ms, ∀ B, P M B → Same M B) :
    List.Forall₂ Same Ms Ms' := by
  induction h with
  | nil => exact List.Forall₂.nil
  | cons h1 _ ih2 =>
    exact List.Forall₂.cons (ih _ List.mem_cons_self _ h1)
      (ih2 (fun M hM => ih M (List.mem_cons_of_mem _ hM)))

omit [DecidableEq R] in
theorem Same.map_rows {Ms Ms' : List (Op R)} (h : List.Forall₂ Same Ms Ms') :
    Ms.map (·.rows) = Ms'.map (·.rows) := by
  induction h with
  | nil => rfl
  | cons h1 _ ih => simp only [List.map_cons, h1.1, ih]

omit [DecidableEq R] in
theorem Same.map_cols {Ms Ms' : List (Op R)} (h : List.Forall₂ Same Ms Ms') :
    Ms.map (·.cols) = Ms'.map (·.cols) := by
  induction h with
  | nil => rfl
  | cons h1 _ ih => simp only [List.map_cons, h1.2.1, ih]

omit [DecidableEq R] in
/-- two member lists as one list of pairs, for the `FacEqOn` congruence lemmas -/
theorem Same.facEqOn {Ms Ms' : List (Op R)} (h : List.Forall₂ Same Ms Ms') :
    FacEqOn (Ms.zip Ms') (fun p => facDen p.1) (fun p => facDen (R := R) p.2) := by
  induction h with
  | nil => intro x hx; simp at hx
  | cons h1 _ ih =>
    intro x hx
    simp only [List.zip_cons_cons, List.mem_cons] at hx
    rcases hx with rfl | hx
    · exact ⟨h1.1, h1.2.1, h1.2.2⟩
    · exact ih x hx

omit [CommRing R] [StarRing R] [DecidableEq R] in
theorem map_zip_fst {α β γ : Type} (f : α → γ) : ∀ (l : List α) (l' : List β),
    l.length = l'.length → (l.zip l').map (fun p => f p.1) = l.map f
  | [], [], _ => rfl
  | a :: l, b :: l', h => by
    simp only [List.zip_cons_cons, List.map_cons]
    rw [map_zip_fst f l l' (by simpa using h)]
  | [], _ :: _, h => by simp at h
  | _ :: _, [], h => by simp at h

omit [CommRing R] [StarRing R] [DecidableEq R] in
theorem map_zip_snd {α β γ : Type} (f : β → γ) : ∀ (l : List α) (l' : List β),
    l.length = l'.length → (l.zip l').map (fun p => f p.2) = l'.map f
  | [], [], _ => rfl
  | a :: l, b :: l', h => by
    simp only [List.zip_cons_cons, List.map_cons]
    rw [map_zip_snd f l l' (by simpa using h)]
  | [], _ :: _, h => by simp at h
  | _ :: _, [], h => by simp at h

omit [DecidableEq R] in
theorem denChain_same : ∀ (Ms Ms' : List (Op R)) (M0 M0' : Op R), Same M0 M0' →
    List.Forall₂ Same Ms Ms' →
    chainOk ((M0 :: Ms).map (fun M => (M.rows, M.cols))) = true →
    EqOn M0.rows (((M0 :: Ms).map (·.cols)).getLast?.getD 0)
      (denChain (M0 :: Ms)) (denChain (M0' :: Ms'))
  | [], _, M0, M0', h0, h, _ => by
    cases h
    simp only [List.map_cons, List.map_nil, List.getLast?_singleton, Option.getD_some,
      denChain_cons]
    rw [← h0.2.1]
    exact mmul_congr h0.2.2 (EqOn.refl _ _ _)
  | M1 :: Ms, _, M0, M0', h0, h, hc => by
    cases h with
    | cons h1 hrest =>
      simp only [List.map_cons, chainOk, Bool.and_eq_true, beq_iff_eq] at hc
      have ih := denChain_same Ms _ M1 _ h1 hrest (by simpa using hc.2)
      rw [← hc.1] at ih
      simp only [List.map_cons, List.getLast?_cons_cons] at ih ⊢
      rw [denChain_cons, denChain_cons M0', ← h0.2.1]
      exact mmul_congr h0.2.2 ih

omit [CommRing R] [StarRing R] [DecidableEq R] in
theorem foldr_addM_congr [Add R] [Zero R] (r c : Nat) {L L' : List (MatF R)}
    (h : List.Forall₂ (EqOn r c) L L') : EqOn r c (L.foldr addM zeroM) (L'.foldr addM zeroM) := by
  induction h with
  | nil => exact EqOn.refl _ _ _
  | cons h1 _ ih =>
    intro i j hi hj
    simp only [List.foldr_cons, addM]
    rw [h1 i j hi hj, ih i j hi hj]

omit [CommRing R] [StarRing R] [DecidableEq R] in
theorem hstack_congr [Zero R] (r : Nat) {L L' : List (Nat × MatF R)}
    (h : List.Forall₂ (fun p q => p.1 = q.1 ∧ EqOn r p.1 p.2 q.2) L L') :
    ∀ i j, i < r → hstack L i j = hstack L' i j := by
  induction h with
  | nil => intro i j _; rfl
  | @cons p q _ _ h1 _ ih =>
    intro i j hi
    obtain ⟨c, m⟩ := p
    obtain ⟨c', m'⟩ := q
    obtain ⟨rfl, h2⟩ := h1
    simp only [hstack]
    by_cases hj : j < c
    · simp only [hj, if_true]; exact h2 i j hi hj
    · simp only [hj, if_false]; exact ih i (j - c) hi

omit [CommRing R] [StarRing R] [DecidableEq R] in
theorem vstack_congr [Zero R] (c : Nat) {L L' : List (Nat × MatF R)}
    (h : List.Forall₂ (fun p q => p.1 = q.1 ∧ EqOn p.1 c p.2 q.2) L L') :
    ∀ i j, j < c → vstack L i j = vstack L' i j := by
  induction h with
  | nil => intro i j _; rfl
  | @cons p q _ _ h1 _ ih =>
    intro i j hj
    obtain ⟨r, m⟩ := p
    obtain ⟨r', m'⟩ := q
    obtain ⟨rfl, h2⟩ := h1
    simp only [vstack]
    by_cases hi : i < r
    · simp only [hi, if_true]; exact h2 i j hi hj
    · simp only [hi, if_false]; exact ih (i - r) j hj

omit [DecidableEq R] in
theorem same_prod {Ms Ms' : List (Op R)} (hw : (prod Ms).wf = true)
    (h : List.Forall₂ Same Ms Ms') : Same (prod Ms) (prod Ms') := by
  simp only [Op.wf, Bool.and_eq_true] at hw
  cases h with
  | nil => simp at hw
  | @cons M0 M0' Ms Ms' h0 hrest =>
    have hr := Same.map_rows (List.Forall₂.cons h0 hrest)
    have hc := Same.map_cols (List.Forall₂.cons h0 hrest)
    refine ⟨?_, ?_, ?_⟩
    · simp only [Op.rows, hr]
    · simp only [Op.cols, hc]
    · have key := denChain_same Ms Ms' M0 M0' h0 hrest hw.2
      simp only [Op.rows, Op.cols, Op.den, forceV_f, List.map_cons, List.head?_cons,
        Option.getD_some] at key ⊢
      exact key

omit [DecidableEq R] in
theorem same_sum {Ms Ms' : List (Op R)} (hw : (sum Ms).wf = true)
    (h : List.Forall₂ Same Ms Ms') : Same (sum Ms) (sum Ms') := by
  have hsh0 := sum_shapes Ms hw
  have hr := Same.map_rows h
  have hc := Same.map_cols h
  refine ⟨?_, ?_, ?_⟩
  · simp only [Op.rows, hr]
  · simp only [Op.cols, hc]
  · have hF : ∀ r c, (∀ M ∈ Ms, M.rows = r ∧ M.cols = c) →
        List.Forall₂ (EqOn r c) (Ms.map (·.den.f)) (Ms'.map (·.den.f)) := by
      intro r c hsh
      rw [List.forall₂_map_left_iff, List.forall₂_map_right_iff]
      clear hr hc hw hsh0
      induction h with
      | nil => exact List.Forall₂.nil
      | @cons M M' _ _ h1 _ ih =>
        refine List.Forall₂.cons ?_ (ih (fun N hN => hsh N (List.mem_cons_of_mem _ hN)))
        have := hsh M List.mem_cons_self
        rw [← this.1, ← this.2]
        exact h1.2.2
    have key := foldr_addM_congr _ _ (hF _ _ hsh0)
    simp only [Op.den, forceV_f]
    exact key

omit [DecidableEq R] in
theorem same_kron {Ms Ms' : List (Op R)} (h : List.Forall₂ Same Ms Ms') :
    Same (kron Ms) (kron Ms') := by
  have hr := Same.map_rows h
  have hc := Same.map_cols h
  have hlen := h.length_eq
  refine ⟨?_, ?_, ?_⟩
  · simp only [Op.rows, hr]
  · simp only [Op.cols, hc]
  · intro I J hI hJ
    simp only [Op.rows] at hI
    simp only [Op.cols] at hJ
    have e1 : (Ms.zip Ms').map (fun p => facDen (R := R) p.1) = Ms.map facDen :=
      map_zip_fst facDen Ms Ms' hlen
    have e2 : (Ms.zip Ms').map (fun p => facDen (R := R) p.2) = Ms'.map facDen :=
      map_zip_snd facDen Ms Ms' hlen
    have key := kronDen_congr (fun p : Op R × Op R => facDen p.1) (fun p => facDen p.2)
      (Ms.zip Ms') (Same.facEqOn h) I J
      (by rw [e1, List.map_map]; exact hI) (by rw [e1, List.map_map]; exact hJ)
    rw [e1, e2] at key
    simp only [Op.den, forceV_f]
    exact key

omit [DecidableEq R] in
theorem same_kronsum {Ms Ms' : List (Op R)} (h : List.Forall₂ Same Ms Ms') :
    Same (kronsum Ms) (kronsum Ms') := by
  have hr := Same.map_rows h
  have hc := Same.map_cols h
  have hlen := h.length_eq
  refine ⟨?_, ?_, ?_⟩
  · simp only [Op.rows, hr]
  · simp only [Op.cols, hc]
  · intro I J hI hJ
    simp only [Op.rows] at hI
    simp only [Op.cols] at hJ
    have e1 : (Ms.zip Ms').map (fun p => facDen (R := R) p.1) = Ms.map facDen :=
      map_zip_fst facDen Ms Ms' hlen
    have e2 : (Ms.zip Ms').map (fun p => facDen (R := R) p.2) = Ms'.map facDen :=
      map_zip_snd facDen Ms Ms' hlen
    have key := kronSumDen_congr (fun p : Op R × Op R => facDen p.1) (fun p => facDen p.2)
      (Ms.zip Ms') (Same.facEqOn h) I J
      (by rw [e1, List.map_map]; exact hI) (by rw [e1, List.map_map]; exact hJ)
    rw [e1, e2] at key
    simp only [Op.den, forceV_f]
    exact key

omit [DecidableEq R] in
theorem same_bdiag {Ms Ms' : List (Op R)} (mults : List Nat) (h : List.Forall₂ Same Ms Ms') :
    Same (bdiag Ms mults) (bdiag Ms' mults) := by
  have hr := Same.map_rows h
  have hc := Same.map_cols h
  have hlen := h.length_eq
  refine ⟨?_, ?_, ?_⟩
  · simp only [Op.rows, hr]
  · simp only [Op.cols, hc]
  · intro I J _ _
    have e1 : (Ms.zip Ms').map (fun p => facDen (R := R) p.1) = Ms.map facDen :=
      map_zip_fst facDen Ms Ms' hlen
    have e2 : (Ms.zip Ms').map (fun p => facDen (R := R) p.2) = Ms'.map facDen :=
      map_zip_snd facDen Ms Ms' hlen
    have key := bdiagDen_congr (fun p : Op R × Op R => facDen p.1) (fun p => facDen p.2)
      (Ms.zip Ms') mults (Same.facEqOn h) I J
    rw [e1, e2] at key
    simp only [Op.den, forceV_f]
    exact key

omit [DecidableEq R] in
theorem same_concat_h {Ms Ms' : List (Op R)} (hw : (concat true Ms).wf = true)
    (h : List.Forall₂ Same Ms Ms') : Same (concat true Ms) (concat true Ms') := by
  have hsh0 := concat_shapes_h Ms hw
  have hr := Same.map_rows h
  have hc := Same.map_cols h
  refine ⟨?_, ?_, ?_⟩
  · simp only [Op.rows, hr]
  · simp only [Op.cols, hc]
  · have hF : ∀ r, (∀ M ∈ Ms, M.rows = r) → List.Forall₂ (fun p q : Nat × MatF R =>
        p.1 = q.1 ∧ EqOn r p.1 p.2 q.2)
        (Ms.map (fun M => (M.cols, M.den.f))) (Ms'.map (fun M => (M.cols, M.den.f))) := by
      intro r hsh
      rw [List.forall₂_map_left_iff, List.forall₂_map_right_iff]
      clear hr hc hw hsh0
      induction h with
      | nil => exact List.Forall₂.nil
      | @cons M M' _ _ h1 _ ih =>
        refine List.Forall₂.cons ⟨h1.2.1, ?_⟩ (ih (fun N hN => hsh N (List.mem_cons_of_mem _ hN)))
        rw [← hsh M List.mem_cons_self]
        exact h1.2.2
    intro i j hi _
    have key := hstack_congr _ (hF _ hsh0) i j hi
    simp only [Op.den, if_true, MatV.of_f]
    exact key

omit [DecidableEq R] in
theorem same_concat_v {Ms Ms' : List (Op R)} (hw : (concat false Ms).wf = true)
    (h : List.Forall₂ Same Ms Ms') : Same (concat false Ms) (concat false Ms') := by
  have hsh0 := concat_shapes_v Ms hw
  have hr := Same.map_rows h
  have hc := Same.map_cols h
  refine ⟨?_, ?_, ?_⟩
  · simp only [Op.rows, hr]
  · simp only [Op.cols, hc]
  · have hF : ∀ c, (∀ M ∈ Ms, M.cols = c) → List.Forall₂ (fun p q : Nat × MatF R =>
        p.1 = q.1 ∧ EqOn p.1 c p.2 q.2)
        (Ms.map (fun M => (M.rows, M.den.f))) (Ms'.map (fun M => (M.rows, M.den.f))) := by
      intro c hsh
      rw [List.forall₂_map_left_iff, List.forall₂_map_right_iff]
      clear hr hc hw hsh0
      induction h with
      | nil => exact List.Forall₂.nil
      | @cons M M' _ _ h1 _ ih =>
        refine List.Forall₂.cons ⟨h1.1, ?_⟩ (ih (fun N hN => hsh N (List.mem_cons_of_mem _ hN)))
        rw [← hsh M List.mem_cons_self]
        exact h1.2.2
    intro i j _ hj
    have key := vstack_congr _ (hF _ hsh0) i j hj
    simp only [Op.den, Bool.false_eq_true, if_false, MatV.of_f]
    exact key

omit [DecidableEq R] in
theorem same_sliced {A A' : Op R} (s t : Ix) (h : Same A A') :
    Same (sliced A s t) (sliced A' s t) := by
  refine ⟨?_, ?_, ?_⟩
  · simp only [Op.rows, h.1]
  · simp only [Op.cols, h.2.1]
  · intro i j hi hj
    simp only [Op.rows] at hi
    simp only [Op.cols] at hj
    simp only [Op.den, MatV.of_f, slicedDen, ← h.1, ← h.2.1]
    exact h.2.2 _ _ (getD_resolve_lt _ _ _ (getD_mem_of_lt _ i hi))
      (getD_resolve_lt _ _ _ (getD_mem_of_lt _ j hj))

/-- **`sameObj` is sound**: operators identified by the model of Python `is` have the same shape
and the same represented matrix on the window. -/
theorem sameObj_sound : ∀ (A B : Op R), A.wf = true → sameObj A B = true → Same A B
  | dense d r c a, B, _, h => by
    cases B <;> simp only [sameObj, Bool.false_eq_true] at h
    simp only [Bool.and_eq_true, beq_iff_eq] at h
    obtain ⟨⟨⟨rfl, rfl⟩, rfl⟩, h4⟩ := h
    exact ⟨by simp only [Op.rows], by simp only [Op.cols],
      by simp only [Op.rows, Op.cols, Op.den, MatV.of_f]; exact winEq_eqOn h4⟩
  | tri d r c l a, B, _, h => by
    cases B <;> simp only [sameObj, Bool.false_eq_true] at h
    simp only [Bool.and_eq_true, beq_iff_eq] at h
    obtain ⟨⟨⟨⟨rfl, rfl⟩, rfl⟩, rfl⟩, h4⟩ := h
    exact ⟨by simp only [Op.rows], by simp only [Op.cols],
      by simp only [Op.rows, Op.cols, Op.den, MatV.of_f]; exact winEq_eqOn h4⟩
  | sparse d r c e, B, _, h => by
    cases B <;> simp only [sameObj, Bool.false_eq_true] at h
    simp only [Bool.and_eq_true, beq_iff_eq] at h
    obtain ⟨⟨⟨rfl, rfl⟩, rfl⟩, rfl⟩ := h
    exact ⟨rfl, rfl, EqOn.refl _ _ _⟩
  | scalar d s n, B, _, h => by
    cases B <;> simp only [sameObj, Bool.false_eq_true] at h
    simp only [Bool.and_eq_true, beq_iff_eq] at h
    obtain ⟨⟨rfl, rfl⟩, rfl⟩ := h
    exact ⟨rfl, rfl, EqOn.refl _ _ _⟩
  | eye d n, B, _, h => by
    cases B <;> simp only [sameObj, Bool.false_eq_true] at h
    simp only [Bool.and_eq_true, beq_iff_eq] at h
    obtain ⟨rfl, rfl⟩ := h
    exact ⟨rfl, rfl, EqOn.refl _ _ _⟩
  | prod Ms, B, hw, h => by
    cases B <;> simp only [sameObj, Bool.false_eq_true] at h
    have hw' := hw
    simp only [Op.wf, Bool.and_eq_true] at hw'
    exact same_prod hw (same_members (sameList_forall₂ _ _ h)
      (fun M hM B hB => sameObj_sound M B (wf_members hw'.1.2 M hM) hB))
  | sum Ms, B, hw, h => by
    cases B <;> simp only [sameObj, Bool.false_eq_true] at h
    have hw' := hw
    simp only [Op.wf, Bool.and_eq_true] at hw'
    exact same_sum hw (same_members (sameList_forall₂ _ _ h)
      (fun M hM B hB => sameObj_sound M B (wf_members hw'.1.2 M hM) hB))
  | kron Ms, B, hw, h => by
    cases B <;> simp only [sameObj, Bool.false_eq_true] at h
    simp only [Op.wf, Bool.and_eq_true] at hw
    exact same_kron (same_members (sameList_forall₂ _ _ h)
      (fun M hM B hB => sameObj_sound M B (wf_members hw.2 M hM) hB))
  | kronsum Ms, B, hw, h => by
    cases B <;> simp only [sameObj, Bool.false_eq_true] at h
    simp only [Op.wf, Bool.and_eq_true] at hw
    exact same_kronsum (same_members (sameList_forall₂ _ _ h)
      (fun M hM B hB => sameObj_sound M B (wf_members hw.1.2 M hM) hB))
  | bdiag Ms mults, B, hw, h => by
    cases B <;> simp only [sameObj, Bool.false_eq_true] at h
    simp only [Op.wf, Bool.and_eq_true] at hw
    simp only [Bool.and_eq_true, beq_iff_eq] at h
    obtain ⟨rfl, h⟩ := h
    exact same_bdiag mults (same_members (sameList_forall₂ _ _ h)
      (fun M hM B hB => sameObj_sound M B (wf_members hw.1.2 M hM) hB))
  | diag d n v, B, _, h => by
    cases B <;> simp only [sameObj, Bool.false_eq_true] at h
    simp only [Bool.and_eq_true, beq_iff_eq] at h
    obtain ⟨⟨rfl, rfl⟩, h3⟩ := h
    refine ⟨by simp only [Op.rows], by simp only [Op.cols], ?_⟩
    intro i j hi _
    simp only [Op.rows] at hi
    simp only [Op.den, MatV.of_f, diagM, vecEq_eq h3 i hi]
  | tridiag d n al be ga, B, _, h => by
    cases B <;> simp only [sameObj, Bool.false_eq_true] at h
    simp only [Bool.and_eq_true, beq_iff_eq] at h
    obtain ⟨⟨⟨⟨rfl, rfl⟩, h3⟩, h4⟩, h5⟩ := h
    refine ⟨by simp only [Op.rows], by simp only [Op.cols], ?_⟩
    intro i j hi hj
    simp only [Op.rows] at hi
    simp only [Op.cols] at hj
    simp only [Op.den, MatV.of_f, tridiagDen]
    split
    · exact vecEq_eq h4 i hi
    · split
      · exact vecEq_eq h3 j (by omega)
      · split
        · exact vecEq_eq h5 i (by omega)
        · rfl
  | transpose A, B, hw, h => by
    cases B <;> simp only [sameObj, Bool.false_eq_true] at h
    simp only [Op.wf] at hw
    obtain ⟨h1, h2, h3⟩ := sameObj_sound A _ hw h
    refine ⟨by simp only [Op.rows, h2], by simp only [Op.cols, h1], ?_⟩
    intro i j hi hj
    simp only [Op.rows] at hi
    simp only [Op.cols] at hj
    simp only [Op.den, MatV.of_f, transposeM]
    exact h3 j i hj hi
  | adjoint A, B, hw, h => by
    cases B <;> simp only [sameObj, Bool.false_eq_true] at h
    simp only [Op.wf] at hw
    obtain ⟨h1, h2, h3⟩ := sameObj_sound A _ hw h
    refine ⟨by simp only [Op.rows, h2], by simp only [Op.cols, h1], ?_⟩
    intro i j hi hj
    simp only [Op.rows] at hi
    simp only [Op.cols] at hj
    simp only [Op.den, MatV.of_f, transposeM, conjM]
    rw [h3 j i hj hi]
  | sliced A s t, B, hw, h => by
    cases B <;> simp only [sameObj, Bool.false_eq_true] at h
    simp only [Op.wf, Bool.and_eq_true] at hw
    simp only [Bool.and_eq_true, beq_iff_eq] at h
    obtain ⟨⟨rfl, rfl⟩, h⟩ := h
    exact same_sliced s t (sameObj_sound A _ hw.1.1 h)
  | perm d p, B, _, h => by
    cases B <;> simp only [sameObj, Bool.false_eq_true] at h
    simp only [Bool.and_eq_true, beq_iff_eq] at h
    obtain ⟨rfl, rfl⟩ := h
    exact ⟨rfl, rfl, EqOn.refl _ _ _⟩
  | concat true Ms, B, hw, h => by
    cases B <;> simp only [sameObj, Bool.false_eq_true] at h
    have hw' := hw
    simp only [Op.wf, Bool.and_eq_true] at hw'
    simp only [Bool.and_eq_true, beq_iff_eq] at h
    obtain ⟨rfl, h⟩ := h
    exact same_concat_h hw (same_members (sameList_forall₂ _ _ h)
      (fun M hM B hB => sameObj_sound M B (wf_members hw'.1.2 M hM) hB))
  | concat false Ms, B, hw, h => by
    cases B <;> simp only [sameObj, Bool.false_eq_true] at h
    have hw' := hw
    simp only [Op.wf, Bool.and_eq_true] at hw'
    simp only [Bool.and_eq_true, beq_iff_eq] at h
    obtain ⟨rfl, h⟩ := h
    exact same_concat_v hw (same_members (sameList_forall₂ _ _ h)
      (fun M hM B hB => sameObj_sound M B (wf_members hw'.1.2 M hM) hB))
  | house d n v b, B, _, h => by
    cases B <;> simp only [sameObj, Bool.false_eq_true] at h
    simp only [Bool.and_eq_true, beq_iff_eq] at h
    obtain ⟨⟨⟨rfl, rfl⟩, h3⟩, rfl⟩ := h
    refine ⟨by simp only [Op.rows], by simp only [Op.cols], ?_⟩
    intro i j hi hj
    simp only [Op.rows] at hi
    simp only [Op.cols] at hj
    simp only [Op.den, MatV.of_f, houseDen, vecEq_eq h3 i hi, vecEq_eq h3 j hj]
  | generic A, B, hw, h => by
    cases B <;> simp only [sameObj, Bool.false_eq_true] at h
    simp only [Op.wf] at hw
    have := sameObj_sound A _ hw h
    unfold Same at this ⊢
    simp only [Op.rows, Op.cols, Op.den]
    exact this
  | annot a A, B, hw, h => by
    cases B <;> simp only [sameObj, Bool.false_eq_true] at h
    simp only [Op.wf] at hw
    simp only [Bool.and_eq_true, beq_iff_eq] at h
    have := sameObj_sound A _ hw h.2
    unfold Same at this ⊢
    simp only [Op.rows, Op.cols, Op.den]
    exact this
termination_by A => sizeOf A
decreasing_by
  all_goals simp_wf
  all_goals first
    | (have := List.sizeOf_lt_of_mem ‹_ ∈ _›; omega)
    | omega

end generic

/-! ## the clauses -/

section clauses
variable {R : Type} [DecidableEq R]

/-- the Gram test of `get_annotations(Product)` as a function of the member list -/
def gramB : List (Op R) → Bool
  | [A1, A2] => (isTA A1 || isTA A2) && areTheSame A1 A2 &&
      (!A1.dtype.isComplex || !(isT A1 || isT A2))
  | _ => false

/-- the Gram test succeeds through a `Transpose` wrapper (only accepted for a real dtype) -/
def gramViaTranspose : List (Op R) → Bool
  | [A1, A2] => gramB [A1, A2] && (isT A1 || isT A2)
  | _ => false

theorem gramB_shape {Ms : List (Op R)} (h : gramB Ms = true) : ∃ A1 A2, Ms = [A1, A2] := by
  match Ms, h with
  | [A1, A2], _ => exact ⟨A1, A2, rfl⟩

theorem anns_prod (Ms : List (Op R)) : (prod Ms).anns =
    if gramB Ms = true then
      AnnSet.union (AnnSet.inter (AnnSet.interAll (Ms.map (·.anns))) [.unitary, .stiefel]) [.psd]
    else match (Ms.zip (Ms.map (·.anns))).filter (fun p => !isScalarMul p.1) with
      | [p] => p.2
      | _ => AnnSet.inter (AnnSet.interAll (Ms.map (·.anns))) [.unitary, .stiefel] := by
  rw [Op.anns.eq_def]
  simp only
  unfold gramB
  rfl

/-- **the recorded defect at one `Product`**: some member is a `ScalarMul`, exactly one member is
not, and that member reports a non-empty annotation set (which the code passes on unchanged). -/
def prodScalarDefect (Ms : List (Op R)) : Bool :=
  Ms.any isScalarMul &&
    match Ms.filter (fun M => !isScalarMul M) with
    | [M] => !M.anns.isEmpty
    | _ => false

/-- some `Product` node of the tree runs into `prodScalarDefect` -/
def scalarTimesAnnotated : Op R → Bool
  | prod Ms => prodScalarDefect Ms || (Ms.map (·.scalarTimesAnnotated)).any id
  | sum Ms => (Ms.map (·.scalarTimesAnnotated)).any id
  | kron Ms => (Ms.map (·.scalarTimesAnnotated)).any id
  | kronsum Ms => (Ms.map (·.scalarTimesAnnotated)).any id
  | bdiag Ms _ => (Ms.map (·.scalarTimesAnnotated)).any id
  | concat _ Ms => (Ms.map (·.scalarTimesAnnotated)).any id
  | transpose A => A.scalarTimesAnnotated
  | adjoint A => A.scalarTimesAnnotated
  | sliced A _ _ => A.scalarTimesAnnotated
  | generic A => A.scalarTimesAnnotated
  | annot _ A => A.scalarTimesAnnotated
  | _ => false

/-- NAMED clause of `C05_sound_partial`: no `Product` node has both a `ScalarMul` member and
exactly one non-scalar member with a non-empty annotation set. -/
def NoScalarTimesAnnotated (A : Op R) : Prop := A.scalarTimesAnnotated = false

theorem sta_members {Ms : List (Op R)} (h : (Ms.map (·.scalarTimesAnnotated)).any id = false) :
    ∀ M ∈ Ms, M.scalarTimesAnnotated = false := by
  intro M hM
  rw [List.any_eq_false] at h
  have := h _ (List.mem_map.mpr ⟨M, hM, rfl⟩)
  simpa using this

theorem zip_map_filter {α β : Type} (f : α → β) (g : α → Bool) : ∀ (l : List α),
    (l.zip (l.map f)).filter (fun p => g p.1) = (l.filter g).map (fun x => (x, f x))
  | [] => rfl
  | x :: l => by
    simp only [List.map_cons, List.zip_cons_cons, List.filter_cons]
    rw [zip_map_filter f g l]
    split <;> rfl

end clauses

/-! ## soundness of the inference -/

section sound
variable {𝕜 : Type} [RCLike 𝕜]

/-- every DECLARED annotation of the tree is true of the matrix it was declared on -/
def LeavesTrue : Op 𝕜 → Prop
  | prod Ms => ∀ M ∈ Ms, M.LeavesTrue
  | sum Ms => ∀ M ∈ Ms, M.LeavesTrue
  | kron Ms => ∀ M ∈ Ms, M.LeavesTrue
  | kronsum Ms => ∀ M ∈ Ms, M.LeavesTrue
  | bdiag Ms _ => ∀ M ∈ Ms, M.LeavesTrue
  | concat _ Ms => ∀ M ∈ Ms, M.LeavesTrue
  | transpose A => A.LeavesTrue
  | adjoint A => A.LeavesTrue
  | sliced A _ _ => A.LeavesTrue
  | generic A => A.LeavesTrue
  | annot a A => Holds a A.rows A.cols A.den.f ∧ A.LeavesTrue
  | _ => True

/-- the represented matrix has `star`-fixed (real) entries on its window -/
def StarFixed (A : Op 𝕜) : Prop :=
  ∀ i j, i < A.rows → j < A.cols → star (A.den.f i j) = A.den.f i j

variable [DecidableEq 𝕜]

/-- NAMED clause: at every `Product [A1, A2]` whose Gram pattern is detected through a
`Transpose` wrapper (the code accepts it only when `A1.dtype` is real), the payload of `A1`
really is real.  The dtype tag of the model does not constrain the carrier, so this is what "the
array has a real dtype" means; it follows from `Op.RealTyped` (`C05.lean`). -/
def GramTransposeReal : Op 𝕜 → Prop
  | prod Ms => (gramViaTranspose Ms = true → ∀ A1 ∈ Ms.head?, StarFixed A1) ∧
      ∀ M ∈ Ms, M.GramTransposeReal
  | sum Ms => ∀ M ∈ Ms, M.GramTransposeReal
  | kron Ms => ∀ M ∈ Ms, M.GramTransposeReal
  | kronsum Ms => ∀ M ∈ Ms, M.GramTransposeReal
  | bdiag Ms _ => ∀ M ∈ Ms, M.GramTransposeReal
  | concat _ Ms => ∀ M ∈ Ms, M.GramTransposeReal
  | transpose A => A.GramTransposeReal
  | adjoint A => A.GramTransposeReal
  | sliced A _ _ => A.GramTransposeReal
  | generic A => A.GramTransposeReal
  | annot _ A => A.GramTransposeReal
  | _ => True

/-- the statement at one node: every reported annotation holds of the represented matrix -/
def AnnsTrue (A : Op 𝕜) : Prop := ∀ a ∈ A.anns, Holds a A.rows A.cols A.den.f

/-- the hypotheses of the soundness theorem, bundled (all are inherited by members) -/
structure SoundHyp (A : Op 𝕜) : Prop where
  wf : A.wf = true
  leaves : A.LeavesTrue
  nsa : A.scalarTimesAnnotated = false
  gtr : A.GramTransposeReal


theorem SoundHyp.prod_mem {Ms : List (Op 𝕜)} (h : SoundHyp (prod Ms)) :
    ∀ M ∈ Ms, SoundHyp M := by
  obtain ⟨h1, h2, h3, h4⟩ := h
  simp only [Op.wf, Bool.and_eq_true] at h1
  simp only [LeavesTrue] at h2
  simp only [Op.scalarTimesAnnotated, Bool.or_eq_false_iff] at h3
  simp only [GramTransposeReal] at h4
  exact fun M hM => ⟨wf_members h1.1.2 M hM, h2 M hM, sta_members h3.2 M hM, h4.2 M hM⟩

theorem SoundHyp.sum_mem {Ms : List (Op 𝕜)} (h : SoundHyp (sum Ms)) :
    ∀ M ∈ Ms, SoundHyp M := by
  obtain ⟨h1, h2, h3, h4⟩ := h
  simp only [Op.wf, Bool.and_eq_true] at h1
  simp only [LeavesTrue] at h2
  simp only [Op.scalarTimesAnnotated] at h3
  simp only [GramTransposeReal] at h4
  exact fun M hM => ⟨wf_members h1.1.2 M hM, h2 M hM, sta_members h3 M hM, h4 M hM⟩

theorem SoundHyp.kron_mem {Ms : List (Op 𝕜)} (h : SoundHyp (kron Ms)) :
    ∀ M ∈ Ms, SoundHyp M := by
  obtain ⟨h1, h2, h3, h4⟩ := h
  simp only [Op.wf, Bool.and_eq_true] at h1
  simp only [LeavesTrue] at h2
  simp only [Op.scalarTimesAnnotated] at h3
  simp only [GramTransposeReal] at h4
  exact fun M hM => ⟨wf_members h1.2 M hM, h2 M hM, sta_members h3 M hM, h4 M hM⟩

theorem SoundHyp.kronsum_mem {Ms : List (Op 𝕜)} (h : SoundHyp (kronsum Ms)) :
    ∀ M ∈ Ms, SoundHyp M := by
  obtain ⟨h1, h2, h3, h4⟩ := h
  simp only [Op.wf, Bool.and_eq_true] at h1
  simp only [LeavesTrue] at h2
  simp only [Op.scalarTimesAnnotated] at h3
  simp only [GramTransposeReal] at h4
  exact fun M hM => ⟨wf_members h1.1.2 M hM, h2 M hM, sta_members h3 M hM, h4 M hM⟩

theorem SoundHyp.bdiag_mem {Ms : List (Op 𝕜)} {mults : List Nat} (h : SoundHyp (bdiag Ms mults)) :
    ∀ M ∈ Ms, SoundHyp M := by
  obtain ⟨h1, h2, h3, h4⟩ := h
  simp only [Op.wf, Bool.and_eq_true] at h1
  simp only [LeavesTrue] at h2
  simp only [Op.scalarTimesAnnotated] at h3
  simp only [GramTransposeReal] at h4
  exact fun M hM => ⟨wf_members h1.1.2 M hM, h2 M hM, sta_members h3 M hM, h4 M hM⟩

theorem SoundHyp.concat_mem {Ms : List (Op 𝕜)} {ax : Bool} (h : SoundHyp (concat ax Ms)) :
    ∀ M ∈ Ms, SoundHyp M := by
  obtain ⟨h1, h2, h3, h4⟩ := h
  simp only [Op.wf, Bool.and_eq_true] at h1
  simp only [LeavesTrue] at h2
  simp only [Op.scalarTimesAnnotated] at h3
  simp only [GramTransposeReal] at h4
  exact fun M hM => ⟨wf_members h1.1.2 M hM, h2 M hM, sta_members h3 M hM, h4 M hM⟩

theorem SoundHyp.transpose_child {A : Op 𝕜} (h : SoundHyp (transpose A)) : SoundHyp A := by
  obtain ⟨h1, h2, h3, h4⟩ := h
  simp only [Op.wf] at h1
  simp only [LeavesTrue] at h2
  simp only [Op.scalarTimesAnnotated] at h3
  simp only [GramTransposeReal] at h4
  exact ⟨h1, h2, h3, h4⟩

theorem SoundHyp.adjoint_child {A : Op 𝕜} (h : SoundHyp (adjoint A)) : SoundHyp A := by
  obtain ⟨h1, h2, h3, h4⟩ := h
  simp only [Op.wf] at h1
  simp only [LeavesTrue] at h2
  simp only [Op.scalarTimesAnnotated] at h3
  simp only [GramTransposeReal] at h4
  exact ⟨h1, h2, h3, h4⟩

theorem SoundHyp.generic_child {A : Op 𝕜} (h : SoundHyp (generic A)) : SoundHyp A := by
  obtain ⟨h1, h2, h3, h4⟩ := h
  simp only [Op.wf] at h1
  simp only [LeavesTrue] at h2
  simp only [Op.scalarTimesAnnotated] at h3
  simp only [GramTransposeReal] at h4
  exact ⟨h1, h2, h3, h4⟩

theorem SoundHyp.sliced_child {A : Op 𝕜} {s0 s1 : Ix} (h : SoundHyp (sliced A s0 s1)) : SoundHyp A := by
  obtain ⟨h1, h2, h3, h4⟩ := h
  simp only [Op.wf, Bool.and_eq_true] at h1
  simp only [LeavesTrue] at h2
  simp only [Op.scalarTimesAnnotated] at h3
  simp only [GramTransposeReal] at h4
  exact ⟨h1.1.1, h2, h3, h4⟩

theorem SoundHyp.annot_child {a : Ann} {A : Op 𝕜} (h : SoundHyp (annot a A)) : SoundHyp A := by
  obtain ⟨h1, h2, h3, h4⟩ := h
  simp only [Op.wf] at h1
  simp only [LeavesTrue] at h2
  simp only [Op.scalarTimesAnnotated] at h3
  simp only [GramTransposeReal] at h4
  exact ⟨h1, h2.2, h3, h4⟩

/-! ### the nodes, one constructor at a time -/

omit [DecidableEq 𝕜] in
theorem facDen_map_r (Ms : List (Op 𝕜)) : (Ms.map facDen).map (·.r) = Ms.map (·.rows) := by
  rw [List.map_map]; rfl
omit [DecidableEq 𝕜] in
theorem facDen_map_c (Ms : List (Op 𝕜)) : (Ms.map facDen).map (·.c) = Ms.map (·.cols) := by
  rw [List.map_map]; rfl

theorem annsTrue_eye (dt : DType) (n : Nat) : AnnsTrue (eye dt n : Op 𝕜) := by
  intro a _
  simp only [Op.rows, Op.cols, Op.den, MatV.of_f]
  exact holds_eyeM a n

theorem annsTrue_perm (dt : DType) (p : List Nat) (hw : (perm dt p : Op 𝕜).wf = true) :
    AnnsTrue (perm dt p : Op 𝕜) := by
  intro a ha
  simp only [Op.anns, List.mem_singleton] at ha
  subst ha
  simp only [Op.wf, Bool.and_eq_true, List.all_eq_true, decide_eq_true_eq] at hw
  simp only [Op.rows, Op.cols, Op.den, MatV.of_f]
  exact holds_permDen p hw.1 hw.2

theorem annsTrue_kron (Ms : List (Op 𝕜)) (ih : ∀ M ∈ Ms, AnnsTrue M) : AnnsTrue (kron Ms) := by
  intro a ha
  simp only [Op.anns] at ha
  have hm := AnnSet.mem_interAll_map ha
  have key := holds_kronDen a (Ms.map facDen) (by
    intro F hF
    obtain ⟨M, hM, rfl⟩ := List.mem_map.mp hF
    exact ih M hM a (hm M hM))
  rw [facDen_map_r, facDen_map_c] at key
  simp only [Op.rows, Op.cols, Op.den, forceV_f]
  exact key

theorem annsTrue_bdiag (Ms : List (Op 𝕜)) (mults : List Nat) (ih : ∀ M ∈ Ms, AnnsTrue M) :
    AnnsTrue (bdiag Ms mults) := by
  intro a ha
  simp only [Op.anns] at ha
  have hm := AnnSet.mem_interAll_map ha
  have key := holds_bdiagDen a ((Ms.map facDen).zip mults) (by
    intro q hq
    have hF := (List.of_mem_zip (a := q.1) (b := q.2) hq).1
    obtain ⟨M, hM, hMe⟩ := List.mem_map.mp hF
    rw [← hMe]
    exact ih M hM a (hm M hM))
  rw [← dotSum_rows facDen Ms mults, ← dotSum_cols facDen Ms mults] at key
  simp only [Op.rows, Op.cols, Op.den, forceV_f]
  exact key

theorem annsTrue_sum (Ms : List (Op 𝕜)) (hw : (sum Ms).wf = true) (ih : ∀ M ∈ Ms, AnnsTrue M) :
    AnnsTrue (sum Ms) := by
  intro a ha
  simp only [Op.anns] at ha
  rw [AnnSet.mem_diff] at ha
  have hm := AnnSet.mem_interAll_map ha.1
  have hsh := sum_shapes Ms hw
  have hmem : ∀ M ∈ Ms, Holds a (sum Ms).rows (sum Ms).cols M.den.f := by
    intro M hM
    have := ih M hM a (hm M hM)
    rwa [(hsh M hM).1, (hsh M hM).2] at this
  have hne : ∃ M, M ∈ Ms := by
    cases Ms with
    | nil => simp [Op.wf] at hw
    | cons M _ => exact ⟨M, List.mem_cons_self⟩
  obtain ⟨M0, hM0⟩ := hne
  rcases Ann.sa_or_psd ha.2 with rfl | rfl
  · have hsq : (sum Ms).rows = (sum Ms).cols := (hmem M0 hM0).1
    have key := holds_foldr_addM_selfAdjoint (sum Ms).rows (Ms.map (·.den.f)) (by
      intro D hD
      obtain ⟨M, hM, rfl⟩ := List.mem_map.mp hD
      have := hmem M hM
      rwa [← hsq] at this)
    rw [← hsq]
    simp only [Op.den, forceV_f]
    exact key
  · have hsq : (sum Ms).rows = (sum Ms).cols := (hmem M0 hM0).1
    have key := holds_foldr_addM_psd (sum Ms).rows (Ms.map (·.den.f)) (by
      intro D hD
      obtain ⟨M, hM, rfl⟩ := List.mem_map.mp hD
      have := hmem M hM
      rwa [← hsq] at this)
    rw [← hsq]
    simp only [Op.den, forceV_f]
    exact key

omit [DecidableEq 𝕜] in
theorem slicesSymmetric_eq {s0 s1 : Ix} (h : slicesSymmetric s0 s1 = true) : s0 = s1 := by
  cases s0 <;> cases s1 <;> simp only [slicesSymmetric, Bool.and_eq_true, beq_iff_eq,
    Bool.false_eq_true] at h
  · obtain ⟨⟨rfl, rfl⟩, rfl⟩ := h; rfl
  · subst h; rfl

theorem annsTrue_sliced (A : Op 𝕜) (s0 s1 : Ix) (ih : AnnsTrue A) :
    AnnsTrue (sliced A s0 s1) := by
  intro a ha
  simp only [Op.anns] at ha
  split at ha
  · rename_i hs
    obtain rfl := slicesSymmetric_eq hs
    rw [AnnSet.mem_diff] at ha
    have hA := ih a ha.1
    have ha' := Ann.sa_or_psd ha.2
    have hsq : A.rows = A.cols := by
      rcases ha' with rfl | rfl
      · exact hA.1
      · exact hA.1
    rw [← hsq] at hA
    have key := holds_slicedDen a ha' A.rows A.den.f ((Ix.resolve A.rows s0).getD [])
      (getD_resolve_lt _ _) hA
    simp only [Op.rows, Op.cols, Op.den, MatV.of_f, ← hsq]
    exact key
  · simp at ha

theorem annsTrue_transpose (A : Op 𝕜) (ih : AnnsTrue A) : AnnsTrue (transpose A) := by
  intro a ha
  simp only [Op.anns] at ha
  simp only [Op.rows, Op.cols, Op.den, MatV.of_f]
  split at ha
  · rename_i hsq
    exact holds_transpose a _ _ _ (ih a ha) (fun _ => hsq)
  · rw [AnnSet.mem_diff] at ha
    exact holds_transpose a _ _ _ (ih a ha.1) (fun h => by simp [h] at ha)

theorem annsTrue_adjoint (A : Op 𝕜) (ih : AnnsTrue A) : AnnsTrue (adjoint A) := by
  intro a ha
  simp only [Op.anns] at ha
  simp only [Op.rows, Op.cols, Op.den, MatV.of_f]
  split at ha
  · rename_i hsq
    exact holds_adjoint a _ _ _ (ih a ha) (fun _ => hsq)
  · rw [AnnSet.mem_diff] at ha
    exact holds_adjoint a _ _ _ (ih a ha.1) (fun h => by simp [h] at ha)

theorem annsTrue_annot (b : Ann) (A : Op 𝕜) (hb : Holds b A.rows A.cols A.den.f)
    (ih : AnnsTrue A) : AnnsTrue (annot b A) := by
  intro a ha
  simp only [Op.anns] at ha
  rw [AnnSet.mem_union] at ha
  simp only [Op.rows, Op.cols, Op.den]
  rcases ha with ha | ha
  · exact ih a ha
  · simp only [List.mem_singleton] at ha
    subst ha
    exact hb

/-! ### `Product` -/

omit [DecidableEq 𝕜] in
/-- a chain of Stiefel (unitary) members is Stiefel (unitary) -/
theorem holds_denChain (a : Ann) (ha : a = .stiefel ∨ a = .unitary) :
    ∀ (Ms : List (Op 𝕜)) (M0 : Op 𝕜),
    (∀ M ∈ M0 :: Ms, Holds a M.rows M.cols M.den.f) →
    chainOk ((M0 :: Ms).map (fun M => (M.rows, M.cols))) = true →
    Holds a M0.rows (((M0 :: Ms).map (·.cols)).getLast?.getD 0) (denChain (M0 :: Ms))
  | [], M0, h, _ => by
    simp only [List.map_cons, List.map_nil, List.getLast?_singleton, Option.getD_some,
      denChain_cons]
    exact holds_mmul a ha _ _ _ _ _ (h M0 List.mem_cons_self) (holds_eyeM a _)
  | M1 :: Ms, M0, h, hc => by
    simp only [List.map_cons, chainOk, Bool.and_eq_true, beq_iff_eq] at hc
    have ih := holds_denChain a ha Ms M1 (fun M hM => h M (List.mem_cons_of_mem _ hM))
      (by simpa using hc.2)
    rw [← hc.1] at ih
    simp only [List.map_cons, List.getLast?_cons_cons, denChain_cons] at ih ⊢
    exact holds_mmul a ha _ _ _ _ _ (h M0 List.mem_cons_self) ih

omit [DecidableEq 𝕜] in
theorem holds_prod_chain (a : Ann) (ha : a = .stiefel ∨ a = .unitary) (Ms : List (Op 𝕜))
    (hw : (prod Ms).wf = true) (h : ∀ M ∈ Ms, Holds a M.rows M.cols M.den.f) :
    Holds a (prod Ms).rows (prod Ms).cols (prod Ms).den.f := by
  simp only [Op.wf, Bool.and_eq_true] at hw
  cases Ms with
  | nil => simp at hw
  | cons M0 Ms =>
    have := holds_denChain a ha Ms M0 h hw.2
    simp only [Op.rows, Op.cols, Op.den, forceV_f, List.map_cons, List.head?_cons,
      Option.getD_some] at this ⊢
    exact this

omit [DecidableEq 𝕜] in
theorem holds_prod_single (a : Ann) (M : Op 𝕜) (h : Holds a M.rows M.cols M.den.f) :
    Holds a (prod [M]).rows (prod [M]).cols (prod [M]).den.f := by
  simp only [Op.rows, Op.cols, Op.den, forceV_f, List.map_cons, List.map_nil, List.head?_cons,
    List.getLast?_singleton, Option.getD_some, List.foldr_cons, List.foldr_nil]
  exact Holds.congr (eqOn_mmul_eyeM_right M.rows M.cols M.den.f).symm h

omit [DecidableEq 𝕜] in
theorem prod_pair_den (A1 A2 : Op 𝕜) :
    EqOn A1.rows A2.cols (mmul A1.cols A1.den.f A2.den.f) (prod [A1, A2]).den.f := by
  simp only [Op.den, forceV_f, List.map_cons, List.map_nil, List.foldr_cons, List.foldr_nil]
  exact mmul_congr (EqOn.refl _ _ _) (eqOn_mmul_eyeM_right A1.cols A2.cols A2.den.f).symm

omit [DecidableEq 𝕜] in
/-- `[A1, A2]` with `A2 ≈ A1ᴴ` on the window -/
theorem holds_gram_pair_right (A1 A2 : Op 𝕜) (hc : A2.cols = A1.rows)
    (hX : EqOn A1.cols A1.rows (conjM (transposeM A1.den.f)) A2.den.f) :
    Holds .psd (prod [A1, A2]).rows (prod [A1, A2]).cols (prod [A1, A2]).den.f := by
  have h1 : (prod [A1, A2]).rows = A1.rows := by simp [Op.rows]
  have h2 : (prod [A1, A2]).cols = A1.rows := by simp [Op.cols, hc]
  rw [h1, h2]
  have key := Holds.congr (mmul_congr (EqOn.refl A1.rows A1.cols A1.den.f) hX)
    (holds_gram_right A1.rows A1.cols A1.den.f)
  have hp := prod_pair_den A1 A2
  rw [hc] at hp
  exact Holds.congr hp key

omit [DecidableEq 𝕜] in
/-- `[A1, A2]` with `A1 ≈ A2ᴴ` on the window -/
theorem holds_gram_pair_left (A1 A2 : Op 𝕜) (hr : A1.rows = A2.cols) (hch : A1.cols = A2.rows)
    (hX : EqOn A2.cols A2.rows (conjM (transposeM A2.den.f)) A1.den.f) :
    Holds .psd (prod [A1, A2]).rows (prod [A1, A2]).cols (prod [A1, A2]).den.f := by
  have h1 : (prod [A1, A2]).rows = A2.cols := by simp [Op.rows, hr]
  have h2 : (prod [A1, A2]).cols = A2.cols := by simp [Op.cols]
  rw [h1, h2]
  have key := Holds.congr (mmul_congr hX (EqOn.refl A2.rows A2.cols A2.den.f))
    (holds_gram_left A2.rows A2.cols A2.den.f)
  have hp := prod_pair_den A1 A2
  rw [hr, hch] at hp
  exact Holds.congr hp key

theorem areTheSame_cases {R : Type} [DecidableEq R] {A1 A2 : Op R}
    (h : areTheSame A1 A2 = true) :
    (∃ B, A2.core = adjoint B ∧ sameObj A1 B = true) ∨
    (∃ B, A2.core = transpose B ∧ sameObj A1 B = true) ∨
    (∃ B, A1.core = adjoint B ∧ sameObj B A2 = true) ∨
    (∃ B, A1.core = transpose B ∧ sameObj B A2 = true) := by
  unfold areTheSame at h
  split at h
  · rename_i B hB; exact Or.inl ⟨B, hB, h⟩
  · rename_i B hB; exact Or.inr (Or.inl ⟨B, hB, h⟩)
  · split at h
    · rename_i B hB; exact Or.inr (Or.inr (Or.inl ⟨B, hB, h⟩))
    · rename_i B hB; exact Or.inr (Or.inr (Or.inr ⟨B, hB, h⟩))
    · simp at h

theorem isT_of_core {R : Type} {A B : Op R} (h : A.core = transpose B) : isT A = true := by
  simp [isT, h]

/-- the Gram pattern `[A1, A2]` detected by the code is PSD -/
theorem holds_gram (A1 A2 : Op 𝕜) (hw : (prod [A1, A2]).wf = true) (hg : gramB [A1, A2] = true)
    (hreal : gramViaTranspose [A1, A2] = true → StarFixed A1) :
    Holds .psd (prod [A1, A2]).rows (prod [A1, A2]).cols (prod [A1, A2]).den.f := by
  have hg' := hg
  simp only [gramB, Bool.and_eq_true] at hg'
  simp only [Op.wf, List.map_cons, List.map_nil, chainOk, Bool.and_eq_true, beq_iff_eq,
    List.all_cons, List.all_nil, id] at hw
  obtain ⟨⟨_, hw1, hw2, _⟩, hch, _⟩ := hw
  rcases areTheSame_cases hg'.1.2 with ⟨B, hB, hs⟩ | ⟨B, hB, hs⟩ | ⟨B, hB, hs⟩ | ⟨B, hB, hs⟩
  · -- A2 = (A1)ᴴ
    obtain ⟨s1, s2, s3⟩ := sameObj_sound A1 B hw1 hs
    have hc : A2.cols = A1.rows := by rw [← core_cols, hB]; simp only [Op.cols, s1]
    have hd : A2.den.f = conjM (transposeM B.den.f) := by
      rw [← core_den, hB]; simp only [Op.den, MatV.of_f]
    refine holds_gram_pair_right A1 A2 hc ?_
    intro i j hi hj
    rw [hd]
    simp only [conjM, transposeM]
    rw [s3 j i hj hi]
  · -- A2 = (A1)ᵀ, real
    have hsf := hreal (by simp [gramViaTranspose, hg, isT_of_core hB])
    obtain ⟨s1, s2, s3⟩ := sameObj_sound A1 B hw1 hs
    have hc : A2.cols = A1.rows := by rw [← core_cols, hB]; simp only [Op.cols, s1]
    have hd : A2.den.f = transposeM B.den.f := by
      rw [← core_den, hB]; simp only [Op.den, MatV.of_f]
    refine holds_gram_pair_right A1 A2 hc ?_
    intro i j hi hj
    rw [hd]
    simp only [conjM, transposeM]
    rw [hsf j i hj hi, s3 j i hj hi]
  · -- A1 = (A2)ᴴ
    have hBw : B.wf = true := by
      have := core_wf A1; rw [hB] at this; simp only [Op.wf] at this; rw [this]; exact hw1
    obtain ⟨s1, s2, s3⟩ := sameObj_sound B A2 hBw hs
    have hr : A1.rows = A2.cols := by rw [← core_rows, hB]; simp only [Op.rows, s2]
    have hd : A1.den.f = conjM (transposeM B.den.f) := by
      rw [← core_den, hB]; simp only [Op.den, MatV.of_f]
    refine holds_gram_pair_left A1 A2 hr hch ?_
    intro i j hi hj
    rw [hd]
    simp only [conjM, transposeM]
    rw [s3 j i (by rw [s1]; exact hj) (by rw [s2]; exact hi)]
  · -- A1 = (A2)ᵀ, real
    have hsf := hreal (by simp [gramViaTranspose, hg, isT_of_core hB])
    have hBw : B.wf = true := by
      have := core_wf A1; rw [hB] at this; simp only [Op.wf] at this; rw [this]; exact hw1
    obtain ⟨s1, s2, s3⟩ := sameObj_sound B A2 hBw hs
    have hr : A1.rows = A2.cols := by rw [← core_rows, hB]; simp only [Op.rows, s2]
    have hc1 : A1.cols = B.rows := by rw [← core_cols, hB]; simp only [Op.cols]
    have hd : A1.den.f = transposeM B.den.f := by
      rw [← core_den, hB]; simp only [Op.den, MatV.of_f]
    refine holds_gram_pair_left A1 A2 hr hch ?_
    intro i j hi hj
    have hsf' := hsf i j (by rw [hr]; exact hi) (by rw [hch]; exact hj)
    rw [hd] at hsf' ⊢
    simp only [conjM, transposeM] at hsf' ⊢
    rw [← s3 j i (by rw [s1]; exact hj) (by rw [s2]; exact hi)]
    exact hsf'

theorem annsTrue_prod (Ms : List (Op 𝕜)) (hw : (prod Ms).wf = true)
    (hdef : prodScalarDefect Ms = false)
    (hreal : gramViaTranspose Ms = true → ∀ A1 ∈ Ms.head?, StarFixed A1)
    (ih : ∀ M ∈ Ms, AnnsTrue M) : AnnsTrue (prod Ms) := by
  intro a ha
  rw [anns_prod] at ha
  have hinter : a ∈ AnnSet.inter (AnnSet.interAll (Ms.map (·.anns))) [.unitary, .stiefel] →
      Holds a (prod Ms).rows (prod Ms).cols (prod Ms).den.f := by
    intro h
    rw [AnnSet.mem_inter] at h
    have hm := AnnSet.mem_interAll_map h.1
    exact holds_prod_chain a (Ann.st_or_un h.2) Ms hw (fun M hM => ih M hM a (hm M hM))
  split at ha
  · rename_i hg
    rw [AnnSet.mem_union] at ha
    rcases ha with ha | ha
    · exact hinter ha
    · simp only [List.mem_singleton] at ha
      subst ha
      obtain ⟨A1, A2, rfl⟩ := gramB_shape hg
      exact holds_gram A1 A2 hw hg (fun h => hreal h A1 (by simp))
  · rw [zip_map_filter (fun M : Op 𝕜 => M.anns) (fun M => !isScalarMul M) Ms] at ha
    split at ha
    · rename_i p hp
      -- exactly one non-scalar member
      cases hf : Ms.filter (fun M => !isScalarMul M) with
      | nil => rw [hf] at hp; simp at hp
      | cons M rest =>
        rw [hf] at hp
        simp only [List.map_cons, List.cons.injEq, List.map_eq_nil_iff] at hp
        obtain ⟨rfl, rfl⟩ := hp
        simp only at ha
        have hne : M.anns.isEmpty = false := by
          cases hM : M.anns with
          | nil => rw [hM] at ha; simp at ha
          | cons _ _ => rfl
        have hany : Ms.any isScalarMul = false := by
          simp only [prodScalarDefect, hf, hne, Bool.not_false, Bool.and_true] at hdef
          exact hdef
        have hall : Ms.filter (fun M => !isScalarMul M) = Ms := by
          rw [List.filter_eq_self]
          intro N hN
          rw [List.any_eq_false] at hany
          simpa using hany N hN
        rw [hall] at hf
        subst hf
        exact holds_prod_single a M (ih M List.mem_cons_self a ha)
    · exact hinter ha

/-! ### the recursion -/

theorem annsTrue_of_nil {A : Op 𝕜} (h : A.anns = []) : AnnsTrue A := by
  intro a ha
  rw [h] at ha
  simp at ha

/-- **soundness of the annotation inference**: under the hypotheses every annotation reported
at the root holds of the represented matrix (and `SoundHyp` is inherited by every node). -/
theorem anns_sound : ∀ (A : Op 𝕜), SoundHyp A → AnnsTrue A
  | dense dt r c a, _ => annsTrue_of_nil (by simp only [Op.anns])
  | tri dt r c l a, _ => annsTrue_of_nil (by simp only [Op.anns])
  | sparse dt r c e, _ => annsTrue_of_nil (by simp only [Op.anns])
  | scalar dt s n, _ => annsTrue_of_nil (by simp only [Op.anns])
  | eye dt n, _ => annsTrue_eye dt n
  | prod Ms, h => by
    have h3 := h.nsa
    have h4 := h.gtr
    simp only [Op.scalarTimesAnnotated, Bool.or_eq_false_iff] at h3
    simp only [GramTransposeReal] at h4
    exact annsTrue_prod Ms h.wf h3.1 h4.1 (fun M hM => anns_sound M (h.prod_mem M hM))
  | sum Ms, h => annsTrue_sum Ms h.wf (fun M hM => anns_sound M (h.sum_mem M hM))
  | kron Ms, h => annsTrue_kron Ms (fun M hM => anns_sound M (h.kron_mem M hM))
  | kronsum Ms, _ => annsTrue_of_nil (by simp only [Op.anns])
  | bdiag Ms mults, h => annsTrue_bdiag Ms mults (fun M hM => anns_sound M (h.bdiag_mem M hM))
  | diag dt n d, _ => annsTrue_of_nil (by simp only [Op.anns])
  | tridiag dt n al be ga, _ => annsTrue_of_nil (by simp only [Op.anns])
  | transpose A, h => annsTrue_transpose A (anns_sound A h.transpose_child)
  | adjoint A, h => annsTrue_adjoint A (anns_sound A h.adjoint_child)
  | sliced A s0 s1, h => annsTrue_sliced A s0 s1 (anns_sound A h.sliced_child)
  | perm dt p, h => annsTrue_perm dt p h.wf
  | concat ax Ms, _ => annsTrue_of_nil (by simp only [Op.anns])
  | house dt n v beta, _ => annsTrue_of_nil (by simp only [Op.anns])
  | generic A, _ => annsTrue_of_nil (by simp only [Op.anns])
  | annot b A, h => by
    have h2 := h.leaves
    simp only [LeavesTrue] at h2
    exact annsTrue_annot b A h2.1 (anns_sound A h.annot_child)
termination_by A => sizeOf A

/-- a node whose reported annotations are true satisfies the `HermNode` hypothesis of C01 -/
theorem hermNode_of_annsTrue (A : Op 𝕜) (h : AnnsTrue A) : HermNode A := by
  intro hisa
  simp only [Op.isa, AnnSet.isa, List.any_eq_true] at hisa
  obtain ⟨x, hx, hsub⟩ := hisa
  have hsa : Holds .selfAdjoint A.rows A.cols A.den.f := by
    cases x
    · exact h _ hx
    · exact (h _ hx).psd_selfAdjoint
    · simp [Ann.sub] at hsub
    · simp [Ann.sub] at hsub
  exact hsa.selfAdjoint_entry

/-- every node of the tree that reports `SelfAdjoint` (or `PSD`) really is Hermitian -/
theorem hermOK_of_soundHyp : ∀ (A : Op 𝕜), SoundHyp A → A.HermOK
  | dense dt r c a, h => by
    simp only [HermOK]; exact hermNode_of_annsTrue _ (anns_sound _ h)
  | tri dt r c l a, h => by
    simp only [HermOK]; exact hermNode_of_annsTrue _ (anns_sound _ h)
  | sparse dt r c e, h => by
    simp only [HermOK]; exact hermNode_of_annsTrue _ (anns_sound _ h)
  | scalar dt s n, h => by
    simp only [HermOK]; exact hermNode_of_annsTrue _ (anns_sound _ h)
  | eye dt n, h => by
    simp only [HermOK]; exact hermNode_of_annsTrue _ (anns_sound _ h)
  | prod Ms, h => by
    simp only [HermOK]
    exact ⟨hermNode_of_annsTrue _ (anns_sound _ h),
      fun M hM => hermOK_of_soundHyp M (h.prod_mem M hM)⟩
  | sum Ms, h => by
    simp only [HermOK]
    exact ⟨hermNode_of_annsTrue _ (anns_sound _ h),
      fun M hM => hermOK_of_soundHyp M (h.sum_mem M hM)⟩
  | kron Ms, h => by
    simp only [HermOK]
    exact ⟨hermNode_of_annsTrue _ (anns_sound _ h),
      fun M hM => hermOK_of_soundHyp M (h.kron_mem M hM)⟩
  | kronsum Ms, h => by
    simp only [HermOK]
    exact ⟨hermNode_of_annsTrue _ (anns_sound _ h),
      fun M hM => hermOK_of_soundHyp M (h.kronsum_mem M hM)⟩
  | bdiag Ms mults, h => by
    simp only [HermOK]
    exact ⟨hermNode_of_annsTrue _ (anns_sound _ h),
      fun M hM => hermOK_of_soundHyp M (h.bdiag_mem M hM)⟩
  | diag dt n d, h => by
    simp only [HermOK]; exact hermNode_of_annsTrue _ (anns_sound _ h)
  | tridiag dt n al be ga, h => by
    simp only [HermOK]; exact hermNode_of_annsTrue _ (anns_sound _ h)
  | transpose A, h => by
    simp only [HermOK]
    exact ⟨hermNode_of_annsTrue _ (anns_sound _ h), hermOK_of_soundHyp A h.transpose_child⟩
  | adjoint A, h => by
    simp only [HermOK]
    exact ⟨hermNode_of_annsTrue _ (anns_sound _ h), hermOK_of_soundHyp A h.adjoint_child⟩
  | sliced A s0 s1, h => by
    simp only [HermOK]
    exact ⟨hermNode_of_annsTrue _ (anns_sound _ h), hermOK_of_soundHyp A h.sliced_child⟩
  | perm dt p, h => by
    simp only [HermOK]; exact hermNode_of_annsTrue _ (anns_sound _ h)
  | concat ax Ms, h => by
    simp only [HermOK]
    exact ⟨hermNode_of_annsTrue _ (anns_sound _ h),
      fun M hM => hermOK_of_soundHyp M (h.concat_mem M hM)⟩
  | house dt n v beta, h => by
    simp only [HermOK]; exact hermNode_of_annsTrue _ (anns_sound _ h)
  | generic A, h => by
    simp only [HermOK]
    exact ⟨hermNode_of_annsTrue _ (anns_sound _ h), hermOK_of_soundHyp A h.generic_child⟩
  | annot a A, h => by
    simp only [HermOK]
    exact ⟨hermNode_of_annsTrue _ (anns_sound _ h), hermOK_of_soundHyp A h.annot_child⟩
termination_by A => sizeOf A

end sound

end Op

#print axioms Op.sameObj_sound
#print axioms Op.anns_sound
#print axioms Op.hermOK_of_soundHyp
