import ColaVerif.Lemmas.AnnotSoundAux
import ColaVerif.Lemmas.OpMatmat

/-!
# C05: the annotation inference (`Op.anns`) is sound for the represented matrix

* `Op.sameObj_sound` — operators that the model identifies (`sameObj`, Python `is`) have the same
  shape and the same represented matrix on the window.
* `Op.LeavesTrue` — every *declared* annotation (`annot a B` = `cola.PSD(B)` etc.) is true.
* `Op.scalarTimesAnnotated` (Bool) / `Op.NoScalarTimesAnnotated` — the recorded defect of the
  inference: a `Product` with a `ScalarMul` member and exactly one other member inherits that
  member's annotations.
* `Op.GramTransposeReal` — at a Gram pattern detected through a `Transpose` wrapper (accepted by
  the code only for a real dtype) the member's payload really is real (`star`-fixed).
* `Op.anns_sound` — under these hypotheses every reported annotation holds, at every node;
  `Op.hermOK_of_sound` — hence `HermOK`.
-/

open Matrix
open scoped Kronecker ComplexOrder

/-! ## membership in the list-coded annotation sets -/

namespace AnnSet

theorem mem_inter {a : Ann} {s t : AnnSet} : a ∈ inter s t ↔ a ∈ s ∧ a ∈ t := by
  simp [inter]

theorem mem_diff {a : Ann} {s t : AnnSet} : a ∈ diff s t ↔ a ∈ s ∧ a ∉ t := by
  simp [diff]

theorem mem_union {a : Ann} {s t : AnnSet} : a ∈ union s t ↔ a ∈ s ∨ a ∈ t := by
  simp only [union, List.mem_append, List.mem_filter, List.contains_eq_mem, Bool.not_eq_true',
    decide_eq_false_iff_not]
  constructor
  · rintro (h | ⟨h, _⟩)
    · exact Or.inl h
    · exact Or.inr h
  · rintro (h | h)
    · exact Or.inl h
    · by_cases hs : a ∈ s
      · exact Or.inl hs
      · exact Or.inr ⟨h, hs⟩

theorem mem_foldl_inter {a : Ann} : ∀ (rest : List AnnSet) (s : AnnSet),
    a ∈ rest.foldl inter s ↔ a ∈ s ∧ ∀ t ∈ rest, a ∈ t
  | [], s => by simp
  | t :: rest, s => by
    rw [List.foldl_cons, mem_foldl_inter rest, mem_inter]
    simp only [List.mem_cons, forall_eq_or_imp, and_assoc]

theorem mem_interAll {a : Ann} {L : List AnnSet} (h : a ∈ interAll L) : ∀ s ∈ L, a ∈ s := by
  cases L with
  | nil => simp [interAll] at h
  | cons s rest =>
    rw [interAll, mem_foldl_inter] at h
    intro t ht
    rcases List.mem_cons.mp ht with rfl | ht
    · exact h.1
    · exact h.2 t ht

theorem mem_interAll_map {α : Type} {a : Ann} {L : List α} {f : α → AnnSet}
    (h : a ∈ interAll (L.map f)) : ∀ x ∈ L, a ∈ f x :=
  fun x hx => mem_interAll h _ (List.mem_map.mpr ⟨x, hx, rfl⟩)

theorem mem_interAll_iff {a : Ann} {L : List AnnSet} (hne : L ≠ []) :
    a ∈ interAll L ↔ ∀ s ∈ L, a ∈ s := by
  refine ⟨mem_interAll, fun h => ?_⟩
  cases L with
  | nil => exact absurd rfl hne
  | cons s rest =>
    rw [interAll, mem_foldl_inter]
    exact ⟨h s List.mem_cons_self, fun t ht => h t (List.mem_cons_of_mem _ ht)⟩

end AnnSet

/-- an annotation outside `{unitary, stiefel}` is `selfAdjoint` or `psd` -/
theorem Ann.sa_or_psd {a : Ann} (h : a ∉ [Ann.unitary, Ann.stiefel]) :
    a = .selfAdjoint ∨ a = .psd := by
  cases a <;> simp at h ⊢

theorem Ann.st_or_un {a : Ann} (h : a ∈ [Ann.unitary, Ann.stiefel]) :
    a = .stiefel ∨ a = .unitary := by
  cases a <;> simp at h ⊢

namespace Op

section generic
variable {R : Type} [CommRing R] [StarRing R] [DecidableEq R]

/-! ## declaration wrappers do not change shape or matrix -/

omit [CommRing R] [StarRing R] [DecidableEq R] in
theorem core_rows : ∀ (A : Op R), A.core.rows = A.rows
  | annot a A => by rw [core, core_rows A]; simp only [Op.rows]
  | dense .. | tri .. | sparse .. | scalar .. | eye .. | prod .. | sum .. | kron .. | kronsum ..
  | bdiag .. | diag .. | tridiag .. | transpose .. | adjoint .. | sliced .. | perm .. | concat ..
  | house .. | generic .. => by simp only [core]

omit [CommRing R] [StarRing R] [DecidableEq R] in
theorem core_cols : ∀ (A : Op R), A.core.cols = A.cols
  | annot a A => by rw [core, core_cols A]; simp only [Op.cols]
  | dense .. | tri .. | sparse .. | scalar .. | eye .. | prod .. | sum .. | kron .. | kronsum ..
  | bdiag .. | diag .. | tridiag .. | transpose .. | adjoint .. | sliced .. | perm .. | concat ..
  | house .. | generic .. => by simp only [core]

omit [DecidableEq R] in
theorem core_den : ∀ (A : Op R), A.core.den = A.den
  | annot a A => by rw [core, core_den A]; simp only [Op.den]
  | dense .. | tri .. | sparse .. | scalar .. | eye .. | prod .. | sum .. | kron .. | kronsum ..
  | bdiag .. | diag .. | tridiag .. | transpose .. | adjoint .. | sliced .. | perm .. | concat ..
  | house .. | generic .. => by simp only [core]

omit [CommRing R] [StarRing R] [DecidableEq R] in
theorem core_wf : ∀ (A : Op R), A.core.wf = A.wf
  | annot a A => by rw [core, core_wf A]; simp only [Op.wf]
  | dense .. | tri .. | sparse .. | scalar .. | eye .. | prod .. | sum .. | kron .. | kronsum ..
  | bdiag .. | diag .. | tridiag .. | transpose .. | adjoint .. | sliced .. | perm .. | concat ..
  | house .. | generic .. => by simp only [core]

/-! ## `sameObj` (Python `is`) identifies operators with the same window matrix -/

omit [CommRing R] [StarRing R] in
theorem winEq_eqOn {r c : Nat} {a b : MatF R} (h : winEq r c a b = true) : EqOn r c a b := by
  intro i j hi hj
  simp only [winEq, List.all_eq_true, List.mem_range, decide_eq_true_eq] at h
  exact h i hi j hj

omit [CommRing R] [StarRing R] in
theorem vecEq_eq {n : Nat} {a b : Nat → R} (h : vecEq n a b = true) : ∀ i, i < n → a i = b i := by
  simp only [vecEq, List.all_eq_true, List.mem_range, decide_eq_true_eq] at h
  exact h

/-- same shape and same represented matrix on the window -/
def Same (A B : Op R) : Prop :=
  A.rows = B.rows ∧ A.cols = B.cols ∧ EqOn A.rows A.cols A.den.f B.den.f

omit [CommRing R] [StarRing R] in
theorem sameList_forall₂ : ∀ (Ms Ms' : List (Op R)), sameObj.sameList Ms Ms' = true →
    List.Forall₂ (fun M M' => sameObj M M' = true) Ms Ms'
  | [], [], _ => List.Forall₂.nil
  | M :: Ms, M' :: Ms', h => by
    simp only [sameObj.sameList, Bool.and_eq_true] at h
    exact List.Forall₂.cons h.1 (sameList_forall₂ Ms Ms' h.2)
  | [], _ :: _, h => by simp [sameObj.sameList] at h
  | _ :: _, [], h => by simp [sameObj.sameList] at h

omit [DecidableEq R] in
theorem same_members {Ms Ms' : List (Op R)} {P : Op R → Op R → Prop}
    (h : List.Forall₂ P Ms Ms') (ih : ∀ M ∈ Ms, ∀ B, P M B → Same M B) :
    List.Forall₂ Same Ms Ms' := by
  induction h with
  | nil => exact List.Forall₂.nil
  | cons h1 _ ih2 =>
    exact List.Forall₂.cons (ih _ List.mem_cons_self _ h1)
      (ih2 (fun M hM => ih M (List.mem_cons_of_mem _ hM)))

omit [DecidableEq R] in
theorem Same.map_rows {Ms Ms' : List (Op R)} (h : List.Forall₂ Same Ms Ms') :
    Ms.map (·.rows) = Ms'.map (·.rows) := by
  induction h with
  | nil => rfl
  | cons h1 _ ih => simp only [List.map_cons, h1.1, ih]

omit [DecidableEq R] in
theorem Same.map_cols {Ms Ms' : List (Op R)} (h : List.Forall₂ Same Ms Ms') :
    Ms.map (·.cols) = Ms'.map (·.cols) := by
  induction h with
  | nil => rfl
  | cons h1 _ ih => simp only [List.map_cons, h1.2.1, ih]

omit [DecidableEq R] in
/-- two member lists as one list of pairs, for the `FacEqOn` congruence lemmas -/
theorem Same.facEqOn {Ms Ms' : List (Op R)} (h : List.Forall₂ Same Ms Ms') :
    FacEqOn (Ms.zip Ms') (fun p => facDen p.1) (fun p => facDen (R := R) p.2) := by
  induction h with
  | nil => intro x hx; simp at hx
  | cons h1 _ ih =>
    intro x hx
    simp only [List.zip_cons_cons, List.mem_cons] at hx
    rcases hx with rfl | hx
    · exact ⟨h1.1, h1.2.1, h1.2.2⟩
    · exact ih x hx

omit [CommRing R] [StarRing R] [DecidableEq R] in
theorem map_zip_fst {α β γ : Type} (f : α → γ) : ∀ (l : List α) (l' : List β),
    l.length = l'.length → (l.zip l').map (fun p => f p.1) = l.map f
  | [], [], _ => rfl
  | a :: l, b :: l', h => by
    simp only [List.zip_cons_cons, List.map_cons]
    rw [map_zip_fst f l l' (by simpa using h)]
  | [], _ :: _, h => by simp at h
  | _ :: _, [], h => by simp at h

omit [CommRing R] [StarRing R] [DecidableEq R] in
theorem map_zip_snd {α β γ : Type} (f : β → γ) : ∀ (l : List α) (l' : List β),
    l.length = l'.length → (l.zip l').map (fun p => f p.2) = l'.map f
  | [], [], _ => rfl
  | a :: l, b :: l', h => by
    simp only [List.zip_cons_cons, List.map_cons]
    rw [map_zip_snd f l l' (by simpa using h)]
  | [], _ :: _, h => by simp at h
  | _ :: _, [], h => by simp at h

omit [DecidableEq R] in
theorem denChain_same : ∀ (Ms Ms' : List (Op R)) (M0 M0' : Op R), Same M0 M0' →
    List.Forall₂ Same Ms Ms' →
    chainOk ((M0 :: Ms).map (fun M => (M.rows, M.cols))) = true →
    EqOn M0.rows (((M0 :: Ms).map (·.cols)).getLast?.getD 0)
      (denChain (M0 :: Ms)) (denChain (M0' :: Ms'))
  | [], _, M0, M0', h0, h, _ => by
    cases h
    simp only [List.map_cons, List.map_nil, List.getLast?_singleton, Option.getD_some,
      denChain_cons]
    rw [← h0.2.1]
    exact mmul_congr h0.2.2 (EqOn.refl _ _ _)
  | M1 :: Ms, _, M0, M0', h0, h, hc => by
    cases h with
    | cons h1 hrest =>
      simp only [List.map_cons, chainOk, Bool.and_eq_true, beq_iff_eq] at hc
      have ih := denChain_same Ms _ M1 _ h1 hrest (by simpa using hc.2)
      rw [← hc.1] at ih
      simp only [List.map_cons, List.getLast?_cons_cons] at ih ⊢
      rw [denChain_cons, denChain_cons M0', ← h0.2.1]
      exact mmul_congr h0.2.2 ih

omit [CommRing R] [StarRing R] [DecidableEq R] in
theorem foldr_addM_congr [Add R] [Zero R] (r c : Nat) {L L' : List (MatF R)}
    (h : List.Forall₂ (EqOn r c) L L') : EqOn r c (L.foldr addM zeroM) (L'.foldr addM zeroM) := by
  induction h with
  | nil => exact EqOn.refl _ _ _
  | cons h1 _ ih =>
    intro i j hi hj
    simp only [List.foldr_cons, addM]
    rw [h1 i j hi hj, ih i j hi hj]

omit [CommRing R] [StarRing R] [DecidableEq R] in
theorem hstack_congr [Zero R] (r : Nat) {L L' : List (Nat × MatF R)}
    (h : List.Forall₂ (fun p q => p.1 = q.1 ∧ EqOn r p.1 p.2 q.2) L L') :
    ∀ i j, i < r → hstack L i j = hstack L' i j := by
  induction h with
  | nil => intro i j _; rfl
  | @cons p q _ _ h1 _ ih =>
    intro i j hi
    obtain ⟨c, m⟩ := p
    obtain ⟨c', m'⟩ := q
    obtain ⟨rfl, h2⟩ := h1
    simp only [hstack]
    by_cases hj : j < c
    · simp only [hj, if_true]; exact h2 i j hi hj
    · simp only [hj, if_false]; exact ih i (j - c) hi

omit [CommRing R] [StarRing R] [DecidableEq R] in
theorem vstack_congr [Zero R] (c : Nat) {L L' : List (Nat × MatF R)}
    (h : List.Forall₂ (fun p q => p.1 = q.1 ∧ EqOn p.1 c p.2 q.2) L L') :
    ∀ i j, j < c → vstack L i j = vstack L' i j := by
  induction h with
  | nil => intro i j _; rfl
  | @cons p q _ _ h1 _ ih =>
    intro i j hj
    obtain ⟨r, m⟩ := p
    obtain ⟨r', m'⟩ := q
    obtain ⟨rfl, h2⟩ := h1
    simp only [vstack]
    by_cases hi : i < r
    · simp only [hi, if_true]; exact h2 i j hi hj
    · simp only [hi, if_false]; exact ih (i - r) j hj

end generic
end Op
