import ColaVerif.Lemmas.OpMatmat
import ColaVerif.Lemmas.OpAlgebra
import ColaVerif.Basic.GInt

/-!
# A witness tree for `HermOK` on which the SelfAdjoint shortcut really runs

`hermWitness` = `SelfAdjoint(Dense(H)) + SelfAdjoint(no_dispatch(Dense(H')))` over the Gaussian
integers, `H`, `H'` Hermitian 2 × 2 with NON-REAL off-diagonal entries, dtype complex128.  Both
declared leaves and the `Sum` itself report SelfAdjoint; the second term has no explicit
`_rmatmat`, so its left product takes the conjugation shortcut of `operator_base.py` — the only
place where the hypothesis `HermOK` of the C01 / C02 theorems is used.  `hermWitness_good` proves
all four hypotheses (`wf`, `dupSlice = false`, `HermOK`, `RealTyped`) of those theorems on it.
-/

/-- Hermitian, non-real off-diagonal -/
def hermH : MatF GInt := fun i j =>
  if i = 0 ∧ j = 0 then 1 else if i = 0 ∧ j = 1 then ⟨2, 1⟩ else if i = 1 ∧ j = 0 then ⟨2, -1⟩ else 3
def hermH' : MatF GInt := fun i j =>
  if i = 0 ∧ j = 1 then GInt.I else if i = 1 ∧ j = 0 then -GInt.I else 0

def hermWitness : Op GInt :=
  .sum [.annot .selfAdjoint (.dense .c128 2 2 hermH),
        .annot .selfAdjoint (.generic (.dense .c128 2 2 hermH'))]

/-- the `Sum` reports SelfAdjoint, and its second term runs the default `_rmatmat` -/
theorem hermWitness_reports : hermWitness.isa .selfAdjoint = true ∧
    (Op.annot .selfAdjoint (.generic (.dense .c128 2 2 hermH'))).hasExplicitRmm = false := by
  simp [hermWitness, Op.isa, Op.anns, AnnSet.isa, AnnSet.union, AnnSet.inter, AnnSet.interAll, AnnSet.diff, Ann.sub, Op.hasExplicitRmm]

/-- the hypothesis bundle of the C01 / C02 theorems holds on `hermWitness` -/
theorem hermWitness_good : hermWitness.wf = true ∧ hermWitness.dupSlice = false ∧ hermWitness.HermOK ∧ hermWitness.RealTyped := by
  refine ⟨by simp [hermWitness, Op.wf, Op.rows, Op.cols], by simp [hermWitness, Op.dupSlice], ?_, by simp [hermWitness, Op.RealTyped, DType.isComplex]⟩
  have ent : ∀ (P : Nat → Nat → Prop), P 0 0 → P 0 1 → P 1 0 → P 1 1 → ∀ i j, i < 2 → j < 2 → P i j := by
    intro P a b c d i j hi hj
    have h1 : i = 0 ∨ i = 1 := by omega
    have h2 : j = 0 ∨ j = 1 := by omega
    rcases h1 with rfl | rfl <;> rcases h2 with rfl | rfl <;> assumption
  simp only [hermWitness, Op.HermOK, Op.HermNode, List.mem_cons, List.not_mem_nil, or_false, forall_eq_or_imp, forall_eq]
  refine ⟨fun _ => ⟨by simp [Op.rows, Op.cols], ?_⟩, ⟨fun _ => ⟨by simp [Op.rows, Op.cols], ?_⟩, ?_⟩, ⟨fun _ => ⟨by simp [Op.rows, Op.cols], ?_⟩, ?_, ?_⟩⟩
  · simp only [Op.rows, Op.cols, Op.den, MatV.of_f, forceV_f, List.map_cons, List.map_nil, List.foldr_cons, List.foldr_nil, List.head?_cons, Option.getD_some]
    apply ent <;> decide
  · simp only [Op.rows, Op.den, MatV.of_f]
    apply ent <;> decide
  · simp [Op.isa, Op.anns, AnnSet.isa]
  · simp only [Op.rows, Op.den, MatV.of_f]
    apply ent <;> decide
  · simp [Op.isa, Op.anns, AnnSet.isa]
  · simp [Op.isa, Op.anns, AnnSet.isa]

#print axioms hermWitness_good
