import Mathlib.Data.List.Perm.Basic
import Mathlib.Data.Real.Basic
import Mathlib.Order.Defs.LinearOrder
import ColaVerif.Model.Svd
import ColaVerif.Lemmas.OpIndex

/-!
# C16: selection (`get_slice`, `argsort`)

* `positions_LM`, `positions_SM` : the positions `get_slice(k, which)` selects from an array of
  length `n`: the last / first `min k n` ones (`positions_LM_zero`: `k = 0` with `'LM'` selects
  EVERYTHING, `slice(-0, None)`; outside the quantifier `1 ≤ k` of the property);
* `largest_selected`, `smallest_selected` : on an ascending array these are the `k` largest /
  smallest values; `largest_selected_abs` : for non-negative values (singular values) "largest" and
  "largest in magnitude" coincide;
* `argsort_perm`, `argsort_sorted` : `argsort` returns a permutation of `0 … n-1` along which the
  keys ascend (DenseSVD re-orders LAPACK's descending singular values).
-/

namespace Svd

/-! ## `get_slice` -/

theorem sliceIndices_SM (n k : Nat) :
    Ix.sliceIndices n (some 0) (some (k : Int)) none = (((0 : Nat) : Int), ((min k n : Nat) : Int), 1) := by
  simp only [Ix.sliceIndices, Option.getD_none]
  refine Prod.ext ?_ (Prod.ext ?_ rfl)
  · simp only
    split_ifs <;> omega
  · simp only
    split_ifs <;> omega

theorem positions_SM (n k : Nat) : positions n (k : Int) .SM = .ok (List.range (min k n)) := by
  have hk : ¬ ((k : Int) = -1) := by omega
  simp only [positions, getSlice, if_neg hk, Ix.resolve]
  rw [if_neg (by simp), sliceIndices_SM]
  simp only
  have h := Ix.rangeList_up (min k n) (n + 1) 0 (by omega) (by omega)
  simp only [Nat.sub_zero] at h
  rw [h, List.range_eq_range']

theorem sliceIndices_LM (n k : Nat) (hk : 1 ≤ k) :
    Ix.sliceIndices n (some (-(k : Int))) none none = (((n - min k n : Nat) : Int), ((n : Nat) : Int), 1) := by
  simp only [Ix.sliceIndices, Option.getD_none]
  refine Prod.ext ?_ (Prod.ext ?_ rfl)
  · simp only
    split_ifs <;> omega
  · simp only
    split_ifs <;> omega

theorem positions_LM (n k : Nat) (hk : 1 ≤ k) :
    positions n (k : Int) .LM = .ok (List.range' (n - min k n) (min k n)) := by
  have hk1 : ¬ ((k : Int) = -1) := by omega
  simp only [positions, getSlice, if_neg hk1, Ix.resolve]
  rw [if_neg (by simp), sliceIndices_LM n k hk]
  simp only
  have h := Ix.rangeList_up n (n + 1) (n - min k n) (by omega) (by omega)
  rw [h]
  congr 2
  omega

/-- the quirk `slice(-0, None)`: asking for `0` largest values returns all of them -/
theorem positions_LM_zero (n : Nat) : positions n 0 .LM = .ok (List.range n) := by
  simp only [positions, getSlice]
  rw [if_neg (by omega)]
  simp only [neg_zero]
  have : Ix.resolve n (.slice (some 0) none none) = some (List.range n) := by
    simp only [Ix.resolve]
    rw [if_neg (by simp)]
    have hs : Ix.sliceIndices n (some 0) none none = (((0 : Nat) : Int), ((n : Nat) : Int), 1) := by
      simp only [Ix.sliceIndices, Option.getD_none]
      refine Prod.ext ?_ (Prod.ext ?_ rfl)
      · simp only
        split_ifs <;> omega
      · simp only
        split_ifs <;> omega
    rw [hs]
    simp only
    have h := Ix.rangeList_up n (n + 1) 0 (by omega) (by omega)
    simp only [Nat.sub_zero] at h
    rw [h, List.range_eq_range']
  rw [this]

theorem positions_minus_one (n : Nat) (w : Which) : positions n (-1) w = .error "error:ValueError" := by
  simp [positions, getSlice]

theorem positions_other (n : Nat) (k : Int) (hk : k ≠ -1) :
    positions n k .other = .error "not-implemented" := by
  simp [positions, getSlice, hk]

/-! ## the selected positions carry the extreme values of an ascending array -/

/-- `'LM'` on an ascending array: every selected value dominates every unselected one -/
theorem largest_selected (n k : Nat) (vals : Nat → ℝ)
    (asc : ∀ i j, i ≤ j → j < n → vals i ≤ vals j) :
    ∀ p ∈ List.range' (n - min k n) (min k n), ∀ q, q < n → q ∉ List.range' (n - min k n) (min k n) →
      vals q ≤ vals p := by
  intro p hp q hq hnq
  rw [List.mem_range'_1] at hp hnq
  apply asc q p _ (by omega)
  omega

/-- `'SM'` on an ascending array: every selected value is dominated by every unselected one -/
theorem smallest_selected (n k : Nat) (vals : Nat → ℝ)
    (asc : ∀ i j, i ≤ j → j < n → vals i ≤ vals j) :
    ∀ p ∈ List.range (min k n), ∀ q, q < n → q ∉ List.range (min k n) → vals p ≤ vals q := by
  intro p hp q hq hnq
  rw [List.mem_range] at hp hnq
  apply asc p q _ hq
  omega

/-- singular values are non-negative: ordering by value = ordering by magnitude -/
theorem largest_selected_abs (n k : Nat) (vals : Nat → ℝ)
    (asc : ∀ i j, i ≤ j → j < n → vals i ≤ vals j) (nonneg : ∀ i, i < n → 0 ≤ vals i) :
    ∀ p ∈ List.range' (n - min k n) (min k n), ∀ q, q < n → q ∉ List.range' (n - min k n) (min k n) →
      |vals q| ≤ |vals p| := by
  intro p hp q hq hnq
  have hpn : p < n := by
    rw [List.mem_range'_1] at hp
    omega
  rw [abs_of_nonneg (nonneg q hq), abs_of_nonneg (nonneg p hpn)]
  exact largest_selected n k vals asc p hp q hq hnq

theorem selected_count_LM (n k : Nat) (hk : k ≤ n) :
    (List.range' (n - min k n) (min k n)).length = k ∧ (List.range' (n - min k n) (min k n)).Nodup ∧
      ∀ p ∈ List.range' (n - min k n) (min k n), p < n := by
  refine ⟨by simp [Nat.min_eq_left hk], List.nodup_range' .., ?_⟩
  intro p hp
  rw [List.mem_range'_1] at hp
  omega

/-! ## `argsort` -/

section sort
variable {α : Type} (lt : α → α → Bool) (key : Nat → α)

theorem insertIdx_perm (j : Nat) : ∀ l : List Nat, (insertIdx lt key j l).Perm (j :: l)
  | [] => by simp [insertIdx]
  | k :: ks => by
    unfold insertIdx
    split
    · exact List.Perm.refl _
    · exact ((insertIdx_perm j ks).cons k).trans (List.Perm.swap j k ks)

theorem argsort_succ (n : Nat) :
    argsort lt (n + 1) key = insertIdx lt key n (argsort lt n key) := by
  unfold argsort
  rw [List.range_succ, List.foldl_append]
  rfl

theorem argsort_perm (n : Nat) : (argsort lt n key).Perm (List.range n) := by
  induction n with
  | zero => simp [argsort]
  | succ n ih =>
    rw [argsort_succ, List.range_succ]
    exact (insertIdx_perm lt key n _).trans ((ih.cons n).trans (List.perm_append_singleton n _).symm)

end sort

section linord
variable {α : Type} [LinearOrder α]

/-- ascending along a list of indices -/
def KeyLe (key : Nat → α) (a b : Nat) : Prop := key a ≤ key b

/-- the comparison the drivers instantiate `argsort` with -/
def ltOf : α → α → Bool := fun a b => decide (a < b)

theorem insertIdx_sorted (key : Nat → α) (j : Nat) : ∀ l : List Nat, l.Pairwise (KeyLe key) →
    (insertIdx ltOf key j l).Pairwise (KeyLe key)
  | [], _ => by simp [insertIdx]
  | k :: ks, h => by
    rw [List.pairwise_cons] at h
    unfold insertIdx
    split
    · rename_i hlt
      simp only [ltOf, decide_eq_true_eq] at hlt
      rw [List.pairwise_cons]
      refine ⟨?_, List.pairwise_cons.mpr h⟩
      intro x hx
      rcases List.mem_cons.mp hx with rfl | hx'
      · exact le_of_lt hlt
      · exact le_trans (le_of_lt hlt) (h.1 x hx')
    · rename_i hnlt
      simp only [ltOf, decide_eq_true_eq, not_lt] at hnlt
      rw [List.pairwise_cons]
      refine ⟨?_, insertIdx_sorted key j ks h.2⟩
      intro x hx
      have := (insertIdx_perm ltOf key j ks).mem_iff.mp hx
      rcases List.mem_cons.mp this with rfl | hx'
      · exact hnlt
      · exact h.1 x hx'

theorem argsort_sorted (key : Nat → α) (n : Nat) : (argsort ltOf n key).Pairwise (KeyLe key) := by
  induction n with
  | zero => simp [argsort]
  | succ n ih =>
    rw [argsort_succ]
    exact insertIdx_sorted key n _ ih

/-- the re-ordered values ascend -/
theorem argsort_values_ascend (key : Nat → α) (n : Nat) :
    ((argsort ltOf n key).map key).Pairwise (· ≤ ·) := by
  rw [List.pairwise_map]
  exact argsort_sorted key n

end linord

theorem argsort_length {α : Type} (lt : α → α → Bool) (key : Nat → α) (n : Nat) :
    (argsort lt n key).length = n := by
  rw [(argsort_perm lt key n).length_eq, List.length_range]

theorem argsort_nodup {α : Type} (lt : α → α → Bool) (key : Nat → α) (n : Nat) :
    (argsort lt n key).Nodup :=
  (argsort_perm lt key n).nodup_iff.mpr List.nodup_range

theorem argsort_lt {α : Type} (lt : α → α → Bool) (key : Nat → α) (n : Nat) :
    ∀ t ∈ argsort lt n key, t < n := by
  intro t ht
  exact List.mem_range.mp ((argsort_perm lt key n).mem_iff.mp ht)

end Svd
