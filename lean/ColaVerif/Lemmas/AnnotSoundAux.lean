import ColaVerif.Lemmas.Bridge
import ColaVerif.Model.Annot
import ColaVerif.Lemmas.KronSum

/-!
# C05, matrix level: the meaning of the four annotations and their closure properties

`Holds a n m D` — the `n × m` window of the entry function `D` has the property named by the
annotation `a` (through the bridge `MatF.toMatrix` to Mathlib's `IsHermitian`, `PosSemidef`, and
`Dᴴ D = 1`, `D Dᴴ = 1`).  No reference to `Op` here: these are the facts about identity,
permutation, Kronecker, block-diagonal, sum, product, Gram product, principal selection,
transpose and adjoint that the soundness recursion in `AnnotSound.lean` combines.
-/

open Matrix
open scoped Kronecker ComplexOrder

variable {𝕜 : Type} [RCLike 𝕜]

/-- the meaning of an annotation for the `n × m` window of `D` -/
def Holds : Ann → Nat → Nat → MatF 𝕜 → Prop
  | .selfAdjoint, n, m, D => n = m ∧ (MatF.toMatrix n n D).IsHermitian
  | .psd, n, m, D => n = m ∧ (MatF.toMatrix n n D).PosSemidef
  | .stiefel, n, m, D => (MatF.toMatrix n m D)ᴴ * MatF.toMatrix n m D = 1
  | .unitary, n, m, D => n = m ∧ (MatF.toMatrix n m D)ᴴ * MatF.toMatrix n m D = 1 ∧
      MatF.toMatrix n m D * (MatF.toMatrix n m D)ᴴ = 1

theorem holds_selfAdjoint_iff {n m : Nat} {D : MatF 𝕜} :
    Holds .selfAdjoint n m D ↔ n = m ∧ (MatF.toMatrix n n D).IsHermitian := Iff.rfl
theorem holds_psd_iff {n m : Nat} {D : MatF 𝕜} :
    Holds .psd n m D ↔ n = m ∧ (MatF.toMatrix n n D).PosSemidef := Iff.rfl
theorem holds_stiefel_iff {n m : Nat} {D : MatF 𝕜} :
    Holds .stiefel n m D ↔ (MatF.toMatrix n m D)ᴴ * MatF.toMatrix n m D = 1 := Iff.rfl
theorem holds_unitary_iff {n m : Nat} {D : MatF 𝕜} :
    Holds .unitary n m D ↔ n = m ∧ (MatF.toMatrix n m D)ᴴ * MatF.toMatrix n m D = 1 ∧
      MatF.toMatrix n m D * (MatF.toMatrix n m D)ᴴ = 1 := Iff.rfl

namespace Holds

/-- only the window matters -/
theorem congr {a : Ann} {n m : Nat} {D D' : MatF 𝕜} (h : EqOn n m D D') (hD : Holds a n m D) :
    Holds a n m D' := by
  cases a with
  | selfAdjoint =>
    obtain ⟨rfl, h1⟩ := hD
    exact ⟨rfl, (MatF.toMatrix_congr h) ▸ h1⟩
  | psd =>
    obtain ⟨rfl, h1⟩ := hD
    exact ⟨rfl, (MatF.toMatrix_congr h) ▸ h1⟩
  | stiefel =>
    rw [holds_stiefel_iff] at hD ⊢
    rw [← MatF.toMatrix_congr h]; exact hD
  | unitary =>
    rw [holds_unitary_iff] at hD ⊢
    rw [← MatF.toMatrix_congr h]; exact hD

/-- PSD ≤ SelfAdjoint -/
theorem psd_selfAdjoint {n m : Nat} {D : MatF 𝕜} (h : Holds .psd n m D) :
    Holds .selfAdjoint n m D := ⟨h.1, h.2.isHermitian⟩

/-- Unitary ≤ Stiefel -/
theorem unitary_stiefel {n m : Nat} {D : MatF 𝕜} (h : Holds .unitary n m D) :
    Holds .stiefel n m D := h.2.1

/-- entrywise reading of `SelfAdjoint` -/
theorem selfAdjoint_entry {n m : Nat} {D : MatF 𝕜} (h : Holds .selfAdjoint n m D) :
    n = m ∧ ∀ i j, i < n → j < n → D i j = star (D j i) := by
  refine ⟨h.1, fun i j hi hj => ?_⟩
  have := congrFun (congrFun h.2 ⟨i, hi⟩) ⟨j, hj⟩
  simp only [conjTranspose_apply, MatF.toMatrix_apply] at this
  exact this.symm

/-- a square Stiefel matrix is unitary -/
theorem stiefel_square {n : Nat} {D : MatF 𝕜} (h : Holds .stiefel n n D) :
    Holds .unitary n n D := by
  rw [holds_stiefel_iff] at h
  exact ⟨rfl, h, mul_eq_one_comm.mp h⟩

end Holds

/-! ## identity -/

theorem holds_eyeM (a : Ann) (n : Nat) : Holds a n n (eyeM : MatF 𝕜) := by
  cases a
  · rw [holds_selfAdjoint_iff, MatF.toMatrix_eyeM]; exact ⟨rfl, isHermitian_one⟩
  · rw [holds_psd_iff, MatF.toMatrix_eyeM]; exact ⟨rfl, PosSemidef.one⟩
  · rw [holds_stiefel_iff, MatF.toMatrix_eyeM]; simp
  · rw [holds_unitary_iff, MatF.toMatrix_eyeM]; simp

/-! ## permutation -/

/-- the permutation matrix of a duplicate-free list of in-range positions is unitary -/
theorem holds_permDen (p : List Nat) (hlt : ∀ t ∈ p, t < p.length) (hnd : p.Nodup) :
    Holds .unitary p.length p.length (permDen p : MatF 𝕜) := by
  let σ : Fin p.length → Fin p.length := MatF.idxFin p.length p hlt
  have hinj : Function.Injective σ := by
    intro i j hij
    have h := congrArg Fin.val hij
    simp only [σ, MatF.idxFin] at h
    rw [← List.getElem_eq_getD (h := i.isLt) 0, ← List.getElem_eq_getD (h := j.isLt) 0] at h
    exact Fin.ext ((List.Nodup.getElem_inj_iff hnd).mp h)
  have hM : MatF.toMatrix p.length p.length (permDen p : MatF 𝕜)
      = Matrix.of (fun i j => if σ i = j then 1 else 0) := by
    ext i j
    simp only [MatF.toMatrix_apply, permDen, σ, MatF.idxFin, Fin.ext_iff, Matrix.of_apply]
  have h2 : MatF.toMatrix p.length p.length (permDen p : MatF 𝕜)
      * (MatF.toMatrix p.length p.length (permDen p : MatF 𝕜))ᴴ = 1 := by
    rw [hM]
    ext i k
    simp only [Matrix.mul_apply, conjTranspose_apply, Matrix.one_apply, Matrix.of_apply]
    have : ∀ j, (if σ i = j then (1 : 𝕜) else 0) * star (if σ k = j then (1 : 𝕜) else 0)
        = if σ i = j then (if σ k = σ i then 1 else 0) else 0 := by
      intro j
      by_cases h1 : σ i = j
      · subst h1
        by_cases h2 : σ k = σ i <;> simp [h2]
      · simp [h1]
    simp only [this, Finset.sum_ite_eq, Finset.mem_univ, if_true]
    by_cases hik : i = k
    · subst hik; simp
    · rw [if_neg hik, if_neg]
      intro h; exact hik (hinj h).symm
  exact ⟨rfl, mul_eq_one_comm.mp h2, h2⟩

/-! ## Kronecker product -/

theorem isHermitian_kronecker {l n : Type} {A : Matrix l l 𝕜} {B : Matrix n n 𝕜}
    (hA : A.IsHermitian) (hB : B.IsHermitian) : (A ⊗ₖ B).IsHermitian := by
  unfold Matrix.IsHermitian
  rw [conjTranspose_kronecker, hA.eq, hB.eq]

theorem stiefel_kronecker {l m n p : Type} [Fintype l] [Fintype n] [DecidableEq m]
    [DecidableEq p] {A : Matrix l m 𝕜} {B : Matrix n p 𝕜} (hA : Aᴴ * A = 1)
    (hB : Bᴴ * B = 1) : (A ⊗ₖ B)ᴴ * (A ⊗ₖ B) = 1 := by
  rw [conjTranspose_kronecker, ← mul_kronecker_mul, hA, hB, one_kronecker_one]

theorem reindex_stiefel {l m l' m' : Type} [Fintype l] [Fintype m] [Fintype l'] [Fintype m']
    [DecidableEq m] [DecidableEq m'] (e : l ≃ l') (f : m ≃ m') {A : Matrix l m 𝕜}
    (hA : Aᴴ * A = 1) : (Matrix.reindex e f A)ᴴ * Matrix.reindex e f A = 1 := by
  rw [conjTranspose_reindex]
  simp only [reindex_apply]
  rw [submatrix_mul_equiv, hA, submatrix_one_equiv]

theorem holds_kron2 (a : Ann) (r c r' c' : Nat) (A B : MatF 𝕜) (hA : Holds a r c A)
    (hB : Holds a r' c' B) : Holds a (r * r') (c * c') (kron2 r' c' A B) := by
  cases a with
  | selfAdjoint =>
    obtain ⟨rfl, h1⟩ := hA
    obtain ⟨rfl, h2⟩ := hB
    refine ⟨rfl, ?_⟩
    rw [MatF.toMatrix_kron2, reindex_apply]
    exact (isHermitian_kronecker h1 h2).submatrix _
  | psd =>
    obtain ⟨rfl, h1⟩ := hA
    obtain ⟨rfl, h2⟩ := hB
    refine ⟨rfl, ?_⟩
    rw [MatF.toMatrix_kron2, reindex_apply]
    exact (h1.kronecker h2).submatrix _
  | stiefel =>
    rw [holds_stiefel_iff] at hA hB ⊢
    rw [MatF.toMatrix_kron2]
    exact reindex_stiefel _ _ (stiefel_kronecker hA hB)
  | unitary =>
    obtain ⟨rfl, h1, h1'⟩ := hA
    obtain ⟨rfl, h2, h2'⟩ := hB
    rw [holds_unitary_iff]
    have h3 : (MatF.toMatrix (r * r') (r * r') (kron2 r' r' A B))ᴴ
        * MatF.toMatrix (r * r') (r * r') (kron2 r' r' A B) = 1 := by
      rw [MatF.toMatrix_kron2]
      exact reindex_stiefel _ _ (stiefel_kronecker h1 h2)
    exact ⟨rfl, h3, mul_eq_one_comm.mp h3⟩

theorem kronDen_cons_eq_kron2 (M : FacAct 𝕜) (Ms : List (FacAct 𝕜)) :
    kronDen (M :: Ms) = kron2 (Ms.map (·.r)).prod (Ms.map (·.c)).prod M.a (kronDen Ms) := by
  funext I J
  rw [kronDen_cons]
  rfl

/-- Kronecker product of any number of factors that all have the property `a` -/
theorem holds_kronDen (a : Ann) : ∀ (L : List (FacAct 𝕜)), (∀ F ∈ L, Holds a F.r F.c F.a) →
    Holds a (L.map (·.r)).prod (L.map (·.c)).prod (kronDen L)
  | [], _ => by
    have h : EqOn 1 1 (eyeM : MatF 𝕜) (kronDen []) := by
      intro i j hi hj
      have hi0 : i = 0 := by omega
      have hj0 : j = 0 := by omega
      subst hi0 hj0
      simp [eyeM, kronDen, kronEntry]
    exact Holds.congr h (holds_eyeM a 1)
  | F :: L, h => by
    rw [kronDen_cons_eq_kron2]
    simp only [List.map_cons, List.prod_cons]
    exact holds_kron2 a _ _ _ _ _ _ (h F List.mem_cons_self)
      (holds_kronDen a L (fun G hG => h G (List.mem_cons_of_mem _ hG)))

/-! ## block diagonal -/

open scoped MatrixOrder in
theorem posSemidef_fromBlocks_diag {l n : Type} [Fintype l] [Fintype n] [DecidableEq l]
    [DecidableEq n] {A : Matrix l l 𝕜} {D : Matrix n n 𝕜} (hA : A.PosSemidef)
    (hD : D.PosSemidef) : (fromBlocks A 0 0 D).PosSemidef := by
  obtain ⟨a, rfl⟩ := CStarAlgebra.nonneg_iff_eq_star_mul_self.mp hA.nonneg
  obtain ⟨d, rfl⟩ := CStarAlgebra.nonneg_iff_eq_star_mul_self.mp hD.nonneg
  have h : fromBlocks (star a * a) 0 0 (star d * d)
      = (fromBlocks a 0 0 d)ᴴ * fromBlocks a 0 0 d := by
    rw [fromBlocks_conjTranspose, fromBlocks_multiply]
    simp [star_eq_conjTranspose]
  rw [h]
  exact posSemidef_conjTranspose_mul_self _

theorem stiefel_fromBlocks_diag {l m n p : Type} [Fintype l] [Fintype n] [DecidableEq m]
    [DecidableEq p] {A : Matrix l m 𝕜} {D : Matrix n p 𝕜} (hA : Aᴴ * A = 1) (hD : Dᴴ * D = 1) :
    (fromBlocks A 0 0 D)ᴴ * fromBlocks A 0 0 D = 1 := by
  rw [fromBlocks_conjTranspose, fromBlocks_multiply]
  simp [hA, hD]

theorem holds_blockDiagM_cons (a : Ann) (r c R' C' : Nat) (m : MatF 𝕜)
    (rest : List (Nat × Nat × MatF 𝕜)) (h1 : Holds a r c m)
    (h2 : Holds a R' C' (blockDiagM rest)) :
    Holds a (r + R') (c + C') (blockDiagM ((r, c, m) :: rest)) := by
  cases a with
  | selfAdjoint =>
    obtain ⟨rfl, h1⟩ := h1
    obtain ⟨rfl, h2⟩ := h2
    refine ⟨rfl, ?_⟩
    rw [MatF.toMatrix_blockDiagM_cons, reindex_apply]
    exact (IsHermitian.fromBlocks h1 (by simp) h2).submatrix _
  | psd =>
    obtain ⟨rfl, h1⟩ := h1
    obtain ⟨rfl, h2⟩ := h2
    refine ⟨rfl, ?_⟩
    rw [MatF.toMatrix_blockDiagM_cons, reindex_apply]
    exact (posSemidef_fromBlocks_diag h1 h2).submatrix _
  | stiefel =>
    rw [holds_stiefel_iff] at h1 h2 ⊢
    rw [MatF.toMatrix_blockDiagM_cons]
    exact reindex_stiefel _ _ (stiefel_fromBlocks_diag h1 h2)
  | unitary =>
    obtain ⟨rfl, h1, -⟩ := h1
    obtain ⟨rfl, h2, -⟩ := h2
    have h3 : (MatF.toMatrix (r + R') (r + R') (blockDiagM ((r, r, m) :: rest)))ᴴ
        * MatF.toMatrix (r + R') (r + R') (blockDiagM ((r, r, m) :: rest)) = 1 := by
      rw [MatF.toMatrix_blockDiagM_cons]
      exact reindex_stiefel _ _ (stiefel_fromBlocks_diag h1 h2)
    exact ⟨rfl, h3, mul_eq_one_comm.mp h3⟩

/-- every annotation holds of the empty (`0 × 0`) matrix -/
theorem holds_empty (a : Ann) (D : MatF 𝕜) : Holds a 0 0 D := by
  have h : EqOn 0 0 (eyeM : MatF 𝕜) D := fun i j hi _ => absurd hi (Nat.not_lt_zero _)
  exact Holds.congr h (holds_eyeM a 0)

/-- block-diagonal matrix of blocks that all have the property `a` -/
theorem holds_blockDiagM (a : Ann) : ∀ (L : List (Nat × Nat × MatF 𝕜)),
    (∀ q ∈ L, Holds a q.1 q.2.1 q.2.2) →
    Holds a (L.map (·.1)).sum (L.map (·.2.1)).sum (blockDiagM L)
  | [], _ => holds_empty a _
  | (r, c, m) :: L, h => by
    simp only [List.map_cons, List.sum_cons]
    exact holds_blockDiagM_cons a r c _ _ m L (h _ List.mem_cons_self)
      (holds_blockDiagM a L (fun q hq => h q (List.mem_cons_of_mem _ hq)))

omit [RCLike 𝕜] in
theorem expandBlocks_sum_r : ∀ (Ms : List (FacAct 𝕜 × Nat)),
    ((expandBlocks Ms).map (·.1)).sum = (Ms.map (fun q => q.2 * q.1.r)).sum
  | [] => by simp [expandBlocks]
  | (M, k) :: Ms => by
    have ih := expandBlocks_sum_r Ms
    simp only [expandBlocks] at ih ⊢
    simp [ih]

omit [RCLike 𝕜] in
theorem expandBlocks_sum_c : ∀ (Ms : List (FacAct 𝕜 × Nat)),
    ((expandBlocks Ms).map (·.2.1)).sum = (Ms.map (fun q => q.2 * q.1.c)).sum
  | [] => by simp [expandBlocks]
  | (M, k) :: Ms => by
    have ih := expandBlocks_sum_c Ms
    simp only [expandBlocks] at ih ⊢
    simp [ih]

/-- `BlockDiag` with multiplicities -/
theorem holds_bdiagDen (a : Ann) (Ms : List (FacAct 𝕜 × Nat))
    (h : ∀ q ∈ Ms, Holds a q.1.r q.1.c q.1.a) :
    Holds a (Ms.map (fun q => q.2 * q.1.r)).sum (Ms.map (fun q => q.2 * q.1.c)).sum
      (bdiagDen Ms) := by
  rw [← expandBlocks_sum_r, ← expandBlocks_sum_c]
  apply holds_blockDiagM
  intro q hq
  simp only [expandBlocks, List.mem_flatMap, List.mem_replicate] at hq
  obtain ⟨t, ht, _, rfl⟩ := hq
  exact h t ht

/-! ## sums -/

theorem holds_foldr_addM_selfAdjoint (n : Nat) : ∀ (L : List (MatF 𝕜)),
    (∀ D ∈ L, Holds .selfAdjoint n n D) → Holds .selfAdjoint n n (L.foldr addM zeroM)
  | [], _ => ⟨rfl, by rw [List.foldr_nil, MatF.toMatrix_zeroM]; exact isHermitian_zero⟩
  | D :: L, h => by
    have ih := holds_foldr_addM_selfAdjoint n L (fun E hE => h E (List.mem_cons_of_mem _ hE))
    refine ⟨rfl, ?_⟩
    rw [List.foldr_cons, MatF.toMatrix_addM]
    exact (h D List.mem_cons_self).2.add ih.2

theorem holds_foldr_addM_psd (n : Nat) : ∀ (L : List (MatF 𝕜)),
    (∀ D ∈ L, Holds .psd n n D) → Holds .psd n n (L.foldr addM zeroM)
  | [], _ => ⟨rfl, by rw [List.foldr_nil, MatF.toMatrix_zeroM]; exact PosSemidef.zero⟩
  | D :: L, h => by
    have ih := holds_foldr_addM_psd n L (fun E hE => h E (List.mem_cons_of_mem _ hE))
    refine ⟨rfl, ?_⟩
    rw [List.foldr_cons, MatF.toMatrix_addM]
    exact (h D List.mem_cons_self).2.add ih.2

/-! ## products -/

/-- product of two Stiefel (resp. unitary) matrices -/
theorem holds_mmul (a : Ann) (ha : a = .stiefel ∨ a = .unitary) (r k c : Nat) (A B : MatF 𝕜)
    (hA : Holds a r k A) (hB : Holds a k c B) : Holds a r c (mmul k A B) := by
  have key : ∀ {r k c : Nat} {A B : MatF 𝕜}, Holds .stiefel r k A → Holds .stiefel k c B →
      Holds .stiefel r c (mmul k A B) := by
    intro r k c A B hA hB
    rw [holds_stiefel_iff] at hA hB ⊢
    rw [MatF.toMatrix_mmul, conjTranspose_mul, Matrix.mul_assoc,
      ← Matrix.mul_assoc _ (MatF.toMatrix r k A), hA, Matrix.one_mul, hB]
  rcases ha with rfl | rfl
  · exact key hA hB
  · obtain ⟨rfl, h1, -⟩ := hA
    obtain ⟨rfl, h2, -⟩ := hB
    exact Holds.stiefel_square (key h1 h2)

/-- `Aᴴ A` is PSD -/
theorem holds_gram_left (r c : Nat) (A : MatF 𝕜) :
    Holds .psd c c (mmul r (conjM (transposeM A)) A) := by
  refine ⟨rfl, ?_⟩
  rw [MatF.toMatrix_mmul, MatF.toMatrix_adjoint]
  exact posSemidef_conjTranspose_mul_self _

/-- `A Aᴴ` is PSD -/
theorem holds_gram_right (r c : Nat) (A : MatF 𝕜) :
    Holds .psd r r (mmul c A (conjM (transposeM A))) := by
  refine ⟨rfl, ?_⟩
  rw [MatF.toMatrix_mmul, MatF.toMatrix_adjoint]
  exact posSemidef_self_mul_conjTranspose _

/-! ## selection with the same index list on both sides -/

theorem holds_slicedDen (a : Ann) (ha : a = .selfAdjoint ∨ a = .psd) (n : Nat) (A : MatF 𝕜)
    (l : List Nat) (hl : ∀ t ∈ l, t < n) (hA : Holds a n n A) :
    Holds a l.length l.length (slicedDen A l l) := by
  rcases ha with rfl | rfl
  · refine ⟨rfl, ?_⟩
    rw [MatF.toMatrix_slicedDen n n A l l hl hl]
    exact hA.2.submatrix _
  · refine ⟨rfl, ?_⟩
    rw [MatF.toMatrix_slicedDen n n A l l hl hl]
    exact hA.2.submatrix _

/-! ## transpose and adjoint -/

theorem holds_adjoint (a : Ann) (r c : Nat) (A : MatF 𝕜) (hA : Holds a r c A)
    (hs : a = .stiefel → r = c) : Holds a c r (conjM (transposeM A)) := by
  cases a with
  | selfAdjoint =>
    obtain ⟨rfl, h⟩ := hA
    refine ⟨rfl, ?_⟩
    rw [MatF.toMatrix_adjoint]
    exact h.conjTranspose
  | psd =>
    obtain ⟨rfl, h⟩ := hA
    refine ⟨rfl, ?_⟩
    rw [MatF.toMatrix_adjoint]
    exact h.conjTranspose
  | unitary =>
    obtain ⟨rfl, h1, h2⟩ := hA
    rw [holds_unitary_iff, MatF.toMatrix_adjoint, conjTranspose_conjTranspose]
    exact ⟨rfl, h2, h1⟩
  | stiefel =>
    obtain rfl := hs rfl
    have h2 := (Holds.stiefel_square hA).2.2
    rw [holds_stiefel_iff, MatF.toMatrix_adjoint, conjTranspose_conjTranspose]
    exact h2

theorem holds_transpose (a : Ann) (r c : Nat) (A : MatF 𝕜) (hA : Holds a r c A)
    (hs : a = .stiefel → r = c) : Holds a c r (transposeM A) := by
  have key : ∀ {n : Nat} {D : MatF 𝕜},
      MatF.toMatrix n n D * (MatF.toMatrix n n D)ᴴ = 1 →
      (MatF.toMatrix n n (transposeM D))ᴴ * MatF.toMatrix n n (transposeM D) = 1 := by
    intro n D h
    rw [MatF.toMatrix_transposeM, conjTranspose_transpose_eq_transpose_conjTranspose,
      ← transpose_mul, h, transpose_one]
  cases a with
  | selfAdjoint =>
    obtain ⟨rfl, h⟩ := hA
    refine ⟨rfl, ?_⟩
    rw [MatF.toMatrix_transposeM]
    exact h.transpose
  | psd =>
    obtain ⟨rfl, h⟩ := hA
    refine ⟨rfl, ?_⟩
    rw [MatF.toMatrix_transposeM]
    exact h.transpose
  | unitary =>
    obtain ⟨rfl, -, h2⟩ := hA
    exact Holds.stiefel_square (key h2)
  | stiefel =>
    obtain rfl := hs rfl
    exact key (Holds.stiefel_square hA).2.2
