import Mathlib.LinearAlgebra.FiniteDimensional.Lemmas
import ColaVerif.Lemmas.LanczosOut

/-!
# The grade of the start vector: breakdown conditions on the INPUTS

`Stalls A v d` : `K_{d+1}(A, v) = K_d(A, v)`;  `IsGrade A v g` : the Krylov space stalls at `g` and not
before (`g` = the dimension of the full Krylov space = the degree of the minimal polynomial of `v`
with respect to `A`); `grade A v` (finite-dimensional `E`): the least such `g`.

* `krylov_succ_eq`, `Stalls.succ`, `IsGrade.finrank`, `exists_stall`, `isGrade_grade`.
* `OutSpec.resid_zero_iff_stalls`: for the returned factors of one member, the last column of
  `A Q - Q T` vanishes iff the Krylov space stalls at the number of returned columns.
* `Inv.pending_zero_iff_stalls`: the same on the loop invariant (pending column of the buffer).
* `pending_of_nostall`, `batch_out_of_grades`: a batch none of whose members stalls before the common
  exit satisfies the clause `no_member_breakdown` — a condition on `(A, v_b)` only.
-/

open scoped InnerProductSpace
open Finset

set_option linter.unusedSectionVars false

namespace Lanczos

variable {𝕜 E : Type} [RCLike 𝕜] [NormedAddCommGroup E] [InnerProductSpace 𝕜 E]

/-- the Krylov space stops growing at `d` -/
def Stalls (A : E →ₗ[𝕜] E) (v : E) (d : ℕ) : Prop := krylov A v (d + 1) = krylov A v d

/-- `g` is the grade of `v` with respect to `A` -/
def IsGrade (A : E →ₗ[𝕜] E) (v : E) (g : ℕ) : Prop := Stalls A v g ∧ ∀ d < g, ¬ Stalls A v d

theorem self_mem_krylov (A : E →ₗ[𝕜] E) (v : E) {d : ℕ} (hd : 1 ≤ d) : v ∈ krylov A v d := by
  apply Submodule.subset_span
  exact ⟨⟨0, by omega⟩, by simp⟩

theorem krylov_succ_eq (A : E →ₗ[𝕜] E) (v : E) (d : ℕ) :
    krylov A v (d + 1) = Submodule.span 𝕜 {v} ⊔ (krylov A v d).map A := by
  apply le_antisymm
  · unfold krylov
    rw [Submodule.span_le]
    rintro _ ⟨t, rfl⟩
    show (A ^ (t : ℕ)) v ∈ _
    rcases Nat.eq_zero_or_pos (t : ℕ) with h0 | hpos
    · rw [h0, pow_zero]
      exact Submodule.mem_sup_left (Submodule.subset_span rfl)
    · apply Submodule.mem_sup_right
      refine ⟨(A ^ ((t : ℕ) - 1)) v, ?_, ?_⟩
      · apply Submodule.subset_span
        exact ⟨⟨(t : ℕ) - 1, by have := t.2; omega⟩, rfl⟩
      · have : (t : ℕ) = ((t : ℕ) - 1) + 1 := by omega
        conv_rhs => rw [this, pow_succ', Module.End.mul_apply]
  · apply sup_le
    · rw [Submodule.span_singleton_le_iff_mem]
      exact self_mem_krylov A v (by omega)
    · rintro _ ⟨x, hx, rfl⟩
      exact map_krylov A v d x hx

theorem Stalls.succ {A : E →ₗ[𝕜] E} {v : E} {d : ℕ} (h : Stalls A v d) : Stalls A v (d + 1) := by
  unfold Stalls at h ⊢
  rw [krylov_succ_eq A v (d + 1), h, ← krylov_succ_eq A v d, h]

theorem Stalls.of_le {A : E →ₗ[𝕜] E} {v : E} {d d' : ℕ} (h : Stalls A v d) (hle : d ≤ d') :
    Stalls A v d' := by
  induction d', hle using Nat.le_induction with
  | base => exact h
  | succ n _ ih => exact ih.succ

theorem not_stalls_zero {A : E →ₗ[𝕜] E} {v : E} (hv : v ≠ 0) : ¬ Stalls A v 0 := by
  intro h
  have h1 : v ∈ krylov A v 1 := self_mem_krylov A v (le_refl _)
  rw [show krylov A v (0 + 1) = krylov A v 0 from h] at h1
  have : krylov A v 0 = ⊥ := by
    unfold krylov
    rw [Submodule.span_eq_bot]
    rintro _ ⟨t, _⟩
    exact t.elim0
  rw [this, Submodule.mem_bot] at h1
  exact hv h1

theorem IsGrade.pos {A : E →ₗ[𝕜] E} {v : E} {g : ℕ} (h : IsGrade A v g) (hv : v ≠ 0) : 1 ≤ g := by
  by_contra hc
  have : g = 0 := by omega
  subst this
  exact not_stalls_zero hv h.1

theorem IsGrade.le_of_stalls {A : E →ₗ[𝕜] E} {v : E} {g d : ℕ} (h : IsGrade A v g)
    (hd : Stalls A v d) : g ≤ d := by
  by_contra hc
  exact h.2 d (by omega) hd

theorem IsGrade.unique {A : E →ₗ[𝕜] E} {v : E} {g g' : ℕ} (h : IsGrade A v g) (h' : IsGrade A v g') :
    g = g' := le_antisymm (h.le_of_stalls h'.1) (h'.le_of_stalls h.1)

/-- while the space does not stall its dimension is the index -/
theorem finrank_krylov_of_nostall {A : E →ₗ[𝕜] E} {v : E} :
    ∀ j, (∀ d < j, ¬ Stalls A v d) → Module.finrank 𝕜 (krylov A v j) = j := by
  intro j
  induction j with
  | zero =>
    intro _
    have : krylov A v 0 = ⊥ := by
      unfold krylov
      rw [Submodule.span_eq_bot]
      rintro _ ⟨t, _⟩
      exact t.elim0
    rw [this]; simp
  | succ j ih =>
    intro h
    have hj := ih (fun d hd => h d (by omega))
    have hlt : krylov A v j < krylov A v (j + 1) := by
      refine lt_of_le_of_ne (krylov_mono A v (Nat.le_succ j)) ?_
      intro e
      exact h j (Nat.lt_succ_self j) e.symm
    have h1 := Submodule.finrank_lt_finrank_of_lt hlt
    have h2 := finrank_krylov_le A v (j + 1)
    omega

/-- the grade is the dimension of the Krylov space at (and after) the stall -/
theorem IsGrade.finrank {A : E →ₗ[𝕜] E} {v : E} {g : ℕ} (h : IsGrade A v g) :
    Module.finrank 𝕜 (krylov A v g) = g ∧ ∀ j, g ≤ j → krylov A v j = krylov A v g := by
  refine ⟨finrank_krylov_of_nostall g h.2, ?_⟩
  intro j hj
  induction j, hj using Nat.le_induction with
  | base => rfl
  | succ n hn ih => rw [show krylov A v (n + 1) = krylov A v n from h.1.of_le hn, ih]

/-- in a finite-dimensional space the Krylov space stalls, at the latest at `dim E` -/
theorem exists_stall [FiniteDimensional 𝕜 E] (A : E →ₗ[𝕜] E) (v : E) :
    ∃ d, d ≤ Module.finrank 𝕜 E ∧ Stalls A v d := by
  by_contra hcon
  push Not at hcon
  have h := finrank_krylov_of_nostall (A := A) (v := v) (Module.finrank 𝕜 E + 1)
    (fun d hd => hcon d (by omega))
  have := Submodule.finrank_le (krylov A v (Module.finrank 𝕜 E + 1))
  omega

open Classical in
/-- the grade of `v` with respect to `A` (least stalling index; meaningful when one exists, in
particular for finite-dimensional `E`: `isGrade_grade`) -/
noncomputable def grade (A : E →ₗ[𝕜] E) (v : E) : ℕ := sInf {d | Stalls A v d}

theorem isGrade_grade_of_exists {A : E →ₗ[𝕜] E} {v : E} (h : ∃ d, Stalls A v d) :
    IsGrade A v (grade A v) := by
  classical
  refine ⟨Nat.sInf_mem (s := {d | Stalls A v d}) h, ?_⟩
  intro d hd hs
  exact Nat.notMem_of_lt_sInf hd hs

theorem isGrade_grade [FiniteDimensional 𝕜 E] (A : E →ₗ[𝕜] E) (v : E) :
    IsGrade A v (grade A v) ∧ grade A v ≤ Module.finrank 𝕜 E := by
  obtain ⟨d, hd, hs⟩ := exists_stall A v
  have hg := isGrade_grade_of_exists ⟨d, hs⟩
  exact ⟨hg, (hg.le_of_stalls hs).trans hd⟩

/-! ## the returned factors and the stall -/

section outspec
variable {A : E →ₗ[𝕜] E} {v : E} {k : ℕ} {q : ℕ → E} {T : ℕ → ℕ → 𝕜} {r : E}

theorem OutSpec.q_mem (h : OutSpec A v k q T r) (c : ℕ) (hc : c < k) : q c ∈ krylov A v k := by
  rw [← h.span k (le_refl _)]
  exact Submodule.subset_span ⟨⟨c, hc⟩, rfl⟩

/-- **`r = 0` iff the Krylov space stalls at the number of returned columns** -/
theorem OutSpec.resid_zero_iff_stalls (h : OutSpec A v k q T r) (hk : 1 ≤ k) :
    r = 0 ↔ Stalls A v k := by
  constructor
  · intro hr
    -- `A` maps `span q = K_k` into itself
    have hmap : (krylov A v k).map A ≤ krylov A v k := by
      rintro _ ⟨x, hx, rfl⟩
      rw [← h.span k (le_refl _)] at hx
      induction hx using Submodule.span_induction with
      | mem x hx =>
        obtain ⟨c, rfl⟩ := hx
        have hrel := h.rel c c.2
        have : A (q c) = ∑ a ∈ range k, T a c • q a := by
          have hz : (if (c : ℕ) + 1 = k then r else 0) = 0 := by split <;> simp [hr]
          rw [hz, sub_eq_zero] at hrel
          exact hrel
        show A (q c) ∈ _
        rw [this]
        exact Submodule.sum_mem _ (fun a ha =>
          Submodule.smul_mem _ _ (h.q_mem a (mem_range.mp ha)))
      | zero => rw [map_zero]; exact Submodule.zero_mem _
      | add x y _ _ hx hy => rw [map_add]; exact Submodule.add_mem _ hx hy
      | smul a x _ hx => rw [map_smul]; exact Submodule.smul_mem _ a hx
    unfold Stalls
    apply le_antisymm
    · rw [krylov_succ_eq]
      apply sup_le _ hmap
      rw [Submodule.span_singleton_le_iff_mem]
      exact self_mem_krylov A v hk
    · exact krylov_mono A v (Nat.le_succ k)
  · intro hs
    have hkk : k - 1 + 1 = k := by omega
    have hrel := h.rel (k - 1) (by omega)
    simp only [hkk, if_true] at hrel
    -- `r ∈ K_{k+1} = K_k = span q`
    have hmem : r ∈ krylov A v k := by
      rw [← hs, ← hrel]
      refine Submodule.sub_mem _ ?_ ?_
      · exact map_krylov A v k _ (h.q_mem (k - 1) (by omega))
      · exact Submodule.sum_mem _ (fun a ha =>
          Submodule.smul_mem _ _ (krylov_mono A v (Nat.le_succ k) (h.q_mem a (mem_range.mp ha))))
    -- and `r ⟂ span q`
    have horth : ∀ x ∈ krylov A v k, ⟪x, r⟫_𝕜 = 0 := by
      intro x hx
      rw [← h.span k (le_refl _)] at hx
      induction hx using Submodule.span_induction with
      | mem x hx => obtain ⟨c, rfl⟩ := hx; exact h.rorth c c.2
      | zero => exact inner_zero_left _
      | add x y _ _ hx hy => rw [inner_add_left, hx, hy, add_zero]
      | smul a x _ hx => rw [inner_smul_left, hx, mul_zero]
    exact inner_self_eq_zero.mp (horth r hmem)

/-- before the stall every sub-diagonal entry is positive and the residual is non-zero; the loop
cannot have produced more columns than the grade -/
theorem OutSpec.le_grade (h : OutSpec A v k q T r) {g : ℕ} (hg : IsGrade A v g) : k ≤ g :=
  h.exhausted g hg.1

theorem OutSpec.resid_zero_iff_grade (h : OutSpec A v k q T r) (hk : 1 ≤ k) {g : ℕ}
    (hg : IsGrade A v g) : r = 0 ↔ k = g := by
  rw [h.resid_zero_iff_stalls hk]
  constructor
  · intro hs; exact le_antisymm (h.le_grade hg) (hg.le_of_stalls hs)
  · intro e; rw [e]; exact hg.1

end outspec

/-! ## batches: no member stalls before the common exit -/

section batch
attribute [local instance] exactNum exactVec
variable (A : E →ₗ[𝕜] E) (hA : A.IsSymmetric) (m : ℕ) (vs : Array E)
include hA

/-- the pending column of a member is zero iff its Krylov space stalls at the current index -/
theorem Inv.pending_zero_iff_stalls {v : E} {j : ℕ} {s : Mem 𝕜 E} (h : Inv A m v j s) (hj : 1 ≤ j) :
    qc s (j + 1) = 0 ↔ Stalls A v j := by
  have hspec := outSpec_of_inv hA h hj (fun c => qc s (c + 1))
    (triT (fun c => dg s c) (fun c => sb s (c + 1))) (fun _ _ => rfl) (fun _ _ _ _ => rfl)
  exact hspec.resid_zero_iff_stalls hj

/-- if no member stalls before index `g`, the pending column of every member is non-zero whenever
the body runs at an index below `g` -/
theorem pending_of_nostall (g : ℕ) (hg : g ≤ m)
    (hv : ∀ (b : ℕ) (v : E), vs[b]? = some v → v ≠ 0)
    (hns : ∀ b, b < vs.size → ∀ d < g, ¬ Stalls A (vs.getD b 0) d) :
    ∀ t, t < g → AllPending A m vs t := by
  intro t
  induction t using Nat.strong_induction_on with
  | _ t ih =>
    intro htg b s hs
    have hgood := good_iter A m vs hA t (by omega) (fun t' h => ih t' h (by omega)) b s hs
    obtain ⟨hb0, _⟩ := Array.getElem?_eq_some_iff.mp hs
    have hb : b < vs.size := by rw [iter_size] at hb0; exact hb0
    rcases Nat.eq_zero_or_pos t with rfl | ht
    · rw [hgood.first]
      have hvb : vs[b]? = some (vs.getD b 0) := by
        rw [Array.getD_eq_getD_getElem?, Array.getElem?_eq_getElem hb]; rfl
      have hv0 := hv b _ hvb
      have : ((‖vs.getD b 0‖ : ℝ) : 𝕜) ≠ 0 := by exact_mod_cast norm_ne_zero_iff.mpr hv0
      exact smul_ne_zero (inv_ne_zero this) hv0
    · intro hz
      exact hns b hb t htg ((Inv.pending_zero_iff_stalls A hA m hgood ht).mp hz)

end batch


/-! ## the runs -/

section runs
attribute [local instance] exactNum exactVec

/-- **one start vector and its grade `g`**: the number `k` of returned columns satisfies
`k ≤ min(min(max_iters, n), g)`, with EQUALITY for `tol = 0` (the loop stops exactly at the grade or
at the cap), and the last column of `A Q - Q T` vanishes iff `k = g`. -/
theorem single_grade (A : E →ₗ[𝕜] E) (hA : A.IsSymmetric) (n maxIters : ℕ) (v : E) (tol : ℝ)
    (hv : v ≠ 0) (htol : 0 ≤ tol) (hm : 1 ≤ min maxIters n) {g : ℕ} (hg : IsGrade A v g) :
    (lanczosExact A n #[v] maxIters tol).iters ≤ min (min maxIters n) g ∧
    (tol = 0 → (lanczosExact A n #[v] maxIters tol).iters = min (min maxIters n) g) ∧
    ((lanczosExact A n #[v] maxIters tol).resid A 0 = 0 ↔
      (lanczosExact A n #[v] maxIters tol).iters = g) := by
  obtain ⟨hk1, hkm, _, _, _, _, hspec, hexit⟩ := single_out A hA n maxIters v tol hv htol hm
  have hkg := hspec.le_grade hg
  have hiff := hspec.resid_zero_iff_grade hk1 hg
  refine ⟨le_min hkm hkg, ?_, hiff⟩
  intro ht0
  rcases hexit with hcap | ⟨β₁, _, _, hle⟩
  · rw [hcap]; exact (min_eq_left (hcap ▸ hkg)).symm
  · have hle : ‖(lanczosExact A n #[v] maxIters tol).resid A 0‖ ≤ 0 := by
      have h0 : tol * β₁ = 0 := by rw [ht0, zero_mul]
      rw [← h0]; exact hle
    have hr0 : (lanczosExact A n #[v] maxIters tol).resid A 0 = 0 :=
      norm_le_zero_iff.mp hle
    have := hiff.mp hr0
    rw [this]; exact (min_eq_right (this ▸ hkm)).symm

/-- **batched start vectors, condition on the inputs**: no member's Krylov space stalls before `g`, and
either the cap `min(max_iters, n)` is at most `g`, or `tol ≥ 0` and EVERY member stalls at `g` (all
start vectors have the same grade `g`).  Then no member breaks down: at most `g` columns are returned
and every member satisfies the full single-vector statement. -/
theorem batch_out_of_grade (A : E →ₗ[𝕜] E) (hA : A.IsSymmetric) (n maxIters : ℕ) (vs : Array E)
    (tol : ℝ) (hm : 1 ≤ min maxIters n) (hne : 0 < vs.size)
    (hv : ∀ (b : ℕ) (v : E), vs[b]? = some v → v ≠ 0) (g : ℕ)
    (hns : ∀ b, b < vs.size → ∀ d < g, ¬ Stalls A (vs.getD b 0) d)
    (hg : min maxIters n ≤ g ∨ (0 ≤ tol ∧ ∀ b, b < vs.size → Stalls A (vs.getD b 0) g)) :
    (lanczosExact A n vs maxIters tol).iters ≤ g ∧
    1 ≤ (lanczosExact A n vs maxIters tol).iters ∧
    (lanczosExact A n vs maxIters tol).iters ≤ min maxIters n ∧
    (lanczosExact A n vs maxIters tol).info.iterations =
      (lanczosExact A n vs maxIters tol).iters + 1 ∧
    ∀ b, b < vs.size →
      ((lanczosExact A n vs maxIters tol).Q.getD b #[]).size =
        (lanczosExact A n vs maxIters tol).iters ∧
      OutSpec A (vs.getD b 0) (lanczosExact A n vs maxIters tol).iters
        ((lanczosExact A n vs maxIters tol).q b) ((lanczosExact A n vs maxIters tol).T b)
        ((lanczosExact A n vs maxIters tol).resid A b) := by
  obtain ⟨k, hk1, hk2, hk3, hk4, hk5, hk6⟩ := lanczos_run A n vs maxIters tol
  set m := min maxIters n with hm'
  -- the loop cannot run beyond `g`
  have hkg : k ≤ g := by
    rcases hg with hcap | ⟨htol, hst⟩
    · omega
    · by_contra hcon
      have hgk : g < k := by omega
      have hgm : g ≤ m := by omega
      have hpend := pending_of_nostall A hA m vs g hgm hv hns
      have hgood := good_iter A m vs hA g hgm hpend
      have hvb0 : vs[0]? = some (vs.getD 0 0) := by
        rw [Array.getD_eq_getD_getElem?, Array.getElem?_eq_getElem hne]; rfl
      have hg1 : 1 ≤ g := by
        by_contra h0
        have : g = 0 := by omega
        subst this
        exact not_stalls_zero (hv 0 _ hvb0) (hst 0 hne)
      have hc := hk5 g hgk
      simp only [cond, Bool.and_eq_true, decide_eq_true_eq, iter_i, Array.any_eq_true] at hc
      obtain ⟨_, b, hb, hl⟩ := hc
      have hbv : b < vs.size := by rw [iter_size] at hb; exact hb
      have hs : (iter A m vs g).mems[b]? = some ((iter A m vs g).mems[b]) := by simp [hb]
      have hinv := hgood b _ hs
      have hz : qc ((iter A m vs g).mems[b]) (g + 1) = 0 :=
        (Inv.pending_zero_iff_stalls A hA m hinv hg1).mpr (hst b hbv)
      have hsb : sb ((iter A m vs g).mems[b]) g = 0 := by
        rw [hinv.subLast hg1, hz, norm_zero]; simp
      obtain ⟨r1, hr1, h1⟩ := hinv.subReal 1
      have hnot : ¬ (g + 1 ≤ 1) := by omega
      simp only [isLarge, Bool.or_eq_true, decide_eq_true_eq, hnot, or_false] at hl
      have e1 : ((iter A m vs g).mems[b]).subdiag.getD 1 (Num.zero : 𝕜) = (r1 : 𝕜) := h1
      have e2 : ((iter A m vs g).mems[b]).subdiag.getD (g + 1 - 1) (Num.zero : 𝕜) = 0 := by
        have : g + 1 - 1 = g := by omega
        rw [this]; exact hsb
      rw [e1, e2] at hl
      simp only [Num.lt, Num.mul, Num.re, decide_eq_true_eq, RCLike.ofReal_re, RCLike.re_ofReal_mul,
        map_zero] at hl
      have : 0 ≤ tol * r1 := mul_nonneg htol hr1
      linarith
  have hpend := pending_of_nostall A hA m vs k hk1 hv (fun b hb d hd => hns b hb d (by omega))
  have hgood := good_iter A m vs hA k hk1 hpend
  have hoff' : ∀ (b : ℕ) (s : Mem 𝕜 E), (lanczosExact A n vs maxIters tol).final.mems[b]? = some s →
      ∀ c, 1 ≤ c → c < (lanczosExact A n vs maxIters tol).iters → sb s c ≠ 0 := by
    intro b s hs c hc1 hck
    rw [hk2] at hs
    rw [hk3] at hck
    exact (hgood b s hs).subPos c hc1 hck
  have := batch_out_sb A hA n maxIters vs tol hm hne hv hoff'
  exact ⟨by rw [hk3]; exact hkg, this⟩

end runs

end Lanczos
