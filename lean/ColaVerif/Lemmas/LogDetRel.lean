import ColaVerif.Model.LogDet

/-!
# C07: two instances of the rule model related operation by operation give related results

`slogdetAt_rel`: if every operation of `ops₁` is related to the same operation of `ops₂`
(`OpsRel`), and the kernels agree (`KernRel`), then `slogdetAt ops₁ K₁ … A` and
`slogdetAt ops₂ K₂ … A` take the same rule at every node, fail together (same message) or succeed
together with related values.  Used with `ops₁` = the `(sign, logabs)` arithmetic of the code and
`ops₂` = exact arithmetic on the represented number (`Lemmas/LogDetSL.lean`).
-/

namespace Op

/-- both fail with the same message, or both succeed with related values -/
def ExRel {α β : Type} (r : α → β → Prop) : Except String α → Except String β → Prop
  | .ok a, .ok b => r a b
  | .error e, .error e' => e = e'
  | _, _ => False

theorem ExRel.map {α β α' β' : Type} {r : α → β → Prop} {r' : α' → β' → Prop} {f : α → α'}
    {g : β → β'} {x : Except String α} {y : Except String β} (h : ExRel r x y)
    (hf : ∀ a b, r a b → r' (f a) (g b)) : ExRel r' (x.map f) (y.map g) := by
  cases x <;> cases y <;> simp_all [ExRel, Except.map]

theorem ExRel.ok_left {α β : Type} {r : α → β → Prop} {a : α} {y : Except String β}
    (h : ExRel r (.ok a) y) : ∃ b, y = .ok b ∧ r a b := by
  cases y with
  | error e => simp [ExRel] at h
  | ok b => exact ⟨b, rfl, h⟩

theorem allOk_rel {α β : Type} {r : α → β → Prop} :
    ∀ {xs : List (Except String α)} {ys : List (Except String β)}, List.Forall₂ (ExRel r) xs ys →
      ExRel (List.Forall₂ r) (allOk xs) (allOk ys)
  | [], [], _ => by simp [allOk, ExRel]
  | x :: xs, y :: ys, h => by
    obtain ⟨h1, h2⟩ := List.forall₂_cons.mp h
    have ih := allOk_rel h2
    cases x <;> cases y <;> simp only [ExRel] at h1
    · simp [allOk, ExRel, h1]
    · simp only [allOk]
      exact ih.map (fun a b hab => List.Forall₂.cons h1 hab)

variable {R T₁ T₂ V₁ V₂ : Type}

/-- operation-wise relation between two instances -/
structure OpsRel (ops₁ : SLOps R T₁ V₁) (ops₂ : SLOps R T₂ V₂) (rel : V₁ → V₂ → Prop)
    (relT : T₁ → T₂ → Prop) : Prop where
  one : rel ops₁.one ops₂.one
  entry : ∀ z, rel (ops₁.entry z) (ops₂.entry z)
  mul : ∀ a a' b b', rel a a' → rel b b' → rel (ops₁.mul a b) (ops₂.mul a' b')
  pow : ∀ a a' k, rel a a' → rel (ops₁.pow a k) (ops₂.pow a' k)
  scalarPow : ∀ c n, rel (ops₁.scalarPow c n) (ops₂.scalarPow c n)
  parity : ∀ b, rel (ops₁.parity b) (ops₂.parity b)
  cholComb : ∀ a a', rel a a' → rel (ops₁.cholComb a) (ops₂.cholComb a')
  ofTrLog : ∀ t t', relT t t' → rel (ops₁.ofTrLog t) (ops₂.ofTrLog t')

/-- the kernels agree (Cholesky and LU literally, the Krylov trace up to `relT`) -/
structure KernRel (K₁ : DetKernels R T₁) (K₂ : DetKernels R T₂) (relT : T₁ → T₂ → Prop) : Prop where
  chol : K₁.chol = K₂.chol
  lu : K₁.lu = K₂.lu
  trlog : ∀ la ta A, ExRel relT (K₁.trlog la ta A) (K₂.trlog la ta A)

section
variable {ops₁ : SLOps R T₁ V₁} {ops₂ : SLOps R T₂ V₂} {rel : V₁ → V₂ → Prop}
  {relT : T₁ → T₂ → Prop} (ho : OpsRel ops₁ ops₂ rel relT)
include ho

theorem foldl_rel : ∀ {vs : List V₁} {ws : List V₂} {a : V₁} {b : V₂}, rel a b →
    List.Forall₂ rel vs ws → rel (vs.foldl ops₁.mul a) (ws.foldl ops₂.mul b)
  | [], [], _, _, hab, _ => hab
  | v :: vs, w :: ws, a, b, hab, h => by
    obtain ⟨h1, h2⟩ := List.forall₂_cons.mp h
    simp only [List.foldl_cons]
    exact foldl_rel (ho.mul _ _ _ _ hab h1) h2

theorem mulAll_rel {vs : List V₁} {ws : List V₂} (h : List.Forall₂ rel vs ws) :
    rel (ops₁.mulAll vs) (ops₂.mulAll ws) := foldl_rel ho ho.one h

theorem diagFold_rel (n : Nat) (d : Nat → R) : rel (ops₁.diagFold n d) (ops₂.diagFold n d) := by
  apply mulAll_rel ho
  induction (List.range n) with
  | nil => exact List.Forall₂.nil
  | cons i l ih => exact List.Forall₂.cons (ho.entry _) ih

theorem zipWith_pow_rel (e : Nat → Nat) : ∀ {vs : List V₁} {ws : List V₂} (ss : List Nat),
    List.Forall₂ rel vs ws →
    List.Forall₂ rel (List.zipWith (fun v s => ops₁.pow v (e s)) vs ss)
      (List.zipWith (fun v s => ops₂.pow v (e s)) ws ss)
  | [], [], _, _ => by simp
  | _ :: _, _ :: _, [], _ => by simp
  | v :: vs, w :: ws, s :: ss, h => by
    obtain ⟨h1, h2⟩ := List.forall₂_cons.mp h
    simp only [List.zipWith_cons_cons]
    exact List.Forall₂.cons (ho.pow _ _ _ h1) (zipWith_pow_rel e ss h2)

end

variable [CommRing R] [StarRing R] [DecidableEq R]

section
variable {ops₁ : SLOps R T₁ V₁} {ops₂ : SLOps R T₂ V₂} {rel : V₁ → V₂ → Prop}
  {relT : T₁ → T₂ → Prop} (ho : OpsRel ops₁ ops₂ rel relT)
  {K₁ : DetKernels R T₁} {K₂ : DetKernels R T₂} (hk : KernRel K₁ K₂ relT)
include ho hk

theorem base_rel (la : LogAlg) (ta : TraceAlg) (A : Op R) :
    ExRel rel (slogdetBase ops₁ K₁ la ta A) (slogdetBase ops₂ K₂ la ta A) := by
  unfold slogdetBase
  split
  · simp [ExRel]
  · split
    · split
      · simp [ExRel]
      · rw [hk.chol]
        cases K₂.chol A.rows A.td.f with
        | error e => simp [ExRel, Except.map]
        | ok L => exact ho.cholComb _ _ (diagFold_rel ho _ _)
    · rw [hk.lu]
      cases K₂.lu A.rows A.td.f with
      | error e => simp [ExRel, Except.map]
      | ok plu =>
        exact mulAll_rel ho (List.Forall₂.cons (ho.parity _) (List.Forall₂.cons (diagFold_rel ho _ _)
          (List.Forall₂.cons (diagFold_rel ho _ _) List.Forall₂.nil)))
    · simp [ExRel]
    · exact (hk.trlog _ ta A).map ho.ofTrLog

omit ho hk in
theorem members_rel (la : LogAlg) (ta : TraceAlg) : ∀ (Ms : List (Op R)),
    (∀ M ∈ Ms, ExRel rel (slogdetAt ops₁ K₁ la ta M M) (slogdetAt ops₂ K₂ la ta M M)) →
    List.Forall₂ (ExRel rel) (Ms.map (fun M => slogdetAt ops₁ K₁ la ta M M))
      (Ms.map (fun M => slogdetAt ops₂ K₂ la ta M M))
  | [], _ => List.Forall₂.nil
  | M :: Ms, h => List.Forall₂.cons (h M List.mem_cons_self)
      (members_rel la ta Ms (fun M' hM' => h M' (List.mem_cons_of_mem _ hM')))

/-- the two instances walk the same rules and produce related results -/
theorem slogdetAt_rel (la : LogAlg) (ta : TraceAlg) : ∀ (X top : Op R),
    ExRel rel (slogdetAt ops₁ K₁ la ta top X) (slogdetAt ops₂ K₂ la ta top X)
  | annot a A, top => by
    rw [slogdetAt, slogdetAt]
    exact slogdetAt_rel la ta A top
  | prod Ms, top => by
    rw [slogdetAt, slogdetAt]
    split
    · exact (allOk_rel (members_rel la ta Ms (fun M _ => slogdetAt_rel la ta M M))).map
        (fun _ _ h => mulAll_rel ho h)
    · exact base_rel ho hk la ta top
  | kron Ms, top => by
    rw [slogdetAt, slogdetAt]
    have h := allOk_rel (members_rel la ta Ms (fun M _ => slogdetAt_rel la ta M M))
    cases h1 : allOk (Ms.map (fun M => slogdetAt ops₁ K₁ la ta M M)) <;>
      cases h2 : allOk (Ms.map (fun M => slogdetAt ops₂ K₂ la ta M M)) <;>
      rw [h1, h2] at h <;> simp only [ExRel] at h
    · simp [ExRel, h]
    · simp only
      split
      · simp [ExRel]
      · exact mulAll_rel ho (zipWith_pow_rel ho _ _ h)
  | bdiag Ms mults, top => by
    rw [slogdetAt, slogdetAt]
    exact (allOk_rel (members_rel la ta Ms (fun M _ => slogdetAt_rel la ta M M))).map
      (fun _ _ h => mulAll_rel ho (zipWith_pow_rel ho id mults h))
  | eye dt n, top => by rw [slogdetAt, slogdetAt]; exact ho.one
  | scalar dt c n, top => by rw [slogdetAt, slogdetAt]; exact ho.scalarPow c n
  | diag dt n d, top => by rw [slogdetAt, slogdetAt]; exact diagFold_rel ho n d
  | tri dt r c l a, top => by rw [slogdetAt, slogdetAt]; exact diagFold_rel ho _ _
  | perm dt p, top => by rw [slogdetAt, slogdetAt]; exact ho.parity _
  | dense dt r c a, top => by simp only [slogdetAt]; exact base_rel ho hk la ta top
  | sparse dt r c e, top => by simp only [slogdetAt]; exact base_rel ho hk la ta top
  | sum Ms, top => by simp only [slogdetAt]; exact base_rel ho hk la ta top
  | kronsum Ms, top => by simp only [slogdetAt]; exact base_rel ho hk la ta top
  | tridiag dt n al be ga, top => by simp only [slogdetAt]; exact base_rel ho hk la ta top
  | transpose A, top => by simp only [slogdetAt]; exact base_rel ho hk la ta top
  | adjoint A, top => by simp only [slogdetAt]; exact base_rel ho hk la ta top
  | sliced A s0 s1, top => by simp only [slogdetAt]; exact base_rel ho hk la ta top
  | concat ax Ms, top => by simp only [slogdetAt]; exact base_rel ho hk la ta top
  | house dt n v beta, top => by simp only [slogdetAt]; exact base_rel ho hk la ta top
  | generic A, top => by simp only [slogdetAt]; exact base_rel ho hk la ta top
termination_by X => sizeOf X

theorem slogdetG_rel (la : LogAlg) (ta : TraceAlg) (A : Op R) :
    ExRel rel (slogdetG ops₁ K₁ la ta A) (slogdetG ops₂ K₂ la ta A) :=
  slogdetAt_rel ho hk la ta A A

end

end Op
