import Mathlib.Logic.Function.Iterate
import ColaVerif.Model.CG

/-!
# Structure of the CG loop of the code model (any `NumOps K`, no arithmetic laws)

* `whileWinfo_spec` — what `while_loop_winfo` computes: the state after `t = loopSteps` body
  evaluations, `iterations = t + 1`, `errors` = tracked value at the `t + 1` evaluations of the test;
* `loopSteps_le`, `loopSteps_before`, `loopSteps_exit` — `t ≤ fuel`, the test holds before every
  step and fails at exit unless the fuel ran out;
* `run_*` — the same for `runBatchedCG`: cap, stopping rule, bookkeeping, fuel adequacy, and the
  column-wise form of the state (`step_iter_cols`).
-/

namespace CG

section generic
variable {K : Type} {σ : Type}

/-- number of body evaluations of the fuelled loop -/
def loopSteps (condFn : σ → Bool) (body : σ → σ) : Nat → σ → Nat
  | 0, _ => 0
  | fuel + 1, s => if condFn s then loopSteps condFn body fuel (body s) + 1 else 0

theorem loopSteps_le (c : σ → Bool) (bd : σ → σ) : ∀ fuel s, loopSteps c bd fuel s ≤ fuel
  | 0, _ => Nat.le_refl 0
  | fuel + 1, s => by
    unfold loopSteps
    split
    · exact Nat.succ_le_succ (loopSteps_le c bd fuel (bd s))
    · exact Nat.zero_le _

/-- the test holds at every state that is stepped -/
theorem loopSteps_before (c : σ → Bool) (bd : σ → σ) :
    ∀ fuel s i, i < loopSteps c bd fuel s → c (bd^[i] s) = true
  | 0, _, i, h => absurd h (Nat.not_lt_zero i)
  | fuel + 1, s, i, h => by
    unfold loopSteps at h
    split at h
    next hc =>
      cases i with
      | zero => exact hc
      | succ j =>
        rw [Function.iterate_succ_apply]
        exact loopSteps_before c bd fuel (bd s) j (Nat.lt_of_succ_lt_succ h)
    next => exact absurd h (Nat.not_lt_zero i)

/-- at exit the test fails, unless the fuel is exhausted -/
theorem loopSteps_exit (c : σ → Bool) (bd : σ → σ) :
    ∀ fuel s, loopSteps c bd fuel s = fuel ∨ c (bd^[loopSteps c bd fuel s] s) = false
  | 0, _ => Or.inl rfl
  | fuel + 1, s => by
    unfold loopSteps
    split
    next hc =>
      rcases loopSteps_exit c bd fuel (bd s) with h | h
      · left; rw [h]
      · right; rw [Function.iterate_succ_apply]; exact h
    next hc => right; simpa using hc

theorem whileWinfo_spec (tr : σ → K) (c : σ → Bool) (bd : σ → σ) :
    ∀ (fuel : Nat) (s : σ) (info : Info K),
      (whileWinfo tr c bd fuel s info).1 = bd^[loopSteps c bd fuel s] s ∧
      (whileWinfo tr c bd fuel s info).2.iterations = info.iterations + loopSteps c bd fuel s + 1 ∧
      (whileWinfo tr c bd fuel s info).2.errors.toList =
        info.errors.toList ++ (List.range (loopSteps c bd fuel s + 1)).map (fun i => tr (bd^[i] s))
  | 0, s, info => by
    simp [whileWinfo, loopSteps, Info.tick]
  | fuel + 1, s, info => by
    unfold whileWinfo loopSteps
    split
    next hc =>
      obtain ⟨h1, h2, h3⟩ := whileWinfo_spec tr c bd fuel (bd s) (info.tick (tr s))
      refine ⟨?_, ?_, ?_⟩
      · rw [h1, Function.iterate_succ_apply]
      · rw [h2]; simp only [Info.tick]; omega
      · rw [h3]
        simp only [Info.tick, Array.toList_push, List.append_assoc]
        congr 1
        rw [List.range_succ_eq_map (n := loopSteps c bd fuel (bd s) + 1)]
        simp [Function.iterate_succ_apply, Function.comp_def]
    next hc =>
      simp [Info.tick]

theorem loopStates_eq (c : σ → Bool) (bd : σ → σ) :
    ∀ (fuel : Nat) (s : σ),
      loopStates c bd fuel s = (List.range (loopSteps c bd fuel s + 1)).map (fun i => bd^[i] s)
  | 0, s => by simp [loopStates, loopSteps]
  | fuel + 1, s => by
    unfold loopStates loopSteps
    split
    next hc =>
      rw [loopStates_eq c bd fuel (bd s),
        List.range_succ_eq_map (n := loopSteps c bd fuel (bd s) + 1)]
      simp [Function.iterate_succ_apply, Function.comp_def]
    next hc => simp

end generic

section cg
variable {K : Type} [NumOps K]
variable (A : Mat K) (P : Option (Mat K))

theorem step_iter_k (s : State K) (i : Nat) : ((step A P)^[i] s).k = s.k + i := by
  induction i with
  | zero => rfl
  | succ i ih => rw [Function.iterate_succ_apply', step, ih]; rfl

/-- every operation of the body is column-wise: column `j` of the batched state after `i` steps is
the `i`-fold single-column step of column `j` -/
theorem step_iter_cols (s : State K) (i : Nat) :
    ((step A P)^[i] s).cols = s.cols.map (stepCol A P)^[i] := by
  induction i with
  | zero => simp
  | succ i ih =>
    rw [Function.iterate_succ_apply', step, ih, Array.map_map]
    show Array.map (stepCol A P ∘ (stepCol A P)^[i]) s.cols = _
    rw [Function.iterate_succ']

theorem cond_false_of_k {tolEff : Array K} {maxIters : Nat} {s : State K} (h : maxIters ≤ s.k) :
    cond tolEff maxIters s = false := by
  unfold cond
  simp [Nat.not_lt.mpr h]

variable (b x0 : Array (Vec K)) (maxIters : Nat) (tol : K)

/-- number of steps of the run -/
def runSteps : Nat :=
  loopSteps (cond (tolEffs tol (initState A P b x0)) maxIters) (step A P) maxIters (initState A P b x0)

/-- the loop state after `i` steps -/
def stateAt (i : Nat) : State K := (step A P)^[i] (initState A P b x0)

theorem initState_k : (initState A P b x0).k = 0 := rfl

theorem run_k : (runBatchedCG A b x0 maxIters tol P).k = runSteps A P b x0 maxIters tol := by
  unfold runBatchedCG runLoop
  simp only []
  rw [(whileWinfo_spec _ _ _ _ _ _).1, step_iter_k]
  simp [initState_k, runSteps]

/-- **cap** -/
theorem run_cap : (runBatchedCG A b x0 maxIters tol P).k ≤ maxIters := by
  rw [run_k]; exact loopSteps_le _ _ _ _

/-- the fuel `max_iters` is adequate: at exit the loop condition is false -/
theorem run_exit_cond :
    cond (tolEffs tol (initState A P b x0)) maxIters
      (stateAt A P b x0 (runSteps A P b x0 maxIters tol)) = false := by
  rcases loopSteps_exit (cond (tolEffs tol (initState A P b x0)) maxIters) (step A P) maxIters
      (initState A P b x0) with h | h
  · apply cond_false_of_k
    unfold stateAt
    rw [step_iter_k, initState_k]
    unfold runSteps
    omega
  · exact h

/-- **stopping rule**: at exit `k = max_iters` or no column is above its effective tolerance; at
every earlier evaluation some column was above it and `k < max_iters` -/
theorem run_stop :
    ((runSteps A P b x0 maxIters tol) = maxIters ∨
      anyAbove (tolEffs tol (initState A P b x0))
        (stateAt A P b x0 (runSteps A P b x0 maxIters tol)).cols = false) ∧
    ∀ i < runSteps A P b x0 maxIters tol,
      anyAbove (tolEffs tol (initState A P b x0)) (stateAt A P b x0 i).cols = true := by
  constructor
  · have h := run_exit_cond A P b x0 maxIters tol
    unfold cond at h
    rw [Bool.and_eq_false_iff] at h
    rcases h with h | h
    · exact Or.inr h
    · left
      have hk : (stateAt A P b x0 (runSteps A P b x0 maxIters tol)).k
          = runSteps A P b x0 maxIters tol := by
        unfold stateAt; rw [step_iter_k, initState_k]; omega
      rw [hk] at h
      have h1 : runSteps A P b x0 maxIters tol ≤ maxIters := loopSteps_le _ _ _ _
      have h2 : ¬ runSteps A P b x0 maxIters tol < maxIters := by simpa using h
      omega
  · intro i hi
    have h := loopSteps_before (cond (tolEffs tol (initState A P b x0)) maxIters) (step A P)
      maxIters (initState A P b x0) i hi
    unfold cond at h
    rw [Bool.and_eq_true] at h
    exact h.1

/-- final state of the run -/
theorem run_state :
    (runLoop A P (tolEffs tol (initState A P b x0)) maxIters (initState A P b x0)).1 =
      stateAt A P b x0 (runSteps A P b x0 maxIters tol) :=
  (whileWinfo_spec _ _ _ _ _ _).1

/-- **bookkeeping**: `iterations = steps + 1`; the raw error list is the tracked residual at the
`steps + 1` evaluations of the test followed by the final one; the first two entries are dropped -/
theorem run_info :
    (runBatchedCG A b x0 maxIters tol P).info.iterations = runSteps A P b x0 maxIters tol + 1 ∧
    (runBatchedCG A b x0 maxIters tol P).info.errors.toList =
      (((List.range (runSteps A P b x0 maxIters tol + 1)).map
          (fun i => track (stateAt A P b x0 i))) ++
        [track (stateAt A P b x0 (runSteps A P b x0 maxIters tol))]).drop 2 := by
  obtain ⟨h1, h2, h3⟩ := whileWinfo_spec (K := K) track
    (cond (tolEffs tol (initState A P b x0)) maxIters) (step A P) maxIters (initState A P b x0)
    ⟨0, #[]⟩
  unfold runBatchedCG runLoop
  simp only [Info.finish]
  refine ⟨by rw [h2]; simp [runSteps], ?_⟩
  rw [Array.toList_extract, Array.toList_push, h1, h3]
  have hsz : (whileWinfo (K := K) track (cond (tolEffs tol (initState A P b x0)) maxIters) (step A P)
      maxIters (initState A P b x0) ⟨0, #[]⟩).2.errors.size = runSteps A P b x0 maxIters tol + 1 := by
    rw [← Array.length_toList, h3]; simp [runSteps]
  rw [hsz]
  simp only [Array.toList_empty, List.nil_append]
  have hlen : (((List.range (runSteps A P b x0 maxIters tol + 1)).map
      (fun i => track ((step A P)^[i] (initState A P b x0)))) ++
        [track ((step A P)^[runSteps A P b x0 maxIters tol] (initState A P b x0))]).length
      = runSteps A P b x0 maxIters tol + 2 := by simp
  unfold stateAt
  unfold runSteps at *
  rw [List.extract_eq_take_drop, List.take_of_length_le (by simp)]

theorem run_errors_size :
    (runBatchedCG A b x0 maxIters tol P).info.errors.size = runSteps A P b x0 maxIters tol := by
  rw [← Array.length_toList, (run_info A P b x0 maxIters tol).2]
  simp

/-- the per-step trace the driver prints is the list of states at which the test is evaluated -/
theorem run_trace :
    loopStates (cond (tolEffs tol (initState A P b x0)) maxIters) (step A P) maxIters
      (initState A P b x0) =
    (List.range (runSteps A P b x0 maxIters tol + 1)).map (stateAt A P b x0) :=
  loopStates_eq _ _ _ _

/-- **columns**: the returned solution is, column by column, the single-column recurrence -/
theorem run_x :
    (runBatchedCG A b x0 maxIters tol P).x =
      Array.zipWith scaleR
        (((initState A P b x0).cols.map
          (stepCol A P)^[runSteps A P b x0 maxIters tol]).map (·.x)) (mults b) := by
  unfold runBatchedCG
  simp only []
  rw [run_state, stateAt, step_iter_cols]

end cg

end CG
