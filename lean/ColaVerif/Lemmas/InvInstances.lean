import ColaVerif.Lemmas.InvSound
import ColaVerif.Lemmas.ExactFactorInstances

/-!
# Instances of the external-routine contracts of C06 on concrete non-diagonal inputs (round 3)

`gExt : Ext GRat` is an EXACT parameter set over ℚ[i]: the field reciprocal, the exact Cholesky /
partially pivoted LU primitives of C11 (`GDecomp.gcholDense`, `GDecomp.gluDense`, evaluated in
`Lemmas/ExactFactorInstances.lean`), and a solver that multiplies by the exact inverse of the two
operators below.  On

* `luOp  = Dense([[0,1,1],[2,1,0],[2,2,3]])` (float64; the LU swaps rows 0 and 1),
* `hpdOp = PSD(Dense([[4, 2i], [-2i, 5]]))` (complex128),

the contracts `LUContract`, `CholContract`, `SolveContract` (the `∀ b X` form) HOLD, so the
theorems of `Properties/C06.lean` that take them are not vacuous (`C06_lu_instance`,
`C06_chol_instance`, `C06_solve_contract_instance` there apply the main theorems through them).
-/

namespace Inv
open ExactFactor GDecomp

/-- the exact inverse of `luA3` -/
def luA3inv : MatF GRat :=
  ofRows [[⟨-3/4, 0⟩, ⟨1/4, 0⟩, ⟨1/4, 0⟩], [⟨3/2, 0⟩, ⟨1/2, 0⟩, ⟨-1/2, 0⟩], [⟨-1/2, 0⟩, ⟨-1/2, 0⟩, ⟨1/2, 0⟩]]

/-- the exact inverse of `cholA2c`: `1/16 · [[5, -2i], [2i, 4]]` -/
def cholA2cInv : MatF GRat := ofRows [[⟨5/16, 0⟩, ⟨0, -1/8⟩], [⟨0, 1/8⟩, ⟨1/4, 0⟩]]

/-- exact parameters over ℚ[i] with the solver `s`: field reciprocal, the exact (checked) Cholesky /
partially pivoted LU of `Model/DecompExec.lean`.  `DriverC06.lean` runs `gExtWith solveExact`. -/
def gExtWith (s : Alg → Op GRat → Nat → MatF GRat → MatV GRat) : Ext GRat where
  recip := GRat.inv
  chol n D := match gcholDense n D with
    | some L => MatV.of L
    | none => MatV.of zeroM
  lu n D := match gluDense n D with
    | some (p, L, U) => (p, MatV.of L, MatV.of U)
    | none => ([], MatV.of zeroM, MatV.of zeroM)
  solve := s

/-- … with a solver that multiplies by the exact inverse of `hpdOp` (CG objects) resp. `luOp` -/
def gExt : Ext GRat :=
  gExtWith fun alg A _ X => match alg with
    | .cg _ => MatV.of (mmul A.rows cholA2cInv X)
    | _ => MatV.of (mmul A.rows luA3inv X)

/-- `Dense([[0,1,1],[2,1,0],[2,2,3]])`, float64 -/
def luOp : Op GRat := .dense .f64 3 3 luA3
/-- `PSD(Dense([[4, 2i], [-2i, 5]]))`, complex128 -/
def hpdOp : Op GRat := .annot .psd (.dense .c128 2 2 cholA2c)

theorem gExt_lu : gExt.lu 3 luA3 = (luP3, MatV.of luL3, MatV.of luU3) := by
  simp [gExt, gExtWith, glu_luA3]

theorem gExt_chol : gExt.chol 2 cholA2c = MatV.of cholL2c := by
  simp [gExt, gExtWith, gchol_cholA2c]

/-- **instance of `LUContract`**: exact LU with a row swap of a 3 × 3 matrix -/
theorem luContract_luA3 : LUContract gExt 3 luA3 := by
  unfold LUContract
  rw [gExt_lu]
  obtain ⟨_, _, _, hL, hU, hPLU⟩ := glu_contract 3 luA3 luP3 luL3 luU3 glu_luA3
  refine ⟨by decide, by decide, by decide, hL, hU, ?_, ?_, hPLU⟩
  · intro i hi
    simp only [MatV.of_f, gExt, gExtWith]
    interval_cases i <;> decide +kernel
  · intro i hi
    simp only [MatV.of_f, gExt, gExtWith]
    interval_cases i <;> decide +kernel

/-- **instance of `CholContract`**: exact Cholesky of a complex Hermitian positive definite
2 × 2 matrix with non-real off-diagonal entries -/
theorem cholContract_cholA2c : CholContract gExt 2 cholA2c := by
  unfold CholContract
  rw [gExt_chol]
  refine ⟨(gchol_contract 2 cholA2c cholL2c gchol_cholA2c).1, ?_, ?_, Op.winEq_eqOn (by decide +kernel)⟩
  · intro i hi
    simp only [MatV.of_f, gExt, gExtWith]
    interval_cases i <;> decide +kernel
  · intro i hi
    simp only [MatV.of_f, gExt, gExtWith]
    interval_cases i <;> decide +kernel

theorem rinv_luA3 : RInv 3 luA3 luA3inv := Op.winEq_eqOn (by decide +kernel)
theorem rinv_cholA2c : RInv 2 cholA2c cholA2cInv := Op.winEq_eqOn (by decide +kernel)

/-- **instance of `SolveContract`** (the `∀ b X` form), GMRES object with any options, on the
non-symmetric `luOp` -/
theorem solveContract_gmres (o : KOpts) : SolveContract gExt (.gmres o) luOp := by
  intro b X
  simp only [luOp, Op.rows, Op.den, MatV.of_f, gExt, gExtWith]
  exact rinv_luA3.solves X

/-- … and CG object with any options, on the Hermitian positive definite `hpdOp` -/
theorem solveContract_cg (o : KOpts) : SolveContract gExt (.cg o) hpdOp := by
  intro b X
  simp only [hpdOp, Op.rows, Op.den, MatV.of_f, gExt, gExtWith]
  exact rinv_cholA2c.solves X

theorem good_luOp : Op.Good luOp := by
  refine ⟨by simp [luOp, Op.wf], by simp [luOp, Op.dupSlice], ?_⟩
  simp [luOp, Op.HermOK, Op.HermNode, Op.isa, Op.anns, AnnSet.isa]

theorem good_hpdOp : Op.Good hpdOp := by
  have hh : ∀ i j, i < 2 → j < 2 → cholA2c i j = star (cholA2c j i) := by
    intro i j hi hj
    interval_cases i <;> interval_cases j <;> decide +kernel
  refine ⟨by simp [hpdOp, Op.wf], by simp [hpdOp, Op.dupSlice], ?_⟩
  simp only [hpdOp, Op.HermOK, Op.HermNode, Op.rows, Op.cols, Op.den, MatV.of_f]
  exact ⟨fun _ => ⟨trivial, hh⟩, fun _ => ⟨trivial, hh⟩⟩

/-! ## every input on which the exact primitives return -/

theorem grat_mul_inv (a : GRat) (h : a ≠ 0) : a * GRat.inv a = 1 := by
  have hd : a.re * a.re + a.im * a.im ≠ 0 := by
    intro h0
    have h1 : a.re * a.re = 0 ∧ a.im * a.im = 0 := by
      constructor <;> nlinarith [mul_self_nonneg a.re, mul_self_nonneg a.im]
    apply h
    ext
    · simpa using h1.1
    · simpa using h1.2
  ext
  · simp only [GRat.mul_re, GRat.inv, GRat.one_re]
    have : a.re * (a.re / (a.re * a.re + a.im * a.im)) - a.im * (-a.im / (a.re * a.re + a.im * a.im))
        = (a.re * a.re + a.im * a.im) / (a.re * a.re + a.im * a.im) := by ring
    rw [this, div_self hd]
  · simp only [GRat.mul_im, GRat.inv, GRat.one_im]
    ring

/-- **`LUContract` holds for `gExt` on EVERY input on which the exact LU returns with a non-singular
`U`** (`gExtWith s`, any solver `s`: what `DriverC06.lean` runs; the driver evaluates the decidable side
conditions per LAPACK node and prints `contracts_ok`) -/
theorem luContract_gExt (s : Alg → Op GRat → Nat → MatF GRat → MatV GRat) (n : Nat) (D : MatF GRat) (p : List Nat) (L U : MatF GRat)
    (h : gluDense n D = some (p, L, U)) (hU : ∀ i, i < n → U i i ≠ 0) : LUContract (gExtWith s) n D := by
  have hlu : (gExtWith s).lu n D = (p, MatV.of L, MatV.of U) := by simp [gExtWith, h]
  obtain ⟨hlen, hlt, hnd, hL, hUt, hPLU⟩ := glu_contract n D p L U h
  unfold LUContract
  rw [hlu]
  refine ⟨fun t ht => by rw [hlen]; exact hlt t ht, hnd, hlen, hL, hUt, ?_, ?_, hPLU⟩
  · intro i hi
    simp only [MatV.of_f, gExtWith]
    have h1 : L i i = 1 := by
      unfold gluDense at h
      simp only at h
      split at h
      · injection h with h
        injection h with _ h
        injection h with hL' _
        subst hL'
        simp [maskUnitLower]
      · exact absurd h (by simp)
    rw [h1]
    decide +kernel
  · intro i hi
    simp only [MatV.of_f, gExtWith]
    exact grat_mul_inv _ (hU i hi)

/-- **`CholContract` holds for `gExt` on every Hermitian input on which the exact Cholesky returns
with a non-zero diagonal** -/
theorem cholContract_gExt (s : Alg → Op GRat → Nat → MatF GRat → MatV GRat) (n : Nat) (D L : MatF GRat) (h : gcholDense n D = some L)
    (hH : Op.HermOn n D) (hL : ∀ i, i < n → L i i ≠ 0) : CholContract (gExtWith s) n D := by
  have hch : (gExtWith s).chol n D = MatV.of L := by simp [gExtWith, h]
  obtain ⟨hLt, hEq⟩ := gchol_contract n D L h
  unfold CholContract
  rw [hch]
  refine ⟨hLt, ?_, ?_, hEq.trans (Op.hermLower_eqOn hH)⟩
  · intro i hi
    simp only [MatV.of_f, gExtWith]
    exact grat_mul_inv _ (hL i hi)
  · intro i hi
    simp only [MatV.of_f, gExtWith, conjM, transposeM]
    apply grat_mul_inv
    intro h0
    apply hL i hi
    have := congrArg star h0
    simpa using this

end Inv
