import Mathlib.Algebra.Ring.Defs
import Mathlib.Algebra.Ring.Int.Defs
import Mathlib.Algebra.Star.Basic
import Mathlib.Tactic.Ring

/-!
# Gaussian integers — the exact scalar type the driver computes with

`GInt` is the executable instance of the `[CommRing R] [StarRing R]` the algebraic models are
generic over.  Its ring and star laws are *proved* here, so every generic theorem applies
literally to what the driver evaluates.
-/

@[ext] structure GInt where
  re : Int
  im : Int
deriving DecidableEq, Repr, Inhabited

namespace GInt

instance : Zero GInt := ⟨⟨0, 0⟩⟩
instance : One GInt := ⟨⟨1, 0⟩⟩
instance : Add GInt := ⟨fun a b => ⟨a.re + b.re, a.im + b.im⟩⟩
instance : Neg GInt := ⟨fun a => ⟨-a.re, -a.im⟩⟩
instance : Sub GInt := ⟨fun a b => ⟨a.re - b.re, a.im - b.im⟩⟩
instance : Mul GInt := ⟨fun a b => ⟨a.re * b.re - a.im * b.im, a.re * b.im + a.im * b.re⟩⟩
instance : NatCast GInt := ⟨fun n => ⟨n, 0⟩⟩
instance : IntCast GInt := ⟨fun n => ⟨n, 0⟩⟩
instance : SMul Nat GInt := ⟨fun n a => ⟨n * a.re, n * a.im⟩⟩
instance : SMul Int GInt := ⟨fun n a => ⟨n * a.re, n * a.im⟩⟩

@[simp] theorem zero_re : (0 : GInt).re = 0 := rfl
@[simp] theorem zero_im : (0 : GInt).im = 0 := rfl
@[simp] theorem one_re : (1 : GInt).re = 1 := rfl
@[simp] theorem one_im : (1 : GInt).im = 0 := rfl
@[simp] theorem add_re (a b : GInt) : (a + b).re = a.re + b.re := rfl
@[simp] theorem add_im (a b : GInt) : (a + b).im = a.im + b.im := rfl
@[simp] theorem neg_re (a : GInt) : (-a).re = -a.re := rfl
@[simp] theorem neg_im (a : GInt) : (-a).im = -a.im := rfl
@[simp] theorem sub_re (a b : GInt) : (a - b).re = a.re - b.re := rfl
@[simp] theorem sub_im (a b : GInt) : (a - b).im = a.im - b.im := rfl
@[simp] theorem mul_re (a b : GInt) : (a * b).re = a.re * b.re - a.im * b.im := rfl
@[simp] theorem mul_im (a b : GInt) : (a * b).im = a.re * b.im + a.im * b.re := rfl
@[simp] theorem natCast_re (n : Nat) : (n : GInt).re = n := rfl
@[simp] theorem natCast_im (n : Nat) : (n : GInt).im = 0 := rfl
@[simp] theorem intCast_re (n : Int) : (n : GInt).re = n := rfl
@[simp] theorem intCast_im (n : Int) : (n : GInt).im = 0 := rfl
@[simp] theorem nsmul_re (n : Nat) (a : GInt) : (n • a).re = n * a.re := rfl
@[simp] theorem nsmul_im (n : Nat) (a : GInt) : (n • a).im = n * a.im := rfl
@[simp] theorem zsmul_re (n : Int) (a : GInt) : (n • a).re = n * a.re := rfl
@[simp] theorem zsmul_im (n : Int) (a : GInt) : (n • a).im = n * a.im := rfl

instance : CommRing GInt where
  add_assoc a b c := by ext <;> simp <;> ring
  zero_add a := by ext <;> simp
  add_zero a := by ext <;> simp
  add_comm a b := by ext <;> simp <;> ring
  nsmul n a := n • a
  nsmul_zero a := by ext <;> simp
  nsmul_succ n a := by ext <;> simp <;> ring
  zsmul n a := n • a
  zsmul_zero' a := by ext <;> simp
  zsmul_succ' n a := by ext <;> simp <;> ring
  zsmul_neg' n a := by ext <;> simp [Int.negSucc_eq] <;> ring
  neg_add_cancel a := by ext <;> simp
  sub_eq_add_neg a b := by ext <;> simp <;> ring
  mul_assoc a b c := by ext <;> simp <;> ring
  one_mul a := by ext <;> simp
  mul_one a := by ext <;> simp
  mul_comm a b := by ext <;> simp <;> ring
  left_distrib a b c := by ext <;> simp <;> ring
  right_distrib a b c := by ext <;> simp <;> ring
  zero_mul a := by ext <;> simp
  mul_zero a := by ext <;> simp
  natCast_zero := by ext <;> simp
  natCast_succ n := by ext <;> simp
  intCast_ofNat n := by ext <;> simp
  intCast_negSucc n := by ext <;> simp [Int.negSucc_eq]

instance : Star GInt := ⟨fun a => ⟨a.re, -a.im⟩⟩
@[simp] theorem star_re (a : GInt) : (star a).re = a.re := rfl
@[simp] theorem star_im (a : GInt) : (star a).im = -a.im := rfl

instance : StarRing GInt where
  star_involutive a := by ext <;> simp
  star_mul a b := by ext <;> simp <;> ring
  star_add a b := by ext <;> simp; ring

def ofInt (n : Int) : GInt := ⟨n, 0⟩
def I : GInt := ⟨0, 1⟩

/-- largest coordinate magnitude; the driver reports it so the harness can discard cases whose
intermediate values leave the float32-exact range. -/
def maxAbs (a : GInt) : Nat := max a.re.natAbs a.im.natAbs

end GInt
