import Mathlib.Algebra.Ring.Defs
import Mathlib.Algebra.Star.Basic
import Mathlib.Algebra.BigOperators.Group.Finset.Basic
import Mathlib.Algebra.BigOperators.Ring.Finset
import Mathlib.Algebra.BigOperators.Intervals
import Mathlib.Tactic.Ring
import Mathlib.Tactic.Linarith

/-!
# Matrices as entry functions

`MatF R = Nat → Nat → R`; dimensions are carried beside the function.  All model code is
written against this representation (the mathematics is easiest there); `forceM` materialises a
matrix into an array once so that execution stays polynomial, and is provably the identity.
-/

open Finset

abbrev MatF (R : Type) := Nat → Nat → R

section
variable {R : Type}

/-- `sumTo n f = f 0 + … + f (n-1)`, executable without `Finset`. -/
def sumTo [AddCommMonoid R] : Nat → (Nat → R) → R
  | 0, _ => 0
  | n + 1, f => sumTo n f + f n

theorem sumTo_eq [AddCommMonoid R] (n : Nat) (f : Nat → R) : sumTo n f = ∑ i ∈ range n, f i := by
  induction n with
  | zero => simp [sumTo]
  | succ n ih => rw [sumTo, ih, Finset.sum_range_succ]

/-- matrix product with inner dimension `k` -/
def mmul [NonUnitalNonAssocSemiring R] (k : Nat) (A B : MatF R) : MatF R :=
  fun i j => sumTo k (fun q => A i q * B q j)

theorem mmul_apply [NonUnitalNonAssocSemiring R] (k : Nat) (A B : MatF R) (i j : Nat) :
    mmul k A B i j = ∑ q ∈ range k, A i q * B q j := by
  simp [mmul, sumTo_eq]

def transposeM (A : MatF R) : MatF R := fun i j => A j i
def conjM [Star R] (A : MatF R) : MatF R := fun i j => star (A i j)
def eyeM [Zero R] [One R] : MatF R := fun i j => if i = j then 1 else 0
def zeroM [Zero R] : MatF R := fun _ _ => 0
def addM [Add R] (A B : MatF R) : MatF R := fun i j => A i j + B i j
def smulM [Mul R] (c : R) (A : MatF R) : MatF R := fun i j => c * A i j

/-- A matrix *value*: a structure (not a function type), so that a definition returning it is
saturated at its declared arguments and its body — in particular the array in `forceV` — is
evaluated once per call rather than once per entry access. -/
structure MatV (R : Type) where
  f : MatF R
  /-- second field: keeps the structure from being compiled as its only field (a one-field
  structure is represented by that field, and a definition returning it would be eta-expanded
  over the entry indices, recomputing its body at every entry access) -/
  tag : Nat := 0

def MatV.of {R : Type} (f : MatF R) : MatV R := { f := f }
@[simp] theorem MatV.of_f {R : Type} (f : MatF R) : (MatV.of f).f = f := rfl

/-- materialise the `r × c` window of `g` into an array (evaluated once), read back from it.
Provably the identity (`forceV_f`); it exists only so that execution stays polynomial. -/
def forceV (r c : Nat) (g : MatF R) : MatV R :=
  let arr : Array R := Array.ofFn (n := r * c) (fun t => g (t.val / c) (t.val % c))
  MatV.of (fun i j => if i < r ∧ j < c then (match arr[i * c + j]? with | some v => v | none => g i j) else g i j)

@[simp] theorem forceV_f (r c : Nat) (g : MatF R) : (forceV r c g).f = g := by
  funext i j
  simp only [forceV, MatV.of_f]
  split
  · rename_i h
    obtain ⟨hi, hj⟩ := h
    have hlt : i * c + j < r * c := by
      calc i * c + j < i * c + c := by omega
        _ = (i + 1) * c := by ring
        _ ≤ r * c := Nat.mul_le_mul_right _ hi
    have hpos : 0 < c := by omega
    rw [Array.getElem?_ofFn]
    simp only [hlt, dite_true]
    congr 1
    · rw [Nat.add_comm, Nat.add_mul_div_right _ _ hpos, Nat.div_eq_of_lt hj]; simp
    · rw [Nat.add_comm, Nat.add_mul_mod_self_right, Nat.mod_eq_of_lt hj]
  · rfl

/-- in-range extensional equality of two matrices of the same declared size -/
def EqOn (r c : Nat) (A B : MatF R) : Prop := ∀ i j, i < r → j < c → A i j = B i j

theorem EqOn.refl (r c : Nat) (A : MatF R) : EqOn r c A A := fun _ _ _ _ => rfl
theorem EqOn.symm {r c : Nat} {A B : MatF R} (h : EqOn r c A B) : EqOn r c B A :=
  fun i j hi hj => (h i j hi hj).symm
theorem EqOn.trans {r c : Nat} {A B C : MatF R} (h1 : EqOn r c A B) (h2 : EqOn r c B C) :
    EqOn r c A C := fun i j hi hj => (h1 i j hi hj).trans (h2 i j hi hj)

end

/-- the product only reads the in-range window of its arguments -/
theorem mmul_congr {R : Type} [NonUnitalNonAssocSemiring R] {r k c : Nat} {A A' B B' : MatF R}
    (hA : EqOn r k A A') (hB : EqOn k c B B') : EqOn r c (mmul k A B) (mmul k A' B') := by
  intro i j hi hj
  rw [mmul_apply, mmul_apply]
  apply Finset.sum_congr rfl
  intro q hq
  rw [hA i q hi (Finset.mem_range.mp hq), hB q j (Finset.mem_range.mp hq) hj]
