import Mathlib.Algebra.Ring.Defs
import Mathlib.Algebra.Ring.Rat
import Mathlib.Algebra.Order.Ring.Rat
import Mathlib.Algebra.Star.Basic
import Mathlib.Tactic.Ring

/-!
# Gaussian rationals ℚ[i] — the exact scalar type the driver computes with

`GRat` (ℚ[i]) is the executable instance of the `[CommRing R] [StarRing R]` the algebraic models are
generic over.  Its ring and star laws are *proved* here, so every generic theorem applies
literally to what the driver evaluates.
-/

@[ext] structure GRat where
  re : Rat
  im : Rat
deriving DecidableEq, Repr, Inhabited

namespace GRat

instance : Zero GRat := ⟨⟨0, 0⟩⟩
instance : One GRat := ⟨⟨1, 0⟩⟩
instance : Add GRat := ⟨fun a b => ⟨a.re + b.re, a.im + b.im⟩⟩
instance : Neg GRat := ⟨fun a => ⟨-a.re, -a.im⟩⟩
instance : Sub GRat := ⟨fun a b => ⟨a.re - b.re, a.im - b.im⟩⟩
instance : Mul GRat := ⟨fun a b => ⟨a.re * b.re - a.im * b.im, a.re * b.im + a.im * b.re⟩⟩
instance : NatCast GRat := ⟨fun n => ⟨n, 0⟩⟩
instance : IntCast GRat := ⟨fun n => ⟨n, 0⟩⟩
instance : SMul Nat GRat := ⟨fun n a => ⟨n * a.re, n * a.im⟩⟩
instance : SMul Int GRat := ⟨fun n a => ⟨n * a.re, n * a.im⟩⟩

@[simp] theorem zero_re : (0 : GRat).re = 0 := rfl
@[simp] theorem zero_im : (0 : GRat).im = 0 := rfl
@[simp] theorem one_re : (1 : GRat).re = 1 := rfl
@[simp] theorem one_im : (1 : GRat).im = 0 := rfl
@[simp] theorem add_re (a b : GRat) : (a + b).re = a.re + b.re := rfl
@[simp] theorem add_im (a b : GRat) : (a + b).im = a.im + b.im := rfl
@[simp] theorem neg_re (a : GRat) : (-a).re = -a.re := rfl
@[simp] theorem neg_im (a : GRat) : (-a).im = -a.im := rfl
@[simp] theorem sub_re (a b : GRat) : (a - b).re = a.re - b.re := rfl
@[simp] theorem sub_im (a b : GRat) : (a - b).im = a.im - b.im := rfl
@[simp] theorem mul_re (a b : GRat) : (a * b).re = a.re * b.re - a.im * b.im := rfl
@[simp] theorem mul_im (a b : GRat) : (a * b).im = a.re * b.im + a.im * b.re := rfl
@[simp] theorem natCast_re (n : Nat) : (n : GRat).re = n := rfl
@[simp] theorem natCast_im (n : Nat) : (n : GRat).im = 0 := rfl
@[simp] theorem intCast_re (n : Int) : (n : GRat).re = n := rfl
@[simp] theorem intCast_im (n : Int) : (n : GRat).im = 0 := rfl
@[simp] theorem nsmul_re (n : Nat) (a : GRat) : (n • a).re = n * a.re := rfl
@[simp] theorem nsmul_im (n : Nat) (a : GRat) : (n • a).im = n * a.im := rfl
@[simp] theorem zsmul_re (n : Int) (a : GRat) : (n • a).re = n * a.re := rfl
@[simp] theorem zsmul_im (n : Int) (a : GRat) : (n • a).im = n * a.im := rfl

instance : CommRing GRat where
  add_assoc a b c := by ext <;> simp <;> ring
  zero_add a := by ext <;> simp
  add_zero a := by ext <;> simp
  add_comm a b := by ext <;> simp <;> ring
  nsmul n a := n • a
  nsmul_zero a := by ext <;> simp
  nsmul_succ n a := by ext <;> simp <;> ring
  zsmul n a := n • a
  zsmul_zero' a := by ext <;> simp
  zsmul_succ' n a := by ext <;> simp <;> ring
  zsmul_neg' n a := by ext <;> simp [Int.negSucc_eq] <;> ring
  neg_add_cancel a := by ext <;> simp
  sub_eq_add_neg a b := by ext <;> simp <;> ring
  mul_assoc a b c := by ext <;> simp <;> ring
  one_mul a := by ext <;> simp
  mul_one a := by ext <;> simp
  mul_comm a b := by ext <;> simp <;> ring
  left_distrib a b c := by ext <;> simp <;> ring
  right_distrib a b c := by ext <;> simp <;> ring
  zero_mul a := by ext <;> simp
  mul_zero a := by ext <;> simp
  natCast_zero := by ext <;> simp
  natCast_succ n := by ext <;> simp
  intCast_ofNat n := by ext <;> simp
  intCast_negSucc n := by ext <;> simp [Int.negSucc_eq]

instance : Star GRat := ⟨fun a => ⟨a.re, -a.im⟩⟩
@[simp] theorem star_re (a : GRat) : (star a).re = a.re := rfl
@[simp] theorem star_im (a : GRat) : (star a).im = -a.im := rfl

instance : StarRing GRat where
  star_involutive a := by ext <;> simp
  star_mul a b := by ext <;> simp <;> ring
  star_add a b := by ext <;> simp; ring

def ofInt (n : Int) : GRat := ⟨n, 0⟩
/-- reciprocal (0 for 0), used by the structural inverse rules -/
def inv (a : GRat) : GRat :=
  let d := a.re * a.re + a.im * a.im
  ⟨a.re / d, -a.im / d⟩
def I : GRat := ⟨0, 1⟩

/-- L¹ modulus -/
def absL1 (a : GRat) : Rat := |a.re| + |a.im|

end GRat
