import ColaVerif.Basic.Radix

/-!
# Tensors as multi-index functions, and the Kronecker contraction loop

Model of the numpy primitives `reshape` (C order), `moveaxis(·, i, 0)`, `moveaxis(·, 0, i)` and of
the loop in `Kronecker._matmat` / `KronSum._matmat` (cola/ops/operators.py).  A factor enters the
loop only through its *action* `M @ ·` on a `(c × b)` matrix; `FacAct.Ok` says that this action is
multiplication by the matrix `a`.
-/

open Finset

variable {R : Type}

/-- tensors as multi-index functions -/
structure Tensor (R : Type) where
  shape : List Nat
  get : List Nat → R

/-- materialise a tensor once (execution only; provably the identity) -/
def forceT (T : Tensor R) : Tensor R :=
  let sh := T.shape
  let g := T.get
  let arr : Array R := Array.ofFn (n := sh.prod) (fun t => g (unravel sh t.val))
  ⟨sh, fun idx => if inB sh idx then (match arr[ravel sh idx]? with | some v => v | none => g idx) else g idx⟩

@[simp] theorem forceT_eq (T : Tensor R) : forceT T = T := by
  cases T with
  | mk sh g =>
    simp only [forceT, Tensor.mk.injEq, true_and]
    funext idx
    split
    · rename_i h
      have hb : InB sh idx := (inB_iff sh idx).mp h
      have hlt := ravel_lt sh idx hb
      rw [Array.getElem?_ofFn]
      simp only [hlt, dite_true]
      rw [unravel_ravel sh idx hb]
    · rfl

def insertAt (i : Nat) (a : Nat) (l : List Nat) : List Nat := l.take i ++ a :: l.drop i

/-- numpy: moveaxis(T, i, 0) -/
def moveToFront (T : Tensor R) (i : Nat) : Tensor R :=
  ⟨T.shape.getD i 0 :: T.shape.eraseIdx i,
   fun idx => match idx with | [] => T.get [] | a :: rest => T.get (insertAt i a rest)⟩
/-- numpy: moveaxis(T, 0, i) -/
def moveFromFront (T : Tensor R) (i : Nat) : Tensor R :=
  ⟨insertAt i (T.shape.headD 0) T.shape.tail,
   fun idx => T.get (idx.getD i 0 :: idx.eraseIdx i)⟩
/-- reshape to (d, rest) matrix -/
def toMat (T : Tensor R) : MatF R := fun a f => T.get (a :: unravel T.shape.tail f)
/-- reshape (r, rest) matrix back to tensor with given tail shape -/
def ofMat [Zero R] (r : Nat) (tail : List Nat) (m : MatF R) : Tensor R :=
  ⟨r :: tail, fun idx => match idx with | [] => 0 | a :: rest => m a (ravel tail rest)⟩

/-- a Kronecker factor: its dimensions, the matrix it represents, and its action `M @ ·` on a
matrix with `b` columns (the code path). -/
structure FacAct (R : Type) where
  r : Nat
  c : Nat
  a : MatF R
  act : Nat → MatF R → MatV R

/-- the action is multiplication by `a` -/
def FacAct.Ok [NonUnitalNonAssocSemiring R] (M : FacAct R) : Prop :=
  ∀ (b : Nat) (m : MatF R) (p f : Nat), p < M.r → f < b →
    (M.act b m).f p f = ∑ q ∈ range M.c, M.a p q * m q f

/-- one step of the Kronecker loop: apply the factor `M` on axis `i`
(`moveaxis(ev, i, 0)`, reshape to `(c, -1)`, `M @ ·`, reshape back, `moveaxis(·, 0, i)`). -/
def kronStep [Zero R] (M : FacAct R) (ev : Tensor R) (i : Nat) : Tensor R :=
  let front := moveToFront ev i
  let mat := toMat front
  let prod := M.act front.shape.tail.prod mat
  forceT (moveFromFront (ofMat M.r front.shape.tail prod.f) i)

theorem insertAt_getD_eraseIdx (idx : List Nat) (i : Nat) (h : i < idx.length) :
    insertAt i (idx.getD i 0) (idx.eraseIdx i) = idx := by
  induction idx generalizing i with
  | nil => simp at h
  | cons a l ih =>
    cases i with
    | zero => simp [insertAt]
    | succ n =>
      simp only [List.length_cons, Nat.add_lt_add_iff_right] at h
      have := ih n h
      simp only [insertAt, List.getD_cons_succ, List.eraseIdx_cons_succ, List.take_succ_cons,
        List.drop_succ_cons, List.cons_append] at this ⊢
      rw [this]

/-- mode-product spec: the step replaces index i by a sum over q -/
theorem kronStep_get [NonUnitalNonAssocSemiring R] (M : FacAct R) (hM : M.Ok) (ev : Tensor R)
    (i : Nat) (idx : List Nat)
    (hi : i < idx.length) (hr : idx.getD i 0 < M.r)
    (hb : InB (ev.shape.eraseIdx i) (idx.eraseIdx i)) :
    (kronStep M ev i).get idx =
      ∑ q ∈ range M.c, M.a (idx.getD i 0) q * ev.get (insertAt i q (idx.eraseIdx i)) := by
  simp only [kronStep, forceT_eq, moveFromFront, ofMat, toMat, moveToFront, List.tail_cons]
  rw [hM _ _ _ _ hr (ravel_lt _ _ hb)]
  apply Finset.sum_congr rfl
  intro q _
  simp only [toMat, List.tail_cons]
  rw [unravel_ravel _ _ hb]
