/-!
# Python slice / integer-array index semantics (model of CPython `slice.indices` and numpy)

`Ix` is what can appear in one position of `A[·, ·]`; `resolve n ix` is the list of positions
`np.arange(n)[ix]` selects.  Validated against CPython/numpy by the primitive stream of the
harness (exhaustive for start/stop/step ∈ {None, −6..6}, n ≤ 5); trusted base.
-/

inductive Ix where
  | slice (start stop step : Option Int)
  | arr (idx : List Int)
deriving DecidableEq, Repr, Inhabited

namespace Ix

/-- `range(start, stop, step)` as a list of naturals (all values are in `[0, n)` when produced by
`sliceIndices`), with fuel -/
def rangeList (start stop step : Int) : Nat → List Nat
  | 0 => []
  | fuel + 1 =>
    if (0 < step ∧ start < stop) ∨ (step < 0 ∧ start > stop) then
      start.toNat :: rangeList (start + step) stop step fuel
    else []

/-- CPython `PySlice_AdjustIndices` -/
def sliceIndices (n : Nat) (start stop step : Option Int) : Int × Int × Int :=
  let st : Int := step.getD 1
  let len : Int := n
  let clamp (v : Int) : Int :=
    let v := if v < 0 then v + len else v
    if v < 0 then (if st < 0 then -1 else 0)
    else if v ≥ len then (if st < 0 then len - 1 else len)
    else v
  let s := match start with
    | none => if st < 0 then len - 1 else 0
    | some v => clamp v
  let e := match stop with
    | none => if st < 0 then -1 else len
    | some v => clamp v
  (s, e, st)

/-- positions selected by `np.arange(n)[ix]`; `none` = IndexError / zero step -/
def resolve (n : Nat) : Ix → Option (List Nat)
  | slice start stop step =>
    if step = some 0 then none else
    let (s, e, st) := sliceIndices n start stop step
    some (rangeList s e st (n + 1))
  | arr idx =>
    if idx.all (fun i => decide (-(n : Int) ≤ i ∧ i < n)) then
      some (idx.map (fun i => (if i < 0 then i + (n : Int) else i).toNat))
    else none

end Ix
