import ColaVerif.Basic.Mat

/-!
# Mixed-radix index arithmetic (C-order `reshape`)

`ravel sh idx` is the flat C-order offset of the multi-index `idx` in an array of shape `sh`;
`unravel` is its inverse on in-bounds indices.  These are the model of `numpy.reshape`.
-/

open Finset

/-- row-major ravel of a multi-index w.r.t. a shape -/
def ravel : List Nat → List Nat → Nat
  | [], _ => 0
  | _ :: _, [] => 0
  | s :: ss, i :: is => i * ss.prod + ravel ss is

def unravel : List Nat → Nat → List Nat
  | [], _ => []
  | _ :: ss, f => (f / ss.prod) :: unravel ss (f % ss.prod)

def InB : List Nat → List Nat → Prop
  | [], [] => True
  | s :: ss, i :: is => i < s ∧ InB ss is
  | _, _ => False

theorem ravel_lt : ∀ (sh idx : List Nat), InB sh idx → ravel sh idx < sh.prod
  | [], [], _ => by simp [ravel]
  | s :: ss, i :: is, h => by
    obtain ⟨hi, hr⟩ := h
    have ih := ravel_lt ss is hr
    simp only [ravel, List.prod_cons]
    calc i * ss.prod + ravel ss is < i * ss.prod + ss.prod := by omega
      _ = (i + 1) * ss.prod := by ring
      _ ≤ s * ss.prod := Nat.mul_le_mul_right _ hi
  | [], _ :: _, h => by simp [InB] at h
  | _ :: _, [], h => by simp [InB] at h

theorem unravel_ravel : ∀ (sh idx : List Nat), InB sh idx → unravel sh (ravel sh idx) = idx
  | [], [], _ => rfl
  | s :: ss, i :: is, h => by
    obtain ⟨hi, hr⟩ := h
    have hlt := ravel_lt ss is hr
    have hpos : 0 < ss.prod := by omega
    simp only [ravel, unravel]
    have h1 : (i * ss.prod + ravel ss is) / ss.prod = i := by
      rw [Nat.add_comm, Nat.add_mul_div_right _ _ hpos, Nat.div_eq_of_lt hlt]; simp
    have h2 : (i * ss.prod + ravel ss is) % ss.prod = ravel ss is := by
      rw [Nat.add_comm, Nat.add_mul_mod_self_right, Nat.mod_eq_of_lt hlt]
    rw [h1, h2, unravel_ravel ss is hr]
  | [], _ :: _, h => by simp [InB] at h
  | _ :: _, [], h => by simp [InB] at h

theorem ravel_unravel : ∀ (sh : List Nat) (f : Nat), f < sh.prod → ravel sh (unravel sh f) = f ∧ InB sh (unravel sh f)
  | [], f, h => by simp at h; subst h; simp [ravel, unravel, InB]
  | s :: ss, f, h => by
    simp only [List.prod_cons] at h
    have hpos : 0 < ss.prod := by
      rcases Nat.eq_zero_or_pos ss.prod with h0 | h0
      · rw [h0] at h; simp at h
      · exact h0
    have hm : f % ss.prod < ss.prod := Nat.mod_lt _ hpos
    obtain ⟨ih1, ih2⟩ := ravel_unravel ss (f % ss.prod) hm
    refine ⟨?_, ?_, ih2⟩
    · simp only [unravel, ravel, ih1]; exact Nat.div_add_mod' f ss.prod
    · exact (Nat.div_lt_iff_lt_mul hpos).mpr h

variable {R : Type} [CommRing R]

/-- Boolean version of `InB` for execution -/
def inB : List Nat → List Nat → Bool
  | [], [] => true
  | s :: ss, i :: is => decide (i < s) && inB ss is
  | _, _ => false

theorem inB_iff : ∀ (sh idx : List Nat), inB sh idx = true ↔ InB sh idx
  | [], [] => by simp [inB, InB]
  | s :: ss, i :: is => by simp [inB, InB, inB_iff ss is]
  | [], _ :: _ => by simp [inB, InB]
  | _ :: _, [] => by simp [inB, InB]

instance (sh idx : List Nat) : Decidable (InB sh idx) :=
  decidable_of_iff _ (inB_iff sh idx)
