import Lean.Data.Json
import ColaVerif.Basic.GRat
import ColaVerif.Model.Matmat
import ColaVerif.Model.Wf
import ColaVerif.Model.Bound
import ColaVerif.Model.Index
import ColaVerif.Model.Expr

/-!
Shared helpers of the line-protocol drivers: JSON parsing of the case language (DESIGN.md 2.9)
into `Op GRat` / `Ex GRat`, canonical printing of exact values, kind trees.
-/

open Lean (Json)

abbrev E := Except String

def jInt (j : Json) : E Int :=
  match j.getInt? with | .ok n => pure n | .error e => throw s!"int expected: {e}"
def jNat (j : Json) : E Nat := do
  let n ← jInt j
  if n < 0 then throw "nat expected" else pure n.toNat
def jArr (j : Json) : E (Array Json) :=
  match j with | .arr a => pure a | _ => throw s!"array expected, got {j.compress}"
def jStr (j : Json) : E String :=
  match j with | .str s => pure s | _ => throw "string expected"
def jBool (j : Json) : E Bool :=
  match j with | .bool b => pure b | _ => throw "bool expected"

def jQ (j : Json) : E Rat :=
  match j.getObjVal? "q" with
  | .ok (.arr #[n, d]) => do
      let dn ← jNat d
      if dn == 0 then throw "zero denominator" else pure (mkRat (← jInt n) dn)
  | _ => do pure ((← jInt j : Int) : Rat)

def jZ (j : Json) : E GRat :=
  match j with
  | .arr #[a, b] => do pure ⟨← jQ a, ← jQ b⟩
  | _ => do pure ⟨← jQ j, 0⟩

def jDt (j : Json) : E DType := do
  match ← jStr j with
  | "f32" => pure .f32 | "f64" => pure .f64 | "c64" => pure .c64 | "c128" => pure .c128
  | s => throw s!"dtype {s}"

def jAnn (j : Json) : E Ann := do
  match ← jStr j with
  | "SelfAdjoint" => pure .selfAdjoint | "PSD" => pure .psd
  | "Stiefel" => pure .stiefel | "Unitary" => pure .unitary
  | s => throw s!"ann {s}"

def jVec (j : Json) : E (Array GRat) := do (← jArr j).mapM jZ
def jMat (j : Json) : E (Array (Array GRat)) := do (← jArr j).mapM jVec

def vecF (v : Array GRat) : Nat → GRat := fun i => v.getD i 0
def matF (m : Array (Array GRat)) : MatF GRat := fun i j => (m.getD i #[]).getD j 0

def jOptInt (j : Json) : E (Option Int) :=
  match j with | .null => pure none | _ => do pure (some (← jInt j))

def jIx (j : Json) : E Ix := do
  match j.getObjVal? "s" with
  | .ok (.arr #[a, b, c]) => pure (.slice (← jOptInt a) (← jOptInt b) (← jOptInt c))
  | _ =>
    match j.getObjVal? "a" with
    | .ok l => do pure (.arr (← (← jArr l).toList.mapM jInt))
    | _ => throw s!"ix: {j.compress}"

partial def jOp (j : Json) : E (Op GRat) := do
  let a ← jArr j
  let tag ← jStr (a.getD 0 .null)
  let arg (i : Nat) : Json := a.getD i .null
  let rest : E (List (Op GRat)) := (a.toList.drop 1).mapM jOp
  match tag with
  | "dense" => pure (.dense (← jDt (arg 1)) (← jNat (arg 2)) (← jNat (arg 3)) (matF (← jMat (arg 4))))
  | "tri" => pure (.tri (← jDt (arg 1)) (← jNat (arg 2)) (← jNat (arg 3)) (← jBool (arg 4)) (matF (← jMat (arg 5))))
  | "sparse" => do
      let ents ← (← jArr (arg 4)).toList.mapM fun e => do
        let t ← jArr e
        pure ((← jNat (t.getD 0 .null)), (← jNat (t.getD 1 .null)), (← jZ (t.getD 2 .null)))
      pure (.sparse (← jDt (arg 1)) (← jNat (arg 2)) (← jNat (arg 3)) ents)
  | "scalar" => pure (.scalar (← jDt (arg 1)) (← jZ (arg 2)) (← jNat (arg 3)))
  | "eye" => pure (.eye (← jDt (arg 1)) (← jNat (arg 2)))
  | "prod" => pure (.prod (← rest))
  | "sum" => pure (.sum (← rest))
  | "kron" => pure (.kron (← rest))
  | "kronsum" => pure (.kronsum (← rest))
  | "bdiag" => do
      let ms ← (← jArr (arg 1)).toList.mapM jOp
      let mu ← (← jArr (arg 2)).toList.mapM jNat
      pure (.bdiag ms mu)
  | "diag" => do
      let v ← jVec (arg 2)
      pure (.diag (← jDt (arg 1)) v.size (vecF v))
  | "tridiag" => do
      let be ← jVec (arg 3)
      pure (.tridiag (← jDt (arg 1)) be.size (vecF (← jVec (arg 2))) (vecF be) (vecF (← jVec (arg 4))))
  | "T" => pure (.transpose (← jOp (arg 1)))
  | "H" => pure (.adjoint (← jOp (arg 1)))
  | "slice" => pure (.sliced (← jOp (arg 1)) (← jIx (arg 2)) (← jIx (arg 3)))
  | "perm" => pure (.perm (← jDt (arg 1)) (← (← jArr (arg 2)).toList.mapM jNat))
  | "concat" => do
      let ax ← jNat (arg 1)
      pure (.concat (ax == 1) (← (a.toList.drop 2).mapM jOp))
  | "house" => do
      let v ← jVec (arg 2)
      pure (.house (← jDt (arg 1)) v.size (vecF v) (← jZ (arg 3)))
  | "generic" => pure (.generic (← jOp (arg 1)))
  | "ann" => pure (.annot (← jAnn (arg 1)) (← jOp (arg 2)))
  | t => throw s!"unknown op tag {t}"

def showQ (q : Rat) : String := if q.den == 1 then toString q.num else s!"\"{q.num}/{q.den}\""
def showZ (z : GRat) : String := s!"[{showQ z.re},{showQ z.im}]"
def showMat (r c : Nat) (m : MatF GRat) : String :=
  "[" ++ ",".intercalate ((List.range r).map fun i =>
    "[" ++ ",".intercalate ((List.range c).map fun j => showZ (m i j)) ++ "]") ++ "]"
def maxAbsMat (r c : Nat) (m : MatF GRat) : String :=
  showQ ((List.range r).foldl (fun acc i => (List.range c).foldl (fun acc j => max acc (m i j).absL1) acc) 0)
def showAnns (s : AnnSet) : String :=
  "[" ++ ",".intercalate ((AnnSet.canon s).map fun a => "\"" ++ a.toString ++ "\"") ++ "]"

def showStrs (l : List String) : String :=
  "[" ++ ",".intercalate (l.map fun s => "\"" ++ s ++ "\"") ++ "]"

def header (A : Op GRat) : String :=
  s!"\"rows\":{A.rows},\"cols\":{A.cols},\"dtype\":\"{A.dtype.toString}\",\"anns\":{showAnns A.anns},\"wf\":{A.wf},\"clauses\":{showStrs A.clauses}"

def absMat (m : MatF GRat) : MatF GRat := fun i j => Op.absZ (m i j)

def kindName : Op GRat → String
  | .dense .. => "dense" | .tri .. => "tri" | .sparse .. => "sparse" | .scalar .. => "scalar"
  | .eye .. => "eye" | .prod _ => "prod" | .sum _ => "sum" | .kron _ => "kron" | .kronsum _ => "kronsum"
  | .bdiag .. => "bdiag" | .diag .. => "diag" | .tridiag .. => "tridiag" | .transpose _ => "T"
  | .adjoint _ => "H" | .sliced .. => "slice" | .perm .. => "perm" | .concat .. => "concat"
  | .house .. => "house" | .generic _ => "generic" | .annot .. => "ann"

/-- kind tree of an operator: [kind, annotations, children…] (declaration wrappers are not nodes) -/
partial def skel (A : Op GRat) : String :=
  let c := A.core
  let kids : List (Op GRat) := match c with
    | .prod Ms => Ms | .sum Ms => Ms | .kron Ms => Ms | .kronsum Ms => Ms | .bdiag Ms _ => Ms
    | .concat _ Ms => Ms | .transpose B => [B] | .adjoint B => [B] | .sliced B _ _ => [B]
    | _ => []   -- `generic` keeps only the product function of its argument, not the operator
  "[" ++ ",".intercalate (["\"" ++ kindName c ++ "\"", showAnns A.anns] ++ kids.map skel) ++ "]"

def showVec (n : Nat) (v : Nat → GRat) : String :=
  "[" ++ ",".intercalate ((List.range n).map fun i => showZ (v i)) ++ "]"

def jGIx (j : Json) : E GIx := do
  match j.getObjVal? "i" with
  | .ok v => pure (.int (← jInt v))
  | _ =>
    match j.getObjVal? "l" with
    | .ok l => do pure (.list (← (← jArr l).toList.mapM jInt))
    | _ => do pure (.ix (← jIx j))

def showRes (r : GRes GRat) : String :=
  match r with
  | .scalar z => "{\"kind\":\"scalar\",\"value\":" ++ showZ z ++ "}"
  | .vec n v => "{\"kind\":\"vec\",\"value\":" ++ showVec n v ++ "}"
  | .op B => "{\"kind\":\"op\",\"rows\":" ++ toString B.rows ++ ",\"cols\":" ++ toString B.cols
      ++ ",\"value\":" ++ showMat B.rows B.cols B.td.f ++ ",\"skel\":" ++ skel B ++ ",\"anns\":" ++ showAnns B.anns ++ "}"
  | .err e => "{\"kind\":\"err\",\"value\":\"" ++ e ++ "\"}"

def jScal (j : Json) : E (Scal GRat) := do
  let v ← jZ ((j.getObjVal? "v").toOption.getD .null)
  let inv ← jZ ((j.getObjVal? "inv").toOption.getD (.num 0))
  let k ← jStr ((j.getObjVal? "kind").toOption.getD .null)
  let kind ← match k with
    | "pyint" => pure ScalKind.pyint | "pyfloat" => pure .pyfloat | "pycomplex" => pure .pycomplex
    | "npscalar" => pure .npscalar | "arr0" => pure .arr0
    | s => throw s!"scalar kind {s}"
  let cplx := match (j.getObjVal? "cplx") with | .ok (.bool b) => b | _ => false
  pure ⟨v, inv, kind, cplx⟩

partial def jEx (j : Json) : E (Ex GRat) := do
  let a ← jArr j
  let tag ← jStr (a.getD 0 .null)
  let arg (i : Nat) : Json := a.getD i .null
  match tag with
  | "op" => pure (.op (← jOp (arg 1)))
  | "arr" => pure (.arr (← jDt (arg 1)) (← jNat (arg 2)) (← jNat (arg 3)) (matF (← jMat (arg 4))))
  | "add" => pure (.add (← jEx (arg 1)) (← jEx (arg 2)))
  | "sub" => pure (.sub (← jEx (arg 1)) (← jEx (arg 2)))
  | "neg" => pure (.neg (← jEx (arg 1)))
  | "smul" => pure (.smul (← jScal (arg 1)) (← jEx (arg 2)))
  | "muls" => pure (.muls (← jEx (arg 1)) (← jScal (arg 2)))
  | "divs" => pure (.divs (← jEx (arg 1)) (← jScal (arg 2)))
  | "sdiv" => pure (.sdiv (← jScal (arg 1)) (← jEx (arg 2)))
  | "addz" => pure (.addz (← jEx (arg 1)))
  | "matmul" => pure (.matmul (← jEx (arg 1)) (← jEx (arg 2)))
  | "kron" => pure (.kron (← jEx (arg 1)) (← jEx (arg 2)))
  | "kronsum" => pure (.kronsum (← jEx (arg 1)) (← jEx (arg 2)))
  | "bdiag" => pure (.bdiag (← (a.toList.drop 1).mapM jEx))
  | "sumlist" => pure (.sumList (← (a.toList.drop 1).mapM jEx))
  | "lazify" => pure (.lazify (← jEx (arg 1)))
  | "densify" => pure (.densify (← jEx (arg 1)))
  | "nodispatch" => pure (.nodispatch (← jEx (arg 1)))
  | t => throw s!"unknown expr tag {t}"

def showVal (v : Val GRat) : String :=
  match v with
  | .op B => "{\"kind\":\"op\",\"rows\":" ++ toString B.rows ++ ",\"cols\":" ++ toString B.cols
      ++ ",\"dtype\":\"" ++ B.dtype.toString ++ "\",\"value\":" ++ showMat B.rows B.cols B.td.f
      ++ ",\"skel\":" ++ skel B ++ ",\"anns\":" ++ showAnns B.anns ++ ",\"absbound\":" ++ maxAbsMat B.rows B.cols B.absOp.td.f ++ "}"
  | .arr dt r c a => "{\"kind\":\"arr\",\"rows\":" ++ toString r ++ ",\"cols\":" ++ toString c
      ++ ",\"dtype\":\"" ++ dt.toString ++ "\",\"value\":" ++ showMat r c a ++ ",\"absbound\":" ++ maxAbsMat r c (absMat a) ++ "}"

def handleExpr (j : Json) : E String := do
  let id := (j.getObjVal? "id").toOption.getD .null
  let e ← jEx ((j.getObjVal? "ex").toOption.getD .null)
  let code := match e.eval (fun z => ⟨z.re, 0⟩) with
    | .ok v => showVal v
    | .error err => "{\"kind\":\"err\",\"value\":\"" ++ err ++ "\"}"
  let spec := match e.meaning with
    | some (r, c, m) => "{\"kind\":\"mat\",\"rows\":" ++ toString r ++ ",\"cols\":" ++ toString c ++ ",\"value\":" ++ showMat r c (forceV r c m).f ++ "}"
    | none => "{\"kind\":\"none\"}"
  pure ("{\"id\":" ++ id.compress ++ ",\"wf\":true,\"clauses\":[],\"code\":" ++ code ++ ",\"spec\":" ++ spec ++ "}")

def parseTower (s : String) : List Bool := s.toList.map (fun ch => ch == 'T')

/-- read JSON lines from stdin, answer each with `handle` -/
partial def driverLoop (handle : Json → E String) (h : IO.FS.Stream) (out : IO.FS.Stream) : IO Unit := do
  let line ← h.getLine
  if line.isEmpty then return ()
  let t := line.trimAscii.toString
  if t.isEmpty then driverLoop handle h out else
  let ans := match Json.parse t with
    | .error e => "{\"error\":" ++ (Json.str s!"parse: {e}").compress ++ "}"
    | .ok j =>
      match handle j with
      | .ok s => s
      | .error e =>
        let id := (j.getObjVal? "id").toOption.getD .null
        "{\"id\":" ++ id.compress ++ ",\"error\":" ++ (Json.str e).compress ++ "}"
  out.putStrLn ans
  driverLoop handle h out

def driverMain (handle : Json → E String) : IO Unit := do
  let out ← IO.getStdout
  driverLoop handle (← IO.getStdin) out
  out.flush
