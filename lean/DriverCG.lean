import Lean.Data.Json
import ColaVerif.Model.CG

/-!
Line-protocol driver of the CG code model (`ColaVerif/Model/CG.lean`).
Run with `lake env lean --run DriverCG.lean < cases.jsonl`.

Input, one JSON object per line:
  {"id": …, "complex": bool, "A": rows, "P": rows | null, "b": columns, "x0": columns | null,
   "tol": scalar, "max_iters": nat}
where every scalar is `[reBits, imBits]`: the IEEE-754 bit patterns (unsigned 64-bit integers) of the
real and imaginary part — exact transport of doubles (`imBits` ignored when `complex` is false).
Output, one JSON object per line:
  {"id", "x": columns, "r": columns, "k", "iterations", "errors": [bits…],
   "trace": [{"x": columns, "res": bits}, …]}   -- one entry per evaluation of the stopping test
With an input field "exact_steps": K the answer also has "exact": per column {"xs": iterates 0…K of
textbook CG in exact rational arithmetic (rounded to doubles), "rn2": ‖r_k‖²} — see `cgExact`.
-/

open Lean (Json)
open CG

abbrev E := Except String

def jArr (j : Json) : E (Array Json) :=
  match j with | .arr a => pure a | _ => throw s!"array expected, got {j.compress}"
def jNat (j : Json) : E Nat :=
  match j.getNat? with | .ok n => pure n | .error e => throw s!"nat expected: {e}"
def jBool (j : Json) : E Bool :=
  match j with | .bool b => pure b | _ => throw "bool expected"
def jBits (j : Json) : E Float := do
  let n ← jNat j
  pure (Float.ofBits n.toUInt64)

/-- transport of scalars -/
class Wire (K : Type) where
  ofPair : Float → Float → K
  toPair : K → Float × Float

instance : Wire Float := ⟨fun a _ => a, fun a => (a, 0.0)⟩
instance : Wire CFloat := ⟨fun a b => ⟨a, b⟩, fun a => (a.re, a.im)⟩

section
variable (K : Type) [NumOps K] [Wire K]

def jScalar (j : Json) : E K := do
  match ← jArr j with
  | #[a, b] => pure (Wire.ofPair (← jBits a) (← jBits b))
  | _ => throw "scalar = [reBits, imBits]"

def jVecK (j : Json) : E (Vec K) := do (← jArr j).mapM (jScalar K)
def jMatK (j : Json) : E (Array (Vec K)) := do (← jArr j).mapM (jVecK K)
def jOptMat (j : Json) : E (Option (Array (Vec K))) :=
  match j with | .null => pure none | _ => do pure (some (← jMatK K j))

variable {K}

def outBits (f : Float) : Json := Json.num (Lean.JsonNumber.fromNat f.toBits.toNat)
def outScalar (a : K) : Json :=
  let p := Wire.toPair a
  Json.arr #[outBits p.1, outBits p.2]
def outVec (v : Vec K) : Json := Json.arr (v.map outScalar)
def outCols (c : Array (Vec K)) : Json := Json.arr (c.map outVec)

variable (K)

def runCase (j : Json) : E Json := do
  let get (k : String) : E Json :=
    match j.getObjVal? k with | .ok v => pure v | .error _ => throw s!"missing field {k}"
  let A ← jMatK K (← get "A")
  let P ← jOptMat K (← get "P")
  let b ← jMatK K (← get "b")
  let x0 ← jOptMat K (← get "x0")
  let tol : K ← jScalar K (← get "tol")
  let maxIters ← jNat (← get "max_iters")
  let res := cg A b x0 P tol maxIters
  -- per-step trace: the states at which the stopping test is evaluated
  let x0' : Array (Vec K) := match x0 with
    | some x => x
    | none => b.map (fun c => c.map (fun _ => NumOps.zero))
  let mult := mults b
  let s0 := initState A P b x0'
  let tolEff := tolEffs tol s0
  let states := loopStates (cond tolEff maxIters) (step A P) maxIters s0
  -- optional "trace_at": [k…] — print the iterates of these states only (large sizes); the tracked
  -- residual and the per-column residual norms are printed for every state
  let traceAt : Option (Array Nat) := match j.getObjVal? "trace_at" with
    | .ok (.arr a) => some (a.filterMap fun v => v.getNat?.toOption)
    | _ => none
  let keep (i : Nat) : Bool := match traceAt with | none => true | some ks => ks.contains i
  let trace := states.toArray.mapIdx fun i s =>
    if keep i then
      Json.mkObj [("x", outCols (Array.zipWith scaleR (s.cols.map (·.x)) mult)),
                  ("res", outScalar (track s))]
    else Json.mkObj [("res", outScalar (track s))]
  let colRes := states.toArray.map fun s => Json.arr (s.cols.map fun c => outScalar (norm c.r))
  -- which guarded branches the steps went through (instrumentation only; all but the last state
  -- of the trace are stepped)
  let stepped := states.toArray.extract 0 (states.length - 1)
  let count (f : Col K → Bool) : Nat :=
    stepped.foldl (fun acc s => acc + (s.cols.filter f).size) 0
  let nMask := count fun c => NumOps.lt (norm c.r) (NumOps.small : K)
  let nGuardA := count fun c =>
    !(NumOps.lt (norm c.r) (NumOps.small : K)) && NumOps.isZero (dotc c.p (matVec A c.p))
  let nGuardB := count fun c =>
    !(NumOps.lt (norm c.r) (NumOps.small : K)) && NumOps.isZero c.gamma
  let nGuardM := (mult.filter fun m => NumOps.isZero m).size
  let nat (n : Nat) : Json := Json.num (Lean.JsonNumber.fromNat n)
  pure <| Json.mkObj [
    ("x", outCols res.x), ("r", outCols res.r), ("k", Json.num (Lean.JsonNumber.fromNat res.k)),
    ("iterations", Json.num (Lean.JsonNumber.fromNat res.info.iterations)),
    ("errors", Json.arr (res.info.errors.map outScalar)),
    ("tol_eff", Json.arr (tolEff.map outScalar)),
    ("col_res", Json.arr colRes),
    ("branches", Json.mkObj [("mask_has_converged", nat nMask), ("safe_div_alpha", nat nGuardA),
                             ("safe_div_beta", nat nGuardB), ("zero_mult", nat nGuardM)]),
    ("trace", Json.arr trace)]

end


/-! ## exact side

`cgExact` is textbook preconditioned CG — the recurrence `cgSeq` of `Lemmas/CGOptimal.lean`
(`cgInit`, `cgStep`, `cgAlpha`) — transcribed over `ℚ[i]` (pairs of core `Rat`; doubles are rationals,
so the inputs enter EXACTLY).  By `C12_is_textbook_cg` / `C12_optimal_inputs` / `cg_optimal_krylov`
its `k`-th iterate is what the model returns in exact arithmetic while no guard acts, and it is the
minimiser of the energy over `x0 + K_k(MA, M r0)`.  The transcription itself (≈ 15 lines) is read,
not proved.  Output: the iterates rounded to the nearest double and `‖r_k‖²`. -/

structure QC where
  re : Rat
  im : Rat

namespace QC
def zero : QC := ⟨0, 0⟩
def add (a b : QC) : QC := ⟨a.re + b.re, a.im + b.im⟩
def sub (a b : QC) : QC := ⟨a.re - b.re, a.im - b.im⟩
def mul (a b : QC) : QC := ⟨a.re * b.re - a.im * b.im, a.re * b.im + a.im * b.re⟩
def conj (a : QC) : QC := ⟨a.re, -a.im⟩
def isZero (a : QC) : Bool := a.re == 0 && a.im == 0
def div (a b : QC) : QC :=
  let d := b.re * b.re + b.im * b.im
  ⟨(a.re * b.re + a.im * b.im) / d, (a.im * b.re - a.re * b.im) / d⟩
end QC

def pow2 (k : Int) : Rat :=
  if k ≥ 0 then (((2 : Nat) ^ k.toNat : Nat) : Rat) else 1 / (((2 : Nat) ^ (-k).toNat : Nat) : Rat)

/-- the rational number a double (given by its bit pattern) denotes -/
def ratOfBits (n : Nat) : Rat :=
  let s : Nat := n >>> 63
  let e : Nat := (n >>> 52) &&& 0x7FF
  let m : Nat := n &&& (2 ^ 52 - 1)
  let mant : Nat := if e == 0 then m else m + 2 ^ 52
  let ex : Int := if e == 0 then -1074 else (e : Int) - 1075
  let v : Rat := (mant : Rat) * pow2 ex
  if s == 1 then -v else v

/-- nearest double (ties up; subnormal results are not produced by the streams) -/
def floatOfRat (q : Rat) : Float :=
  if q == 0 then 0.0 else
  let neg := q < 0
  let n : Nat := q.num.natAbs
  let d : Nat := q.den
  let e0 : Int := (Nat.log2 n : Int) - (Nat.log2 d : Int)
  let s : Int := 54 - e0          -- n * 2^s / d  has 54 or 55 bits
  let t : Nat := if s ≥ 0 then (n <<< s.toNat) / d else n / (d <<< (-s).toNat)
  let extra : Nat := Nat.log2 t - 53          -- bits beyond 54
  let t2 := t >>> extra                        -- 54 bits
  let m := (t2 + 1) / 2                        -- 53 bits (or 2^53)
  let f := (Float.ofNat m).scaleB (-(s - (extra : Int) - 1))
  if neg then -f else f

def jQC (j : Json) : E QC := do
  match ← jArr j with
  | #[a, b] => pure ⟨ratOfBits (← jNat a), ratOfBits (← jNat b)⟩
  | _ => throw "scalar = [reBits, imBits]"
def jVecQ (j : Json) : E (Array QC) := do (← jArr j).mapM jQC
def jMatQ (j : Json) : E (Array (Array QC)) := do (← jArr j).mapM jVecQ

def qDotc (u v : Array QC) : QC :=
  (Array.zipWith (fun a b => QC.mul (QC.conj a) b) u v).foldl QC.add QC.zero
def qMatVec (A : Array (Array QC)) (v : Array QC) : Array QC :=
  A.map fun row => (Array.zipWith QC.mul row v).foldl QC.add QC.zero
def qAxpy (a : QC) (x y : Array QC) : Array QC := Array.zipWith (fun xi yi => QC.add yi (QC.mul a xi)) x y

structure QState where
  x : Array QC
  r : Array QC
  p : Array QC
  γ : QC

/-- `cgInit` -/
def qInit (A : Array (Array QC)) (P : Option (Array (Array QC))) (b x0 : Array QC) : QState :=
  let r0 := Array.zipWith QC.sub b (qMatVec A x0)
  let z0 := match P with | none => r0 | some M => qMatVec M r0
  ⟨x0, r0, z0, qDotc r0 z0⟩

/-- `cgStep` (a vanished `γ` — residual zero — leaves the state unchanged) -/
def qStep (A : Array (Array QC)) (P : Option (Array (Array QC))) (s : QState) : QState :=
  if s.γ.isZero then s else
  let Ap := qMatVec A s.p
  let α := QC.div s.γ (qDotc s.p Ap)
  let r1 := qAxpy (QC.sub QC.zero α) Ap s.r
  let z1 := match P with | none => r1 | some M => qMatVec M r1
  let γ1 := qDotc r1 z1
  ⟨qAxpy α s.p s.x, r1, qAxpy (QC.div γ1 s.γ) s.p z1, γ1⟩

/-- states `0 … K` of one column -/
def cgExact (A : Array (Array QC)) (P : Option (Array (Array QC))) (b x0 : Array QC) (K : Nat) :
    Array QState := Id.run do
  let mut s := qInit A P b x0
  let mut out := #[s]
  for _ in [0:K] do
    s := qStep A P s
    out := out.push s
  return out

def exactJson (j : Json) : E Json := do
  let get (k : String) : E Json :=
    match j.getObjVal? k with | .ok v => pure v | .error _ => throw s!"missing field {k}"
  let K ← jNat (← get "exact_steps")
  let A ← jMatQ (← get "A")
  let P ← match (← get "P") with | .null => pure none | p => do pure (some (← jMatQ p))
  let b ← jMatQ (← get "b")
  let x0 ← match (← get "x0") with
    | .null => pure (b.map fun c => c.map fun _ => QC.zero)
    | x => jMatQ x
  let cols := Array.zipWith (fun bj xj => cgExact A P bj xj K) b x0
  let outQ (a : QC) : Json := Json.arr #[outBits (floatOfRat a.re), outBits (floatOfRat a.im)]
  pure <| Json.arr <| cols.map fun states => Json.mkObj [
    ("xs", Json.arr (states.map fun s => Json.arr (s.x.map outQ))),
    ("rn2", Json.arr (states.map fun s => outBits (floatOfRat (qDotc s.r s.r).re)))]

def handle (line : String) : Json :=
  match Json.parse line with
  | .error e => Json.mkObj [("error", Json.str s!"parse: {e}")]
  | .ok j =>
    let id := (j.getObjVal? "id").toOption.getD Json.null
    let isC := match j.getObjVal? "complex" with | .ok (.bool true) => true | _ => false
    let r := if isC then runCase CFloat j else runCase Float j
    let ex : Option Json := match j.getObjVal? "exact_steps" with
      | .ok _ => (match exactJson j with | .ok v => some v | .error e => some (Json.str s!"error: {e}"))
      | .error _ => none
    match r with
    | .ok (.obj kvs) =>
      let kvs := kvs.insert "id" id
      Json.obj (match ex with | some v => kvs.insert "exact" v | none => kvs)
    | .ok o => o
    | .error e => Json.mkObj [("id", id), ("error", Json.str e)]

partial def loop (h : IO.FS.Stream) (out : IO.FS.Stream) : IO Unit := do
  let line ← h.getLine
  if line.isEmpty then return
  let t := line.trimAscii.toString
  if !t.isEmpty then
    out.putStrLn (handle t).compress
  loop h out

def main : IO Unit := do
  let stdin ← IO.getStdin
  let stdout ← IO.getStdout
  loop stdin stdout
  stdout.flush
