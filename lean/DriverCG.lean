import Lean.Data.Json
import ColaVerif.Model.CG

/-!
Line-protocol driver of the CG code model (`ColaVerif/Model/CG.lean`).
Run with `lake env lean --run DriverCG.lean < cases.jsonl`.

Input, one JSON object per line:
  {"id": …, "complex": bool, "A": rows, "P": rows | null, "b": columns, "x0": columns | null,
   "tol": scalar, "max_iters": nat}
where every scalar is `[reBits, imBits]`: the IEEE-754 bit patterns (unsigned 64-bit integers) of the
real and imaginary part — exact transport of doubles (`imBits` ignored when `complex` is false).
Output, one JSON object per line:
  {"id", "x": columns, "r": columns, "k", "iterations", "errors": [bits…],
   "trace": [{"x": columns, "res": bits}, …]}   -- one entry per evaluation of the stopping test
-/

open Lean (Json)
open CG

abbrev E := Except String

def jArr (j : Json) : E (Array Json) :=
  match j with | .arr a => pure a | _ => throw s!"array expected, got {j.compress}"
def jNat (j : Json) : E Nat :=
  match j.getNat? with | .ok n => pure n | .error e => throw s!"nat expected: {e}"
def jBool (j : Json) : E Bool :=
  match j with | .bool b => pure b | _ => throw "bool expected"
def jBits (j : Json) : E Float := do
  let n ← jNat j
  pure (Float.ofBits n.toUInt64)

/-- transport of scalars -/
class Wire (K : Type) where
  ofPair : Float → Float → K
  toPair : K → Float × Float

instance : Wire Float := ⟨fun a _ => a, fun a => (a, 0.0)⟩
instance : Wire CFloat := ⟨fun a b => ⟨a, b⟩, fun a => (a.re, a.im)⟩

section
variable (K : Type) [NumOps K] [Wire K]

def jScalar (j : Json) : E K := do
  match ← jArr j with
  | #[a, b] => pure (Wire.ofPair (← jBits a) (← jBits b))
  | _ => throw "scalar = [reBits, imBits]"

def jVecK (j : Json) : E (Vec K) := do (← jArr j).mapM (jScalar K)
def jMatK (j : Json) : E (Array (Vec K)) := do (← jArr j).mapM (jVecK K)
def jOptMat (j : Json) : E (Option (Array (Vec K))) :=
  match j with | .null => pure none | _ => do pure (some (← jMatK K j))

variable {K}

def outBits (f : Float) : Json := Json.num (Lean.JsonNumber.fromNat f.toBits.toNat)
def outScalar (a : K) : Json :=
  let p := Wire.toPair a
  Json.arr #[outBits p.1, outBits p.2]
def outVec (v : Vec K) : Json := Json.arr (v.map outScalar)
def outCols (c : Array (Vec K)) : Json := Json.arr (c.map outVec)

variable (K)

def runCase (j : Json) : E Json := do
  let get (k : String) : E Json :=
    match j.getObjVal? k with | .ok v => pure v | .error _ => throw s!"missing field {k}"
  let A ← jMatK K (← get "A")
  let P ← jOptMat K (← get "P")
  let b ← jMatK K (← get "b")
  let x0 ← jOptMat K (← get "x0")
  let tol : K ← jScalar K (← get "tol")
  let maxIters ← jNat (← get "max_iters")
  let res := cg A b x0 P tol maxIters
  -- per-step trace: the states at which the stopping test is evaluated
  let x0' : Array (Vec K) := match x0 with
    | some x => x
    | none => b.map (fun c => c.map (fun _ => NumOps.zero))
  let mult := mults b
  let s0 := initState A P b x0'
  let tolEff := tolEffs tol s0
  let states := loopStates (cond tolEff maxIters) (step A P) maxIters s0
  let trace := states.toArray.map fun s =>
    Json.mkObj [("x", outCols (Array.zipWith scaleR (s.cols.map (·.x)) mult)),
                ("res", outScalar (track s))]
  let colRes := states.toArray.map fun s => Json.arr (s.cols.map fun c => outScalar (norm c.r))
  -- which guarded branches the steps went through (instrumentation only; all but the last state
  -- of the trace are stepped)
  let stepped := states.toArray.extract 0 (states.length - 1)
  let count (f : Col K → Bool) : Nat :=
    stepped.foldl (fun acc s => acc + (s.cols.filter f).size) 0
  let nMask := count fun c => NumOps.lt (norm c.r) (NumOps.small : K)
  let nGuardA := count fun c =>
    !(NumOps.lt (norm c.r) (NumOps.small : K)) &&
      NumOps.lt (NumOps.abs (dotc c.p (matVec A c.p))) (NumOps.small : K)
  let nGuardB := count fun c =>
    !(NumOps.lt (norm c.r) (NumOps.small : K)) && NumOps.lt (NumOps.abs c.gamma) (NumOps.small : K)
  let nGuardM := (mult.filter fun m => NumOps.isZero m).size
  let nat (n : Nat) : Json := Json.num (Lean.JsonNumber.fromNat n)
  pure <| Json.mkObj [
    ("x", outCols res.x), ("r", outCols res.r), ("k", Json.num (Lean.JsonNumber.fromNat res.k)),
    ("iterations", Json.num (Lean.JsonNumber.fromNat res.info.iterations)),
    ("errors", Json.arr (res.info.errors.map outScalar)),
    ("tol_eff", Json.arr (tolEff.map outScalar)),
    ("col_res", Json.arr colRes),
    ("branches", Json.mkObj [("mask_has_converged", nat nMask), ("safe_div_alpha", nat nGuardA),
                             ("safe_div_beta", nat nGuardB), ("zero_mult", nat nGuardM)]),
    ("trace", Json.arr trace)]

end

def handle (line : String) : Json :=
  match Json.parse line with
  | .error e => Json.mkObj [("error", Json.str s!"parse: {e}")]
  | .ok j =>
    let id := (j.getObjVal? "id").toOption.getD Json.null
    let isC := match j.getObjVal? "complex" with | .ok (.bool true) => true | _ => false
    let r := if isC then runCase CFloat j else runCase Float j
    match r with
    | .ok (.obj kvs) => Json.obj (kvs.insert "id" id)
    | .ok o => o
    | .error e => Json.mkObj [("id", id), ("error", Json.str e)]

partial def loop (h : IO.FS.Stream) (out : IO.FS.Stream) : IO Unit := do
  let line ← h.getLine
  if line.isEmpty then return
  let t := line.trimAscii.toString
  if !t.isEmpty then
    out.putStrLn (handle t).compress
  loop h out

def main : IO Unit := do
  let stdin ← IO.getStdin
  let stdout ← IO.getStdout
  loop stdin stdout
  stdout.flush
