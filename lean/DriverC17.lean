import Lean.Data.Json
import ColaVerif.Model.Hutch
import ColaVerif.Model.Rng

/-!
Line-protocol driver of the C17 models.

    lake env lean --run DriverC17.lean < cases.jsonl > answers.jsonl

Case kinds (`"kind"`):
* `"hutch"`: `{"id", "n", "bs", "k", "A": n×n integers, "probes": [n×bs integer blocks …]}` — runs
  `Hutch.est` (roll / mask / slice exactly as in the code) on every block.  Answer: `rows`
  (= number of rows of `estimator`), per block `est` (rows × bs), the cumulative `sum` and `sumsq`
  after every block (`diag_sum`, `diag_sumsq` of the code), and the SPEC `diag` (= `np.diag(A, k)`).
* `"loop"`: `{"id", "max_iters", "stops": [bool …]}` — runs `Rng.hutchProg` with the counter
  generator; `stops[i-1]` is the value of `err(state) > tol` the real run observed after `i`
  iterations (missing entries = true).  Answer: `iters`, `keys` (the hash chain positions used),
  `world_unchanged`.
-/

open Lean (Json)
open ColaVerif ColaVerif.Hutch ColaVerif.Rng

abbrev E := Except String

def jInt (j : Json) : E Int :=
  match j.getInt? with | .ok n => pure n | .error e => throw s!"int expected: {e}"
def jNat (j : Json) : E Nat :=
  match j.getNat? with | .ok n => pure n | .error e => throw s!"nat expected: {e}"
def jArr (j : Json) : E (Array Json) :=
  match j with | .arr a => pure a | _ => throw s!"array expected, got {j.compress}"
def jBool (j : Json) : E Bool :=
  match j with | .bool b => pure b | _ => throw "bool expected"
def field (j : Json) (k : String) : E Json :=
  match j.getObjVal? k with | .ok v => pure v | .error e => throw e
def jMat (j : Json) : E (Array (Array Int)) := do (← jArr j).mapM (fun r => do (← jArr r).mapM jInt)
def matF (m : Array (Array Int)) : MatF Int := fun i j => (m.getD i #[]).getD j 0
def encInt (z : Int) : Json := Json.num (Lean.JsonNumber.fromInt z)
def encVec (v : Array Int) : Json := Json.arr (v.map encInt)

def runHutch (j : Json) : E Json := do
  let n ← jNat (← field j "n")
  let bs ← jNat (← field j "bs")
  let k ← jInt (← field j "k")
  let A ← jMat (← field j "A")
  let probes ← (← jArr (← field j "probes")).mapM jMat
  if A.size ≠ n ∨ A.any (fun r => r.size ≠ n) then throw "shape mismatch (A)"
  if probes.any (fun P => P.size ≠ n ∨ P.any (fun r => r.size ≠ bs)) then throw "shape mismatch (probe)"
  let rows := estRows n k
  let Af := matF A
  let mut sum : Array Int := Array.replicate rows 0
  let mut sumsq : Array Int := Array.replicate rows 0
  let mut outs : Array Json := #[]
  for P in probes do
    let zf := matF P
    let blk : Array (Array Int) := Array.ofFn (n := rows) (fun t => Array.ofFn (n := bs) (fun c => est n Af zf k t.val c.val))
    sum := Array.ofFn (n := rows) (fun t => sum.getD t.val 0 + estSum n bs Af zf k t.val)
    sumsq := Array.ofFn (n := rows) (fun t => sumsq.getD t.val 0 + estSumSq n bs Af zf k t.val)
    outs := outs.push (Json.mkObj [("est", Json.arr (blk.map encVec)), ("sum", encVec sum), ("sumsq", encVec sumsq)])
  let diag : Array Int := Array.ofFn (n := n - k.natAbs) (fun t => diagK Af k t.val)
  pure <| Json.mkObj [
    ("id", (j.getObjVal? "id").toOption.getD Json.null),
    ("rows", Json.num (Lean.JsonNumber.fromNat rows)),
    ("blocks", Json.arr outs),
    ("diag", encVec diag)]

def runLoop (j : Json) : E Json := do
  let maxIters ← jNat (← field j "max_iters")
  let stops ← (← jArr (← field j "stops")).mapM jBool
  let key : Option Nat := match (j.getObjVal? "key").toOption with
    | some v => v.getNat?.toOption
    | none => none
  -- counter generator: state = counter; hash k = k + 1, so the keys used are key0+1, key0+2, …
  let G : Gen Nat Nat := { seed := fun k => k, draw := fun s _ => (s, s + 1), localDraw := fun s _ => s, hash := fun k => k + 1 }
  let goOn : Nat → List Nat → Bool := fun i _ => stops.getD (i - 1) true
  let w0 : World Nat := ⟨123456789⟩
  let r := Prog.run G (hutchProg (Z := Nat) G.hash [] maxIters goOn key) w0
  pure <| Json.mkObj [
    ("id", (j.getObjVal? "id").toOption.getD Json.null),
    ("iters", Json.num (Lean.JsonNumber.fromNat r.1.i)),
    ("keys", Json.arr (r.1.acc.reverse.toArray.map (fun z => Json.num (Lean.JsonNumber.fromNat z)))),
    ("world_unchanged", Json.bool (r.2.globalState == w0.globalState))]

def handle (line : String) : String :=
  match Json.parse line with
  | .error e => (Json.mkObj [("error", Json.str s!"parse: {e}")]).compress
  | .ok j =>
    let kind := ((j.getObjVal? "kind").toOption.bind (fun v => v.getStr?.toOption)).getD "hutch"
    let res := if kind == "loop" then runLoop j else runHutch j
    match res with
    | .ok a => a.compress
    | .error e => (Json.mkObj [("id", (j.getObjVal? "id").toOption.getD Json.null), ("error", Json.str e)]).compress

partial def loop (hin hout : IO.FS.Stream) : IO Unit := do
  let line ← hin.getLine
  if line.isEmpty then return
  let l := line.trimAscii.toString
  if !l.isEmpty then
    hout.putStrLn (handle l)
  loop hin hout

def main : IO Unit := do
  let hin ← IO.getStdin
  let hout ← IO.getStdout
  loop hin hout
  hout.flush
