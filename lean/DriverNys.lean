import Lean.Data.Json
import ColaVerif.Model.Nystrom

/-!
Line-protocol driver of the Nyström preconditioner code model (`ColaVerif/Model/Nystrom.lean`).
Run with `lake env lean --run DriverNys.lean < cases.jsonl`.

Input, one JSON object per line:
  {"id": …, "complex": bool, "U": rows (n × r), "Lambda": [scalar…] (length r), "mu": scalar,
   "adjust_mu": bool, "V": columns}
every scalar `[reBits, imBits]` = IEEE-754 bit patterns of the real and imaginary part (exact transport).
Output: {"id", "amu", "num", "denom": […], "eigmax", "eigmin", "scaling": […],
         "PV", "invPV", "sqrtPV": columns}  — `_create_approx` on `(Lambda, U)`, then `_matmat` of the
object, of `inverse(P)` and of `sqrt(P)` on the block `V`.
-/

open Lean (Json)
open CG Nys

abbrev E := Except String

def jArr (j : Json) : E (Array Json) :=
  match j with | .arr a => pure a | _ => throw s!"array expected, got {j.compress}"
def jNat (j : Json) : E Nat :=
  match j.getNat? with | .ok n => pure n | .error e => throw s!"nat expected: {e}"
def jBits (j : Json) : E Float := do
  let n ← jNat j
  pure (Float.ofBits n.toUInt64)

class Wire (K : Type) where
  ofPair : Float → Float → K
  toPair : K → Float × Float

instance : Wire Float := ⟨fun a _ => a, fun a => (a, 0.0)⟩
instance : Wire CFloat := ⟨fun a b => ⟨a, b⟩, fun a => (a.re, a.im)⟩

section
variable (K : Type) [NumOps K] [Wire K]

def jScalar (j : Json) : E K := do
  match ← jArr j with
  | #[a, b] => pure (Wire.ofPair (← jBits a) (← jBits b))
  | _ => throw "scalar = [reBits, imBits]"

def jVecK (j : Json) : E (Vec K) := do (← jArr j).mapM (jScalar K)
def jMatK (j : Json) : E (Array (Vec K)) := do (← jArr j).mapM (jVecK K)

variable {K}

def outBits (f : Float) : Json := Json.num (Lean.JsonNumber.fromNat f.toBits.toNat)
def outScalar (a : K) : Json :=
  let p := Wire.toPair a
  Json.arr #[outBits p.1, outBits p.2]
def outVec (v : Vec K) : Json := Json.arr (v.map outScalar)
def outCols (c : Array (Vec K)) : Json := Json.arr (c.map outVec)
def outBc (r : Nat) (b : Bc K) : Json := Json.arr ((Array.range r).map fun i => outScalar (b.get i))

variable (K)

def runCase (j : Json) : E Json := do
  let get (k : String) : E Json :=
    match j.getObjVal? k with | .ok v => pure v | .error _ => throw s!"missing field {k}"
  let U ← jMatK K (← get "U")
  let Lam ← jVecK K (← get "Lambda")
  let mu : K ← jScalar K (← get "mu")
  let adj := match (← get "adjust_mu") with | .bool b => b | _ => true
  let V ← jMatK K (← get "V")
  let ap := createApprox Lam U mu adj
  let P := ap.P
  pure <| Json.mkObj [
    ("amu", outScalar ap.amu), ("eigmax", outScalar ap.eigmax), ("eigmin", outScalar ap.eigmin),
    ("num", outBc P.r P.num), ("denom", outBc P.r P.denom),
    ("scaling", outVec (scaling P)),
    ("PV", outCols (matmat P V)),
    ("invPV", outCols (matmat (inverse P) V)),
    ("sqrtPV", outCols (matmat (sqrtP P) V))]

end

def handle (line : String) : Json :=
  match Json.parse line with
  | .error e => Json.mkObj [("error", Json.str s!"parse: {e}")]
  | .ok j =>
    let id := (j.getObjVal? "id").toOption.getD Json.null
    let isC := match j.getObjVal? "complex" with | .ok (.bool true) => true | _ => false
    let r := if isC then runCase CFloat j else runCase Float j
    match r with
    | .ok (.obj kvs) => Json.obj (kvs.insert "id" id)
    | .ok o => o
    | .error e => Json.mkObj [("id", id), ("error", Json.str e)]

partial def loop (h : IO.FS.Stream) (out : IO.FS.Stream) : IO Unit := do
  let line ← h.getLine
  if line.isEmpty then return
  let t := line.trimAscii.toString
  if !t.isEmpty then
    out.putStrLn (handle t).compress
  loop h out

def main : IO Unit := do
  let stdin ← IO.getStdin
  let stdout ← IO.getStdout
  loop stdin stdout
  stdout.flush
