import ColaVerif.DriverLib
import ColaVerif.Model.Svd

/-!
Line-protocol driver of the svd / pinv model (`ColaVerif/Model/Svd.lean`, property C16).
Run with `lake env lean --run DriverC16.lean < cases.jsonl`.

Calls (one JSON object per line, answer on one line):
* `{"call":"slice","n":…,"k":…,"which":…}` → `{"pos":[…]}` or `{"err":…}`     (`get_slice`)
* `{"call":"argsort","vals":[z…]}` → `{"idx":[…]}`
* `{"call":"plan","fn":"svd"|"pinv","op":…,"alg":…}` → rule, Gram branch, shape, dtype, clauses
* `{"call":"svd","op":…,"k":…,"which":…,"alg":…, "lapack":{U,s,V} | "eigs":{vals,Q,Y,ydt,sq}}`
  (`Diagonal` rule: optional `"abs":{"args":[z…],"vals":[z…]}`, the moduli NumPy computed)
  → the triple: per factor shape, dtype, kind tree, the code-model dense value (`td`, exact) and
  whether it equals the specification (`den`; for the back-substituted factor: the matrix formula);
  Krylov rules also: `w_good` (`wf && !dupSlice` of the eigenvector operator the eigensolver handed over),
  `w_shape` (it has the shape `Svd.EigShape`, from which `C16_lanczos_W_good` derives all of `Op.Good`),
  `eigs_ascending` (the handed eigenvalues are real and ascending: the order conjunct of `Svd.EigsSorted`);
  DenseSVD also: `lapack_descending` (the handed singular values are real, ≥ 0, descending: `Svd.LapackSorted`);
  for the structural rules the exact truth of the property (`orthU`, `orthV`, `sigma_ok`, `recon`)
* `{"call":"pinv","op":…,"alg":…}` → what the rule builds.
All scalars are exact (integers, `{"q":[num,den]}`, pairs `[re, im]`): doubles travel as dyadic
rationals.
-/

open Lean (Json)
open Svd

def getF (j : Json) (k : String) : Json := (j.getObjVal? k).toOption.getD .null

def jWhich (j : Json) : E Which := do
  match ← jStr j with
  | "LM" => pure .LM | "SM" => pure .SM | _ => pure .other

def jAlg (j : Json) : E Alg := do
  match ← jStr j with
  | "omitted" => pure .omitted | "auto" => pure .auto | "dense" => pure .dense
  | "lanczos" => pure .lanczos | "lobpcg" => pure .lobpcg
  | s => throw s!"svd alg {s}"

def jPAlg (j : Json) : E PAlg := do
  match ← jStr j with
  | "omitted" => pure .omitted | "auto" => pure .auto | "lstsq" => pure .lstsq | "cg" => pure .cg
  | s => throw s!"pinv alg {s}"

def ratPow10 (n : Nat) : Rat := 1 / ((10 ^ n : Nat) : Rat)

/-- `get_precision` -/
def precisionTab : DType → GRat
  | .f32 => ⟨ratPow10 6, 0⟩
  | .c64 => ⟨ratPow10 6, 0⟩
  | .f64 => ⟨ratPow10 15, 0⟩
  | .c128 => ⟨ratPow10 15, 0⟩

def noEigs : Op GRat → Eigs GRat := fun G => ⟨fun _ => 0, .dense G.dtype G.rows 0 (fun _ _ => 0)⟩

def baseParams : Params GRat where
  lapackSvd := fun _ _ _ => ⟨fun _ _ => 0, fun _ => 0, fun _ _ => 0⟩
  lanczosEigs := noEigs
  lobpcgEigs := fun _ => noEigs
  sqrt := fun _ => 0
  inv := GRat.inv
  lt := fun a b => a.re < b.re
  re := fun z => ⟨z.re, 0⟩
  abs := fun z => if z.im == 0 then ⟨|z.re|, 0⟩ else if z.re == 0 then ⟨|z.im|, 0⟩ else 0
  precision := precisionTab

/-- the eigensolver parameter from the case: values, `Q` (g × j), `Y` (j × j) -/
def jEigs (j : Json) : E (Op GRat → Eigs GRat) := do
  let vals ← jVec (getF j "vals")
  let Q ← jMat (getF j "Q")
  let Y ← jMat (getF j "Y")
  let ydt ← jDt (getF j "ydt")
  let jn := vals.size
  pure fun G =>
    let Qop : Op GRat := orthonormal (.dense G.dtype G.rows jn (forceV G.rows jn (matF Q)).f)
    let Yop : Op GRat := .dense ydt jn jn (forceV jn jn (matF Y)).f
    ⟨vecF vals, .prod [Qop, Yop]⟩

/-- the `lobpcg` parameter from the case: values and the dense eigenvector array `V` (g × j);
`lobpcg` returns `Dense(eigvecs[:, idx])` of the operator's dtype -/
def jEigsDense (j : Json) : E (Op GRat → Eigs GRat) := do
  let vals ← jVec (getF j "vals")
  let V ← jMat (getF j "V")
  let jn := vals.size
  pure fun G => ⟨vecF vals, .dense G.dtype G.rows jn (forceV G.rows jn (matF V)).f⟩

/-- `sqrt` as the table the case supplies (positions of `vals`) -/
def jSqrt (j : Json) : E (GRat → GRat) := do
  let vals ← jVec (getF j "vals")
  let sq ← jVec (getF j "sq")
  pure fun x =>
    match (List.range vals.size).find? (fun t => vals.getD t 0 == x) with
    | some t => sq.getD t 0
    | none => 0

/-- a function given as a table of (argument, value) pairs (the values NumPy computed) -/
def jTable (args vals : Json) (dflt : GRat → GRat) : E (GRat → GRat) := do
  let a ← jVec args
  let v ← jVec vals
  pure fun x =>
    match (List.range a.size).find? (fun t => a.getD t 0 == x) with
    | some t => v.getD t 0
    | none => dflt x

/-! `isEigShape`, `ascendingReal`, `descendingReal` below are executable RE-STATEMENTS, written in this driver, of the
Prop-valued hypotheses `Svd.EigShape`, `Svd.EigsSorted` (order conjunct), `Svd.LapackSorted` (order conjunct) of the
C16 theorems.  No theorem says `isEigShape W = true → Svd.EigShape W` (or the analogues): that the Boolean functions
decide the hypotheses is by inspection of two short definitions, and the output fields `w_shape`, `eigs_ascending`,
`lapack_descending` are diagnostics on what the real eigensolver / LAPACK handed over, not part of any theorem. -/

/-- the shape of the eigenvector operator the real eigensolvers return (`Svd.EigShape`, decidable form):
`Product(Orthonormal(Dense Q), Dense Y)` with a shared inner dimension, or `Dense(V)`.  By `C16_lanczos_W_good`
the shape implies `Op.Good` (well-formed, no repeated slice index, `HermOK`), i.e. `W_good` of the Krylov theorems. -/
def isEigShape (W : Op GRat) : Bool :=
  match W with
  | .dense .. => true
  | .prod [.annot a (.dense _ r j _), .dense _ j' _ _] =>
      j == j' && (if r == j then a == .unitary else a == .stiefel)
  | _ => false

/-- `vals[0..n)` real and ascending (the ORDER conjunct of `Svd.EigsSorted`) -/
def ascendingReal (n : Nat) (v : Nat → GRat) : Bool :=
  ((List.range n).all fun t => (v t).im == 0) &&
  ((List.range (n - 1)).all fun t => (v t).re ≤ (v (t + 1)).re)

/-- `s[0..n)` real, non-negative and descending (the ORDER conjunct of `Svd.LapackSorted`) -/
def descendingReal (n : Nat) (v : Nat → GRat) : Bool :=
  ((List.range n).all fun t => (v t).im == 0 && (v t).re ≥ 0) &&
  ((List.range (n - 1)).all fun t => (v (t + 1)).re ≤ (v t).re)

def eqWin (r c : Nat) (a b : MatF GRat) : Bool :=
  (List.range r).all fun i => (List.range c).all fun j => a i j == b i j

def showFactor (name : String) (X : Op GRat) : String :=
  let D := X.td
  let ok := eqWin X.rows X.cols D.f X.den.f
  s!"\"{name}\":" ++ "{" ++ s!"\"rows\":{X.rows},\"cols\":{X.cols},\"dtype\":\"{X.dtype.toString}\",\"anns\":{showAnns X.anns},\"skel\":{skel X},\"wf\":{X.wf},\"code\":{showMat X.rows X.cols D.f},\"td_eq_den\":{ok}" ++ "}"

def isNonnegReal (z : GRat) : Bool := z.im == 0 && z.re ≥ 0

/-- exact truth of the property on a triple (meaningful for exact data only) -/
def exactProperty (A : Op GRat) (T : Triple GRat) : String :=
  let U := T.U.den.f
  let S := T.S.den.f
  let V := T.V.den.f
  let m := T.U.rows
  let k := T.U.cols
  let n := T.V.rows
  let k2 := T.V.cols
  let UH := conjM (transposeM U)
  let VH := conjM (transposeM V)
  let orthU := eqWin k k (forceV k k (mmul m UH U)).f eyeM
  let orthV := eqWin k2 k2 (forceV k2 k2 (mmul n VH V)).f eyeM
  let sigOk := T.S.rows == k && T.S.cols == k2 &&
    (List.range k).all fun i => (List.range k2).all fun j =>
      if i == j then isNonnegReal (S i j) else S i j == 0
  let US := (forceV m k2 (mmul k U S)).f
  let rec_ := (forceV m n (mmul k2 US VH)).f
  let recon := m == A.rows && n == A.cols && eqWin m n rec_ A.den.f
  s!"\"orthU\":{orthU},\"orthV\":{orthV},\"sigma_ok\":{sigOk},\"recon\":{recon}"

/-- optional `"den"` field: the represented matrix (SPEC), on request (`"want_den": true`) -/
def denField (j : Json) (A : Op GRat) : String :=
  match getF j "want_den" with
  | .bool true => s!",\"den\":{showMat A.rows A.cols A.den.f}"
  | _ => ""

def showNats (l : List Nat) : String := "[" ++ ",".intercalate (l.map toString) ++ "]"

/-- kind tree of `PSD(IterativeOperatorWInfo(M, CG) + reg) @ A.H` -/
def skelCg (c : CgPinv GRat) : String :=
  let s := "[\"sum\",[\"PSD\"],[\"iter\",[]," ++ skel c.M ++ "]," ++ skel c.reg ++ "]"
  match c.tail with
  | [] => s
  | t => "[" ++ ",".intercalate (["\"prod\"", "[]", s] ++ t.map skel) ++ "]"

def handle (j : Json) : E String := do
  let id := (getF j "id").compress
  let call ← jStr (getF j "call")
  match call with
  | "slice" => do
      let n ← jNat (getF j "n")
      let k ← jInt (getF j "k")
      let w ← jWhich (getF j "which")
      match positions n k w with
      | .ok l => pure ("{" ++ s!"\"id\":{id},\"pos\":{showNats l}" ++ "}")
      | .error e => pure ("{" ++ s!"\"id\":{id},\"err\":\"{e}\"" ++ "}")
  | "argsort" => do
      let v ← jVec (getF j "vals")
      let idx := argsort (fun (a b : GRat) => decide (a.re < b.re)) v.size (vecF v)
      pure ("{" ++ s!"\"id\":{id},\"idx\":{showNats idx}" ++ "}")
  | "plan" => do
      let A ← jOp (getF j "op")
      let fn ← jStr (getF j "fn")
      let pre := s!"\"id\":{id},\"rows\":{A.rows},\"cols\":{A.cols},\"dtype\":\"{A.dtype.toString}\",\"wf\":{A.wf}"
      if fn == "svd" then
        let alg ← jAlg (getF j "alg")
        let r := svdRule A alg
        let tall := r == .lobpcg || decide (A.cols ≤ A.rows)
        pure ("{" ++ pre ++ s!",\"rule\":\"{r.toString}\",\"tall\":{tall},\"clauses\":[]" ++ "}")
      else
        let alg ← jPAlg (getF j "alg")
        let r := match pinvRule A alg with
          | .structural => "structural" | .lstsq => "lstsq" | .cg => "cg"
        pure ("{" ++ pre ++ s!",\"rule\":\"{r}\",\"clauses\":[]" ++ "}")
  | "svd" => do
      let A ← jOp (getF j "op")
      let k ← jInt (getF j "k")
      let w ← jWhich (getF j "which")
      let alg ← jAlg (getF j "alg")
      let rule := svdRule A alg
      let cl := if rule == .lobpcg then lobpcgClauses A k else []
      let pre := s!"\"id\":{id},\"rule\":\"{rule.toString}\",\"wf\":{A.wf},\"clauses\":{showStrs cl}" ++ denField j A
      match rule with
      | .identity =>
          let T := svdIdentity A
          pure ("{" ++ pre ++ "," ++ showFactor "U" T.U ++ "," ++ showFactor "S" T.S ++ "," ++ showFactor "V" T.V ++ "," ++ exactProperty A T ++ "}")
      | .diagonal => do
          -- `xnp.abs` of the diagonal entries: the values NumPy computed, when the case supplies them
          let tab := getF j "abs"
          let absF ← match tab with
            | .null => pure baseParams.abs
            | _ => jTable (getF tab "args") (getF tab "vals") baseParams.abs
          let T := svdDiagonal { baseParams with abs := absF } A
          pure ("{" ++ pre ++ "," ++ showFactor "U" T.U ++ "," ++ showFactor "S" T.S ++ "," ++ showFactor "V" T.V ++ "," ++ exactProperty A T ++ "}")
      | .dense => do
          let lp := getF j "lapack"
          let U0 ← jMat (getF lp "U")
          let s0 ← jVec (getF lp "s")
          let V0 ← jMat (getF lp "V")
          let Uf := (forceV A.rows A.rows (matF U0)).f
          let Vf := (forceV A.cols A.cols (matF V0)).f
          let P : Params GRat := { baseParams with lapackSvd := fun _ _ _ => ⟨Uf, vecF s0, Vf⟩ }
          let (idx, T) := svdDense P A
          let desc := descendingReal (min A.rows A.cols) (vecF s0)
          pure ("{" ++ pre ++ s!",\"idx\":{showNats idx},\"lapack_descending\":{desc}," ++ showFactor "U" T.U ++ "," ++ showFactor "S" T.S ++ "," ++ showFactor "V" T.V ++ "}")
      | _ => do
          let ej := getF j "eigs"
          let eigs ← match getF ej "V" with
            | .null => jEigs ej
            | _ => jEigsDense ej
          let sq ← jSqrt ej
          let P : Params GRat := { baseParams with lanczosEigs := eigs, lobpcgEigs := fun _ => eigs, sqrt := sq }
          match svdKrylov P eigs (rule == .lobpcg) A k w with
          | .error e => pure ("{" ++ pre ++ s!",\"err\":\"{e}\"" ++ "}")
          | .ok o =>
              let T := o.triple
              let back := if o.tall then T.U else T.V
              let backEq := eqWin back.rows back.cols back.td.f o.specBack.f
              -- the eigensolver's output the rule was handed: `W_good` (decidable parts), its shape, the ORDER of the values
              let W := (eigs o.G).W
              let wGood := W.wf && !W.dupSlice
              let asc := ascendingReal o.j (eigs o.G).vals
              pure ("{" ++ pre ++ s!",\"w_good\":{wGood},\"w_shape\":{isEigShape W},\"eigs_ascending\":{asc},\"tall\":{o.tall},\"gram\":{skel o.G},\"j\":{o.j},\"pos\":{showNats o.pos},\"back_eq\":{backEq},\"back_good\":{o.lazyBack.wf && !o.lazyBack.dupSlice},\"back_skel\":{skel o.lazyBack}," ++ showFactor "U" T.U ++ "," ++ showFactor "S" T.S ++ "," ++ showFactor "V" T.V ++ "}")
  | "pinv" => do
      let A ← jOp (getF j "op")
      let alg ← jPAlg (getF j "alg")
      let pre := s!"\"id\":{id},\"wf\":{A.wf},\"clauses\":[]" ++ denField j A
      match pinv baseParams A alg with
      | .op B =>
          let n := A.rows
          let isInv := B.rows == A.cols && B.cols == A.rows && A.rows == A.cols &&
            eqWin n n (forceV n n (mmul n B.den.f A.den.f)).f eyeM &&
            eqWin n n (forceV n n (mmul n A.den.f B.den.f)).f eyeM
          pure ("{" ++ pre ++ s!",\"kind\":\"op\",\"same\":{Ex.isIdentity A},\"is_inverse\":{isInv}," ++ showFactor "B" B ++ "}")
      | .lstsq A' =>
          pure ("{" ++ pre ++ s!",\"kind\":\"lstsq\",\"rows\":{A'.cols},\"cols\":{A'.rows},\"dtype\":\"{A'.dtype.toString}\",\"skel\":[\"lstsq\",[]],\"stored\":{showMat A'.rows A'.cols A'.td.f}" ++ "}")
      | .cg c =>
          pure ("{" ++ pre ++ s!",\"kind\":\"cg\",\"rows\":{A.cols},\"cols\":{A.rows},\"dtype\":\"{A.dtype.toString}\",\"skel\":{skelCg c},\"cons\":{showZ c.cons},\"M_wf\":{c.M.wf}" ++ "}")
      | .err e => pure ("{" ++ pre ++ s!",\"kind\":\"err\",\"err\":\"{e}\"" ++ "}")
  | c => throw s!"unknown call {c}"

def main : IO Unit := driverMain handle
