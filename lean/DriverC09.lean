import ColaVerif.DriverLib
import ColaVerif.Model.Unary
import ColaVerif.Model.KrylovExact

/-!
Line-protocol driver of C09 (matrix functions).  One JSON case per input line:
`{"id":…, "op":<tree>, "fn":"exp"|"log"|"sqrt"|"isqrt"|"pow"|"apply", "alpha":<rational>,
  "ufn":"exp"|"log"|"cube"|"poly", "alg":"none"|"auto"|"eigh"|"eig"|"lanczos"|"arnoldi"}`.
Optional fields `"x"` (the operand, exact), `"ktol"`, `"kiters"` (tolerance / `max_iters` of the algorithm object), `"dy"`
(the tree carries doubles as dyadic rationals): with them the driver DECIDES the recorded clauses `krylov-zero-column`
(`UnOp.zeroFibreClause`, Model/Unary.lean) and `krylov-batch-unequal-exhaustion` (`KrylovExact.unequalExhaustion`,
Model/KrylovExact.lean; `stop_steps` = the steps of the columns run alone) and lists them in `clauses`.
Answer: the plan of the returned operator (rule model), the `pow` decision, the clauses, and — on the
exact-arithmetic subset (no base case in the plan, the scalar function exactly representable on
every argument) — the CODE value (the matrix `den` of the planned operator `UnOp.toOp`; that
`to_dense` / `@` of an operator tree agree with `den` is C01) and the SPEC value (`f` of the
represented matrix, computed from `den` alone: matrix powers for integer exponents, entrywise on a
diagonal `den` otherwise).
Krylov base cases (`LanczosUnary` / `ArnoldiUnary`) with a POLYNOMIAL scalar function (`cube`, `poly`, `x ** k` for
an integer `k ≥ 10`) on exact payloads are evaluated by the exact Krylov MODEL (`Model/KrylovExact.lean`: the
un-normalised Lanczos / Arnoldi recurrence over ℚ[i] run to exhaustion for every identity column, `A Q = Q H`
re-checked, value `Q p(H) e₁` — `C09_krylov_poly`), so that on those cases the CODE value is computed through the
small matrix and the SPEC value through powers of the big one.  For non-polynomial functions the eigenvalues of the
small matrix are not in ℚ[i]: there the Krylov value is not computed exactly (`exact = false`) and the harness compares
by tolerance only.
Run with `lake env lean --run DriverC09.lean < cases.jsonl`.

**Gaps between this driver and the theorems (nothing below is proved).**
* The Krylov MODEL the driver executes (`krylovEntry` → `KrylovExact.applyPoly`, `krylovChecks`, `krylovGrades`: an
  UN-normalised Arnoldi recurrence over ℚ[i], used for BOTH the Lanczos and the Arnoldi base nodes, polynomial functions
  only) is NOT the definition the theorems are about.  The theorems (`C09_krylov_ok_of_lanczos`, `C09_lanczos_path_closed`,
  `KrylovCompose.lanczosUnaryVec` / `lanczosUnaryMat`) speak of C14's normalised loop model `Lanczos.lanczosExact` over ℂ
  followed by an `eigh` of the tridiagonal matrix; that definition is noncomputable (square roots, eigenvalues outside
  ℚ[i]) and the driver cannot call it.  No Lean theorem relates `KrylovExact.applyPoly` to `lanczosUnaryVec`.  What ties
  them is only: (a) mathematically both equal `p(A) e_i` when the invariance re-check `A Q = Q H` passes (the driver
  re-checks it on every run, `krylovChecks`; `C09_krylov_poly` is the statement for an abstract factorisation), and
  (b) the differential run against the real `LanczosUnary` / `ArnoldiUnary` (tolerance 1e-5).  So the `krylov-exact` stream
  checks the real code against `p(A)` through an independent exact Krylov computation; it does not execute the model of
  the Lanczos theorems.
  Round 5 (what IS proved now, `Properties/C09/Arnoldi.lean`): on the theorem side both models return `p(A) v` for a
  polynomial `f = p` — `C09_lanczos_model_poly` (`lanczosUnaryVec`, Hermitian diagonalisable `A`, exhausted run, `EighContract`)
  and `C09_arnoldi_model_poly` (`arnoldiUnaryVec`, defined from C15's `Arnoldi.run`; clauses `noClip` / `stopExact`, diagonalisable
  Hessenberg block, `EigContract`, `tol > 0`).  The driver's value is compared EXACTLY with the exact `p(A) X` (`code == spec`
  of the stream `krylov-exact`).  So on the inputs of that stream that satisfy the theorems' hypotheses the driver's model
  and the theorem-side models agree (both are `p(A) v`); still no theorem is ABOUT `KrylovExact.applyPoly` itself, and the
  driver does not check `noClip` / exhaustion of the normalised loop models (for Arnoldi they depend on `tol`).
* The two run-level clauses are decided for ROOT nodes only: `krylov-zero-column` when the plan's root is a Kronecker
  product whose members are matched with the members of the operator's core (a Krylov member nested deeper — inside a
  BlockDiag member of the Kronecker product, under a Transpose — is walked by `UnOp.zeroFibreClause` only as far as that
  function recurses; a Kronecker product that is itself a member of another node is not examined);
  `krylov-batch-unequal-exhaustion` only when the whole plan is ONE Krylov base node.  The harness generates the two
  labelled streams only in these root shapes, so a nested occurrence would not be excused (it would be reported as a
  VIOLATION, never silently accepted).
* `UnOp.zeroFibreClause` and `KrylovExact.unequalExhaustion` are executable predicates used to ATTRIBUTE recorded clauses;
  no theorem mentions them.
-/

open Lean (Json)
open Unary

/-! ## exact scalar functions on ℚ[i] -/

def natSqrt? (n : Nat) : Option Nat := let s := Nat.sqrt n; if s * s = n then some s else none

def ratSqrt? (q : Rat) : Option Rat :=
  if q < 0 then none else
  match natSqrt? q.num.toNat, natSqrt? q.den with
  | some a, some b => some (mkRat a b)
  | _, _ => none

def gpowNat (z : GRat) : Nat → GRat
  | 0 => 1
  | k + 1 => gpowNat z k * z

def gpowInt? (z : GRat) (k : Int) : Option GRat :=
  if 0 ≤ k then some (gpowNat z k.toNat)
  else if z = 0 then none else some (gpowNat (GRat.inv z) (-k).toNat)

/-- `x ** α` when the value is a Gaussian rational: integer `α`, or half-integer `α` on
non-negative rational perfect squares (principal branch) -/
def powOpt (α : Rat) (z : GRat) : Option GRat :=
  if α.den = 1 then gpowInt? z α.num
  else if α.den = 2 then
    if z.im ≠ 0 then none else
    match ratSqrt? z.re with
    | some s => gpowInt? ⟨s, 0⟩ α.num
    | none => none
  else none

inductive Fn | exp | log | pow (α : Rat) | cube | poly

def Fn.opt : Fn → GRat → Option GRat
  | .exp, z => if z = 0 then some 1 else none
  | .log, z => if z = 1 then some 0 else none
  | .pow α, z => powOpt α z
  | .cube, z => some (z * z * z)
  | .poly, z => some (z * z + 1)

def Fn.total (f : Fn) : GRat → GRat := fun z => (f.opt z).getD 0

/-- coefficients (constant term first) when the function is a polynomial -/
def Fn.polyCoeffs : Fn → Option (List GRat)
  | .cube => some [0, 0, 0, 1]
  | .poly => some [1, 0, 1]
  | .pow α => if α.den = 1 ∧ 0 ≤ α.num then some (List.replicate α.num.toNat 0 ++ [1]) else none
  | _ => none

/-! ## exact linear algebra for the SPEC side -/

def gaussInv (n : Nat) (a : MatF GRat) : Option (MatF GRat) := Id.run do
  let mut M : Array (Array GRat) := Array.ofFn (n := n) fun i =>
    Array.ofFn (n := 2 * n) fun j => if j.val < n then a i.val j.val else if j.val - n = i.val then 1 else 0
  for c in [0:n] do
    let mut piv : Option Nat := none
    for r in [c:n] do
      if piv.isNone && (M.getD r #[]).getD c 0 != 0 then piv := some r
    match piv with
    | none => return none
    | some r =>
      let rowr := M.getD r #[]
      let rowc := M.getD c #[]
      M := (M.setIfInBounds r rowc).setIfInBounds c rowr
      let pinv := GRat.inv ((M.getD c #[]).getD c 0)
      let prow := (M.getD c #[]).map (· * pinv)
      M := M.setIfInBounds c prow
      for r2 in [0:n] do
        if r2 != c then
          let fac := (M.getD r2 #[]).getD c 0
          if fac != 0 then
            M := M.setIfInBounds r2 (Array.zipWith (fun x y => x - fac * y) (M.getD r2 #[]) prow)
  return some (fun i j => (M.getD i #[]).getD (n + j) 0)

/-- `a ^ k` (returns a `MatV`: see the performance rule of the builder notes) -/
def matPow (n : Nat) (a : MatF GRat) : Nat → MatV GRat
  | 0 => forceV n n eyeM
  | k + 1 => forceV n n (mmul n (matPow n a k).f a)

def isDiagonalW (n : Nat) (a : MatF GRat) : Bool :=
  (List.range n).all fun i => (List.range n).all fun j => i = j || a i j = 0

/-- `f` of the matrix, from the represented matrix alone -/
def specFn (f : Fn) (n : Nat) (a : MatF GRat) : Option (MatF GRat) :=
  let entrywise : Option (MatF GRat) :=
    if isDiagonalW n a && (List.range n).all (fun i => (f.opt (a i i)).isSome)
    then some (fun i j => if i = j then f.total (a i i) else 0) else none
  match f with
  | .pow α =>
      if α.den = 1 then
        if 0 ≤ α.num then some (matPow n a α.num.toNat).f
        else (gaussInv n a).map fun b => (matPow n (forceV n n b).f (-α.num).toNat).f
      else entrywise
  | .cube => some (matPow n a 3).f
  | .poly =>
      let m := matPow n a 2
      some (fun i j => m.f i j + (if i = j then 1 else 0))
  | _ => entrywise

/-- the represented matrix of an operator tree, evaluated with every intermediate product
materialised (`Op.den` is a specification: its `Product` case nests unevaluated sums and costs
`n^k` per entry for `k` members — here `k` goes up to 9) -/
instance : Inhabited (MatV GRat) := ⟨MatV.of zeroM⟩

partial def evalOp (code : Bool) (A : Op GRat) : MatV GRat :=
  let fac (M : Op GRat) : FacAct GRat := ⟨M.rows, M.cols, (evalOp code M).f, fun _ m => MatV.of m⟩
  -- C01's code model of `Transpose(B) @ X` / `Adjoint(B) @ X`: through `B._rmatmat`, whose default takes
  -- the conjugation shortcut when `B.isa(SelfAdjoint)` (wrong when the annotation is: `scalar-times-annotated`)
  let shortcut (B : Op GRat) : Bool := code && !B.hasExplicitRmm && B.isa .selfAdjoint
  match A with
  | .prod Ms =>
      let r := (Ms.map (·.rows)).head?.getD 0
      let c := (Ms.map (·.cols)).getLast?.getD 0
      Ms.foldr (fun M acc => forceV M.rows c (mmul M.cols (evalOp code M).f acc.f)) (forceV c c eyeM) |> fun m => forceV r c m.f
  | .sum Ms => forceV A.rows A.cols ((Ms.map (fun M => (evalOp code M).f)).foldr addM zeroM)
  | .kron Ms => forceV A.rows A.cols (kronDen (Ms.map fac))
  | .kronsum Ms => forceV A.rows A.cols (kronSumDen (Ms.map fac))
  | .bdiag Ms mults => forceV A.rows A.cols (bdiagDen ((Ms.map fac).zip mults))
  | .transpose B =>
      if shortcut B then forceV A.rows A.cols (conjM (evalOp code B).f)
      else forceV A.rows A.cols (transposeM (evalOp code B).f)
  | .adjoint B =>
      if shortcut B then evalOp code B
      else forceV A.rows A.cols (conjM (transposeM (evalOp code B).f))
  | .generic B => evalOp code B
  | .annot _ B => evalOp code B
  | A => forceV A.rows A.cols A.den.f

/-! ## printing the plan -/

/-- `Transpose(F)` / `Adjoint(F)` multiply through `F._rmatmat`; a class without its own `_rmatmat`
(BlockDiag, Kronecker, …) runs the default of operator_base.py, which takes the conjugation shortcut
when `F.isa(SelfAdjoint)` (C01's model `Op.rmm`).  The flag says the planned operand takes it. -/
def saShortcut (U : UnOp GRat) : Bool :=
  let F := U.toOp ⟨fun _ _ _ => zeroM, fun _ _ => zeroM⟩
  !F.hasExplicitRmm && F.isa .selfAdjoint

def planJson : UnOp GRat → String
  | .diagF .. => "[\"diagF\"]"
  | .scaledEye .. => "[\"scaledEye\"]"
  | .eyeLike .. => "[\"eyeLike\"]"
  | .product _ _ B => "[\"product\"," ++ skel B ++ "]"
  | .bdiag Us mults => "[\"bdiag\",[" ++ ",".intercalate (Us.map planJson) ++ "],["
      ++ ",".intercalate (mults.map toString) ++ "]]"
  | .kron Us => "[\"kron\"," ++ ",".intercalate (Us.map planJson) ++ "]"
  | .transpose U => "[\"T\"," ++ planJson U ++ "," ++ toString (saShortcut U) ++ "]"
  | .adjoint U => "[\"H\"," ++ planJson U ++ "," ++ toString (saShortcut U) ++ "]"
  | .inv _ alg => "[\"inv\",\"" ++ alg.toString ++ "\"]"
  | .base k _ _ => "[\"base\",\"" ++ k.toString ++ "\"]"
  | .raise e => "[\"raise\",\"" ++ e ++ "\"]"

def powPlanStr : PowPlan → String
  | .identity => "identity" | .product k => s!"product {k}" | .inverse => "inverse" | .generic => "generic"

/-- all `inv` nodes of the plan have an invertible operand (then the oracle is the exact inverse) -/
def invsOk (poly : Bool) : UnOp GRat → Bool
  | .inv A _ => A.rows = A.cols && (gaussInv A.rows (evalOp false A).f).isSome
  | .bdiag Us _ => (Us.map (invsOk poly)).all id
  | .kron Us => (Us.map (invsOk poly)).all id
  | .transpose U => invsOk poly U
  | .adjoint U => invsOk poly U
  | .base .lanczos _ A => poly && A.rows = A.cols
  | .base .arnoldi _ A => poly && A.rows = A.cols
  | .base .. => false
  | _ => true

/-- the matrix of a Krylov operator for a polynomial function, by the exact Krylov model: column `i` is
`Qᵢ p(Hᵢ) e₁` of the factorisation started from `e_i` (`none`: the invariance re-check failed) -/
def krylovEntry (coeffs : List GRat) (A : Op GRat) (a i : Nat) : GRat :=
  let n := A.rows
  let Da := KrylovExact.toRows n (evalOp false A).f
  match KrylovExact.applyPoly n Da (KrylovExact.unitVec n i) coeffs with
  | some col => KrylovExact.vget col a
  | none => 0

/-- every Krylov base node of the plan passes the invariance re-check on every identity column -/
def krylovChecks : UnOp GRat → Bool
  | .base .lanczos _ A => (List.range A.rows).all fun i =>
      (KrylovExact.arnoldi A.rows (KrylovExact.toRows A.rows (evalOp false A).f) (KrylovExact.unitVec A.rows i) A.rows).check
        A.rows (KrylovExact.toRows A.rows (evalOp false A).f) (KrylovExact.unitVec A.rows i)
  | .base .arnoldi _ A => (List.range A.rows).all fun i =>
      (KrylovExact.arnoldi A.rows (KrylovExact.toRows A.rows (evalOp false A).f) (KrylovExact.unitVec A.rows i) A.rows).check
        A.rows (KrylovExact.toRows A.rows (evalOp false A).f) (KrylovExact.unitVec A.rows i)
  | .bdiag Us _ => (Us.map krylovChecks).all id
  | .kron Us => (Us.map krylovChecks).all id
  | .transpose U => krylovChecks U
  | .adjoint U => krylovChecks U
  | _ => true

/-- Krylov dimensions of the identity columns at the Krylov base nodes (evidence) -/
def krylovGrades : UnOp GRat → List (List Nat)
  | .base .lanczos _ A => [KrylovExact.grades A.rows (KrylovExact.toRows A.rows (evalOp false A).f)]
  | .base .arnoldi _ A => [KrylovExact.grades A.rows (KrylovExact.toRows A.rows (evalOp false A).f)]
  | .bdiag Us _ => (Us.map krylovGrades).flatten
  | .kron Us => (Us.map krylovGrades).flatten
  | .transpose U => krylovGrades U
  | .adjoint U => krylovGrades U
  | _ => []

def exactParams (coeffs : Option (List GRat)) : Params GRat where
  base := fun k _ A =>
    match k, coeffs with
    | .lanczos, some cs => krylovEntry cs A
    | .arnoldi, some cs => krylovEntry cs A
    | _, _ => zeroM
  inv := fun A _ => ((gaussInv A.rows (evalOp false A).f).getD zeroM)

def jAlg (s : String) : E Alg :=
  match s with
  | "none" => pure .auto | "auto" => pure .auto | "eigh" => pure .eigh | "eig" => pure .eig
  | "lanczos" => pure .lanczos | "arnoldi" => pure .arnoldi
  | s => throw s!"alg {s}"

def handle (j : Json) : E String := do
  let id := (j.getObjVal? "id").toOption.getD .null
  let A ← jOp ((j.getObjVal? "op").toOption.getD .null)
  let fn ← jStr ((j.getObjVal? "fn").toOption.getD .null)
  let alg ← jAlg (← jStr ((j.getObjVal? "alg").toOption.getD (.str "none")))
  let α ← match j.getObjVal? "alpha" with
    | .ok a => jQ a
    | .error _ => pure 0
  let ufn := match j.getObjVal? "ufn" with | .ok (.str s) => s | _ => "exp"
  let (f, U, pp) ← match fn with
    | "exp" => pure (Fn.exp, expRule Fn.exp.total alg A, "n/a")
    | "log" => pure (Fn.log, logRule Fn.log.total alg A, "n/a")
    | "sqrt" => pure (Fn.pow (1 / 2), sqrtRule (fun a => (Fn.pow a).total) alg A, powPlanStr (powPlan (1 / 2)))
    | "isqrt" => pure (Fn.pow (-1 / 2), isqrtRule (fun a => (Fn.pow a).total) alg A, powPlanStr (powPlan (-1 / 2)))
    | "pow" => pure (Fn.pow α, powRule (fun a => (Fn.pow a).total) α alg A, powPlanStr (powPlan α))
    | "apply" => do
        let g ← match ufn with
          | "exp" => pure Fn.exp | "log" => pure Fn.log | "cube" => pure Fn.cube | "poly" => pure Fn.poly
          | s => throw s!"ufn {s}"
        pure (g, applyUnary g.total alg A, "n/a")
    | s => throw s!"fn {s}"
  let raise := match U.firstRaise with | some e => "\"" ++ e ++ "\"" | none => "null"
  -- the operand (exact: integers / dyadic rationals of the doubles), `tol`, `max_iters` of the algorithm object: only sent
  -- for the cases whose clauses are decided here (`dy`: the tree carries the doubles as dyadic rationals, and the exact
  -- CODE / SPEC values are not wanted)
  let xs ← match j.getObjVal? "x" with
    | .ok (.null) => pure none
    | .ok xj => do pure (some (← jMat xj))
    | .error _ => pure none
  let ktol ← match j.getObjVal? "ktol" with
    | .ok (.null) => pure none
    | .ok q => do pure (some (← jQ q))
    | .error _ => pure none
  let kiters ← match j.getObjVal? "kiters" with
    | .ok (.null) => pure none
    | .ok q => do pure (some (← jNat q))
    | .error _ => pure none
  let dy := match j.getObjVal? "dy" with | .ok (.bool b) => b | _ => false
  -- clause `krylov-zero-column`: a Krylov member of the Kronecker plan receives an exactly zero fibre of the operand
  let zeroCol : Bool := match U, A.core, xs with
    | .kron Us, .kron Ms, some X =>
        Us.length == Ms.length && UnOp.zeroFibreClause Us (Ms.map (·.rows)) ((X.getD 0 #[]).size) (matF X)
    | _, _, _ => false
  -- clause `krylov-batch-unequal-exhaustion`: the plan is ONE Krylov operator and the columns of the operand, run alone
  -- under the relative stopping rule (exact arithmetic on the exact inputs), stop at different steps
  let (unequal, steps) : Bool × List Nat := match U, xs, ktol, kiters with
    | .base k _ A', some X, some tol, some mi =>
        let ncols := (X.getD 0 #[]).size
        if (k == .lanczos || k == .arnoldi) && A'.rows == A'.cols && X.size == A'.rows then
          let n := A'.rows
          let Da := KrylovExact.toRows n (evalOp false A').f
          let cols := (List.range ncols).map fun c => (Array.ofFn (n := n) fun i => (X.getD i.val #[]).getD c 0)
          KrylovExact.unequalExhaustion n Da cols (min mi n) (tol * tol)
        else (false, [])
    | _, _, _, _ => (false, [])
  let clauses : List String :=
    (if zeroCol then ["krylov-zero-column"] else []) ++ (if unequal then ["krylov-batch-unequal-exhaustion"] else [])
  let square := A.rows == A.cols
  let coeffs := f.polyCoeffs
  let exact := !dy && U.ok && square && invsOk coeffs.isSome U && U.fArgs.all (fun z => (f.opt z).isSome) &&
    (!U.needsOracle || krylovChecks U)
  let B := U.toOp (exactParams coeffs)
  let kmodel := exact && !(krylovGrades U).isEmpty
  let grades := "[" ++ ",".intercalate ((krylovGrades U).map (fun g => "[" ++ ",".intercalate (g.map toString) ++ "]")) ++ "]"
  let code := if exact then showMat B.rows B.cols (evalOp true B).f else "null"
  let spec := if square && !dy then
      match specFn f A.rows (evalOp false A).f with
      | some m => showMat A.rows A.rows (forceV A.rows A.rows m).f
      | none => "null"
    else "null"
  pure ("{\"id\":" ++ id.compress ++ s!",\"rows\":{A.rows},\"cols\":{A.cols},\"dtype\":\"{A.dtype.toString}\",\"wf\":{A.wf},\"psd\":{A.isa .psd},\"selfadjoint\":{A.isa .selfAdjoint}"
    ++ ",\"plan\":" ++ planJson U ++ ",\"powplan\":\"" ++ pp ++ "\",\"raise\":" ++ raise
    ++ ",\"clauses\":" ++ showStrs clauses ++ ",\"stop_steps\":[" ++ ",".intercalate (steps.map toString) ++ "]" ++ ",\"op_clauses\":" ++ showStrs B.clauses ++ s!",\"needs_oracle\":{U.needsOracle},\"exact\":{exact},\"krylov_model\":{kmodel},\"krylov_grades\":{grades}"
    ++ ",\"code\":" ++ code ++ ",\"spec\":" ++ spec ++ "}")

def main : IO Unit := driverMain handle
