import ColaVerif.DriverLib
import ColaVerif.Model.LogDet
import ColaVerif.Model.KrylovExact
import ColaVerif.Model.LogDetSing

/-!
Line-protocol driver of C07 (slogdet / logdet).  One JSON case per line:
`{"id":…, "op": <operator tree>, "la": "auto"|"chol"|"lu"|"lanczos"|"arnoldi", "ta": "auto"|"exact"}`.
Answer: the CODE-MODEL result `claimedDet` (the number `sign * exp(logabs)` the rules of
logdet.py claim, computed exactly over ℚ[i] by `Op.slogdetG Op.detOps`), the SPEC result (exact
determinant of the represented matrix `den A`, by Gaussian elimination over ℚ[i]), `wf`, the
violated input preconditions and the named clauses.

The numerical kernels of the base cases are instantiated by exact ones that satisfy the
contracts of the theorems: `lu` = exact elimination with row exchanges (`A = L[p] @ U`),
`chol` = exact Cholesky (fails with "inexact-sqrt" when a pivot is not a rational square),
`trlog` = the assertions of `cola.linalg.unary.apply_unary` followed by the EXACT KRYLOV MODEL
(`Model/KrylovExact.lean`): for every identity probe `e_i` of the exact trace the un-normalised
Lanczos / Arnoldi recurrence over ℚ[i] run to exhaustion (`A Qᵢ = Qᵢ Hᵢ` re-checked), the power sums
`t_k = Σ_i (Qᵢ Hᵢ^k e₁)_i`, and the determinant reconstructed from them by Newton's identities — i.e. the
Krylov path evaluated on the monomials, NOT the specification `detGE`.  (The transcendental step
`exp ∘ tr ∘ log` of the real code is covered by the theorems `C07_exp_trace_log` / `C07_krylov_columns`
/ `C07_slogdet_krylov` and by the tolerance comparison, not by this executable model; since /repo 3c4ea3a
the rule takes the complex logarithm, so indefinite leaves and negative entries are inside the domain.)
Two recorded outcomes lie outside the model: "krylov-zero-probe" (undetermined) for a BlockDiag of Krylov
operators below a Transpose / Adjoint, and "lanczos-batch-breakdown" (undetermined) when the
probing vectors of the exact trace have Krylov spaces of different dimensions (the batched Lanczos
loop then divides by a zero / rounding-level norm, see C14).
-/

open Lean (Json)
open Op

abbrev GMat := Array (Array GRat)

def gIsZero (z : GRat) : Bool := z.re == 0 && z.im == 0

def toGMat (n : Nat) (m : MatF GRat) : GMat :=
  Array.ofFn (n := n) fun i => Array.ofFn (n := n) fun j => m i.val j.val

def gget (a : GMat) (i j : Nat) : GRat := (a.getD i #[]).getD j 0

structure GEState where
  a : GMat            -- becomes U
  l : GMat            -- multipliers below the diagonal (rows in eliminated order)
  ord : Array Nat     -- ord[k] = original index of the row now at position k
  swaps : Nat

def swapRows {α : Type} [Inhabited α] (x : Array α) (i j : Nat) : Array α :=
  if i == j then x else
    let xi := x.getD i default
    let xj := x.getD j default
    (x.setIfInBounds i xj).setIfInBounds j xi

/-- Gaussian elimination with row exchanges (first non-zero pivot) over ℚ[i] -/
def gaussElim (n : Nat) (m : MatF GRat) : GEState := Id.run do
  let mut s : GEState := ⟨toGMat n m, Array.replicate n (Array.replicate n 0), Array.range n, 0⟩
  for k in [0:n] do
    match (List.range' k (n - k)).find? (fun i => !gIsZero (gget s.a i k)) with
    | none => pure ()
    | some piv =>
      if piv != k then
        s := ⟨swapRows s.a k piv, swapRows s.l k piv, swapRows s.ord k piv, s.swaps + 1⟩
      let rowk := s.a.getD k #[]
      let pinv := (gget s.a k k).inv
      let mut a := s.a
      let mut l := s.l
      for i in [k+1:n] do
        let f := gget a i k * pinv
        if !gIsZero f then
          let rowi := a.getD i #[]
          a := a.setIfInBounds i (Array.ofFn (n := n) fun j => rowi.getD j.val 0 - f * rowk.getD j.val 0)
        l := l.setIfInBounds i ((l.getD i #[]).setIfInBounds k f)
      s := ⟨a, l, s.ord, s.swaps⟩
  return s

/-- exact determinant -/
def detGE (n : Nat) (m : MatF GRat) : GRat :=
  let s := gaussElim n m
  let d := (List.range n).foldl (fun acc k => acc * gget s.a k k) (1 : GRat)
  if s.swaps % 2 == 0 then d else -d

/-- exact `lu(a, p_indices=True)`: `A[i, :] = (L U)[p[i], :]` -/
def luK (n : Nat) (m : MatF GRat) : Except String (List Nat × MatF GRat × MatF GRat) :=
  let s := gaussElim n m
  -- p[ord[k]] = k
  let p : Array Nat := (List.range n).foldl (fun acc k => acc.setIfInBounds (s.ord.getD k 0) k) (Array.replicate n 0)
  let l := s.l
  let u := s.a
  .ok (p.toList, (fun i j => if i = j then 1 else if j < i then gget l i j else 0),
    (fun i j => if i ≤ j then gget u i j else 0))

def natIsSquare (k : Nat) : Option Nat := let r := Nat.sqrt k; if r * r == k then some r else none

/-- exact square root of a positive rational, if it is a rational -/
def ratSqrt (q : Rat) : Option Rat :=
  if q.num ≤ 0 then none else
  match natIsSquare q.num.toNat, natIsSquare q.den with
  | some a, some b => some (mkRat a b)
  | _, _ => none

/-- exact Cholesky–Banachiewicz; "linalg-error" = not positive definite,
"inexact-sqrt" = the factor is not over ℚ[i] -/
def cholK (n : Nat) (m : MatF GRat) : Except String (MatF GRat) := do
  let mut L : GMat := Array.replicate n (Array.replicate n 0)
  for j in [0:n] do
    let mut d := m j j
    for k in [0:j] do
      d := d - gget L j k * star (gget L j k)
    if d.re ≤ 0 then throw "linalg-error"
    let r ← match ratSqrt d.re with
      | some r => pure r
      | none => throw "inexact-sqrt"
    let rinv : GRat := ⟨1 / r, 0⟩
    L := L.setIfInBounds j ((L.getD j #[]).setIfInBounds j ⟨r, 0⟩)
    for i in [j+1:n] do
      let mut v := m i j
      for k in [0:j] do
        v := v - gget L i k * star (gget L j k)
      L := L.setIfInBounds i ((L.getD i #[]).setIfInBounds j (v * rinv))
  let Lf := L
  return (fun i j => gget Lf i j)

/-- the `assert A.isa(SelfAdjoint)` of `apply_unary(f, A, Lanczos)` after the structural rules
of `apply_unary` (Diagonal, BlockDiag, Identity, ScalarMul, Transpose, Adjoint) -/
partial def lanczosAssert (A : Op GRat) : Bool :=
  match A.core with
  | .diag .. => true
  | .eye .. => true
  | .scalar .. => true
  | .bdiag Ms _ => Ms.all lanczosAssert
  | .transpose B => lanczosAssert B
  | .adjoint B => lanczosAssert B
  | _ => A.isa .selfAdjoint

/-- does `apply_unary(log, A, Lanczos | Arnoldi)` build a Krylov operator (`LanczosUnary` /
`ArnoldiUnary`) somewhere below its structural rules? -/
partial def hasKrylovLeaf (A : Op GRat) : Bool :=
  match A.core with
  | .diag .. => false | .eye .. => false | .scalar .. => false
  | .bdiag Ms _ => Ms.any hasKrylovLeaf
  | .transpose B => hasKrylovLeaf B
  | .adjoint B => hasKrylovLeaf B
  | _ => true

/-- `apply_unary(log, BlockDiag)` is a BlockDiag of the members' logarithms; the exact trace probes
it with the identity, so a member that is a Krylov operator receives the ZERO columns of the
probes that belong to the other blocks as start vectors (0/0) -/
partial def zeroProbe (A : Op GRat) : Bool :=
  match A.core with
  | .bdiag Ms mults => (mults.sum ≥ 2 && Ms.any hasKrylovLeaf) || Ms.any zeroProbe
  | .transpose B => zeroProbe B
  | .adjoint B => zeroProbe B
  | _ => false

/-- the probing vectors `e_0 … e_{n-1}` of the exact trace go through `lanczos` as ONE batch; the
batched loop runs every member until the last one is done (C14, clause batch-member-breakdown),
so the real kernel needs all members' Krylov spaces to have the same dimension (grades computed by
the exact Krylov model) -/
def krylovDimsEqual (n : Nat) (Da : Array (Array GRat)) : Bool :=
  match KrylovExact.grades n Da with
  | [] => true
  | d :: ds => ds.all (· == d)

/-- the Krylov path on the monomials: determinant from the power sums of the exact Krylov model -/
def krylovDet (n : Nat) (Da : Array (Array GRat)) : Except String GRat :=
  match KrylovExact.powerSums n Da with
  | none => .error "krylov-invariance-check-failed"
  | some t => .ok (KrylovExact.detFromPowerSums n t)

/-- `trace(log(A, alg), trace_alg)` represented by `exp` of it -/
def trlogK (la : LogAlg) (_ta : TraceAlg) (A : Op GRat) : Except String GRat :=
  let n := A.rows
  let Da := KrylovExact.toRows n (forceV n n A.den.f).f
  match la with
  | .lanczos =>
      if !lanczosAssert A then .error "assert"
      else if zeroProbe A then .error "krylov-zero-probe"
      else if !krylovDimsEqual n Da then .error "lanczos-batch-breakdown"
      else krylovDet n Da
  | _ =>
      if zeroProbe A then .error "krylov-zero-probe"
      else krylovDet n Da

def eqWin (n : Nat) (a b : MatF GRat) : Bool :=
  (List.range n).all fun i => (List.range n).all fun j => a i j == b i j

/-- the exact kernels re-check their own contracts (`KernelsOK` of Lemmas/LogDetDet.lean) on every
call, so that `C07_det` applies to each answer of this driver up to the trusted `detGE` -/
def luChecked (n : Nat) (m : MatF GRat) : Except String (List Nat × MatF GRat × MatF GRat) :=
  match luK n m with
  | .error e => .error e
  | .ok (p, L, U) =>
    let Lv := (forceV n n L).f
    let Uv := (forceV n n U).f
    let ok := p.length == n && p.all (· < n) && p.Nodup &&
      ((List.range n).all fun i => (List.range n).all fun j => (!(i < j) || Lv i j == 0) && (!(j < i) || Uv i j == 0)) &&
      eqWin n (mmul n (permDen p) (forceV n n (mmul n Lv Uv)).f) m
    if ok then .ok (p, Lv, Uv) else .error "kernel-contract-violated"

def cholChecked (n : Nat) (m : MatF GRat) : Except String (MatF GRat) :=
  match cholK n m with
  | .error e => .error e
  | .ok L =>
    let Lv := (forceV n n L).f
    let herm := (List.range n).all fun i => (List.range n).all fun j => m i j == star (m j i)
    let ok := ((List.range n).all fun i => (List.range n).all fun j => !(i < j) || Lv i j == 0) &&
      eqWin n (mmul n Lv (conjM (transposeM Lv))) m
    if !herm || ok then .ok Lv else .error "kernel-contract-violated"

def kernels : DetKernels GRat GRat := ⟨cholChecked, luChecked, trlogK⟩

/-- the same kernels, except that a leaf outside the Krylov kernel's contract is let through:
in Python a `nan` result does not stop the evaluation, so an assertion of a LATER member is still
raised; `code_lenient` lets the harness see it -/
def trlogLenient (la : LogAlg) (_ta : TraceAlg) (A : Op GRat) : Except String GRat :=
  let n := A.rows
  let Da := KrylovExact.toRows n (forceV n n A.den.f).f
  match la with
  | .lanczos => if !lanczosAssert A then .error "assert" else krylovDet n Da
  | _ => krylovDet n Da

def kernelsLenient : DetKernels GRat GRat := ⟨cholChecked, luChecked, trlogLenient⟩

def jLogAlg (j : Json) : E LogAlg :=
  match j with
  | .null => pure .auto
  | _ => do
    match ← jStr j with
    | "auto" => pure .auto | "chol" => pure .chol | "lu" => pure .lu
    | "lanczos" => pure .lanczos | "arnoldi" => pure .arnoldi
    | s => throw s!"log_alg {s}"

def jTraceAlg (j : Json) : E TraceAlg :=
  match j with
  | .null => pure .auto
  | _ => do
    match ← jStr j with
    | "auto" => pure .auto | "exact" => pure .exact
    | s => throw s!"trace_alg {s}"

/-- the base-case operators a call reaches (for the evidence: which kernels were exercised) -/
partial def baseKinds (A : Op GRat) : List String :=
  match A.core with
  | .prod Ms => if Ms.all (fun M => M.rows == M.cols) then Ms.flatMap baseKinds else ["prod"]
  | .kron Ms => Ms.flatMap baseKinds
  | .bdiag Ms _ => Ms.flatMap baseKinds
  | .eye .. => [] | .scalar .. => [] | .diag .. => [] | .tri .. => [] | .perm .. => []
  | c => [kindName c]

/-- the operators the rule recursion hands to a base rule (same traversal as `baseKinds`) -/
partial def baseLeaves (A : Op GRat) : List (Op GRat) :=
  match A.core with
  | .prod Ms => if Ms.all (fun M => M.rows == M.cols) then Ms.flatMap baseLeaves else [A]
  | .kron Ms => Ms.flatMap baseLeaves
  | .bdiag Ms _ => Ms.flatMap baseLeaves
  | .eye .. => [] | .scalar .. => [] | .diag .. => [] | .tri .. => [] | .perm .. => []
  | _ => [A]

/-- what the Krylov kernel computed for one base leaf, reported so that the harness can RE-CHECK the arithmetic of
`trlogK` independently (exact Fractions in Python): the leaf's matrix, the power sums `t_0 … t_n` of the exact Krylov
model (`t_k` must be `tr A^k`) and the determinant reconstructed from them by Newton's identities -/
def krylovLeafJson (A : Op GRat) : String :=
  let n := A.rows
  let Da := KrylovExact.toRows n (forceV n n A.den.f).f
  let (ts, det) := match KrylovExact.powerSums n Da with
    | none => ("null", "null")
    | some t => ("[" ++ ",".intercalate (t.toList.map showZ) ++ "]", showZ (KrylovExact.detFromPowerSums n t))
  "{" ++ s!"\"n\":{n},\"mat\":{showMat n n (forceV n n A.den.f).f},\"t\":{ts},\"det\":{det}" ++ "}"

def handle (j : Json) : E String := do
  let id := (j.getObjVal? "id").toOption.getD .null
  let A ← jOp ((j.getObjVal? "op").toOption.getD .null)
  let la ← jLogAlg ((j.getObjVal? "la").toOption.getD .null)
  let ta ← jTraceAlg ((j.getObjVal? "ta").toOption.getD .null)
  let n := A.rows
  let code := match claimedDet kernels la ta A with
    | .ok d => "{\"ok\":" ++ showZ d ++ "}"
    | .error e => "{\"err\":\"" ++ e ++ "\"}"
  let lenient := match claimedDet kernelsLenient la ta A with
    | .ok d => "{\"ok\":" ++ showZ d ++ "}"
    | .error e => "{\"err\":\"" ++ e ++ "\"}"
  let spec := if A.rows == A.cols then showZ (detGE n (forceV n n A.den.f).f) else "null"
  let kleaves : List String :=
    if (la == .lanczos || la == .arnoldi) && A.rows == A.cols && A.wf then
      ((baseLeaves A).filter (fun L => L.rows == L.cols && L.rows ≤ 16)).map krylovLeafJson
    else []
  -- round 5 (viii): the IEEE outcome instance of the SAME rule recursion (`Model/LogDetSing.lean`): fin | sing = (nan, -inf) | junk
  let ieee := match slogdetG ieeeOps kernels la ta A with
    | .ok o => "{\"ok\":\"" ++ o.toString ++ "\"}"
    | .error e => "{\"err\":\"" ++ e ++ "\"}"
  -- round 5 (i): the hypotheses of `C07_lanczos_kernel_value` / `C07_lanczos_kernel_answers` (other than tol = 0, cap >= n, which are
  -- options of the call), decided exactly on the case: square, 1 <= n, `den A` Hermitian, `det (den A) != 0`
  let Dn := (forceV n n A.den.f).f
  let tieHerm := A.rows == A.cols && ((List.range n).all fun i => (List.range n).all fun j => Dn i j == star (Dn j i))
  let tieNonsing := A.rows == A.cols && !gIsZero (detGE n Dn)
  let tie := "{" ++ s!"\"square\":{A.rows == A.cols},\"n\":{n},\"herm\":{tieHerm},\"nonsing\":{tieNonsing}" ++ "}"
  let pre := (if A.triTrue then [] else ["tri-not-triangular"]) ++
    (if A.sqMembers then [] else ["nonsquare-member"]) ++
    (if A.dupSlice then ["sliced-repeated-index"] else [])
  pure ("{" ++ s!"\"id\":{id.compress},\"rows\":{A.rows},\"cols\":{A.cols},\"dtype\":\"{A.dtype.toString}\",\"wf\":{A.wf},\"psd\":{A.isa .psd},\"pre\":{showStrs pre},\"base\":{showStrs (baseKinds A)},\"code\":{code},\"code_lenient\":{lenient},\"spec\":{spec},\"krylov_leaves\":[{",".intercalate kleaves}],\"ieee\":{ieee},\"structural\":{A.structuralOnly},\"tie\":{tie}" ++ "}")

def main : IO Unit := driverMain handle
