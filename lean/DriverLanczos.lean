import Lean.Data.Json
import ColaVerif.Model.Lanczos

/-!
Line-protocol driver of the Lanczos code model (`ColaVerif/Model/Lanczos.lean`).

    lake env lean --run DriverLanczos.lean < cases.jsonl > answers.jsonl

One JSON case per input line

    {"id": …, "n": n, "cplx": bool, "A": n×n entries, "starts": k×n entries (one start vector per
     row), "max_iters": int, "tol": entry-free double}

Doubles travel as their IEEE-754 bit patterns (non-negative integers), so that the model sees
exactly the numbers the NumPy code sees; a complex entry is a pair `[re, im]` of such integers.
One JSON answer per line: `iters` (= i - 1), `iterations` (info), per member the trimmed `Q`
(columns), `diag` (`beta` of the code), `sub` (`alpha` of the code), the untrimmed `diag_full`,
`sub_full`, and `errors` (info).

With `"eigs": true` (one start vector) the answer also contains the result of the model's `lanczosEigs`
(`eigvals`, `eigvecs` = columns) computed with `eigh := eighJacobi` (cyclic Jacobi rotations on the real
parts of the dense tridiagonal matrix — an EXECUTABLE stand-in for LAPACK; `C14_lanczos_eigs` needs the
contract `T y_j = θ_j y_j`, `C14_lanczos_eigs_unit` in addition orthonormal columns `y_j`), together with
`eigh_residual` = max_j ‖T y_j − θ_j y_j‖_∞ / max(1, ‖T‖_max) and `eigh_orth` = max |YᵀY − 1|, the measured
defects of the two parts of that contract on this very run (the harness requires both ≤ 1e-10).
-/

open Lean (Json)
open Lanczos

abbrev E := Except String

def jNat (j : Json) : E Nat :=
  match j.getNat? with | .ok n => pure n | .error e => throw s!"nat expected: {e}"
def jArr (j : Json) : E (Array Json) :=
  match j with | .arr a => pure a | _ => throw s!"array expected, got {j.compress}"
def jBool (j : Json) : E Bool :=
  match j with | .bool b => pure b | _ => throw "bool expected"
def field (j : Json) (k : String) : E Json :=
  match j.getObjVal? k with | .ok v => pure v | .error e => throw e

def bitsToFloat (n : Nat) : Float := Float.ofBits n.toUInt64
def floatToJson (x : Float) : Json := Json.num (Lean.JsonNumber.fromNat x.toBits.toNat)

class Codec (K : Type) where
  dec : Json → E K
  enc : K → Json

instance : Codec Float where
  dec j := do pure (bitsToFloat (← jNat j))
  enc x := floatToJson x

instance : Codec CF where
  dec j := do
    match j with
    | .arr #[a, b] => pure ⟨bitsToFloat (← jNat a), bitsToFloat (← jNat b)⟩
    | _ => pure ⟨bitsToFloat (← jNat j), 0.0⟩
  enc x := Json.arr #[floatToJson x.re, floatToJson x.im]

def decVec (K : Type) [Codec K] (j : Json) : E (Array K) := do (← jArr j).mapM Codec.dec
def encVec {K : Type} [Codec K] (v : Array K) : Json := Json.arr (v.map Codec.enc)


/-! ## an executable `eigh` for the driver: cyclic Jacobi on a real symmetric matrix -/

def mget (S : Array (Array Float)) (i j : Nat) : Float := (S.getD i #[]).getD j 0.0
def mset (S : Array (Array Float)) (i j : Nat) (x : Float) : Array (Array Float) :=
  S.modify i (fun r => r.setIfInBounds j x)

/-- one rotation in the `(p, q)` plane applied to `S` (two-sided) and to `V` (columns) -/
def jacobiRot (k p q : Nat) (SV : Array (Array Float) × Array (Array Float)) :
    Array (Array Float) × Array (Array Float) :=
  let S := SV.1
  let V := SV.2
  let spq := mget S p q
  if spq == 0.0 then SV else
  let th := (mget S q q - mget S p p) / (2.0 * spq)
  let t := (if th >= 0.0 then 1.0 else -1.0) / (th.abs + Float.sqrt (th * th + 1.0))
  let c := 1.0 / Float.sqrt (t * t + 1.0)
  let s := t * c
  -- columns p, q of S
  let S1 := (List.range k).foldl (fun (S : Array (Array Float)) i =>
    let a := mget S i p
    let b := mget S i q
    mset (mset S i p (c * a - s * b)) i q (s * a + c * b)) S
  -- rows p, q of S
  let S2 := (List.range k).foldl (fun (S : Array (Array Float)) j =>
    let a := mget S p j
    let b := mget S q j
    mset (mset S p j (c * a - s * b)) q j (s * a + c * b)) S1
  let V1 := (List.range k).foldl (fun (V : Array (Array Float)) i =>
    let a := mget V i p
    let b := mget V i q
    mset (mset V i p (c * a - s * b)) i q (s * a + c * b)) V
  (S2, V1)

def offNorm (k : Nat) (S : Array (Array Float)) : Float :=
  (List.range k).foldl (fun acc i => (List.range k).foldl (fun acc j =>
    if i == j then acc else acc + mget S i j * mget S i j) acc) 0.0

/-- eigenvalues (ascending) and eigenvector columns of a real symmetric matrix (array of rows) -/
def eighJacobi (S0 : Array (Array Float)) : Array Float × Array (Array Float) :=
  let k := S0.size
  let I : Array (Array Float) := (Array.range k).map fun i => (Array.range k).map fun j =>
    if i == j then 1.0 else 0.0
  let pairs : List (Nat × Nat) :=
    (List.range k).flatMap fun p => ((List.range k).filter (fun q => p < q)).map fun q => (p, q)
  let sweep (SV : Array (Array Float) × Array (Array Float)) := pairs.foldl (fun SV pq => jacobiRot k pq.1 pq.2 SV) SV
  let rec go (fuel : Nat) (SV : Array (Array Float) × Array (Array Float)) :=
    match fuel with
    | 0 => SV
    | f + 1 => if offNorm k SV.1 == 0.0 then SV else go f (sweep SV)
  let SV := go 40 (S0, I)
  let vals : Array Float := (Array.range k).map fun i => mget SV.1 i i
  -- ascending order (insertion sort of the indices)
  let idx : List Nat := (List.range k).foldr (fun j acc =>
    let rec ins : List Nat → List Nat
      | [] => [j]
      | h :: t => if vals.getD j 0.0 < vals.getD h 0.0 then j :: h :: t else h :: ins t
    ins acc) []
  (idx.toArray.map fun j => vals.getD j 0.0,
   idx.toArray.map fun j => (Array.range k).map fun i => mget SV.2 i j)

class RealPart (K : Type) where
  toF : K → Float
  ofF : Float → K
instance : RealPart Float := ⟨id, id⟩
instance : RealPart CF := ⟨fun a => a.re, fun x => ⟨x, 0.0⟩⟩

/-- `eigh` of the model at scalar type `K`: Jacobi on the real parts -/
def eighK (K : Type) [RealPart K] (D : Array (Array K)) : Array K × Array (Array K) :=
  let r := eighJacobi (D.map fun row => row.map RealPart.toF)
  (r.1.map RealPart.ofF, r.2.map fun col => col.map RealPart.ofF)

def runCase (K : Type) [Num K] [Codec K] [RealPart K] (ofFloat : Float → K) (j : Json) : E Json := do
  let n ← jNat (← field j "n")
  let A ← (← jArr (← field j "A")).mapM (decVec K)
  let starts ← (← jArr (← field j "starts")).mapM (decVec K)
  let maxIters ← jNat (← field j "max_iters")
  let tol := ofFloat (bitsToFloat (← jNat (← field j "tol")))
  if A.size ≠ n ∨ A.any (fun r => r.size ≠ n) ∨ starts.any (fun r => r.size ≠ n) then
    throw "shape mismatch"
  let z : Array K := Array.replicate n Num.zero
  let o := lanczos (K := K) (V := Array K) (matVec A) n z starts maxIters tol
  let wantEigs : Bool := match j.getObjVal? "eigs" with | .ok (.bool true) => true | _ => false
  let eigsFields : List (String × Json) :=
    if wantEigs && starts.size == 1 then
      let res := lanczosEigs (K := K) (V := Array K) (eighK K) (matVec A) n z (starts.getD 0 #[]) maxIters tol
      -- the measured defect of the `eigh` contract on this run
      let T : Array (Array Float) :=
        (tridiagDense (o.alpha.getD 0 #[]) (o.beta.getD 0 #[])).map fun row => row.map RealPart.toF
      let e := eighJacobi T
      let k := T.size
      let tmax := T.foldl (fun acc row => row.foldl (fun acc x => if x.abs > acc then x.abs else acc) acc) 1.0
      let resid := (List.range k).foldl (fun acc jj =>
        let y := e.2.getD jj #[]
        let th := e.1.getD jj 0.0
        (List.range k).foldl (fun acc a =>
          let ty := (List.range k).foldl (fun t c => t + mget T a c * y.getD c 0.0) 0.0
          let d := (ty - th * y.getD a 0.0).abs
          if d > acc then d else acc) acc) 0.0
      let orth := (List.range k).foldl (fun acc a => (List.range k).foldl (fun acc b =>
        let g := (List.range k).foldl (fun t c => t + (e.2.getD a #[]).getD c 0.0 * (e.2.getD b #[]).getD c 0.0) 0.0
        let d := (g - (if a == b then 1.0 else 0.0)).abs
        if d > acc then d else acc) acc) 0.0
      [("eigvals", encVec res.1), ("eigvecs", Json.arr (res.2.map encVec)),
       ("eigh_residual", floatToJson (resid / tmax)), ("eigh_orth", floatToJson orth)]
    else []
  pure <| Json.mkObj <| eigsFields ++ [
    ("id", (j.getObjVal? "id").toOption.getD Json.null),
    ("iters", Json.num (Lean.JsonNumber.fromNat o.iters)),
    ("iterations", Json.num (Lean.JsonNumber.fromNat o.info.iterations)),
    ("Q", Json.arr (o.Q.map (fun cols => Json.arr (cols.map encVec)))),
    ("diag", Json.arr (o.beta.map encVec)),
    ("sub", Json.arr (o.alpha.map encVec)),
    ("diag_full", Json.arr (o.final.mems.map (fun s => encVec s.diag))),
    ("sub_full", Json.arr (o.final.mems.map (fun s => encVec s.subdiag))),
    ("errors", encVec o.info.errors)]

def handle (line : String) : String :=
  match Json.parse line with
  | .error e => (Json.mkObj [("error", Json.str s!"parse: {e}")]).compress
  | .ok j =>
    let r : E Json := do
      if ← jBool (← field j "cplx") then runCase CF (fun x => ⟨x, 0.0⟩) j
      else runCase Float id j
    match r with
    | .ok a => a.compress
    | .error e => (Json.mkObj [("id", (j.getObjVal? "id").toOption.getD Json.null),
        ("error", Json.str e)]).compress

partial def loop (hin hout : IO.FS.Stream) : IO Unit := do
  let line ← hin.getLine
  if line.isEmpty then return
  let l := line.trimAscii.toString
  if !l.isEmpty then
    hout.putStrLn (handle l)
    hout.flush
  loop hin hout

def main : IO Unit := do
  loop (← IO.getStdin) (← IO.getStdout)
