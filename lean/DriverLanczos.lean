import Lean.Data.Json
import ColaVerif.Model.Lanczos

/-!
Line-protocol driver of the Lanczos code model (`ColaVerif/Model/Lanczos.lean`).

    lake env lean --run DriverLanczos.lean < cases.jsonl > answers.jsonl

One JSON case per input line

    {"id": …, "n": n, "cplx": bool, "A": n×n entries, "starts": k×n entries (one start vector per
     row), "max_iters": int, "tol": entry-free double}

Doubles travel as their IEEE-754 bit patterns (non-negative integers), so that the model sees
exactly the numbers the NumPy code sees; a complex entry is a pair `[re, im]` of such integers.
One JSON answer per line: `iters` (= i - 1), `iterations` (info), per member the trimmed `Q`
(columns), `diag` (`beta` of the code), `sub` (`alpha` of the code), the untrimmed `diag_full`,
`sub_full`, and `errors` (info).
-/

open Lean (Json)
open Lanczos

abbrev E := Except String

def jNat (j : Json) : E Nat :=
  match j.getNat? with | .ok n => pure n | .error e => throw s!"nat expected: {e}"
def jArr (j : Json) : E (Array Json) :=
  match j with | .arr a => pure a | _ => throw s!"array expected, got {j.compress}"
def jBool (j : Json) : E Bool :=
  match j with | .bool b => pure b | _ => throw "bool expected"
def field (j : Json) (k : String) : E Json :=
  match j.getObjVal? k with | .ok v => pure v | .error e => throw e

def bitsToFloat (n : Nat) : Float := Float.ofBits n.toUInt64
def floatToJson (x : Float) : Json := Json.num (Lean.JsonNumber.fromNat x.toBits.toNat)

class Codec (K : Type) where
  dec : Json → E K
  enc : K → Json

instance : Codec Float where
  dec j := do pure (bitsToFloat (← jNat j))
  enc x := floatToJson x

instance : Codec CF where
  dec j := do
    match j with
    | .arr #[a, b] => pure ⟨bitsToFloat (← jNat a), bitsToFloat (← jNat b)⟩
    | _ => pure ⟨bitsToFloat (← jNat j), 0.0⟩
  enc x := Json.arr #[floatToJson x.re, floatToJson x.im]

def decVec (K : Type) [Codec K] (j : Json) : E (Array K) := do (← jArr j).mapM Codec.dec
def encVec {K : Type} [Codec K] (v : Array K) : Json := Json.arr (v.map Codec.enc)

def runCase (K : Type) [Num K] [Codec K] (ofFloat : Float → K) (j : Json) : E Json := do
  let n ← jNat (← field j "n")
  let A ← (← jArr (← field j "A")).mapM (decVec K)
  let starts ← (← jArr (← field j "starts")).mapM (decVec K)
  let maxIters ← jNat (← field j "max_iters")
  let tol := ofFloat (bitsToFloat (← jNat (← field j "tol")))
  if A.size ≠ n ∨ A.any (fun r => r.size ≠ n) ∨ starts.any (fun r => r.size ≠ n) then
    throw "shape mismatch"
  let z : Array K := Array.replicate n Num.zero
  let o := lanczos (K := K) (V := Array K) (matVec A) n z starts maxIters tol
  pure <| Json.mkObj [
    ("id", (j.getObjVal? "id").toOption.getD Json.null),
    ("iters", Json.num (Lean.JsonNumber.fromNat o.iters)),
    ("iterations", Json.num (Lean.JsonNumber.fromNat o.info.iterations)),
    ("Q", Json.arr (o.Q.map (fun cols => Json.arr (cols.map encVec)))),
    ("diag", Json.arr (o.beta.map encVec)),
    ("sub", Json.arr (o.alpha.map encVec)),
    ("diag_full", Json.arr (o.final.mems.map (fun s => encVec s.diag))),
    ("sub_full", Json.arr (o.final.mems.map (fun s => encVec s.subdiag))),
    ("errors", encVec o.info.errors)]

def handle (line : String) : String :=
  match Json.parse line with
  | .error e => (Json.mkObj [("error", Json.str s!"parse: {e}")]).compress
  | .ok j =>
    let r : E Json := do
      if ← jBool (← field j "cplx") then runCase CF (fun x => ⟨x, 0.0⟩) j
      else runCase Float id j
    match r with
    | .ok a => a.compress
    | .error e => (Json.mkObj [("id", (j.getObjVal? "id").toOption.getD Json.null),
        ("error", Json.str e)]).compress

partial def loop (hin hout : IO.FS.Stream) : IO Unit := do
  let line ← hin.getLine
  if line.isEmpty then return
  let l := line.trimAscii.toString
  if !l.isEmpty then
    hout.putStrLn (handle l)
    hout.flush
  loop hin hout

def main : IO Unit := do
  loop (← IO.getStdin) (← IO.getStdout)
