import ColaVerif.DriverLib
import ColaVerif.Model.DecompExec

/-!
Line-protocol driver of C11 (`cholesky`, `plu`): one JSON case `{"id", "call": "chol"|"plu", "op"}`
per input line.  The answer carries the represented matrix of the input (`den`, the
specification), the CODE-MODEL result (`Op.cholRule` / `Op.pluRule` at the exact parameters
`GDecomp.params`: kind trees, dtypes, shapes and matrices of the returned factors, or the error
class), and the SPEC verdict on that result (triangularity, permutation, products against `den`,
promised kind trees — all exact).
Run with `lake env lean --run DriverC11.lean < cases.jsonl`.
-/

open Lean (Json)

partial def showSkelT : Op.Skel → String
  | .eye n => s!"[\"eye\",{n}]"
  | .diag n => s!"[\"diag\",{n}]"
  | .scalar n => s!"[\"scalar\",{n}]"
  | .scalarEye n => s!"[\"scalarEye\",{n}]"
  | .kron l => "[\"kron\"," ++ ",".intercalate (l.map showSkelT) ++ "]"
  | .bdiag l m => "[\"bdiag\",[" ++ ",".intercalate (l.map showSkelT) ++ "]," ++ toString m ++ "]"
  | .tri lo n => s!"[\"tri\",{lo},{n}]"
  | .perm n => s!"[\"perm\",{n}]"
  | .other => "[\"other\"]"

def lowerB (n : Nat) (D : MatF GRat) : Bool :=
  (List.range n).all fun i => (List.range n).all fun j => !(decide (i < j)) || D i j == 0
def upperB (n : Nat) (D : MatF GRat) : Bool :=
  (List.range n).all fun i => (List.range n).all fun j => !(decide (j < i)) || D i j == 0
/-- every entry is 0 or 1, every row and every column contains exactly one 1 -/
def permB (n : Nat) (D : MatF GRat) : Bool :=
  ((List.range n).all fun i => (List.range n).all fun j => D i j == 0 || D i j == 1) &&
  ((List.range n).all fun i => ((List.range n).filter fun j => D i j == 1).length == 1) &&
  ((List.range n).all fun j => ((List.range n).filter fun i => D i j == 1).length == 1)

def factorJson (F : Op GRat) (D : MatF GRat) : String :=
  s!"\{\"skel\":{skel F},\"kinds\":{showSkelT (Op.skelOf F)},\"dtype\":\"{F.dtype.toString}\",\"rows\":{F.rows},\"cols\":{F.cols},\"den\":{showMat F.rows F.cols D}}"

def bstr (b : Bool) : String := if b then "true" else "false"

/-- named clauses (modelled defects) the case runs into: none at present — the NaN factors of
`plu(Diagonal | ScalarMul)` for negative entries were fixed in /repo (7421396) -/
def clausesOf (_err : Option String) : List String := []

def handle (j : Json) : E String := do
  let id := (j.getObjVal? "id").toOption.getD .null
  let call ← jStr ((j.getObjVal? "call").toOption.getD .null)
  let A ← jOp ((j.getObjVal? "op").toOption.getD .null)
  let n := A.rows
  let Ad := (forceV A.rows A.cols A.den.f).f
  let pre := s!"\"id\":{id.compress},\"rows\":{A.rows},\"cols\":{A.cols},\"dtype\":\"{A.dtype.toString}\",\"wf\":{A.wf},\"structOnly\":{A.structOnly},\"den\":{showMat A.rows A.cols Ad}"
  match call with
  | "chol" =>
    match Op.cholRule GDecomp.params A with
    | .ok L =>
      let Ld := (forceV L.rows L.cols L.den.f).f
      let shapeOk := L.rows == n && L.cols == n && A.cols == n
      let low := lowerB n Ld
      let prod := Op.winEq n n (mmul n Ld (conjM (transposeM Ld))) Ad
      let sk := showSkelT (Op.skelOf L) == showSkelT (Op.promisedSkel true A)
      let df := !A.structOnly || L.denseFree
      pure ("{" ++ pre ++ s!",\"clauses\":[],\"code\":\{\"ok\":true,\"factors\":[{factorJson L Ld}]},\"promised\":[{showSkelT (Op.promisedSkel true A)}],\"spec\":\{\"shape\":{bstr shapeOk},\"lower\":{bstr low},\"product\":{bstr prod},\"structure\":{bstr sk},\"denseFree\":{bstr df}}" ++ "}")
    | .error e =>
      pure ("{" ++ pre ++ s!",\"clauses\":{showStrs (clausesOf (some e))},\"code\":\{\"ok\":false,\"err\":\"{e}\"},\"promised\":[{showSkelT (Op.promisedSkel true A)}],\"spec\":\{\"returns\":false}" ++ "}")
  | "plu" =>
    match Op.pluRule GDecomp.params A with
    | .ok (Pm, L, U) =>
      let Pd := (forceV Pm.rows Pm.cols Pm.den.f).f
      let Ld := (forceV L.rows L.cols L.den.f).f
      let Ud := (forceV U.rows U.cols U.den.f).f
      let shapeOk := Pm.rows == n && Pm.cols == n && L.rows == n && L.cols == n && U.rows == n && U.cols == n && A.cols == n
      let prod := Op.winEq n n (mmul n Pd (forceV n n (mmul n Ld Ud)).f) Ad
      let sk := showSkelT (Op.skelOf Pm) == showSkelT (Op.promisedPermSkel A) &&
        showSkelT (Op.skelOf L) == showSkelT (Op.promisedLSkel A) &&
        showSkelT (Op.skelOf U) == showSkelT (Op.promisedUSkel A)
      let df := !A.structOnly || (Pm.denseFree && L.denseFree && U.denseFree)
      pure ("{" ++ pre ++ s!",\"clauses\":[],\"code\":\{\"ok\":true,\"factors\":[{factorJson Pm Pd},{factorJson L Ld},{factorJson U Ud}]},\"promised\":[{showSkelT (Op.promisedPermSkel A)},{showSkelT (Op.promisedLSkel A)},{showSkelT (Op.promisedUSkel A)}],\"spec\":\{\"shape\":{bstr shapeOk},\"perm\":{bstr (permB n Pd)},\"lower\":{bstr (lowerB n Ld)},\"upper\":{bstr (upperB n Ud)},\"product\":{bstr prod},\"structure\":{bstr sk},\"denseFree\":{bstr df}}" ++ "}")
    | .error e =>
      pure ("{" ++ pre ++ s!",\"clauses\":{showStrs (clausesOf (some e))},\"code\":\{\"ok\":false,\"err\":\"{e}\"},\"promised\":[{showSkelT (Op.promisedPermSkel A)},{showSkelT (Op.promisedLSkel A)},{showSkelT (Op.promisedUSkel A)}],\"spec\":\{\"returns\":false}" ++ "}")
  | c => throw s!"unknown call {c}"

def main : IO Unit := driverMain handle
