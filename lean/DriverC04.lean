/-  Prints the Lean model's resolution of every lattice tuple of C04, one line per tuple:
      <function> <TAB> <arg class ids, comma separated>|<condition bits> <TAB> U <signature index> <impl id> | A | N <TAB> <number of matching signatures>
    Run:  lake env lean --run DriverC04.lean     (props/c04.py compares it with the live resolver) -/
import ColaVerif.Model.Dispatch
import ColaVerif.Gen.RuleTable
open ColaVerif.Dispatch ColaVerif.Gen.RuleTable

def showRes (impls : List String) : Res → String
  | .notFound => "N"
  | .ambiguous => "A"
  | .unique i => s!"U {i} {impls.getD i "?"}"

def main : IO Unit := do
  let out ← IO.getStdout
  for (name, table, impls, lattice, clauses) in allFunctions do
    for t in lattice do
      let r := resolve hier table t
      let n := (matching hier table t).length
      let ex := if excluded hier clauses t then " X" else ""
      out.putStrLn s!"{name}\t{",".intercalate (t.args.map toString)}|{t.conds}\t{showRes impls r}\t{n}{ex}"
  out.flush
