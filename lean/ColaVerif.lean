-- Root of the `ColaVerif` library: everything `lake build` (MANIFEST.setup_cmd) compiles.
import ColaVerif.Basic.GInt
import ColaVerif.Basic.GRat
import ColaVerif.Model.Matmat
import ColaVerif.Model.Wf
import ColaVerif.Model.Bound
import ColaVerif.Lemmas.BlockDiag
import ColaVerif.Model.Algebra
import ColaVerif.Model.Index
import ColaVerif.Lemmas.KronSum
import ColaVerif.Lemmas.SmallKernels
import ColaVerif.Lemmas.OpMatmat
import ColaVerif.Properties.C01
import ColaVerif.Model.Expr
import ColaVerif.DriverLib
