-- This module serves as the root of the `ColaVerif` library.
-- Import modules here that should be built as part of the library.
import ColaVerif.Basic
