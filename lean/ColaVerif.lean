-- Root of the `ColaVerif` library: everything `lake build` (MANIFEST.setup_cmd) compiles.
import ColaVerif.Basic.GInt
import ColaVerif.Model.Matmat
import ColaVerif.Model.Wf
import ColaVerif.Model.Bound
import ColaVerif.Lemmas.BlockDiag
