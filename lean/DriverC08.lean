import ColaVerif.DriverLib
import ColaVerif.Model.DiagTrace

/-!
Line-protocol driver of C08 (`cola.linalg.diag`, `cola.linalg.trace`).
Case: `{"id":…, "call":"diag"|"trace"|"exactdiag", "op":…, "k":int, "alg":"omitted"|"auto"|"exact", "bs":nat?}`
(`bs` = the constant of `bs = min(100, n)`, default 100; `exactdiag` runs the probing loop
directly, whatever the class of the operator).
Answer: code model (`{"ok":[…]}` / `{"err":class}`), specification (the diagonal / trace of
`den`), `wf`, the named clauses the case violates, a magnitude bound.
Run with `lake env lean --run DriverC08.lean < cases.jsonl`.
-/

open Lean (Json)

def showList (l : List GRat) : String := "[" ++ ",".intercalate (l.map showZ) ++ "]"

def showRes1 (r : Except String (List GRat)) : String :=
  match r with
  | .ok l => "{\"ok\":" ++ showList l ++ "}"
  | .error e => "{\"err\":\"" ++ e ++ "\"}"

def handle (j : Json) : E String := do
  let id := (j.getObjVal? "id").toOption.getD .null
  let call ← jStr ((j.getObjVal? "call").toOption.getD .null)
  let A ← jOp ((j.getObjVal? "op").toOption.getD .null)
  let bs : Nat := match j.getObjVal? "bs" with
    | .ok v => (v.getNat?).toOption.getD 100
    | _ => 100
  let algS := match j.getObjVal? "alg" with
    | .ok (.str s) => s
    | _ => "omitted"
  let alg : Op.Alg := if algS == "exact" then .exact else .auto
  let k : Int := match j.getObjVal? "k" with
    | .ok v => (v.getInt?).toOption.getD 0
    | _ => 0
  let cl := A.clauses ++ A.diagClauses
  let sq := A.rows == A.cols
  let D := A.den
  let absD := A.absOp.den
  let bound := maxAbsMat A.rows A.cols absD.f
  let tb : Rat := if sq then (Op.traceSpec absD.f A.rows).re else 0
  let pre := s!"\"id\":{id.compress},\"rows\":{A.rows},\"cols\":{A.cols},\"dtype\":\"{A.dtype.toString}\",\"wf\":{A.wf},\"square\":{sq},\"clauses\":{showStrs cl},\"absbound\":{bound},\"tracebound\":{showQ tb}"
  match call with
  | "diag" =>
      let code := Op.diagCode bs alg A k
      let spec := Op.diagK D.f A.rows k
      pure ("{" ++ pre ++ s!",\"code\":{showRes1 code},\"spec\":{showList spec}" ++ "}")
  | "exactdiag" =>
      let code := Op.exactDiag bs A k
      let spec := Op.diagK D.f A.rows k
      pure ("{" ++ pre ++ s!",\"code\":{showRes1 (.ok code)},\"spec\":{showList spec}" ++ "}")
  | "trace" =>
      let code := match Op.traceCode bs alg A with
        | .ok t => "{\"ok\":" ++ showZ t ++ "}"
        | .error e => "{\"err\":\"" ++ e ++ "\"}"
      let spec := Op.traceSpec D.f A.rows
      pure ("{" ++ pre ++ s!",\"code\":{code},\"spec\":{showZ spec}" ++ "}")
  | c => throw s!"unknown call {c}"

def main : IO Unit := driverMain handle
