import ColaVerif.DriverLib
import ColaVerif.Model.DiagTrace
import ColaVerif.Model.DiagTraceDtype
import ColaVerif.Model.DiagTraceSel
import ColaVerif.Model.DiagTraceReach

/-!
Line-protocol driver of C08 (`cola.linalg.diag`, `cola.linalg.trace`).
Case: `{"id":…, "call":"diag"|"trace"|"exactdiag", "op":…, "k":int, "alg":"omitted"|"auto"|"exact", "bs":nat?}`
(`bs` = the constant of `bs = min(100, n)`, default 100; `exactdiag` runs the probing loop
directly, whatever the class of the operator).
Answer: code model (`{"ok":[…]}` / `{"err":e}`; `e` = `error:<Class>`: the real call raises `<Class>`, or an
escape value `unmodelled:hutch` / `unmodelled:nonsquare-exact`: the model does not say), specification (the
diagonal / trace of `den`), `wf`, `square`, `clauses` = `Op.clauses` (C01's recorded `sliced-repeated-index`, C05's
`scalar-times-annotated`: hypotheses of the value theorems; C08 has no value clause of its own — the
BlockDiag / Kronecker rules refuse non-square members since /repo bbee7eb), `hutch` = `Op.hutchReach` (the
decidable input predicate under which `unmodelled:hutch` can occur, see `C08_refusals_are_exceptions`), a
magnitude bound;
result dtype: `cdt` = the code model (`Op.diagDt` / `Op.traceDt` / `Op.exactDiagDt`), `sdt` = the
specification (`Op.dtypeSpec`, promotion of the leaf dtypes), `dtclauses` = the dtype clause violated
(`bdiag-zero-multiplicity` iff `Op.ruleZeroMult`; it concerns the dtype observation only);
rule selection: `drules` / `trules` = the method the model applies for an algorithm object of class
Auto, Exact, Hutch, HutchPP (in this order).
`{"call":"rules"}` (no operator) answers with the model's rule tables; `"call":"dtype"` items answer
with `cdt` only (`"of":"diag"|"trace"`, no values are computed).
Run with `lake env lean --run DriverC08.lean < cases.jsonl`.
-/

open Lean (Json)

def showList (l : List GRat) : String := "[" ++ ",".intercalate (l.map showZ) ++ "]"

def showDt (d : Option DType) : String :=
  match d with
  | some dt => "\"" ++ dt.toString ++ "\""
  | none => "\"none\""

def showRes1 (r : Except String (List GRat)) : String :=
  match r with
  | .ok l => "{\"ok\":" ++ showList l ++ "}"
  | .error e => "{\"err\":\"" ++ e ++ "\"}"

/-- one observation on the operator `A` (`D` = its represented matrix, computed once per line):
`{"call":"diag"|"trace"|"exactdiag","k":…,"alg":…,"bs":…}` ↦ `{"code":…,"spec":…}` -/
def answerItem (A : Op GRat) (D : Option (MatV GRat)) (j : Json) : E String := do
  let call ← jStr ((j.getObjVal? "call").toOption.getD .null)
  let bs : Nat := match j.getObjVal? "bs" with
    | .ok v => (v.getNat?).toOption.getD 100
    | _ => 100
  let algS := match j.getObjVal? "alg" with
    | .ok (.str s) => s
    | _ => "omitted"
  let alg : Op.Alg := if algS == "exact" then .exact else .auto
  let k : Int := match j.getObjVal? "k" with
    | .ok v => (v.getInt?).toOption.getD 0
    | _ => 0
  let specD : String := match D with
    | some D => ",\"spec\":" ++ showList (Op.diagK D.f A.rows k)
    | none => ""
  match call with
  | "diag" => pure ("{\"code\":" ++ showRes1 (Op.diagCode bs alg A k) ++ specD ++ ",\"cdt\":" ++ showDt (Op.diagDt A k) ++ "}")
  | "exactdiag" => pure ("{\"code\":" ++ showRes1 (.ok (Op.exactDiag bs A k)) ++ specD ++ ",\"cdt\":" ++ showDt (Op.exactDiagDt A k) ++ "}")
  | "dtype" =>
      let ofS := match j.getObjVal? "of" with
        | .ok (.str s) => s
        | _ => "diag"
      pure ("{\"cdt\":" ++ showDt (if ofS == "trace" then Op.traceDt A else Op.diagDt A k) ++ "}")
  | "trace" =>
      let code := match Op.traceCode bs alg A with
        | .ok t => "{\"ok\":" ++ showZ t ++ "}"
        | .error e => "{\"err\":\"" ++ e ++ "\"}"
      let specT : String := match D with
        | some D => ",\"spec\":" ++ showZ (Op.traceSpec D.f A.rows)
        | none => ""
      pure ("{\"code\":" ++ code ++ specT ++ ",\"cdt\":" ++ showDt (Op.traceDt A) ++ "}")
  | c => throw s!"unknown call {c}"

/-- a line is either one observation (`"call"` ≠ `"batch"`; answer has `code`, `spec` at top level)
or a batch of observations on ONE operator (`"call":"batch","items":[…]`; answer has `results`) -/
def handle (j : Json) : E String := do
  let id := (j.getObjVal? "id").toOption.getD .null
  let call ← jStr ((j.getObjVal? "call").toOption.getD .null)
  if call == "rules" then
    return s!"\{\"id\":{id.compress},\"diag\":{showStrs Op.diagRuleTable},\"trace\":{showStrs Op.traceRuleTable}}"
  let A ← jOp ((j.getObjVal? "op").toOption.getD .null)
  -- "reach": only the decidable input predicate `Op.hutchReach` and the extents (operators of huge extent:
  -- every other field of the header walks payloads or index ranges)
  if call == "reach" then
    return s!"\{\"id\":{id.compress},\"rows\":{A.rows},\"cols\":{A.cols},\"hutch\":{A.hutchReach}}"
  let cl := A.clauses
  let algs : List Op.AlgK := [.auto, .exact, .hutch, .hutchpp]
  let dtcl : List String := if A.ruleZeroMult then ["bdiag-zero-multiplicity"] else []
  let sq := A.rows == A.cols
  -- "nospec": only the code model is evaluated (large operators: `den` of a product costs n⁴)
  let nospec := match j.getObjVal? "nospec" with
    | .ok (.bool b) => b
    | _ => false
  let pre0 := s!"\"id\":{id.compress},\"rows\":{A.rows},\"cols\":{A.cols},\"dtype\":\"{A.dtype.toString}\",\"wf\":{A.wf},\"square\":{sq},\"hutch\":{A.hutchReach},\"clauses\":{showStrs cl},\"cls\":\"{A.className}\",\"drule\":\"{A.diagRuleClass}\",\"trule\":\"{A.traceRuleClass}\",\"sdt\":\"{A.dtypeSpec.toString}\",\"dtclauses\":{showStrs dtcl},\"drules\":{showStrs (algs.map (fun a => Op.diagRuleSig a A))},\"trules\":{showStrs (algs.map (fun a => Op.traceRuleSig a A))}"
  let D : Option (MatV GRat) := if nospec then none else some A.den
  let pre := if nospec then pre0 else
    let absD := A.absOp.den
    let bound := maxAbsMat A.rows A.cols absD.f
    let tb : Rat := if sq then (Op.traceSpec absD.f A.rows).re else 0
    pre0 ++ s!",\"absbound\":{bound},\"tracebound\":{showQ tb}"
  if call == "batch" then
    let items ← jArr ((j.getObjVal? "items").toOption.getD .null)
    let rs ← items.toList.mapM (answerItem A D)
    pure ("{" ++ pre ++ ",\"results\":[" ++ ",".intercalate rs ++ "]}")
  else
    let r ← answerItem A D j
    -- splice the fields of the single answer into the top-level object
    pure ("{" ++ pre ++ "," ++ (r.drop 1).toString)

def main : IO Unit := driverMain handle
