import ColaVerif.DriverLib
import ColaVerif.Model.RuleSkeleton

/-!
Line-protocol driver of C19 (cost level): the operator is given by its SHAPE tree only
(`["dense", r, c]`, `["tri", r, c]`, `["sparse", r, c, [[i, j]…]]`, `["scalar", n]`, `["eye", n]`, `["diag", n]`,
`["tridiag", n]`, `["perm", n]`, `["house", n]`, `["T", e]`, `["prod", e…]`, `["sum", e…]`, `["kron", e…]`, `["kronsum", e…]`,
`["bdiag", [e…], [mult…]]`, `["ann", e]`); payloads are irrelevant for `allocs`, `vol`, `dens`.

Input  `{"id":…, "op": shape tree, "b": columns}` or `{"id":…, "op": shape tree, "bs": [columns…]}` (round 3: one case per
operator — `wf` of a Permutation / Sparse leaf is quadratic in its size and was recomputed for every `b`); with `bs` the answer
carries `"per_b": [{"b":…, "allocs":[…], "peak":…}…]` and the top-level `allocs` / `peak` are those of the first `b`.
Output `{"id":…, "rows":…, "cols":…, "vol":…, "leaf":…, "inScope":…, "wf":…, "square":…,
         "allocs":[…], "peak":…, "lvl":…, "factorDense":…, "linSize":…,
         "rules": {fn: {"has": bool, "deep": bool, "cost": ruleCost, "dens": [[rows, cols] …]}}}`
(`peak` = `Op.peakMM`, `lvl` = `Op.lvl`: the right-hand side of theorem C19_matmat_peak is `lvl·vol·b + leaf`).
Run with `lake env lean --run DriverC19.lean < cases.jsonl`.
-/

open Lean (Json)

partial def jShape (j : Json) : E (Op Int) := do
  let a ← jArr j
  let tag ← jStr (a.getD 0 .null)
  let arg (i : Nat) : Json := a.getD i .null
  let rest : E (List (Op Int)) := (a.toList.drop 1).mapM jShape
  match tag with
  | "dense" => pure (.dense .f64 (← jNat (arg 1)) (← jNat (arg 2)) (fun _ _ => 0))
  | "tri" => pure (.tri .f64 (← jNat (arg 1)) (← jNat (arg 2)) true (fun _ _ => 0))
  | "sparse" => do
      let co ← (← jArr (arg 3)).toList.mapM fun p => do
        let q ← jArr p
        pure ((← jNat (q.getD 0 .null)), (← jNat (q.getD 1 .null)), (0 : Int))
      pure (.sparse .f64 (← jNat (arg 1)) (← jNat (arg 2)) co)
  | "house" => pure (.house .f64 (← jNat (arg 1)) (fun _ => 0) 2)
  | "T" => pure (.transpose (← jShape (arg 1)))
  | "scalar" => pure (.scalar .f64 1 (← jNat (arg 1)))
  | "eye" => pure (.eye .f64 (← jNat (arg 1)))
  | "diag" => pure (.diag .f64 (← jNat (arg 1)) (fun _ => 1))
  | "tridiag" => pure (.tridiag .f64 (← jNat (arg 1)) (fun _ => 0) (fun _ => 1) (fun _ => 0))
  | "perm" => pure (.perm .f64 (List.range (← jNat (arg 1))))
  | "prod" => pure (.prod (← rest))
  | "sum" => pure (.sum (← rest))
  | "kron" => pure (.kron (← rest))
  | "kronsum" => pure (.kronsum (← rest))
  | "bdiag" => do
      let ms ← (← jArr (arg 1)).toList.mapM jShape
      let mu ← (← jArr (arg 2)).toList.mapM jNat
      pure (.bdiag ms mu)
  | "ann" => pure (.annot .psd (← jShape (arg 1)))
  | t => throw s!"shape tag {t}"

def showNats (l : List Nat) : String := "[" ++ ",".intercalate (l.map toString) ++ "]"
def showB (b : Bool) : String := if b then "true" else "false"

def fnName : Op.Fn → String
  | .inv => "inv" | .slogdet => "slogdet" | .diag => "diag" | .trace => "trace" | .unary => "unary"
  | .exp => "exp" | .pow => "pow" | .chol => "chol" | .plu => "plu"

def handle (j : Json) : E String := do
  let id := (j.getObjVal? "id").toOption.getD .null
  let A ← jShape ((j.getObjVal? "op").toOption.getD .null)
  let bs ← match j.getObjVal? "bs" with
    | .ok v => (← jArr v).toList.mapM jNat
    | .error _ => do pure [← jNat ((j.getObjVal? "b").toOption.getD .null)]
  let b := bs.headD 1
  let rules := Op.Fn.all.map fun f =>
    let ds := (Op.dens f A).map fun D => showNats [D.rows, D.cols]
    s!"\"{fnName f}\":\{\"has\":{showB (Op.hasRule f A)},\"deep\":{showB (Op.deepRule f A)},\"cost\":{Op.ruleCost f A},\"dens\":[{",".intercalate ds}]}"
  let perB := bs.map fun k => s!"\{\"b\":{k},\"allocs\":{showNats (A.allocs k)},\"peak\":{A.peakMM k}}"
  return "{\"id\":" ++ id.compress ++
    s!",\"rows\":{A.rows},\"cols\":{A.cols},\"vol\":{A.vol},\"leaf\":{A.leafStorage}" ++
    s!",\"inScope\":{showB A.inScope},\"wf\":{showB A.wf},\"square\":{showB A.squareLeaves}" ++
    s!",\"allocs\":{showNats (A.allocs b)},\"peak\":{A.peakMM b},\"lvl\":{A.lvl}" ++
    s!",\"per_b\":[{",".intercalate perB}]" ++
    s!",\"factorDense\":{A.factorDense},\"linSize\":{A.linSize},\"rules\":\{{",".intercalate rules}}}"

def main : IO Unit := driverMain handle
