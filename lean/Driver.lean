import ColaVerif.DriverLib
import ColaVerif.Model.KernelOp

/-!
Line-protocol driver of the operator-tree family (C01, C02, C03, C05, C20): one JSON case per
input line, one JSON answer per output line.
Run with `lake env lean --run Driver.lean < cases.jsonl`.
-/

open Lean (Json)

def handle (j : Json) : E String := do
  let id := (j.getObjVal? "id").toOption.getD .null
  let call ← jStr ((j.getObjVal? "call").toOption.getD .null)
  if call == "expr" then return (← handleExpr j)
  if call == "kernel" then
    let km ← jMat ((j.getObjVal? "K").toOption.getD .null)
    let xm ← jMat ((j.getObjVal? "x").toOption.getD .null)
    let n ← jNat ((j.getObjVal? "n").toOption.getD .null)
    let m ← jNat ((j.getObjVal? "m").toOption.getD .null)
    let bs1 ← jNat ((j.getObjVal? "bs1").toOption.getD .null)
    let bs2 ← jNat ((j.getObjVal? "bs2").toOption.getD .null)
    let b := (xm.getD 0 #[]).size
    let K := (forceV n m (matF km)).f
    let X := (forceV m b (matF xm)).f
    let code := (forceV n b (kernelMatmat K n m bs1 bs2 X).f).f
    let spec := (forceV n b (mmul m K X)).f
    return "{\"id\":" ++ id.compress ++ ",\"code\":" ++ showMat n b code ++ ",\"spec\":" ++ showMat n b spec ++ "}"
  if call == "resolve" then
    -- primitive stream: `np.arange(n)[ix]`
    let n ← jNat ((j.getObjVal? "n").toOption.getD .null)
    let ix ← jIx ((j.getObjVal? "ix").toOption.getD .null)
    let r := match Ix.resolve n ix with
      | some l => "[" ++ ",".intercalate (l.map toString) ++ "]"
      | none => "null"
    return "{\"id\":" ++ id.compress ++ ",\"res\":" ++ r ++ "}"
  let A ← jOp ((j.getObjVal? "op").toOption.getD .null)
  let pre := s!"\"id\":{id.compress},{header A}"
  match call with
  | "matmat" => do
      let xm ← jMat ((j.getObjVal? "x").toOption.getD .null)
      let b := (xm.getD 0 #[]).size
      let X := (forceV A.cols b (matF xm)).f
      let code := (A.mm b X).f
      let spec := (forceV A.rows b (mmul A.cols A.den.f X)).f
      let bound := maxAbsMat A.rows b (A.absOp.mm b (forceV A.cols b (absMat X)).f).f
      pure ("{" ++ pre ++ s!",\"code\":{showMat A.rows b code},\"spec\":{showMat A.rows b spec},\"absbound\":{bound}" ++ "}")
  | "rmatmat" => do
      let xm ← jMat ((j.getObjVal? "x").toOption.getD .null)
      let b := xm.size
      let X := (forceV b A.rows (matF xm)).f
      let code := (A.rmm b X).f
      let spec := (forceV b A.cols (mmul A.rows X A.den.f)).f
      let bound := maxAbsMat b A.cols (A.absOp.rmm b (forceV b A.rows (absMat X)).f).f
      pure ("{" ++ pre ++ s!",\"code\":{showMat b A.cols code},\"spec\":{showMat b A.cols spec},\"absbound\":{bound}" ++ "}")
  | "dense" => do
      let code := A.td.f
      let spec := A.den.f
      let bound := maxAbsMat A.rows A.cols A.absOp.td.f
      pure ("{" ++ pre ++ s!",\"code\":{showMat A.rows A.cols code},\"spec\":{showMat A.rows A.cols spec},\"absbound\":{bound}" ++ "}")
  | "info" => pure ("{" ++ pre ++ s!",\"skel\":{skel A},\"den\":{showMat A.rows A.cols A.den.f}" ++ "}")
  | "tower" => do
      let tw := parseTower (← jStr ((j.getObjVal? "tower").toOption.getD .null))
      let B := A.tower tw
      let code := B.td.f
      let spec := (forceV B.rows B.cols (Op.towerDen A.den.f tw)).f
      let bound := maxAbsMat B.rows B.cols B.absOp.td.f
      pure ("{" ++ pre ++ s!",\"rrows\":{B.rows},\"rcols\":{B.cols},\"rdtype\":\"{B.dtype.toString}\",\"ranns\":{showAnns B.anns},\"skel\":{skel B},\"code\":{showMat B.rows B.cols code},\"spec\":{showMat B.rows B.cols spec},\"absbound\":{bound}" ++ "}")
  | "getitem" => do
      let ids ← (← jArr ((j.getObjVal? "ids").toOption.getD .null)).toList.mapM jGIx
      let code := A.getitem ids
      let spec := Op.npIndex A.rows A.cols A.den.f ids
      let specS := match spec with
        | .op B => "{\"kind\":\"op\",\"rows\":" ++ toString B.rows ++ ",\"cols\":" ++ toString B.cols ++ ",\"value\":" ++ showMat B.rows B.cols B.den.f ++ "}"
        | r => showRes r
      let bound := maxAbsMat A.rows A.cols A.absOp.td.f
      pure ("{" ++ pre ++ s!",\"code\":{showRes code},\"spec\":{specS},\"absbound\":{bound}" ++ "}")
  | c => throw s!"unknown call {c}"

def main : IO Unit := driverMain handle
