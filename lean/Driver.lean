import Lean.Data.Json
import ColaVerif.Basic.GRat
import ColaVerif.Model.Matmat
import ColaVerif.Model.Wf
import ColaVerif.Model.Bound
import ColaVerif.Model.Index

/-!
Line-protocol driver: one JSON case per input line, one JSON answer per output line.
Run with `lake env lean --run Driver.lean < cases.jsonl`.
-/

open Lean (Json)

abbrev E := Except String

def jInt (j : Json) : E Int :=
  match j.getInt? with | .ok n => pure n | .error e => throw s!"int expected: {e}"
def jNat (j : Json) : E Nat := do
  let n ← jInt j
  if n < 0 then throw "nat expected" else pure n.toNat
def jArr (j : Json) : E (Array Json) :=
  match j with | .arr a => pure a | _ => throw s!"array expected, got {j.compress}"
def jStr (j : Json) : E String :=
  match j with | .str s => pure s | _ => throw "string expected"
def jBool (j : Json) : E Bool :=
  match j with | .bool b => pure b | _ => throw "bool expected"

def jQ (j : Json) : E Rat :=
  match j.getObjVal? "q" with
  | .ok (.arr #[n, d]) => do
      let dn ← jNat d
      if dn == 0 then throw "zero denominator" else pure (mkRat (← jInt n) dn)
  | _ => do pure ((← jInt j : Int) : Rat)

def jZ (j : Json) : E GRat :=
  match j with
  | .arr #[a, b] => do pure ⟨← jQ a, ← jQ b⟩
  | _ => do pure ⟨← jQ j, 0⟩

def jDt (j : Json) : E DType := do
  match ← jStr j with
  | "f32" => pure .f32 | "f64" => pure .f64 | "c64" => pure .c64 | "c128" => pure .c128
  | s => throw s!"dtype {s}"

def jAnn (j : Json) : E Ann := do
  match ← jStr j with
  | "SelfAdjoint" => pure .selfAdjoint | "PSD" => pure .psd
  | "Stiefel" => pure .stiefel | "Unitary" => pure .unitary
  | s => throw s!"ann {s}"

def jVec (j : Json) : E (Array GRat) := do (← jArr j).mapM jZ
def jMat (j : Json) : E (Array (Array GRat)) := do (← jArr j).mapM jVec

def vecF (v : Array GRat) : Nat → GRat := fun i => v.getD i 0
def matF (m : Array (Array GRat)) : MatF GRat := fun i j => (m.getD i #[]).getD j 0

def jOptInt (j : Json) : E (Option Int) :=
  match j with | .null => pure none | _ => do pure (some (← jInt j))

def jIx (j : Json) : E Ix := do
  match j.getObjVal? "s" with
  | .ok (.arr #[a, b, c]) => pure (.slice (← jOptInt a) (← jOptInt b) (← jOptInt c))
  | _ =>
    match j.getObjVal? "a" with
    | .ok l => do pure (.arr (← (← jArr l).toList.mapM jInt))
    | _ => throw s!"ix: {j.compress}"

partial def jOp (j : Json) : E (Op GRat) := do
  let a ← jArr j
  let tag ← jStr (a.getD 0 .null)
  let arg (i : Nat) : Json := a.getD i .null
  let rest : E (List (Op GRat)) := (a.toList.drop 1).mapM jOp
  match tag with
  | "dense" => pure (.dense (← jDt (arg 1)) (← jNat (arg 2)) (← jNat (arg 3)) (matF (← jMat (arg 4))))
  | "tri" => pure (.tri (← jDt (arg 1)) (← jNat (arg 2)) (← jNat (arg 3)) (← jBool (arg 4)) (matF (← jMat (arg 5))))
  | "sparse" => do
      let ents ← (← jArr (arg 4)).toList.mapM fun e => do
        let t ← jArr e
        pure ((← jNat (t.getD 0 .null)), (← jNat (t.getD 1 .null)), (← jZ (t.getD 2 .null)))
      pure (.sparse (← jDt (arg 1)) (← jNat (arg 2)) (← jNat (arg 3)) ents)
  | "scalar" => pure (.scalar (← jDt (arg 1)) (← jZ (arg 2)) (← jNat (arg 3)))
  | "eye" => pure (.eye (← jDt (arg 1)) (← jNat (arg 2)))
  | "prod" => pure (.prod (← rest))
  | "sum" => pure (.sum (← rest))
  | "kron" => pure (.kron (← rest))
  | "kronsum" => pure (.kronsum (← rest))
  | "bdiag" => do
      let ms ← (← jArr (arg 1)).toList.mapM jOp
      let mu ← (← jArr (arg 2)).toList.mapM jNat
      pure (.bdiag ms mu)
  | "diag" => do
      let v ← jVec (arg 2)
      pure (.diag (← jDt (arg 1)) v.size (vecF v))
  | "tridiag" => do
      let be ← jVec (arg 3)
      pure (.tridiag (← jDt (arg 1)) be.size (vecF (← jVec (arg 2))) (vecF be) (vecF (← jVec (arg 4))))
  | "T" => pure (.transpose (← jOp (arg 1)))
  | "H" => pure (.adjoint (← jOp (arg 1)))
  | "slice" => pure (.sliced (← jOp (arg 1)) (← jIx (arg 2)) (← jIx (arg 3)))
  | "perm" => pure (.perm (← jDt (arg 1)) (← (← jArr (arg 2)).toList.mapM jNat))
  | "concat" => do
      let ax ← jNat (arg 1)
      pure (.concat (ax == 1) (← (a.toList.drop 2).mapM jOp))
  | "house" => do
      let v ← jVec (arg 2)
      pure (.house (← jDt (arg 1)) v.size (vecF v) (← jZ (arg 3)))
  | "generic" => pure (.generic (← jOp (arg 1)))
  | "ann" => pure (.annot (← jAnn (arg 1)) (← jOp (arg 2)))
  | t => throw s!"unknown op tag {t}"

def showQ (q : Rat) : String := if q.den == 1 then toString q.num else s!"\"{q.num}/{q.den}\""
def showZ (z : GRat) : String := s!"[{showQ z.re},{showQ z.im}]"
def showMat (r c : Nat) (m : MatF GRat) : String :=
  "[" ++ ",".intercalate ((List.range r).map fun i =>
    "[" ++ ",".intercalate ((List.range c).map fun j => showZ (m i j)) ++ "]") ++ "]"
def maxAbsMat (r c : Nat) (m : MatF GRat) : String :=
  showQ ((List.range r).foldl (fun acc i => (List.range c).foldl (fun acc j => max acc (m i j).absL1) acc) 0)
def showAnns (s : AnnSet) : String :=
  "[" ++ ",".intercalate ((AnnSet.canon s).map fun a => "\"" ++ a.toString ++ "\"") ++ "]"

def showStrs (l : List String) : String :=
  "[" ++ ",".intercalate (l.map fun s => "\"" ++ s ++ "\"") ++ "]"

def header (A : Op GRat) : String :=
  s!"\"rows\":{A.rows},\"cols\":{A.cols},\"dtype\":\"{A.dtype.toString}\",\"anns\":{showAnns A.anns},\"wf\":{A.wf},\"clauses\":{showStrs A.clauses}"

def absMat (m : MatF GRat) : MatF GRat := fun i j => Op.absZ (m i j)

def kindName : Op GRat → String
  | .dense .. => "dense" | .tri .. => "tri" | .sparse .. => "sparse" | .scalar .. => "scalar"
  | .eye .. => "eye" | .prod _ => "prod" | .sum _ => "sum" | .kron _ => "kron" | .kronsum _ => "kronsum"
  | .bdiag .. => "bdiag" | .diag .. => "diag" | .tridiag .. => "tridiag" | .transpose _ => "T"
  | .adjoint _ => "H" | .sliced .. => "slice" | .perm .. => "perm" | .concat .. => "concat"
  | .house .. => "house" | .generic _ => "generic" | .annot .. => "ann"

/-- kind tree of an operator: [kind, annotations, children…] (declaration wrappers are not nodes) -/
partial def skel (A : Op GRat) : String :=
  let c := A.core
  let kids : List (Op GRat) := match c with
    | .prod Ms => Ms | .sum Ms => Ms | .kron Ms => Ms | .kronsum Ms => Ms | .bdiag Ms _ => Ms
    | .concat _ Ms => Ms | .transpose B => [B] | .adjoint B => [B] | .sliced B _ _ => [B]
    | _ => []   -- `generic` keeps only the product function of its argument, not the operator
  "[" ++ ",".intercalate (["\"" ++ kindName c ++ "\"", showAnns A.anns] ++ kids.map skel) ++ "]"

def showVec (n : Nat) (v : Nat → GRat) : String :=
  "[" ++ ",".intercalate ((List.range n).map fun i => showZ (v i)) ++ "]"

def jGIx (j : Json) : E GIx := do
  match j.getObjVal? "i" with
  | .ok v => pure (.int (← jInt v))
  | _ =>
    match j.getObjVal? "l" with
    | .ok l => do pure (.list (← (← jArr l).toList.mapM jInt))
    | _ => do pure (.ix (← jIx j))

def showRes (r : GRes GRat) : String :=
  match r with
  | .scalar z => "{\"kind\":\"scalar\",\"value\":" ++ showZ z ++ "}"
  | .vec n v => "{\"kind\":\"vec\",\"value\":" ++ showVec n v ++ "}"
  | .op B => "{\"kind\":\"op\",\"rows\":" ++ toString B.rows ++ ",\"cols\":" ++ toString B.cols
      ++ ",\"value\":" ++ showMat B.rows B.cols B.td.f ++ ",\"skel\":" ++ skel B ++ ",\"anns\":" ++ showAnns B.anns ++ "}"
  | .err e => "{\"kind\":\"err\",\"value\":\"" ++ e ++ "\"}"

def parseTower (s : String) : List Bool := s.toList.map (fun ch => ch == 'T')

def handle (j : Json) : E String := do
  let id := (j.getObjVal? "id").toOption.getD .null
  let call ← jStr ((j.getObjVal? "call").toOption.getD .null)
  let A ← jOp ((j.getObjVal? "op").toOption.getD .null)
  let pre := s!"\"id\":{id.compress},{header A}"
  match call with
  | "matmat" => do
      let xm ← jMat ((j.getObjVal? "x").toOption.getD .null)
      let b := (xm.getD 0 #[]).size
      let X := (forceV A.cols b (matF xm)).f
      let code := (A.mm b X).f
      let spec := (forceV A.rows b (mmul A.cols A.den.f X)).f
      let bound := maxAbsMat A.rows b (A.absOp.mm b (forceV A.cols b (absMat X)).f).f
      pure ("{" ++ pre ++ s!",\"code\":{showMat A.rows b code},\"spec\":{showMat A.rows b spec},\"absbound\":{bound}" ++ "}")
  | "rmatmat" => do
      let xm ← jMat ((j.getObjVal? "x").toOption.getD .null)
      let b := xm.size
      let X := (forceV b A.rows (matF xm)).f
      let code := (A.rmm b X).f
      let spec := (forceV b A.cols (mmul A.rows X A.den.f)).f
      let bound := maxAbsMat b A.cols (A.absOp.rmm b (forceV b A.rows (absMat X)).f).f
      pure ("{" ++ pre ++ s!",\"code\":{showMat b A.cols code},\"spec\":{showMat b A.cols spec},\"absbound\":{bound}" ++ "}")
  | "dense" => do
      let code := A.td.f
      let spec := A.den.f
      let bound := maxAbsMat A.rows A.cols A.absOp.td.f
      pure ("{" ++ pre ++ s!",\"code\":{showMat A.rows A.cols code},\"spec\":{showMat A.rows A.cols spec},\"absbound\":{bound}" ++ "}")
  | "info" => pure ("{" ++ pre ++ s!",\"skel\":{skel A},\"den\":{showMat A.rows A.cols A.den.f}" ++ "}")
  | "tower" => do
      let tw := parseTower (← jStr ((j.getObjVal? "tower").toOption.getD .null))
      let B := A.tower tw
      let code := B.td.f
      let spec := (forceV B.rows B.cols (Op.towerDen A.den.f tw)).f
      let bound := maxAbsMat B.rows B.cols B.absOp.td.f
      pure ("{" ++ pre ++ s!",\"rrows\":{B.rows},\"rcols\":{B.cols},\"rdtype\":\"{B.dtype.toString}\",\"ranns\":{showAnns B.anns},\"skel\":{skel B},\"code\":{showMat B.rows B.cols code},\"spec\":{showMat B.rows B.cols spec},\"absbound\":{bound}" ++ "}")
  | "getitem" => do
      let ids ← (← jArr ((j.getObjVal? "ids").toOption.getD .null)).toList.mapM jGIx
      let code := A.getitem ids
      let spec := Op.npIndex A.rows A.cols A.den.f ids
      let specS := match spec with
        | .op B => "{\"kind\":\"op\",\"rows\":" ++ toString B.rows ++ ",\"cols\":" ++ toString B.cols ++ ",\"value\":" ++ showMat B.rows B.cols B.den.f ++ "}"
        | r => showRes r
      let bound := maxAbsMat A.rows A.cols A.absOp.td.f
      pure ("{" ++ pre ++ s!",\"code\":{showRes code},\"spec\":{specS},\"absbound\":{bound}" ++ "}")
  | c => throw s!"unknown call {c}"

partial def loop (h : IO.FS.Stream) (out : IO.FS.Stream) : IO Unit := do
  let line ← h.getLine
  if line.isEmpty then return ()
  let t := line.trimAscii.toString
  if t.isEmpty then loop h out else
  let ans := match Json.parse t with
    | .error e => "{\"error\":" ++ (Json.str s!"parse: {e}").compress ++ "}"
    | .ok j =>
      match handle j with
      | .ok s => s
      | .error e =>
        let id := (j.getObjVal? "id").toOption.getD .null
        "{\"id\":" ++ id.compress ++ ",\"error\":" ++ (Json.str e).compress ++ "}"
  out.putStrLn ans
  loop h out

def main : IO Unit := do
  let out ← IO.getStdout
  loop (← IO.getStdin) out
  out.flush
