import ColaVerif.DriverLib
import ColaVerif.Model.KernelOp
import ColaVerif.Model.MatmatDtype

/-!
Line-protocol driver of the operator-tree family (C01, C02, C03, C05, C20): one JSON case per
input line, one JSON answer per output line.
Run with `lake env lean --run Driver.lean < cases.jsonl`.
-/

open Lean (Json)

/-- `header` of DriverLib plus the SPECIFICATION of the operator's dtype (`Op.dtypeSpec`: join of the
leaf dtypes, Model/Dtype.lean) next to the code-model dtype -/
def headerDt (A : Op GRat) : String :=
  header A ++ s!",\"dtypeSpec\":\"{A.dtypeSpec.toString}\""

/-- code-model and specification dtype of the array a product with an operand of dtype `xdt`
returns; without an operand (`to_dense`, indexing) the operator's own dtype.  The code-model value
is the RECURSIVE dtype model of Model/MatmatDtype.lean (`Op.mmDt` for `A @ X`, `Op.rmmDt` for
`X @ A`: what each class's `_matmat` / `_rmatmat` does with dtypes); `resdtPromote` (READ by treecheck.observations as an independent specification value of `resdt`) is the round-2
value `promote_types(A.dtype, X.dtype)` (`Op.mmDtype`), equal to it on every `wf` tree
(`C01_result_dtype_promote`). -/
def resDt (A : Op GRat) (call : String) (j : Json) : E String := do
  match (j.getObjVal? "xdt").toOption with
  | some x => do
      let xdt ← jDt x
      let code := if call == "rmatmat" then A.rmmDt xdt else A.mmDt xdt
      pure s!",\"resdt\":\"{code.toString}\",\"resdtPromote\":\"{(A.mmDtype xdt).toString}\",\"resdtSpec\":\"{(A.mmDtypeSpec xdt).toString}\""
  | none => pure s!",\"resdt\":\"{A.dtype.toString}\",\"resdtSpec\":\"{A.dtypeSpec.toString}\""

/-- `expr` cases (C03): code model `Ex.eval`, specification `Ex.meaning` for shape and entries,
`Ex.dtypeSpec` for the dtype and `Ex.yieldsArr` for array-versus-operator -/
def handleExprDt (j : Json) : E String := do
  let id := (j.getObjVal? "id").toOption.getD .null
  let e ← jEx ((j.getObjVal? "ex").toOption.getD .null)
  let code := match e.eval (fun z => ⟨z.re, 0⟩) with
    | .ok v => showVal v
    | .error err => "{\"kind\":\"err\",\"value\":\"" ++ err ++ "\"}"
  let spec := match e.meaning with
    | some (r, c, m) => "{\"kind\":\"mat\",\"rows\":" ++ toString r ++ ",\"cols\":" ++ toString c
        ++ ",\"dtype\":\"" ++ e.dtypeSpec.toString ++ "\",\"isarr\":" ++ toString e.yieldsArr
        ++ ",\"value\":" ++ showMat r c (forceV r c m).f ++ "}"
    | none => "{\"kind\":\"none\"}"
  let cl := showStrs (e.clauses (fun z => ⟨z.re, 0⟩))
  let rcl := showStrs (e.rootClauses (fun z => ⟨z.re, 0⟩))
  pure ("{\"id\":" ++ id.compress ++ ",\"wf\":true,\"clauses\":" ++ cl ++ ",\"rootClauses\":" ++ rcl ++ ",\"code\":" ++ code ++ ",\"spec\":" ++ spec ++ "}")

def handle (j : Json) : E String := do
  let id := (j.getObjVal? "id").toOption.getD .null
  let call ← jStr ((j.getObjVal? "call").toOption.getD .null)
  if call == "expr" then return (← handleExprDt j)
  if call == "kernel" then
    let km ← jMat ((j.getObjVal? "K").toOption.getD .null)
    let xm ← jMat ((j.getObjVal? "x").toOption.getD .null)
    let n ← jNat ((j.getObjVal? "n").toOption.getD .null)
    let m ← jNat ((j.getObjVal? "m").toOption.getD .null)
    let bs1 ← jNat ((j.getObjVal? "bs1").toOption.getD .null)
    let bs2 ← jNat ((j.getObjVal? "bs2").toOption.getD .null)
    let b := (xm.getD 0 #[]).size
    let K := (forceV n m (matF km)).f
    let X := (forceV m b (matF xm)).f
    let code := (forceV n b (kernelMatmat K n m bs1 bs2 X).f).f
    let spec := (forceV n b (mmul m K X)).f
    return "{\"id\":" ++ id.compress ++ ",\"code\":" ++ showMat n b code ++ ",\"spec\":" ++ showMat n b spec ++ "}"
  if call == "resolve" then
    -- primitive stream: `np.arange(n)[ix]`
    let n ← jNat ((j.getObjVal? "n").toOption.getD .null)
    let ix ← jIx ((j.getObjVal? "ix").toOption.getD .null)
    let r := match Ix.resolve n ix with
      | some l => "[" ++ ",".intercalate (l.map toString) ++ "]"
      | none => "null"
    return "{\"id\":" ++ id.compress ++ ",\"res\":" ++ r ++ "}"
  let A ← jOp ((j.getObjVal? "op").toOption.getD .null)
  let pre := s!"\"id\":{id.compress},{headerDt A}{← resDt A call j}"
  match call with
  | "matmat" => do
      let xm ← jMat ((j.getObjVal? "x").toOption.getD .null)
      let b := (xm.getD 0 #[]).size
      let X := (forceV A.cols b (matF xm)).f
      let code := (A.mm b X).f
      let spec := (forceV A.rows b (mmul A.cols A.den.f X)).f
      let bound := maxAbsMat A.rows b (A.absOp.mm b (forceV A.cols b (absMat X)).f).f
      pure ("{" ++ pre ++ s!",\"code\":{showMat A.rows b code},\"spec\":{showMat A.rows b spec},\"absbound\":{bound}" ++ "}")
  | "rmatmat" => do
      let xm ← jMat ((j.getObjVal? "x").toOption.getD .null)
      let b := xm.size
      let X := (forceV b A.rows (matF xm)).f
      let code := (A.rmm b X).f
      let spec := (forceV b A.cols (mmul A.rows X A.den.f)).f
      let bound := maxAbsMat b A.cols (A.absOp.rmm b (forceV b A.rows (absMat X)).f).f
      pure ("{" ++ pre ++ s!",\"code\":{showMat b A.cols code},\"spec\":{showMat b A.cols spec},\"absbound\":{bound}" ++ "}")
  | "dense" => do
      let code := A.td.f
      let spec := A.den.f
      let bound := maxAbsMat A.rows A.cols A.absOp.td.f
      pure ("{" ++ pre ++ s!",\"code\":{showMat A.rows A.cols code},\"spec\":{showMat A.rows A.cols spec},\"absbound\":{bound}" ++ "}")
  | "info" => pure ("{" ++ pre ++ s!",\"skel\":{skel A},\"den\":{showMat A.rows A.cols A.den.f}" ++ "}")
  | "tower" => do
      let tw := parseTower (← jStr ((j.getObjVal? "tower").toOption.getD .null))
      let B := A.tower tw
      let code := B.td.f
      let spec := (forceV B.rows B.cols (Op.towerDen A.den.f tw)).f
      let bound := maxAbsMat B.rows B.cols B.absOp.td.f
      pure ("{" ++ pre ++ s!",\"rrows\":{B.rows},\"rcols\":{B.cols},\"rdtype\":\"{B.dtype.toString}\",\"rdtypeSpec\":\"{A.dtypeSpec.toString}\",\"ranns\":{showAnns B.anns},\"skel\":{skel B},\"code\":{showMat B.rows B.cols code},\"spec\":{showMat B.rows B.cols spec},\"absbound\":{bound}" ++ "}")
  | "getitem" => do
      let ids ← (← jArr ((j.getObjVal? "ids").toOption.getD .null)).toList.mapM jGIx
      let code := A.getitem ids
      let spec := Op.npIndex A.rows A.cols A.den.f ids
      let specS := match spec with
        | .op B => "{\"kind\":\"op\",\"rows\":" ++ toString B.rows ++ ",\"cols\":" ++ toString B.cols ++ ",\"value\":" ++ showMat B.rows B.cols B.den.f ++ "}"
        | r => showRes r
      let bound := maxAbsMat A.rows A.cols A.absOp.td.f
      -- `den`: the represented matrix; `codeDense`: the code model's OWN dense matrix of the operand (`Op.td`, what
      -- `A.to_dense()` computes - differs from `den` only under a tree-level clause); `tdIndex`: NumPy indexing of
      -- `codeDense`.  With them the harness attributes a code/spec difference entry by entry: an entry is excused by a
      -- tree-level clause only if the operand's own entry differs there and the answer inherits exactly that entry
      -- `codeDenseR` / `tdIndexR`: the same through `X @ A` (`Op.rmm` on the identity): rows are read by `e_i @ A`
      let showIdx (r : GRes GRat) : String := match r with
        | .op B => "{\"kind\":\"op\",\"rows\":" ++ toString B.rows ++ ",\"cols\":" ++ toString B.cols ++ ",\"value\":" ++ showMat B.rows B.cols B.den.f ++ "}"
        | r => showRes r
      let tdS := showIdx (Op.npIndex A.rows A.cols A.td.f ids)
      let tdR := (A.rmm A.rows (forceV A.rows A.rows eyeM).f).f
      let tdRS := showIdx (Op.npIndex A.rows A.cols tdR ids)
      -- `codeDenseM` / `tdIndexM`: the same through `A @ X` (`Op.mm` on the identity) whatever path `to_dense` takes: columns
      -- are read by `A @ e_j`, and `Op.td` of a wide operand (8 * rows < cols) goes through `I @ A` instead
      let tdM := (A.mm A.cols (forceV A.cols A.cols eyeM).f).f
      let tdMS := showIdx (Op.npIndex A.rows A.cols tdM ids)
      pure ("{" ++ pre ++ s!",\"code\":{showRes code},\"spec\":{specS},\"den\":{showMat A.rows A.cols A.den.f},\"codeDense\":{showMat A.rows A.cols A.td.f},\"tdIndex\":{tdS},\"codeDenseR\":{showMat A.rows A.cols tdR},\"tdIndexR\":{tdRS},\"codeDenseM\":{showMat A.rows A.cols tdM},\"tdIndexM\":{tdMS},\"absbound\":{bound}" ++ "}")
  | c => throw s!"unknown call {c}"

def main : IO Unit := driverMain handle
