import ColaVerif.DriverLib
import ColaVerif.Model.Inv
import ColaVerif.Lemmas.InvInstances

/-!
Line-protocol driver of C06 (`cola.linalg.inv` / `solve`).  One JSON case per input line:

* `{"id", "call":"inv", "alg": "omitted"|"Auto"|"LU"|"Cholesky"|"CG"|"GMRES"|"Other",
   "opts": {"tol": {"q":[num,den]} | null, "max_iters": n | null}   (the keyword arguments the algorithm object
   was built with; absent = none), "op": expr,
   "x": rows of the right-hand side (n × k), "xl": rows of the left operand (k × n)}` →
  the CODE model (`Inv.invRule` instantiated with exact Gaussian-rational factorisations / solver):
  kind tree, shape, dtype, `to_dense`, `B @ x`, `xl @ B`, `B.T.to_dense()`, `solvers` = the solver objects inside
  the result with their options (`InvOp.solvers`; `C06_solver_options`), `mm_clauses` / `dense_clauses` (the recorded GMRES
  clauses that reach `B @ x` / `B.to_dense()`) and `mm_col_clauses` / `dense_col_clauses` (the same per column), and the SPEC (the exact
  inverse of `den A` by Gauss–Jordan elimination, checked by multiplication in the driver);
* `{"id", "call":"auto", "psd": bool, "rows", "cols", "opts"}` → the Auto decision table: the selected algorithm
  and, for CG / GMRES, the options of the object `Auto(**opts)` builds (`autoChoice`);
* `{"id", "call":"skel", "alg", "op": expr}` → rule selection only (`Inv.invRule` with a parameter set
  whose factorisations / solver compute nothing): kind tree, shape, dtype of the result or the
  predicted error.  Used by the float-side stream of c06.py (n up to 200, payloads omitted: the
  selection does not read them).
Run with `lake env lean --run DriverC06.lean < cases.jsonl`.

**What in this file has NO theorem behind it.**  `iterSees` / `kronSees` / `bdiagSees` / `denseSees` (which operand
each `IterativeOperatorWInfo` node of the result receives while `B @ X` / `B.to_dense()` is evaluated),
`colSees` / `denseColSees` (the same question per column of the product: round 5, the harness excuses only the
columns a clause is attributed to and compares the others), `zeroColumn` / `badZeroCol`, `gradeOf` (exact elimination: dimension of the Krylov space) and `badBreakdown` are
EXECUTABLE DIAGNOSTICS.  They are `partial def`s / plain programs defined here, no theorem of `Properties/C06*`
(or of C13 / C15) mentions them, and nothing is proved about them — in particular not that `iterSees` visits the
operands the model `InvOp.mm` multiplies (it re-implements the member walk of `kronStepV` / the BlockDiag reshape),
nor that `gradeOf` is the grade.  Their only use: the `clauses` output, by which the harness ATTRIBUTES a disagreement
between real code and specification to one of the two recorded, already decided clauses
(`gmres-zero-rhs-column`, `gmres-krylov-breakdown`).  A wrong diagnostic can therefore mis-label a failure
(excuse too much or too little), it cannot make a theorem false; the harness limits the damage by applying a clause
only to the failure class it predicts (NaN / LinAlgError in the solve) and compares everything else exactly.
-/

open Lean (Json)
open Inv

abbrev Mx := Array (Array GRat)

def mxOf (r c : Nat) (f : MatF GRat) : Mx := Array.ofFn (n := r) fun i => Array.ofFn (n := c) fun j => f i.val j.val
def mxF (m : Mx) : MatF GRat := fun i j => (m.getD i #[]).getD j 0
def mxGet (m : Mx) (i j : Nat) : GRat := (m.getD i #[]).getD j 0
def mxSet (m : Mx) (i j : Nat) (v : GRat) : Mx := m.modify i (fun row => row.set! j v)

def absSq (z : GRat) : Rat := z.re * z.re + z.im * z.im

/-! ## exact instances of the external parameters -/

/-- row index of the entry of largest modulus in column `k` among rows `k..n-1` (first one wins,
as LAPACK's `i?amax`) -/
def pivotRow (m : Mx) (n k : Nat) : Nat :=
  (List.range (n - k)).foldl (fun best d =>
    let i := k + d
    if absSq (mxGet m i k) > absSq (mxGet m best k) then i else best) k

structure LUState where
  w : Mx            -- working copy: rows swapped, multipliers stored below the diagonal
  perm : Array Nat  -- perm[k] = original row now at position k

def luStep (n : Nat) (s : LUState) (k : Nat) : LUState :=
  let pr := pivotRow s.w n k
  let w := if pr == k then s.w else (s.w.swapIfInBounds k pr)
  let perm := if pr == k then s.perm else (s.perm.swapIfInBounds k pr)
  let piv := mxGet w k k
  if piv == 0 then { w := w, perm := perm } else
  let pinv := GRat.inv piv
  let w := (List.range (n - k - 1)).foldl (fun w d =>
    let i := k + 1 + d
    let f := mxGet w i k * pinv
    let rowk := w.getD k #[]
    w.modify i (fun row => (row.mapIdx fun j v => if j < k then v else if j == k then f else v - f * rowk.getD j 0))) w
  { w := w, perm := perm }

/-- exact LU with partial pivoting: `(p, L, U)`, `A = P L U` with `(P M)[i] = M[p[i]]`
(the convention of `scipy.linalg.lu(a, p_indices=True)` + `cola.ops.Permutation`) -/
def luExact (n : Nat) (A : MatF GRat) : List Nat × MatV GRat × MatV GRat :=
  let s0 : LUState := { w := mxOf n n A, perm := Array.range n }
  let s := (List.range n).foldl (luStep n) s0
  -- s.w = A[perm] = L U  ⇒  A[i] = (L U)[p[i]] with p = argsort perm
  let p := argsort s.perm.toList
  let L := mxOf n n (fun i j => if j < i then mxGet s.w i j else if i = j then 1 else 0)
  let U := mxOf n n (fun i j => if i ≤ j then mxGet s.w i j else 0)
  (p, forceV n n (mxF L), forceV n n (mxF U))

def natSqrt? (n : Nat) : Option Nat := let s := Nat.sqrt n; if s * s == n then some s else none
/-- square root of a non-negative rational that is a perfect square -/
def ratSqrt? (q : Rat) : Option Rat :=
  if q < 0 then none else
  match natSqrt? q.num.toNat, natSqrt? q.den with
  | some a, some b => some (mkRat a b)
  | _, _ => none

/-- exact Cholesky–Banachiewicz; when a pivot is not the square of a positive rational the
corresponding diagonal entry is left 0 (the contract `L Lᴴ = A` then fails, which the driver
reports through `inv_ok`) -/
def cholExact (n : Nat) (A : MatF GRat) : MatV GRat :=
  let L0 : Mx := mxOf n n (fun _ _ => 0)
  let L := (List.range n).foldl (fun (L : Mx) j =>
    let s := (List.range j).foldl (fun acc k => acc + mxGet L j k * star (mxGet L j k)) (0 : GRat)
    let d := A j j - s
    let djj : GRat := if d.im == 0 then (match ratSqrt? d.re with | some r => ⟨r, 0⟩ | none => 0) else 0
    let L := mxSet L j j djj
    let dinv := GRat.inv djj
    (List.range (n - j - 1)).foldl (fun (L : Mx) t =>
      let i := j + 1 + t
      let s := (List.range j).foldl (fun acc k => acc + mxGet L i k * star (mxGet L j k)) (0 : GRat)
      mxSet L i j ((A i j - s) * dinv)) L) L0
  forceV n n (mxF L)

/-- Gauss–Jordan inverse over ℚ[i] (first non-zero pivot); `none` if singular -/
def gaussInv (n : Nat) (A : MatF GRat) : Option Mx :=
  let aug0 : Mx := mxOf n (2 * n) (fun i j => if j < n then A i j else if j - n = i then 1 else 0)
  let res := (List.range n).foldl (fun (st : Option Mx) k =>
    match st with
    | none => none
    | some m =>
      match (List.range (n - k)).find? (fun d => mxGet m (k + d) k != 0) with
      | none => none
      | some d =>
        let m := if d == 0 then m else m.swapIfInBounds k (k + d)
        let pinv := GRat.inv (mxGet m k k)
        let m := m.modify k (fun row => row.map (· * pinv))
        let rowk := m.getD k #[]
        some (m.mapIdx fun i row => if i == k then row else
          let f := row.getD k 0
          if f == 0 then row else row.mapIdx fun j v => v - f * rowk.getD j 0)) (some aug0)
  res.map fun m => mxOf n n (fun i j => mxGet m i (n + j))

/-- the exact instance of the solver contract: `alg(A, X) = A⁻¹ X` -/
def solveExact (_ : Alg) (A : Op GRat) (b : Nat) (X : MatF GRat) : MatV GRat :=
  match gaussInv A.rows A.den.f with
  | some Ai => forceV A.rows b (mmul A.rows (mxF Ai) X)
  | none => MatV.of zeroM

/-- what the driver runs: the exact (checked) Cholesky / LU of `Model/DecompExec.lean` — for which
`Inv.luContract_gExt` / `Inv.cholContract_gExt` (Lemmas/InvInstances.lean) PROVE the contracts of C06 on
every input on which they return with non-zero diagonals (`contractsOk` below evaluates exactly these
side conditions) — and the Gauss–Jordan solver.  (`luExact` / `cholExact` above are kept as an
independent second implementation: `lapackAgree` compares the two on every LAPACK node.) -/
def EX : Ext GRat := gExtWith solveExact

def winEqG (n : Nat) (a b : MatF GRat) : Bool :=
  (List.range n).all fun i => (List.range n).all fun j => a i j == b i j

/-- the hypotheses of `luContract_gExt` / `cholContract_gExt` at one LAPACK node -/
def nodeContractOk (alg : Alg) (A : Op GRat) : Bool :=
  let n := A.rows
  match effAlg alg (A.isa .psd) (A.rows * A.cols) with
  | .lu => match GDecomp.gluDense n A.td.f with
    | some (_, _, U) => (List.range n).all fun i => U i i != 0
    | none => false
  | .chol => match GDecomp.gcholDense n A.td.f with
    | some L => ((List.range n).all fun i => L i i != 0) &&
        ((List.range n).all fun i => (List.range n).all fun j => A.td.f i j == star (A.td.f j i))
    | none => false
  | _ => true

/-- the two exact implementations agree at one LAPACK node -/
def nodeAgree (alg : Alg) (A : Op GRat) : Bool :=
  let n := A.rows
  match effAlg alg (A.isa .psd) (A.rows * A.cols) with
  | .lu =>
    let r := EX.lu n A.td.f
    let r' := luExact n A.td.f
    r.1 == r'.1 && winEqG n r.2.1.f r'.2.1.f && winEqG n r.2.2.f r'.2.2.f
  | .chol =>
    -- `cholExact` leaves zeros where a pivot has no rational root; `gcholDense` then returns nothing
    match GDecomp.gcholDense n A.td.f with
    | some L => winEqG n L (cholExact n A.td.f).f
    | none => true
  | _ => true

/-- structure-only parameters (`"call":"skel"`): no factorisation, no solve -/
def SK : Ext GRat :=
  { recip := fun x => x, chol := fun _ _ => MatV.of zeroM, lu := fun n _ => (List.range n, MatV.of zeroM, MatV.of zeroM),
    solve := fun _ _ _ _ => MatV.of zeroM }

/-! ## which operands reach the iterative nodes (the two GMRES clauses) -/

def facOf (M : InvOp GRat) : FacV GRat := ⟨M.rows, M.cols, zeroM, fun b' m => M.mm EX b' m⟩

mutual
/-- does some `IterativeOperatorWInfo` node of `B`, while computing `B @ X` (`X` with `b`
columns), receive an operand for which `bad node-operator columns operand` holds? -/
partial def iterSees (bad : Op GRat → Alg → Nat → MatF GRat → Bool) : InvOp GRat → Nat → MatF GRat → Bool
  | .op _, _, _ => false
  | .triInv .., _, _ => false
  | .iterInv A alg, b, X => bad A alg b X
  | .prod Ms, b, X =>
      (Ms.foldr (fun M (acc : Bool × MatV GRat) =>
        (acc.1 || iterSees bad M b acc.2.f, M.mm EX b acc.2.f)) (false, MatV.of X)).1
  | .kron Ms, b, X => kronSees bad 0 Ms (reshapeIn (Ms.map (·.cols)) b X)
  | .bdiag Ms mults, b, X => bdiagSees bad b 0 (Ms.zip mults) X

partial def kronSees (bad : Op GRat → Alg → Nat → MatF GRat → Bool) : Nat → List (InvOp GRat) → Tensor GRat → Bool
  | _, [], _ => false
  | i, M :: rest, ev =>
      let front := moveToFront ev i
      let k := front.shape.tail.prod
      let mat := (forceV M.cols k (toMat front)).f
      iterSees bad M k mat || kronSees bad (i + 1) rest (kronStepV (facOf M) ev i)

partial def bdiagSees (bad : Op GRat → Alg → Nat → MatF GRat → Bool) (k : Nat) : Nat → List (InvOp GRat × Nat) → MatF GRat → Bool
  | _, [], _ => false
  | off, (M, mult) :: rest, v =>
      let sl := rowsFrom off v
      let a1 := (forceV M.cols (k * mult) (transposeM (reshape2 (mult * M.cols) M.cols (transposeM sl)))).f
      iterSees bad M (k * mult) a1 || bdiagSees bad k (off + mult * M.cols) rest v
end

/-- the same question for `B.to_dense()`: `Kronecker` / `BlockDiag` densify member by member, every
other kind multiplies the identity -/
partial def denseSees (bad : Op GRat → Alg → Nat → MatF GRat → Bool) : InvOp GRat → Bool
  | .op _ => false
  | .kron Ms => Ms.any (denseSees bad)
  | .bdiag Ms _ => Ms.any (denseSees bad)
  | B => iterSees bad B B.cols eyeM

/-- PER-COLUMN attribution for `B @ X`: every kind acts column by column (column `j` of the product is computed
from column `j` of `X` alone, and the operand columns a nested node receives for the batch index `j` are the same
whether `X` is passed whole or column `j` alone: the batch axis stays the last axis of every reshape), so the
predicate is evaluated on the one-column operand `X[:, j]`.  Like `iterSees`: a diagnostic, no theorem. -/
def colSees (bad : Op GRat → Alg → Nat → MatF GRat → Bool) (B : InvOp GRat) (k : Nat) (X : MatF GRat) : List Bool :=
  (List.range k).map fun j => iterSees bad B 1 (forceV B.cols 1 (fun i _ => X i j)).f

/-- the same for the columns of `B.to_dense()`: `Kronecker` densifies member by member (column `(j₁, j₂, …)` is the
Kronecker product of the members' columns `j₁, j₂, …`), `BlockDiag` places the members' dense blocks (each `mult`
times), every other kind multiplies the identity -/
partial def denseColSees (bad : Op GRat → Alg → Nat → MatF GRat → Bool) : InvOp GRat → List Bool
  | .op A => List.replicate A.cols false
  | .kron Ms => Ms.foldl (fun acc M => acc.flatMap fun a => (denseColSees bad M).map (a || ·)) [false]
  | .bdiag Ms mults => (Ms.zip mults).flatMap fun p => (List.replicate p.2 (denseColSees bad p.1)).flatten
  | B => colSees bad B B.cols eyeM

def zeroColumn (n b : Nat) (X : MatF GRat) : Bool :=
  (List.range b).any fun j => (List.range n).all fun i => X i j == 0

def badZeroCol (A : Op GRat) (alg : Alg) (b : Nat) (X : MatF GRat) : Bool :=
  alg.isGMRES && zeroColumn A.cols b X

/-- grade of `x` with respect to `D` (dimension of the Krylov space): number of linearly independent
vectors among `x, D x, D² x, …` (exact elimination) -/
def gradeOf (n : Nat) (D : MatF GRat) (x : Nat → GRat) : Nat :=
  let step (st : List (Array GRat × Nat) × Array GRat × Bool × Nat) (_ : Nat) :=
    let (basis, v, stop, g) := st
    if stop then st else
    -- reduce v by the stored (pivoted) basis vectors
    let w := basis.foldl (fun (w : Array GRat) (bp : Array GRat × Nat) =>
      let f := w.getD bp.2 0
      if f == 0 then w else w.mapIdx fun i t => t - f * bp.1.getD i 0) v
    match (List.range n).find? (fun i => w.getD i 0 != 0) with
    | none => (basis, v, true, g)
    | some p =>
      let pinv := GRat.inv (w.getD p 0)
      let wn := w.map (· * pinv)
      let v' : Array GRat := Array.ofFn (n := n) fun i => sumTo n (fun q => D i.val q * v.getD q 0)
      (basis ++ [(wn, p)], v', false, g + 1)
  ((List.range n).foldl step ([], Array.ofFn (n := n) (fun i => x i.val), false, 0)).2.2.2

/-- floating point only (C13 `breakdownNotMasked`): a right-hand side whose Krylov space is
exhausted before step `n` (exact breakdown: an eigenvector, a batch member that converges early)
keeps being stepped with rounding noise; the outcome of the GMRES solve is then unpredictable
(usually fine, sometimes LinAlgError / garbage) -/
def badBreakdown (A : Op GRat) (alg : Alg) (b : Nat) (X : MatF GRat) : Bool :=
  alg.isGMRES && (List.range b).any fun j =>
    !((List.range A.cols).all fun i => X i j == 0) && gradeOf A.cols A.den.f (fun i => X i j) < A.cols

/-! ## output -/

/-- clause lists per column: `[["gmres-zero-rhs-column"],[],…]` -/
def showColClauses (zs bs : List Bool) : String :=
  "[" ++ ",".intercalate ((zs.zip bs).map fun p =>
    showStrs ((if p.1 then ["gmres-zero-rhs-column"] else []) ++ (if p.2 then ["gmres-krylov-breakdown"] else []))) ++ "]"

def invKind : InvOp GRat → String
  | .op _ => "op" | .triInv .. => "triinv" | .iterInv _ alg => "iter:" ++ alg.toString
  | .prod _ => "prod" | .kron _ => "kron" | .bdiag .. => "bdiag"

/-- kind tree of the result, in the format of `treecheck.skel` -/
partial def invSkel : InvOp GRat → String
  | .op A => skel A
  | B =>
    let kids : List (InvOp GRat) := match B with
      | .prod Ms => Ms | .kron Ms => Ms | .bdiag Ms _ => Ms | _ => []
    "[" ++ ",".intercalate (["\"" ++ invKind B ++ "\"", showAnns B.anns] ++ kids.map invSkel) ++ "]"

partial def usesLapack (alg : Alg) (top : Op GRat) : Op GRat → Bool
  | .annot _ A => usesLapack alg top A
  | .eye .. => false | .scalar .. => false | .perm .. => false | .diag .. => false | .tri .. => false
  | .prod Ms => if allSquare Ms then Ms.any (fun M => usesLapack alg M M) else lap top
  | .bdiag Ms _ => Ms.any (fun M => usesLapack alg M M)
  | .kron Ms => Ms.any (fun M => usesLapack alg M M)
  | _ => lap top
where lap (A : Op GRat) : Bool :=
  match effAlg alg (A.isa .psd) (A.rows * A.cols) with | .lu => true | .chol => true | _ => false

/-- a predicate at every node that falls to an algorithm rule (same traversal as `usesLapack`) -/
partial def atAlgNodes (f : Op GRat → Bool) (alg : Alg) (top : Op GRat) : Op GRat → Bool
  | .annot _ A => atAlgNodes f alg top A
  | .eye .. => true | .scalar .. => true | .perm .. => true | .diag .. => true | .tri .. => true
  | .prod Ms => if allSquare Ms then Ms.all (fun M => atAlgNodes f alg M M) else f top
  | .bdiag Ms _ => Ms.all (fun M => atAlgNodes f alg M M)
  | .kron Ms => Ms.all (fun M => atAlgNodes f alg M M)
  | _ => f top

def isEye (n : Nat) (m : MatF GRat) : Bool :=
  (List.range n).all fun i => (List.range n).all fun j => m i j == (if i = j then 1 else 0)

/-- the keyword arguments of the algorithm object: `{"tol": q | null, "max_iters": n | null}` -/
def parseOpts (j : Json) : E Opts := do
  let tol ← match j.getObjVal? "tol" with
    | .ok .null => pure none
    | .ok t => do pure (some (← jQ t))
    | .error _ => pure none
  let mi ← match j.getObjVal? "max_iters" with
    | .ok .null => pure none
    | .ok t => do pure (some (← jNat t))
    | .error _ => pure none
  pure { tol := tol, maxIters := mi }

/-- `CG(**d)` / `GMRES(**d)` / `Auto(**d)`: the object the caller built -/
def parseAlg (s : String) (d : Opts) : E Alg :=
  match s with
  | "omitted" => pure (.auto {}) | "Auto" => pure (.auto d) | "LU" => pure .lu | "Cholesky" => pure .chol
  | "CG" => pure (.cg (.ofDict d)) | "GMRES" => pure (.gmres (.ofDict d)) | "Other" => pure .other
  | _ => throw s!"alg {s}"

def showSolver (a : Alg) : String :=
  match a.kopts with
  | some o => s!"[\"{a.toString}\",\"{o.tol.num}/{o.tol.den}\",{o.maxIters}]"
  | none => s!"[\"{a.toString}\",null,null]"

def showSolvers (B : InvOp GRat) : String := "[" ++ ",".intercalate (B.solvers.map showSolver) ++ "]"

def handle (j : Json) : E String := do
  let id := (j.getObjVal? "id").toOption.getD .null
  let call ← jStr ((j.getObjVal? "call").toOption.getD .null)
  if call == "auto" then
    let psd ← jBool ((j.getObjVal? "psd").toOption.getD .null)
    let r ← jNat ((j.getObjVal? "rows").toOption.getD .null)
    let c ← jNat ((j.getObjVal? "cols").toOption.getD .null)
    let d ← parseOpts ((j.getObjVal? "opts").toOption.getD .null)
    return "{\"id\":" ++ id.compress ++ ",\"alg\":\"" ++ (autoChoice d psd (r * c)).toString ++ "\",\"solver\":" ++ showSolver (autoChoice d psd (r * c)) ++ "}"
  if call != "inv" && call != "skel" then throw s!"unknown call {call}"
  let A ← jOp ((j.getObjVal? "op").toOption.getD .null)
  let opts ← parseOpts ((j.getObjVal? "opts").toOption.getD .null)
  let alg ← parseAlg (← jStr ((j.getObjVal? "alg").toOption.getD .null)) opts
  if call == "skel" then
    let hd := s!"\"id\":{id.compress},\"rows\":{A.rows},\"cols\":{A.cols},\"lapack\":{usesLapack alg A A}"
    match invRule SK alg A with
    | .error e => return ("{" ++ hd ++ ",\"code\":{\"err\":\"" ++ e ++ "\"}}")
    | .ok B =>
      return ("{" ++ hd ++ s!",\"code\":\{\"rows\":{B.rows},\"cols\":{B.cols},\"dtype\":\"{B.dtype.toString}\",\"skel\":{invSkel B},\"solvers\":{showSolvers B},\"direct\":{B.direct}}}")
  let n := A.rows
  let pre := s!"\"id\":{id.compress},{header A},\"struct\":{hasStructRule A},\"lapack\":{usesLapack alg A A}"
  let xm ← jMat ((j.getObjVal? "x").toOption.getD (.arr #[]))
  let k := (xm.getD 0 #[]).size
  let X := (forceV n k (matF xm)).f
  let xl ← jMat ((j.getObjVal? "xl").toOption.getD (.arr #[]))
  let kl := xl.size
  let XL := (forceV kl n (matF xl)).f
  -- specification: the exact inverse of the represented matrix
  let specS : String := match (if A.rows == A.cols then gaussInv n A.den.f else none) with
    | none => "\"spec\":null"
    | some Ai =>
      let ai := mxF Ai
      let ok := isEye n (forceV n n (mmul n ai A.den.f)).f && isEye n (forceV n n (mmul n A.den.f ai)).f
      s!"\"spec\":\{\"ok\":{ok},\"inv\":{showMat n n ai},\"mm\":{showMat n k (forceV n k (mmul n ai X)).f},\"rmm\":{showMat kl n (forceV kl n (mmul n XL ai)).f},\"T\":{showMat n n (transposeM ai)}}"
  match invRule EX alg A with
  | .error e => pure ("{" ++ pre ++ ",\"code\":{\"err\":\"" ++ e ++ "\"}," ++ specS ++ "}")
  | .ok B =>
    let dn := (B.den EX).f
    let invOk := B.rows == n && B.cols == n && isEye n (forceV n n (mmul n dn A.den.f)).f
      && isEye n (forceV n n (mmul n A.den.f dn)).f
    let direct := B.direct
    let cl := (if iterSees badZeroCol B k X then ["gmres-zero-rhs-column"] else []) ++
      (if iterSees badBreakdown B k X then ["gmres-krylov-breakdown"] else [])
    let dcl := (if denseSees badZeroCol B then ["gmres-zero-rhs-column"] else []) ++
      (if denseSees badBreakdown B then ["gmres-krylov-breakdown"] else [])
    let left := if direct then
        s!",\"rmm\":{showMat kl n (B.rmm EX kl XL).f},\"T\":{showMat n n (B.tdT EX).f}" else ""
    pure ("{" ++ pre ++ s!",\"code\":\{\"rows\":{B.rows},\"cols\":{B.cols},\"dtype\":\"{B.dtype.toString}\",\"skel\":{invSkel B},\"solvers\":{showSolvers B},\"direct\":{direct},\"inv_ok\":{invOk},\"contracts_ok\":{atAlgNodes (nodeContractOk alg) alg A A},\"lapack_agree\":{atAlgNodes (nodeAgree alg) alg A A},\"res_clauses\":{showStrs (if B.scalarTimesAnn then ["scalar-times-annotated"] else [])},\"mm_clauses\":{showStrs cl},\"dense_clauses\":{showStrs dcl},\"mm_col_clauses\":{showColClauses (colSees badZeroCol B k X) (colSees badBreakdown B k X)},\"dense_col_clauses\":{showColClauses (denseColSees badZeroCol B) (denseColSees badBreakdown B)},\"dense\":{showMat n n (B.td EX).f},\"den\":{showMat n n dn},\"mm\":{showMat n k (B.mm EX k X).f}{left}}," ++ specS ++ "}")

def main : IO Unit := driverMain handle
