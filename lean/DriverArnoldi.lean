import Lean.Data.Json
import ColaVerif.Model.Arnoldi
import ColaVerif.Model.GMRES

/-!
Line-protocol driver for the Arnoldi / GMRES code models (properties C15, C13).
Run with `lake env lean --run DriverArnoldi.lean < cases.jsonl`.

One JSON case per input line, one JSON answer per output line.  IEEE doubles travel as their
64-bit patterns (JSON integers), complex numbers as pairs `[re_bits, im_bits]`.

case  : {"id", "kind": "arnoldi" | "gmres" | "arnoldi_eigs", "complex": bool, "n", "M", "tol": bits,
         "A": n rows of n scalars, "V": k start vectors (arnoldi; arnoldi_eigs uses the first) |
         "B": k right-hand sides, "X0": k initial guesses (gmres),
         "trim": bool (optional, arnoldi_eigs input), "drop": bool (optional, gmres switch),
         arnoldi_eigs only: "eigvals": k scalars, "eigvecs": k rows — the answer of `xnp.eig` (the PARAMETER `eig` of
         `Arnoldi.arnoldiEigs`: the harness supplies LAPACK's answer and checks its contract on "eigsH")}
answer: {"id", "steps", "iterations", "errors", "cols": [{"Q": M+1 vectors, "H": M columns of M+1}],
         "eigsH": rows of the matrix handed to xnp.eig (start vector 0), "trimPaddingInEigs": switch used,
         gmres only: "soln": k vectors, "ys": k coefficient vectors, "products", "dropLastRow": switch used,
         arnoldi_eigs only: "ev": returned eigenvalues, "ritz": returned eigenvectors (k vectors of length n) —
         the actual output of `Arnoldi.arnoldiEigs`}
-/

open Lean (Json)
open Arnoldi

abbrev E := Except String

def jArr (j : Json) : E (Array Json) :=
  match j with | .arr a => pure a | _ => throw s!"array expected, got {j.compress}"
def jNatD (j : Json) : E Nat :=
  match j.getNat? with | .ok n => pure n | .error e => throw s!"nat expected: {e}"
def jBits (j : Json) : E Float := do pure (Float.ofBits (← jNatD j).toUInt64)
def bitsJ (x : Float) : Json := Json.num (Lean.JsonNumber.fromNat x.toBits.toNat)

class Codec (α : Type) where
  dec : Json → E α
  enc : α → Json
  ofReal : Float → α

instance : Codec Float := ⟨jBits, bitsJ, id⟩
instance : Codec CF where
  dec := fun j => do
    match j with
    | .arr #[a, b] => pure ⟨← jBits a, ← jBits b⟩
    | _ => throw "complex pair expected"
  enc := fun z => Json.arr #[bitsJ z.re, bitsJ z.im]
  ofReal := CF.ofReal

section
variable {α : Type} [Codec α]

def decVec (j : Json) : E (Array α) := do (← jArr j).mapM Codec.dec
def decMat (j : Json) : E (Array (Array α)) := do (← jArr j).mapM decVec
def encVec (v : Array α) : Json := Json.arr (v.map Codec.enc)
def encMat (m : Array (Array α)) : Json := Json.arr (m.map encVec)

variable [Num α]

def encState (M : Nat) (trim : Bool) (s : State α (Array α)) : List (String × Json) :=
  [("steps", Json.num (Lean.JsonNumber.fromNat s.idx)),
   ("iterations", Json.num (Lean.JsonNumber.fromNat s.evals)),
   ("errors", encVec (infoErrors s)),
   ("cols", Json.arr (s.cols.toArray.map fun c =>
      Json.mkObj [("Q", encMat c.Q), ("H", encMat c.H)])),
   ("trimPaddingInEigs", Json.bool trim),
   ("eigsH", match s.cols with
      | [] => Json.null
      | c :: _ => encMat (eigsMatrix trim M s.idx c))]

def runCase (j : Json) (_w : α) : E Json := do
  let id := (j.getObjValD "id")
  let kind ← match j.getObjValD "kind" with | .str s => pure s | _ => throw "kind"
  let n ← jNatD (j.getObjValD "n")
  let M ← jNatD (j.getObjValD "M")
  let tolF ← jBits (j.getObjValD "tol")
  let tol : α := Codec.ofReal tolF
  let Amat : Array (Array α) ← decMat (j.getObjValD "A")
  let A : Array α → Array α := matVec Amat
  let trim := match j.getObjValD "trim" with | .bool b => b | _ => trimPaddingInEigs
  if kind == "arnoldi" then
    let Vs : Array (Array α) ← decMat (j.getObjValD "V")
    let s := run A n M tol Vs.toList
    pure (Json.mkObj ([("id", id)] ++ encState M trim s))
  else if kind == "gmres" then
    let B : Array (Array α) ← decMat (j.getObjValD "B")
    let X0 : Array (Array α) ← decMat (j.getObjValD "X0")
    let drop := match j.getObjValD "drop" with | .bool b => b | _ => GMRES.dropLastRow
    let r := GMRES.gmresCore GMRES.gaussSolve drop A n M tol B.toList X0.toList
    pure (Json.mkObj ([("id", id)] ++ encState M trim r.arn ++
      [("soln", encMat r.soln.toArray), ("ys", encMat r.ys.toArray),
       ("products", Json.num (Lean.JsonNumber.fromNat r.products)),
       ("dropLastRow", Json.bool drop)]))
  else if kind == "arnoldi_eigs" then
    let Vs : Array (Array α) ← decMat (j.getObjValD "V")
    let ev : Array α ← decVec (j.getObjValD "eigvals")
    let vsr : Array (Array α) ← decMat (j.getObjValD "eigvecs")
    match Vs[0]? with
    | none => throw "arnoldi_eigs: no start vector"
    | some v =>
      -- `eig` is the parameter of the model: here the constant function returning the supplied answer
      let r := arnoldiEigs (fun _ => (ev, vsr)) trim A n M tol v
      pure (Json.mkObj ([("id", id)] ++ encState M trim r.2.2 ++
        [("ev", encVec r.1), ("ritz", encMat r.2.1)]))
  else throw s!"unknown kind {kind}"
end

def answer (line : String) : Json :=
  match Json.parse line with
  | .error e => Json.mkObj [("error", Json.str s!"parse: {e}")]
  | .ok j =>
    let r := match j.getObjValD "complex" with
      | .bool true => runCase j (default : CF)
      | _ => runCase j (0.0 : Float)
    match r with
    | .ok a => a
    | .error e => Json.mkObj [("id", j.getObjValD "id"), ("error", Json.str e)]

partial def mainLoop (hin hout : IO.FS.Stream) : IO Unit := do
  let line ← hin.getLine
  if line.isEmpty then return
  let t := line.trimAscii.toString
  if t.isEmpty then
    mainLoop hin hout
  else
    hout.putStrLn (answer t).compress
    hout.flush
    mainLoop hin hout

def main : IO Unit := do
  mainLoop (← IO.getStdin) (← IO.getStdout)
