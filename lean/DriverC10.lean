import ColaVerif.DriverLib
import ColaVerif.Model.Eig
import ColaVerif.Model.NumOpsL
import ColaVerif.Lemmas.EigGRat

/-!
Line-protocol driver of the `eig` code model (`ColaVerif/Model/Eig.lean`, property C10).

    lake env lean --run DriverC10.lean < cases.jsonl > answers.jsonl

Calls (field `call`):
* `route`      — `{op | kind, sa, rows, cols}, k, which, alg` ↦ the rule `eig` ends in, its ordering.
* `select`     — `k, which, magkey` (the magnitudes `abs(eig_vals)` of the computed spectrum as the bit
                 patterns of the non-negative doubles — ordered like the doubles — in computed order),
                 `magrank` (magnitude ranks with ties) ↦ `selectPath` (the function of the theorems) run on
                 the spectrum (`magkey`, index-tagged columns): the positions of the returned columns,
                 cross-checked against `selectPos` (= `select_by_magnitude`),
                 the positional slice also through the CPython slice model, whether the selected
                 positions are an extreme-magnitude selection.
* `lobpcg`     — `k, which, max_iters, magkey, magrank` of the FULL spectrum ascending by value ↦ the positions the
                 `LOBPCG` rule returns (`lobpcgRule`), whether they are the extreme selection, violated clauses.
* `structural` — `op, k, which` ↦ CODE: values and vectors of the structural rule in exact ℚ[i]
                 arithmetic; SPEC: exact checks against `den` (eigenpairs, orthonormality,
                 independence, extreme magnitudes); `in_domain` (triangular DATA for a Triangular operator: the
                 hypothesis `triangularData` of `C10_triangular`); no defect clause is left for these rules.
* `power`      — `n, cplx, A, v0, tol, max_iter` (IEEE bit patterns) ↦ the state machine on doubles:
                 step count, value, vector, the error seen by every evaluation of the test and the value
                 `eig` of every state (compared step by step with the products the real run formed).
-/

open Lean (Json)
open Eig

def getF (j : Json) (k : String) : Json := (j.getObjVal? k).toOption.getD .null

def jWhich (j : Json) : E Which := do
  match ← jStr j with
  | "LM" => pure .LM | "SM" => pure .SM
  | s => throw s!"which {s}"

def jAlg (j : Json) : E Alg := do
  match ← jStr j with
  | "auto" => pure .auto | "eig" => pure .eig | "eigh" => pure .eigh | "lanczos" => pure .lanczos
  | "arnoldi" => pure .arnoldi | "lobpcg" => pure .lobpcg | "power" => pure .power
  | s => throw s!"alg {s}"

def jKind (j : Json) : E Kind := do
  match ← jStr j with
  | "identity" => pure .identity | "diagonal" => pure .diagonal | "triangular" => pure .triangular
  | "other" => pure .other
  | s => throw s!"kind {s}"

def showNats (l : List Nat) : String := "[" ++ ",".intercalate (l.map toString) ++ "]"
def showZs (l : List GRat) : String := "[" ++ ",".intercalate (l.map showZ) ++ "]"
def showCols (l : List (List GRat)) : String := "[" ++ ",".intercalate (l.map showZs) ++ "]"

/-! ## route -/

def handleRoute (j : Json) (pre : String) : E String := do
  let k ← jNat (getF j "k")
  let w ← jWhich (getF j "which")
  let alg ← jAlg (getF j "alg")
  let (kind, sa, rows, cols) ← match getF j "op" with
    | .null => do
        pure (← jKind (getF j "kind"), ← jBool (getF j "sa"), ← jNat (getF j "rows"), ← jNat (getF j "cols"))
    | o => do
        let A ← jOp o
        pure (kindOf A, A.isa .selfAdjoint, A.rows, A.cols)
  let p := route kind sa rows cols k w alg
  pure ("{" ++ pre ++ s!",\"path\":\"{p.toString}\",\"order\":\"{(ordering p).toString}\",\"sa\":{sa}" ++ "}")

/-! ## select -/

def complementPos (m : Nat) (pos : List Nat) : List Nat := (List.range m).filter (fun i => !pos.contains i)

def handleSelect (j : Json) (pre : String) : E String := do
  let k ← jNat (getF j "k")
  let w ← jWhich (getF j "which")
  let keys ← (← jArr (getF j "magkey")).toList.mapM jNat
  let ranks ← (← jArr (getF j "magrank")).toList.mapM jNat
  let m := keys.length
  -- the function the theorems `C10_select`, `C10_dense_eig`, … are about: `selectPath` on the computed
  -- spectrum whose values are the magnitude keys and whose column `i` is tagged with its index `[i]`;
  -- the positions are read off the RETURNED columns
  let s : Spectrum Nat := { vals := keys, vecs := (List.range m).map (fun i => [i]) }
  let out := selectPath (fun a b => decide (a ≤ b)) (fun x => x) k w s
  let pos := out.vecs.map (fun v => v.getD 0 m)
  -- `select_by_magnitude` itself (`Lemmas/EigSelect.lean: selectPath_eq_selectPos` proves them equal)
  let posIdx := selectPos (fun a b => decide (a ≤ b)) keys k w
  let pathOk := pos == posIdx && out.vals == pos.map (fun i => keys.getD i 0)
  -- the positional part alone, against the CPython slice model
  let sliceOk := slicePos m k w == slicePosPy m k w && pathOk
  let sel := pos.map (fun i => ranks.getD i 0)
  let rest := (complementPos m pos).map (fun i => ranks.getD i 0)
  let specOk := extremeB w sel rest && pos.length == min k m
  pure ("{" ++ pre ++ s!",\"pos\":{showNats pos},\"slice_ok\":{sliceOk},\"spec_ok\":{specOk},\"clauses\":[]" ++ "}")

/-! ## the LOBPCG rule -/

/-- `magkey` / `magrank`: magnitudes of the FULL spectrum listed ascending by value; CODE: `lobpcgRule` (only the
`min(n - 1, max_iters)` algebraically largest pairs are computed, then `select_by_magnitude`); SPEC: the positions
are an extreme-magnitude selection of the full spectrum, `min(k, n)` of them -/
def handleLobpcg (j : Json) (pre : String) : E String := do
  let k ← jNat (getF j "k")
  let w ← jWhich (getF j "which")
  let maxIters ← jNat (getF j "max_iters")
  let keys ← (← jArr (getF j "magkey")).toList.mapM jNat
  let ranks ← (← jArr (getF j "magrank")).toList.mapM jNat
  let m := keys.length
  let s : Spectrum Nat := { vals := keys, vecs := (List.range m).map (fun i => [i]) }
  let computed := lobpcgComputed maxIters s
  let out := lobpcgRule (fun a b => decide (a ≤ b)) (fun x => x) k w maxIters s
  let pos := out.vecs.map (fun v => v.getD 0 m)
  let sel := pos.map (fun i => ranks.getD i 0)
  let rest := (complementPos m pos).map (fun i => ranks.getD i 0)
  let specOk := extremeB w sel rest && pos.length == min k m
  let clauses : List String := if specOk then [] else ["lobpcg-drops-smallest"]
  pure ("{" ++ pre ++ s!",\"pos\":{showNats pos},\"computed\":{computed.vals.length},\"spec_ok\":{specOk},\"clauses\":{showStrs clauses}" ++ "}")

/-! ## structural rules -/

def colAt (v : List GRat) (i : Nat) : GRat := v.getD i 0

/-- `D v = lam v` on the `n × n` window, `v ≠ 0`, length `n` (exact) -/
def eigPairB (n : Nat) (D : MatF GRat) (lam : GRat) (v : List GRat) : Bool :=
  v.length == n && (List.range n).any (fun c => colAt v c != 0) &&
    (List.range n).all (fun r => sumTo n (fun c => D r c * colAt v c) == lam * colAt v r)

def dotC (n : Nat) (u v : List GRat) : GRat := sumTo n (fun r => star (colAt u r) * colAt v r)

def orthonormalB (n : Nat) (vs : List (List GRat)) : Bool :=
  (List.range vs.length).all fun a => (List.range vs.length).all fun b =>
    dotC n (vs.getD a []) (vs.getD b []) == (if a = b then 1 else 0)

/-- rank of a family of columns by exact Gaussian elimination (rows of the list = the columns) -/
partial def rankRows (rows : List (List GRat)) (width : Nat) : Nat :=
  go rows 0 0
where
  go (rows : List (List GRat)) (c : Nat) (acc : Nat) : Nat :=
    if c ≥ width then acc else
    match rows.find? (fun r => colAt r c != 0) with
    | none => go rows (c + 1) acc
    | some piv =>
      let others := rows.filter (fun r => r != piv)   -- distinct rows suffice for rank purposes below
      let pc := colAt piv c
      let reduced := others.map (fun r =>
        let f := colAt r c / pc
        (List.range width).map (fun t => colAt r t - f * colAt piv t))
      go reduced (c + 1) (acc + 1)

def handleStructural (j : Json) (pre : String) : E String := do
  let k ← jNat (getF j "k")
  let w ← jWhich (getF j "which")
  let A ← jOp (getF j "op")
  let n := A.rows
  let D := A.den.f
  let hdr := pre ++ s!",\"kind\":\"{match kindOf A with | .identity => "identity" | .diagonal => "diagonal" | .triangular => "triangular" | .other => "other"}\",\"n\":{n}"
  match structuralRule GRat.magLe A k w with
  | none => pure ("{" ++ hdr ++ ",\"code\":null" ++ "}")
  | some out =>
    -- specification, exact
    let pairsOk := out.vals.length == out.vecs.length &&
      (out.vals.zip out.vecs).all (fun p => eigPairB n D p.1 p.2)
    let orthOk := orthonormalB n out.vecs
    let indepOk := rankRows out.vecs n == out.vecs.length
    let spectrum := (List.range n).map (fun i => D i i)   -- the three kinds are triangular: the diagonal
    -- the returned values as a sub-multiset of the spectrum, the rest, magnitudes compared exactly
    let restVals := out.vals.foldl (fun acc v => acc.erase v) spectrum
    let isSub := restVals.length + out.vals.length == spectrum.length
    let extOk := isSub && out.vals.length == min k n &&
      (match w with
       | .LM => out.vals.all fun x => restVals.all fun y => GRat.normSq y ≤ GRat.normSq x
       | .SM => out.vals.all fun x => restVals.all fun y => GRat.normSq x ≤ GRat.normSq y)
    -- no defect clause is left for the structural rules (`clauses` is always empty).  `in_domain`: the hypothesis
    -- `triangularData` of `C10_triangular` (a Triangular operator holds upper or lower triangular DATA) — an input
    -- outside it is a fault of the generator, not a finding: the harness reports it as a mismatch
    let isTri := match A.core with | .tri .. => true | _ => false
    let upper := (List.range n).all fun r => (List.range r).all fun c => D r c == 0
    let lower := (List.range n).all fun c => (List.range c).all fun r => D r c == 0
    let inDomain : Bool := !isTri || upper || lower
    pure ("{" ++ hdr ++ s!",\"code\":\{\"vals\":{showZs out.vals},\"vecs\":{showCols out.vecs}},\"spec\":\{\"pairs_ok\":{pairsOk},\"orth_ok\":{orthOk},\"indep_ok\":{indepOk},\"extreme_ok\":{extOk}},\"in_domain\":{inDomain},\"clauses\":[]" ++ "}")

/-! ## power iteration on doubles -/

open Lanczos in
def absK {K : Type} [Num K] (x : K) : K := Num.sqrt (Num.re (Num.mul (Num.conj x) x))

open Lanczos in
def piOps (K : Type) [Num K] (A : Array (Array K)) : PIOps K (Array K) where
  matvec := matVec A
  dot := fun u p => (Array.zipWith (fun a b => Num.mul (Num.conj a) b) u p).foldl Num.add Num.zero
  normalize := fun p =>
    let nrm : K := VecOps.norm p
    p.map (fun x => Num.div x nrm)
  relerr := fun eig eigprev => Num.div (absK (Num.sub eigprev eig)) (absK eig)
  gt := fun a b => Num.lt b a

def bitsToFloat (n : Nat) : Float := Float.ofBits n.toUInt64
def floatBits (x : Float) : String := toString x.toBits.toNat

class Codec (K : Type) where
  dec : Json → E K
  enc : K → String
  reBits : K → String

instance : Codec Float where
  dec j := do pure (bitsToFloat (← jNat j))
  enc x := floatBits x
  reBits x := floatBits x

instance : Codec Lanczos.CF where
  dec j := do
    match j with
    | .arr #[a, b] => pure ⟨bitsToFloat (← jNat a), bitsToFloat (← jNat b)⟩
    | _ => pure ⟨bitsToFloat (← jNat j), 0.0⟩
  enc x := s!"[{floatBits x.re},{floatBits x.im}]"
  reBits x := floatBits x.re

def runPower (K : Type) [Lanczos.Num K] [Codec K] (ofFloat : Float → K) (j : Json) (pre : String) :
    E String := do
  let n ← jNat (getF j "n")
  let A ← (← jArr (getF j "A")).mapM (fun r => do (← jArr r).mapM Codec.dec)
  let v0 : Array K ← (← jArr (getF j "v0")).mapM Codec.dec
  let tol := ofFloat (bitsToFloat (← jNat (getF j "tol")))
  let maxIter ← jNat (getF j "max_iter")
  if A.size ≠ n ∨ A.any (fun r => r.size ≠ n) ∨ v0.size ≠ n then throw "shape mismatch"
  let o := piOps K A
  let e0 := ofFloat 10.0
  let e1 := ofFloat 1.0
  let r := powerIteration o tol maxIter v0 e0 e1
  -- the error every evaluation of the test saw (states 0 … r.i)
  let init : PIState K (Array K) := { i := 0, v := v0, vprev := v0, eig := e0, eigprev := e1 }
  -- … and the value `eig` of every state (state `j ≥ 1`: the product `conj(v_{j-1}) @ A v_{j-1}`)
  let (_, errs, eigs) := (List.range (r.i + 1)).foldl
    (fun (acc : PIState K (Array K) × Array String × Array String) _ =>
      let s := acc.1
      (piBody o s, acc.2.1.push (Codec.reBits (o.relerr s.eig s.eigprev)), acc.2.2.push (Codec.enc s.eig)))
    (init, #[], #[])
  pure ("{" ++ pre ++ s!",\"steps\":{r.i},\"eig\":{Codec.enc r.eig},\"v\":[{",".intercalate (r.v.toList.map Codec.enc)}],\"errs\":[{",".intercalate errs.toList}],\"eigs\":[{",".intercalate eigs.toList}]" ++ "}")

/-! ## dispatch of calls -/

def handle (j : Json) : E String := do
  let cid := getF j "id"
  let pre := s!"\"id\":{cid.compress}"
  match ← jStr (getF j "call") with
  | "route" => handleRoute j pre
  | "select" => handleSelect j pre
  | "lobpcg" => handleLobpcg j pre
  | "structural" => handleStructural j pre
  | "power" =>
      if ← jBool (getF j "cplx") then runPower Lanczos.CF (fun x => ⟨x, 0.0⟩) j pre
      else runPower Float id j pre
  | c => throw s!"unknown call {c}"

def main : IO Unit := driverMain handle
