import ColaVerif.DriverLib
import ColaVerif.Model.FFTOp

/-!
Line-protocol driver of the stand-alone `cola.ops.FFT` model (streams of C01 and C02): one JSON
case `{"id", "call", "n", "x"?}` per input line, one JSON answer per output line with the
CODE-MODEL result (`fftMatmat`, `fftRmatmat`, the lazy `Transpose` / `Adjoint` wrappers,
`fftToDense`) and the SPECIFICATION (products with `fftDen`, its transpose, its adjoint).
Exact only where root and scale lie in ℚ[i]: `n = 1` (`ω = 1`, `s = 1`) and `n = 4` (`ω = −i`,
`s = 1/2`) — the instances of `C02_fft_params_one` / `C02_fft_params_four`.
Run with `lake env lean --run DriverFFT.lean < cases.jsonl`.
-/

open Lean (Json)

/-- `(ω, s)` of `FFT(n)` in ℚ[i] -/
def fftRoot (n : Nat) : E (GRat × GRat) :=
  if n = 1 then pure (1, 1)
  else if n = 4 then pure (⟨0, -1⟩, ⟨1 / 2, 0⟩)
  else throw s!"FFT({n}): root or scale not in Q[i]"

def handle (j : Json) : E String := do
  let id := (j.getObjVal? "id").toOption.getD .null
  let call ← jStr ((j.getObjVal? "call").toOption.getD .null)
  let n ← jNat ((j.getObjVal? "n").toOption.getD .null)
  let (ω, s) ← fftRoot n
  let F := (forceV n n (fftDen n ω s)).f
  let FT := (forceV n n (transposeM F)).f
  let FH := (forceV n n (conjM (transposeM F))).f
  let ans (r c : Nat) (code spec : MatF GRat) : String :=
    "{\"id\":" ++ id.compress ++ s!",\"rows\":{r},\"cols\":{c},\"code\":{showMat r c code},\"spec\":{showMat r c spec}" ++ "}"
  -- operand of a left product `A' @ X` (n × b) / of a right product `X @ A'` (b × n)
  let left : E (Nat × MatF GRat) := do
    let xm ← jMat ((j.getObjVal? "x").toOption.getD .null)
    let b := (xm.getD 0 #[]).size
    pure (b, (forceV n b (matF xm)).f)
  let right : E (Nat × MatF GRat) := do
    let xm ← jMat ((j.getObjVal? "x").toOption.getD .null)
    let b := xm.size
    pure (b, (forceV b n (matF xm)).f)
  match call with
  | "matmat" => do
      let (b, X) ← left
      pure (ans n b (fftMatmat n ω s b X).f (forceV n b (mmul n F X)).f)
  | "rmatmat" => do
      let (b, X) ← right
      pure (ans b n (fftRmatmat n ω s b X).f (forceV b n (mmul n X F)).f)
  | "T_matmat" => do
      let (b, X) ← left
      pure (ans n b (fftTMatmat n ω s b X).f (forceV n b (mmul n FT X)).f)
  | "T_rmatmat" => do
      let (b, X) ← right
      pure (ans b n (fftTRmatmat n ω s b X).f (forceV b n (mmul n X FT)).f)
  | "H_matmat" => do
      let (b, X) ← left
      pure (ans n b (fftHMatmat n ω s b X).f (forceV n b (mmul n FH X)).f)
  | "H_rmatmat" => do
      let (b, X) ← right
      pure (ans b n (fftHRmatmat n ω s b X).f (forceV b n (mmul n X FH)).f)
  | "dense" => pure (ans n n (fftToDense n ω s).f F)
  | "T_dense" => pure (ans n n (fftTMatmat n ω s n eyeM).f FT)
  | "H_dense" => pure (ans n n (fftHMatmat n ω s n eyeM).f FH)
  | "unitary" =>
      -- the annotation: code = the Gram matrix `Aᴴ A` through the code models (`A.H @ (A @ I)`),
      -- spec = the identity (what `Unitary` declares, `C02_fft_unitary`)
      pure (ans n n (fftHMatmat n ω s n (fftToDense n ω s).f).f (forceV n n eyeM).f)
  | c => throw s!"unknown call {c}"

def main : IO Unit := driverMain handle
