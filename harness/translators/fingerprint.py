#!/usr/bin/env python3
"""Source fingerprints of /repo's cola package: one normalised-AST hash per function / method.

Used in two ways (DESIGN.md 2.3 (a), last row):
  * `tools/build_model_map.py` records, for every function, its hash at the commit the models were written against and
    which Lean files / harness modules / properties cite it (harness/model_map.json, docs/MODEL_COVERAGE.md);
  * every `./check` run recomputes the hashes from the working tree and reports which functions changed and which of
    them the property under check depends on.  A changed hash is NOT a violation (a harmless rewrite changes it too):
    it only directs more sampling at the property (run_check.py: escalation) and is written into the evidence.

The hash ignores formatting, comments, docstrings and line numbers (ast.dump without attributes)."""
import ast
import hashlib
import json
import os
import sys

OUT_OF_SCOPE = {
    "cola/backends/jax_fns.py": "jax backend (jax is not installed offline)",
    "cola/backends/torch_fns.py": "torch backend (torch is not installed offline)",
    "cola/utils/jax_tqdm.py": "progress bars for jax",
    "cola/utils/utils_for_tests.py": "test utilities",
    "cola/version.py": "version string",
}


def source_root():
    return os.environ.get("COLA_SRC_ROOT", "/repo")


def _strip_doc(node):
    body = getattr(node, "body", None)
    if body and isinstance(body[0], ast.Expr) and isinstance(getattr(body[0], "value", None), ast.Constant) \
            and isinstance(body[0].value.value, str):
        node.body = body[1:] or [ast.Pass()]


def _hash(node):
    node = ast.parse(ast.unparse(node))  # private copy
    for n in ast.walk(node):
        if isinstance(n, (ast.FunctionDef, ast.AsyncFunctionDef, ast.ClassDef, ast.Module)):
            _strip_doc(n)
    return hashlib.sha1(ast.dump(node, annotate_fields=False, include_attributes=False).encode()).hexdigest()[:16]


def _sig(fn):
    """annotation signature of a plum overload, e.g. inv[A:Identity,alg:Algorithm]"""
    parts = []
    a = fn.args
    for arg in a.posonlyargs + a.args:
        if arg.arg == "self":
            continue
        parts.append(arg.arg + (":" + ast.unparse(arg.annotation).replace(" ", "") if arg.annotation else ""))
    if a.vararg:
        parts.append("*" + a.vararg.arg + (":" + ast.unparse(a.vararg.annotation).replace(" ", "") if a.vararg.annotation else ""))
    return ",".join(parts)


def _is_dispatch(fn):
    for d in fn.decorator_list:
        s = ast.unparse(d)
        if "dispatch" in s:
            return s
    return None


def functions(root=None):
    """{qualname: {file, lineno, end_lineno, hash, dispatch}} for every top-level function and every method
    (nested closures are part of their enclosing function's hash).  Module-level statements that are not
    definitions are hashed together as `<module>`."""
    root = root or source_root()
    out = {}
    base = os.path.join(root, "cola")
    for dp, _, fns in sorted(os.walk(base)):
        for fn in sorted(fns):
            if not fn.endswith(".py"):
                continue
            path = os.path.join(dp, fn)
            rel = os.path.relpath(path, root)
            try:
                tree = ast.parse(open(path).read())
            except SyntaxError as e:  # a tree that does not parse: every function of the file counts as changed
                out[f"{rel}::<syntax-error>"] = {"file": rel, "lineno": 0, "end_lineno": 0, "hash": "syntax-error:" + str(e)[:40], "dispatch": None}
                continue
            seen = {}
            rest = []

            def add(node, prefix):
                disp = _is_dispatch(node)
                name = prefix + node.name
                if disp or name in seen:
                    name = f"{name}[{_sig(node)}]"
                k = seen.get(name, 0)
                seen[name] = k + 1
                if k:
                    name = f"{name}#{k}"
                out[f"{rel}::{name}"] = {"file": rel, "lineno": node.lineno, "end_lineno": node.end_lineno,
                                        "hash": _hash(node), "dispatch": disp}
            for node in tree.body:
                if isinstance(node, (ast.FunctionDef, ast.AsyncFunctionDef)):
                    add(node, "")
                elif isinstance(node, ast.ClassDef):
                    cls_rest = []
                    for sub in node.body:
                        if isinstance(sub, (ast.FunctionDef, ast.AsyncFunctionDef)):
                            add(sub, node.name + ".")
                        else:
                            cls_rest.append(sub)
                    hdr = ast.ClassDef(name=node.name, bases=node.bases, keywords=node.keywords, body=cls_rest or [ast.Pass()],
                                       decorator_list=node.decorator_list)
                    try:
                        hdr.type_params = []
                    except Exception:
                        pass
                    ast.fix_missing_locations(hdr)
                    out[f"{rel}::{node.name}.<class>"] = {"file": rel, "lineno": node.lineno, "end_lineno": node.lineno,
                                                         "hash": _hash(hdr), "dispatch": None}
                else:
                    rest.append(node)
            if rest:
                mod = ast.Module(body=rest, type_ignores=[])
                out[f"{rel}::<module>"] = {"file": rel, "lineno": 1, "end_lineno": 1, "hash": _hash(mod), "dispatch": None}
    return out


def diff(recorded, current):
    """names whose hash differs, that disappeared, that are new"""
    changed = sorted(k for k in recorded if k in current and recorded[k]["hash"] != current[k]["hash"])
    removed = sorted(k for k in recorded if k not in current)
    added = sorted(k for k in current if k not in recorded)
    return changed, removed, added


def load_map():
    p = os.path.join(os.path.dirname(os.path.dirname(os.path.abspath(__file__))), "model_map.json")
    return json.load(open(p))


def report(prop, root=None):
    """what changed in the source relative to the recorded map, and what of it concerns `prop`.
    A function that appears or disappears concerns the properties of its file (anchors) — it has no record of its own."""
    mm = load_map()
    rec = mm["functions"]
    cur = functions(root)
    changed, removed, added = diff(rec, cur)
    file_props = mm.get("file_props", {})

    def concerns(name):
        if name in rec and rec[name].get("props"):
            return prop in rec[name]["props"]
        f = name.split("::")[0]
        return prop in file_props.get(f, [])
    every = changed + removed + added
    rel = [n for n in every if n.split("::")[0] not in OUT_OF_SCOPE and concerns(n)]
    return {
        "functions_hashed": len(cur),
        "recorded_at": mm.get("recorded_at"),
        "changed": changed, "removed": removed, "added": added,
        "relevant_to_property": rel,
        "relevant_models": {n: rec[n].get("cited_by", [])[:8] for n in rel if n in rec},
    }


if __name__ == "__main__":
    if len(sys.argv) > 1:
        print(json.dumps(report(sys.argv[1]), indent=1))
    else:
        f = functions()
        print(len(f), "functions")
