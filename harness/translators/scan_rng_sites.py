#!/venv/bin/python
"""Translator for property C17 (randomised routines are deterministic in their key and leave the
process-wide NumPy random state alone).

AST scan of every `*.py` below the cola package that is actually imported (`cola.__file__`: a
private copy on PYTHONPATH is scanned instead of /repo, so mutation self-tests see their mutant).
REGENERATED on every run of `./check C17`; writes

    lean/ColaVerif/Gen/RngSites.lean      (GENERATED, never hand-edited; a committed copy serves a fresh build)
    work/c17/sites.json                   (the same data for props/c17.py)

What is listed, per enclosing public routine (outermost `def` / `Class.method`; nested helper
functions such as loop bodies are attributed to the routine that defines them):

  * every random-draw site
      - `xnp.randn(...)` / `A.xnp.randn(...)` / `self.xnp.randn(...)` / bare `randn(...)` (imported
        from a cola backend) WITH a `key=` argument       -> keyedNormal, plus where the key comes
        from (`KeySrc`): `param` (the routine's `key` parameter, possibly through PRNGKey /
        next_key / loop-state threading), `const` (a literal or PRNGKey(literal)), `paramOrConst`
        (`PRNGKey(42) if key is None else key`), `opaque` (anything else: time, global draws, ...)
      - the same call WITHOUT `key=` (or `key=None`)   -> unkeyedNormalFallbackKey0
      - every use of `np.random.<f>` (`seed`, `randn`, `normal`, `get_state`, `set_state`,
        `permutation`, ... through any import alias), and every call of a backend alias of such a
        function (`xnp.normal`, because np_fns has `normal = np.random.normal`)   -> globalDraw
      - `np.random.default_rng(c)` / `RandomState(c)` / `Generator(...)`  -> localGenerator
        (KeySrc const when seeded with a literal, opaque when unseeded: OS entropy)
  * every `PRNGKey(...)` / `next_key(...)` use (the sha256 hash chain; informational `keyOps`)
  * the statement sequence of the NumPy backend primitive `np_fns.randn` itself as a list of steps
    (saveState, seedKey, draw, restoreState, ...), the fallback branch (`key = PRNGKey(<literal>)`
    under `if key is None`), and the backend aliases of global draws.

Scopes: `library` (everything a user can reach), `backendPrimitive` (cola/backends/np_fns.py: the
primitives themselves, modelled step by step in Lean), `otherBackend` (jax_fns.py / torch_fns.py:
not the NumPy backend the property speaks about, not importable here), `testUtil`
(cola/utils/utils_for_tests.py: test-data generators that seed the global state on purpose; not a
routine of the library).

Usage:  /venv/bin/python scan_rng_sites.py [--quiet] [--no-write]
"""
import ast
import json
import os
import sys

HERE = os.path.dirname(os.path.abspath(__file__))
HARNESS = os.path.dirname(HERE)
ROOT = os.path.dirname(HARNESS)
OUT_LEAN = os.path.join(ROOT, "lean", "ColaVerif", "Gen", "RngSites.lean")
OUT_JSON = os.path.join(ROOT, "work", "c17", "sites.json")

KEYED, UNKEYED, GLOBAL, LOCAL = "keyedNormal", "unkeyedNormalFallbackKey0", "globalDraw", "localGenerator"
LOCAL_CTORS = {"default_rng", "RandomState", "Generator", "SeedSequence", "PCG64", "MT19937", "Philox", "SFC64"}
OTHER_BACKENDS = {"cola/backends/jax_fns.py", "cola/backends/torch_fns.py"}
BACKEND_PRIM = "cola/backends/np_fns.py"
TEST_UTIL = {"cola/utils/utils_for_tests.py"}


def cola_dir():
    import importlib.util
    spec = importlib.util.find_spec("cola")
    return os.path.dirname(os.path.abspath(spec.origin))


# ------------------------------------------------------------------------------------------------
# key provenance lattice
def join(a, b):
    if a is None:
        return b
    if b is None:
        return a
    if a == b:
        return a
    if "opaque" in (a, b):
        return "opaque"
    return "paramOrConst"


class FnScope:
    """names assigned in one (possibly nested) function: name -> list of value descriptors"""

    def __init__(self, node, parent):
        self.node = node
        self.parent = parent
        self.params = []
        self.assign = {}      # name -> [("expr", ast, position) | ("unpack", (src_name, pos, arity), position)]
        self.pos = {}         # id(node) -> (line, block path, enclosing loops)
        self.returns = []     # ast.Tuple of returns
        a = node.args
        self.params = [x.arg for x in a.posonlyargs + a.args + a.kwonlyargs]
        if a.vararg:
            self.params.append(a.vararg.arg)
        if a.kwarg:
            self.params.append(a.kwarg.arg)

    def add(self, name, what):
        self.assign.setdefault(name, []).append(what)


class ModuleScan(ast.NodeVisitor):
    def __init__(self, rel, modname, src):
        self.rel = rel
        self.modname = modname
        self.tree = ast.parse(src)
        self.np_mod = set()        # names bound to the numpy module
        self.npr_mod = set()       # names bound to numpy.random
        self.npr_fn = {}           # local name -> numpy.random function name
        self.backend_fn = {}       # local name -> backend function (randn / PRNGKey / next_key) imported by name
        self.sites = []            # dicts
        self.keyops = []
        self.aliases = []          # module-level `name = np.random.f`
        self.routine_info = {}     # routine -> dict(line, hasKeyParam)
        self._stack = []           # FnScope stack
        self._names = []           # qualified-name stack (classes + functions)
        self._loops = 0
        self._collect_imports()

    # -- imports ---------------------------------------------------------------------------------
    def _collect_imports(self):
        for node in ast.walk(self.tree):
            if isinstance(node, ast.Import):
                for al in node.names:
                    if al.name == "numpy":
                        self.np_mod.add(al.asname or "numpy")
                    elif al.name == "numpy.random":
                        if al.asname:
                            self.npr_mod.add(al.asname)
                        else:
                            self.np_mod.add("numpy")
            elif isinstance(node, ast.ImportFrom):
                if node.module == "numpy":
                    for al in node.names:
                        if al.name == "random":
                            self.npr_mod.add(al.asname or "random")
                elif node.module == "numpy.random":
                    for al in node.names:
                        self.npr_fn[al.asname or al.name] = al.name
                elif node.module and node.module.startswith("cola.backends"):
                    for al in node.names:
                        if al.name in ("randn", "PRNGKey", "next_key", "normal"):
                            self.backend_fn[al.asname or al.name] = al.name

    # -- classification helpers --------------------------------------------------------------------
    def is_npr(self, e):
        """expression denotes the numpy.random module"""
        if isinstance(e, ast.Name) and e.id in self.npr_mod:
            return True
        return isinstance(e, ast.Attribute) and e.attr == "random" and isinstance(e.value, ast.Name) \
            and e.value.id in self.np_mod

    @staticmethod
    def is_backend_recv(e):
        """`xnp`, `A.xnp`, `self.xnp`, `C.ops`, `np_fns`, `cola.backends.np_fns` ..."""
        if isinstance(e, ast.Name):
            return e.id in ("xnp", "np_fns", "ops", "backend")
        if isinstance(e, ast.Attribute):
            return e.attr in ("xnp", "ops", "np_fns")
        return False

    def routine(self):
        return ".".join([self.modname] + self._names[:self._depth_routine()]) if self._names else self.modname + ".<module>"

    def _depth_routine(self):
        # outermost function, or Class.method
        d = 0
        for kind, _ in self._kinds:
            d += 1
            if kind == "def":
                break
        return d

    def label(self):
        return ".".join(self._names) if self._names else "<module>"

    # -- traversal ---------------------------------------------------------------------------------
    def scan(self):
        self._kinds = []
        self.global_aliases_in_module()
        self.visit(self.tree)
        return self

    def global_aliases_in_module(self):
        for node in self.tree.body:
            if isinstance(node, ast.Assign) and isinstance(node.value, ast.Attribute) and self.is_npr(node.value.value):
                for t in node.targets:
                    if isinstance(t, ast.Name):
                        self.aliases.append({"name": t.id, "target": "np.random." + node.value.attr,
                                             "loc": f"{self.rel}:{node.lineno}"})

    def visit_ClassDef(self, node):
        self._names.append(node.name)
        self._kinds.append(("class", node))
        self.generic_visit(node)
        self._kinds.pop()
        self._names.pop()

    def _visit_fn(self, node, name):
        outer_loops = self._loops
        self._loops = 0
        self._names.append(name)
        self._kinds.append(("def", node))
        sc = FnScope(node, self._stack[-1] if self._stack else None)
        self._stack.append(sc)
        self._collect_assignments(node, sc)
        r = self.routine()
        info = self.routine_info.setdefault(r, {"line": node.lineno, "hasKeyParam": False, "file": self.rel})
        if len([k for k, _ in self._kinds if k == "def"]) == 1:
            info["line"] = node.lineno
            info["hasKeyParam"] = "key" in sc.params
        for ch in (node.body if isinstance(node.body, list) else [node.body]):
            self.visit(ch)
        for d in getattr(node, "decorator_list", []):
            self.visit(d)
        self._stack.pop()
        self._kinds.pop()
        self._names.pop()
        self._loops = outer_loops

    def visit_FunctionDef(self, node):
        self._visit_fn(node, node.name)

    visit_AsyncFunctionDef = visit_FunctionDef

    def visit_Lambda(self, node):
        self._visit_fn(node, "<lambda>")

    def visit_While(self, node):
        self._loops += 1
        self.generic_visit(node)
        self._loops -= 1

    visit_For = visit_While

    def _collect_assignments(self, fn, sc):
        """index `fn` (not nested defs / lambdas / classes): for every node its position
        (line, block path, enclosing loops), and every assignment with its position"""
        BLOCKS = ("body", "orelse", "finalbody", "handlers")

        def walk(node, path, loops):
            sc.pos[id(node)] = (getattr(node, "lineno", 0), path, loops)
            if node is not fn and isinstance(node, (ast.FunctionDef, ast.AsyncFunctionDef, ast.Lambda, ast.ClassDef)):
                return
            here = (getattr(node, "lineno", 0), path, loops)
            if isinstance(node, ast.Assign):
                for t in node.targets:
                    self._bind(t, node.value, sc, here)
            elif isinstance(node, ast.AnnAssign) and node.value is not None:
                self._bind(node.target, node.value, sc, here)
            elif isinstance(node, ast.AugAssign):
                self._bind(node.target, None, sc, here)
            elif isinstance(node, ast.NamedExpr):
                self._bind(node.target, node.value, sc, here)
            elif isinstance(node, ast.Return) and isinstance(node.value, ast.Tuple):
                sc.returns.append(node.value)
            elif isinstance(node, (ast.For, ast.AsyncFor)):
                self._bind(node.target, None, sc, here)     # loop variables: opaque
            elif isinstance(node, (ast.With, ast.AsyncWith)):
                for it in node.items:
                    if it.optional_vars is not None:
                        self._bind(it.optional_vars, None, sc, here)
            for field, value in ast.iter_fields(node):
                if isinstance(value, list):
                    is_block = field in BLOCKS and node is not fn and value and isinstance(value[0], (ast.stmt, ast.ExceptHandler))
                    sub = path + ((id(node), field),) if is_block else path
                    lp = loops + (id(node),) if (is_block and field == "body" and isinstance(node, (ast.For, ast.AsyncFor, ast.While))) else loops
                    for ch in value:
                        if isinstance(ch, ast.AST):
                            walk(ch, sub, lp)
                elif isinstance(value, ast.AST):
                    walk(value, path, loops)
        walk(fn, (), ())

    def _bind(self, target, value, sc, here):
        if isinstance(target, ast.Name):
            sc.add(target.id, ("expr", value, here))
        elif isinstance(target, (ast.Tuple, ast.List)) and value is None:
            for e in target.elts:
                self._bind(e.value if isinstance(e, ast.Starred) else e, None, sc, here)
        elif isinstance(target, (ast.Tuple, ast.List)):
            elts = target.elts
            arity = len(elts)
            starred = any(isinstance(e, ast.Starred) for e in elts)
            for pos, e in enumerate(elts):
                if isinstance(e, ast.Name):
                    if isinstance(value, ast.Name) and not starred:
                        sc.add(e.id, ("unpack", (value.id, pos, arity), here))
                    elif isinstance(value, (ast.Tuple, ast.List)) and len(value.elts) == arity and not starred:
                        sc.add(e.id, ("expr", value.elts[pos], here))
                    else:
                        sc.add(e.id, ("expr", None, here))
                elif isinstance(e, ast.Starred) and isinstance(e.value, ast.Name):
                    sc.add(e.value.id, ("expr", None, here))

    # -- key provenance ------------------------------------------------------------------------------
    # Flow-sensitive for straight-line code: the definitions of a name that REACH a position are the latest
    # dominating assignment (its block is an ancestor-or-same block of the position and it comes earlier) — or
    # the parameter / enclosing scope when there is none —, plus the non-dominating (conditional) assignments
    # after it, plus every assignment inside a loop that also encloses the position.
    def ksrc(self, e, sc, at, seen=None):
        """`at` = (line, block path, loops): where the expression is evaluated"""
        seen = seen or frozenset()
        if e is None:
            return "opaque"
        if isinstance(e, ast.Constant):
            return "const" if (e.value is None or (isinstance(e.value, int) and not isinstance(e.value, bool))) else "opaque"
        if isinstance(e, ast.IfExp):
            return join(self.ksrc(e.body, sc, at, seen), self.ksrc(e.orelse, sc, at, seen))
        if isinstance(e, ast.Call):
            f = e.func
            fname = f.attr if isinstance(f, ast.Attribute) else (f.id if isinstance(f, ast.Name) else None)
            if fname in ("PRNGKey", "next_key") and len(e.args) == 1 and not e.keywords:
                if isinstance(f, ast.Attribute) and not self.is_backend_recv(f.value):
                    return "opaque"     # jax.random.PRNGKey etc.
                return self.ksrc(e.args[0], sc, at, seen)
            # kwargs.get("key", default)
            if fname == "get" and isinstance(f, ast.Attribute) and isinstance(f.value, ast.Name) and e.args \
                    and isinstance(e.args[0], ast.Constant) and e.args[0].value == "key":
                src = "param"
                if len(e.args) > 1:
                    src = join(src, self.ksrc(e.args[1], sc, at, seen))
                return src
            if fname == "int" and len(e.args) == 1:
                return self.ksrc(e.args[0], sc, at, seen)
            return "opaque"
        if isinstance(e, ast.Attribute):
            if e.attr == "key" and isinstance(e.value, ast.Name) and e.value.id == "self":
                return "param"
            return "opaque"
        if isinstance(e, ast.Name):
            return self.name_src(e.id, sc, at, seen)
        return "opaque"

    @staticmethod
    def _reaching(recs, at, closure=False):
        """(dominating definition or None, further definitions that may reach `at`)"""
        line, path, loops = at
        dom = [r for r in recs if r[2][0] < line and path[:len(r[2][1])] == r[2][1]]
        D = max(dom, key=lambda r: r[2][0]) if dom else None
        lo = D[2][0] if D else -1
        more = [r for r in recs if r is not D and lo < r[2][0] < line and not (path[:len(r[2][1])] == r[2][1])]
        more += [r for r in recs if r[2][0] >= line and (closure or (set(r[2][2]) & set(loops)))]
        return D, more

    def name_src(self, name, sc, at, seen, closure=False):
        s = sc
        while s is not None:
            has_param = name in s.params
            if has_param or name in s.assign:
                tag = (id(s), name, at[0])
                if tag in seen:
                    return None      # a cycle (key = next_key(key) in a loop): contributes nothing new
                seen = seen | {tag}
                D, more = self._reaching(s.assign.get(name, []), at, closure)
                res = None
                if D is None:
                    if has_param:
                        # the routine's own `key` parameter; a nested function's parameter is loop state
                        res = "param" if (name == "key" and s.parent is None) else "opaque"
                    elif s.parent is not None:
                        res = self.name_src(name, s.parent, s.parent.pos.get(id(s.node), (0, (), ())), seen, closure=True)
                    else:
                        res = "opaque"   # a global / builtin
                for r in ([D] if D else []) + more:
                    if r[0] == "expr":
                        res = join(res, self.ksrc(r[1], s, r[2], seen))
                    else:
                        res = join(res, self.unpack_src(r[1], s, seen))
                return res
            if s.parent is None:
                break
            at = s.parent.pos.get(id(s.node), (0, (), ()))
            closure = True
            s = s.parent
        return "opaque"

    def unpack_src(self, what, sc, seen):
        """`a, b, key = state` where `state` is a parameter of the nested function `sc` (threaded
        loop state): the key is what the enclosing routine puts at that position of a tuple of the
        same arity, provided every tuple returned by `sc` carries a key-derived value there."""
        src_name, pos, arity = what
        if src_name not in sc.params or sc.parent is None:
            return "opaque"
        for rt in sc.returns:
            if len(rt.elts) == arity:
                r = self.ksrc(rt.elts[pos], sc, sc.pos.get(id(rt), (10**9, (), ())), seen)
                if r == "opaque":
                    return "opaque"
        outer = sc.parent
        res = None
        found = False
        for node in ast.walk(outer.node):
            if isinstance(node, ast.Tuple) and len(node.elts) == arity and isinstance(node.ctx, ast.Load):
                if id(node) not in outer.pos:       # inside a nested function
                    continue
                found = True
                res = join(res, self.ksrc(node.elts[pos], outer, outer.pos[id(node)], seen))
        return res if found and res is not None else "opaque"

    # -- sites -----------------------------------------------------------------------------------------
    def add_site(self, node, prim, keysrc, what):
        self.sites.append({
            "routine": self.routine() if self._kinds else self.modname + ".<module>",
            "label": self.label(), "prim": prim, "keySrc": keysrc, "what": what,
            "loc": f"{self.rel}:{node.lineno}",
            "inLoop": bool(self._loops) or len([k for k, _ in self._kinds if k == "def"]) > 1,
        })
        r = self.sites[-1]["routine"]
        self.routine_info.setdefault(r, {"line": node.lineno, "hasKeyParam": False, "file": self.rel})

    def visit_Attribute(self, node):
        # any mention of np.random.<f> that is not a call (aliasing, passing the function around)
        if self.is_npr(node.value) and not getattr(node, "_c17_done", False):
            if node.attr in LOCAL_CTORS:
                self.add_site(node, LOCAL, "opaque", f"np.random.{node.attr} (not called here)")
            else:
                self.add_site(node, GLOBAL, "opaque", f"np.random.{node.attr} (reference)")
        self.generic_visit(node)

    def visit_Call(self, node):
        f = node.func
        sc = self._stack[-1] if self._stack else None
        kw = {k.arg: k.value for k in node.keywords if k.arg}
        has_starstar = any(k.arg is None for k in node.keywords)
        handled = False
        if isinstance(f, ast.Attribute):
            if self.is_npr(f.value):
                f._c17_done = True
                handled = True
                if f.attr in LOCAL_CTORS:
                    seed = node.args[0] if node.args else kw.get("seed")
                    src = "opaque" if seed is None else self._const_or(seed, sc)
                    self.add_site(node, LOCAL, src, f"np.random.{f.attr}({ast.unparse(seed) if seed is not None else ''})")
                else:
                    self.add_site(node, GLOBAL, "opaque", f"np.random.{f.attr}(...)")
            elif f.attr == "randn" and self.is_backend_recv(f.value):
                handled = True
                self._randn_site(node, kw, has_starstar, sc, ast.unparse(f))
            elif f.attr == "randn":
                # a `.randn(` of something that is neither numpy.random nor a cola backend (torch.randn, an
                # unknown object): cannot be classified, counted conservatively as a global draw
                handled = True
                self.add_site(node, GLOBAL, "opaque", f"{ast.unparse(f)}(...) (foreign randn)")
            elif f.attr in ("PRNGKey", "next_key"):
                self.keyops.append({"routine": self.routine() if self._kinds else self.modname + ".<module>",
                                    "op": f.attr, "arg": ast.unparse(node.args[0]) if node.args else "",
                                    "recv": ast.unparse(f.value), "loc": f"{self.rel}:{node.lineno}"})
            elif f.attr in GLOBAL_ALIAS_NAMES and self.is_backend_recv(f.value):
                self.add_site(node, GLOBAL, "opaque", f"{ast.unparse(f)}(...) (backend alias of np.random.{f.attr})")
        elif isinstance(f, ast.Name):
            if f.id in self.npr_fn:
                handled = True
                fn = self.npr_fn[f.id]
                if fn in LOCAL_CTORS:
                    seed = node.args[0] if node.args else kw.get("seed")
                    self.add_site(node, LOCAL, "opaque" if seed is None else self._const_or(seed, sc), f"numpy.random.{fn}(...)")
                else:
                    self.add_site(node, GLOBAL, "opaque", f"numpy.random.{fn}(...)")
            elif f.id == "randn" and (f.id in self.backend_fn or self.rel == BACKEND_PRIM):
                handled = True
                self._randn_site(node, kw, has_starstar, sc, "randn")
            elif f.id in ("PRNGKey", "next_key") and (f.id in self.backend_fn or self.rel == BACKEND_PRIM):
                self.keyops.append({"routine": self.routine() if self._kinds else self.modname + ".<module>",
                                    "op": f.id, "arg": ast.unparse(node.args[0]) if node.args else "", "recv": "",
                                    "loc": f"{self.rel}:{node.lineno}"})
            elif f.id == "normal" and f.id in self.backend_fn:
                self.add_site(node, GLOBAL, "opaque", "normal(...) (backend alias of np.random.normal)")
        del handled
        self.generic_visit(node)

    def _const_or(self, e, sc):
        if isinstance(e, ast.Constant) and isinstance(e.value, int):
            return "const"
        return self.ksrc(e, sc, sc.pos.get(id(e), (10**9, (), ()))) if sc is not None else "opaque"

    def _randn_site(self, node, kw, has_starstar, sc, spelled):
        if "key" in kw:
            k = kw["key"]
            if isinstance(k, ast.Constant) and k.value is None:
                self.add_site(node, UNKEYED, "const", f"{spelled}(..., key=None)")
            else:
                src = self.ksrc(k, sc, sc.pos.get(id(node), (10**9, (), ()))) if sc is not None else "opaque"
                self.add_site(node, KEYED, src, f"{spelled}(..., key={ast.unparse(k)})")
        elif has_starstar:
            self.add_site(node, KEYED, "opaque", f"{spelled}(..., **kwargs)")
        else:
            self.add_site(node, UNKEYED, "const", f"{spelled}(...) without key=")


GLOBAL_ALIAS_NAMES = set()   # filled from np_fns before the other modules are scanned


# ------------------------------------------------------------------------------------------------
# the backend primitive itself: np_fns.randn as a list of steps
def randn_steps(tree):
    """statement-by-statement abstraction of `def randn(*shape, dtype, device, key)`"""
    fn = next((n for n in tree.body if isinstance(n, ast.FunctionDef) and n.name == "randn"), None)
    if fn is None:
        return ["missing"], None
    steps = []
    fallback = None
    saved = None
    for st in fn.body:
        if isinstance(st, ast.If):
            # if key is None: ...; key = PRNGKey(<literal>)
            t = st.test
            is_none = isinstance(t, ast.Compare) and isinstance(t.left, ast.Name) and t.left.id == "key" \
                and len(t.ops) == 1 and isinstance(t.ops[0], ast.Is) and isinstance(t.comparators[0], ast.Constant) \
                and t.comparators[0].value is None
            ok = is_none and not st.orelse
            for b in st.body:
                if isinstance(b, ast.Assign) and isinstance(b.targets[0], ast.Name) and b.targets[0].id == "key":
                    v = b.value
                    if isinstance(v, ast.Call) and isinstance(v.func, ast.Name) and v.func.id == "PRNGKey" \
                            and len(v.args) == 1 and isinstance(v.args[0], ast.Constant) and isinstance(v.args[0].value, int):
                        fallback = v.args[0].value
                    else:
                        ok = False
                elif isinstance(b, ast.Expr) and isinstance(b.value, ast.Call) and ast.unparse(b.value.func).startswith("logging."):
                    pass
                else:
                    ok = False
            steps.append("fallbackConst" if ok and fallback is not None else "other")
            continue
        src = ast.unparse(st)
        if isinstance(st, ast.Assign) and len(st.targets) == 1 and isinstance(st.targets[0], ast.Name):
            tgt = st.targets[0].id
            v = st.value
            if ast.unparse(v) == "np.random.get_state()":
                saved = tgt
                steps.append("saveState")
                continue
            # z = np.random.randn(*shape).astype(dtype)
            inner = v
            if isinstance(inner, ast.Call) and isinstance(inner.func, ast.Attribute) and inner.func.attr == "astype":
                inner = inner.func.value
            if isinstance(inner, ast.Call) and ast.unparse(inner.func) == "np.random.randn" and ast.unparse(inner) == "np.random.randn(*shape)":
                steps.append("draw")
                drawn = tgt
                continue
            steps.append("other")
            continue
        if isinstance(st, ast.Expr) and isinstance(st.value, ast.Call):
            if src == "np.random.seed(key)":
                steps.append("seedKey")
                continue
            if saved is not None and src == f"np.random.set_state({saved})":
                steps.append("restoreState")
                continue
            if isinstance(st.value.func, ast.Attribute) and ast.unparse(st.value.func).startswith("np.random."):
                steps.append("otherGlobal")
                continue
            steps.append("other")
            continue
        if isinstance(st, ast.Return):
            steps.append("return" if (isinstance(st.value, ast.Name) and st.value.id == locals().get("drawn")) else "other")
            continue
        if isinstance(st, ast.Expr) and isinstance(st.value, ast.Constant):
            continue    # docstring
        steps.append("other")
    return steps, fallback


def key_chain(tree):
    """PRNGKey / next_key must both be `return sha_hash(arg)` (a pure hash chain)"""
    out = {}
    for n in tree.body:
        if isinstance(n, ast.FunctionDef) and n.name in ("PRNGKey", "next_key"):
            body = [s for s in n.body if not (isinstance(s, ast.Expr) and isinstance(s.value, ast.Constant))]
            arg = n.args.args[0].arg if n.args.args else None
            out[n.name] = len(body) == 1 and isinstance(body[0], ast.Return) and ast.unparse(body[0].value) == f"sha_hash({arg})"
        if isinstance(n, ast.FunctionDef) and n.name == "sha_hash":
            names = {x.id for x in ast.walk(n) if isinstance(x, ast.Name)}
            attrs = {ast.unparse(x) for x in ast.walk(n) if isinstance(x, ast.Attribute)}
            out["sha_hash_pure"] = not any(a.startswith("np.random") or a.startswith("time.") or a.startswith("os.") for a in attrs) \
                and "random" not in names
    return out


# ------------------------------------------------------------------------------------------------
def scope_of(rel):
    if rel == BACKEND_PRIM:
        return "backendPrimitive"
    if rel in OTHER_BACKENDS:
        return "otherBackend"
    if rel in TEST_UTIL:
        return "testUtil"
    return "library"


def scan(base=None):
    base = base or cola_dir()
    pkg_parent = os.path.dirname(base)
    files = []
    for d, dirs, fs in os.walk(base):
        dirs.sort()
        for f in sorted(fs):
            if f.endswith(".py"):
                files.append(os.path.join(d, f))
    files.sort()
    # the backend first: its aliases of np.random functions define further global primitives
    bp = os.path.join(pkg_parent, BACKEND_PRIM)
    GLOBAL_ALIAS_NAMES.clear()
    btree = ast.parse(open(bp).read())
    bscan = ModuleScan(BACKEND_PRIM, "cola.backends.np_fns", open(bp).read())
    bscan.global_aliases_in_module()
    for a in bscan.aliases:
        GLOBAL_ALIAS_NAMES.add(a["name"])
    aliases = list(bscan.aliases)
    steps, fallback = randn_steps(btree)
    chain = key_chain(btree)

    sites, keyops, rinfo = [], [], {}
    for path in files:
        rel = os.path.relpath(path, pkg_parent).replace(os.sep, "/")
        mod = rel[:-3].replace("/", ".")
        if mod.endswith(".__init__"):
            mod = mod[:-9]
        src = open(path).read()
        ms = ModuleScan(rel, mod, src).scan()
        for s in ms.sites:
            s["scope"] = scope_of(rel)
        sites += ms.sites
        keyops += ms.keyops
        for r, info in ms.routine_info.items():
            rinfo[r] = info
    # group per routine (only routines with at least one site)
    routines = []
    by = {}
    for s in sites:
        by.setdefault(s["routine"], []).append(s)
    for r in sorted(by):
        info = rinfo.get(r, {"line": 0, "hasKeyParam": False, "file": by[r][0]["loc"].split(":")[0]})
        routines.append({"name": r, "file": info["file"], "line": info["line"], "scope": by[r][0]["scope"],
                         "hasKeyParam": bool(info["hasKeyParam"]), "sites": by[r]})
    return {"base": base, "files": len(files), "randnBody": steps, "fallbackKey": fallback, "keyChain": chain,
            "globalAliases": aliases, "routines": routines, "keyOps": keyops}


# ------------------------------------------------------------------------------------------------
def lstr(s):
    return '"' + s.replace("\\", "\\\\").replace('"', '\\"') + '"'


def to_lean(model):
    L = []
    L.append("/-  GENERATED by harness/translators/scan_rng_sites.py (AST scan of every cola/**/*.py) — DO NOT EDIT.")
    L.append("    Regenerated on every run of `./check C17`; the committed copy only serves a fresh `lake build`.")
    L.append("    Contents: the statement sequence of the NumPy backend primitive `randn`, its un-keyed fallback,")
    L.append("    the backend aliases of global draws, and per routine every random-draw site with its primitive,")
    L.append("    the provenance of its key, and file:line. -/")
    L.append("import ColaVerif.Model.Rng")
    L.append("")
    L.append("namespace ColaVerif.Gen.RngSites")
    L.append("open ColaVerif.Rng")
    L.append("")
    L.append("/-- body of `cola.backends.np_fns.randn`, statement by statement -/")
    L.append("def randnBody : List Step := [" + ", ".join("." + s for s in model["randnBody"]) + "]")
    L.append("")
    L.append("/-- `key = PRNGKey(c)` in the `if key is None` branch (none: no constant fallback found) -/")
    fb = model["fallbackKey"]
    L.append("def fallbackKey : Option Nat := " + ("none" if fb is None else f"some {fb}"))
    L.append("")
    ch = model["keyChain"]
    L.append("/-- `PRNGKey(x) = sha_hash(x)`, `next_key(k) = sha_hash(k)`, and `sha_hash` touches no random/time source -/")
    L.append("def keyChainPure : Bool := " + ("true" if ch.get("PRNGKey") and ch.get("next_key") and ch.get("sha_hash_pure") else "false"))
    L.append("")
    L.append("/-- names the NumPy backend exports that ARE functions of `np.random` (global-state primitives) -/")
    L.append("def globalAliases : List (String × String) := [" + ", ".join(f"({lstr(a['name'])}, {lstr(a['target'])})" for a in model["globalAliases"]) + "]")
    L.append("")
    L.append("def routines : List Routine := [")
    rs = []
    for r in model["routines"]:
        ss = []
        for s in r["sites"]:
            ss.append("      { label := %s, prim := .%s, keySrc := .%s, loc := %s, inLoop := %s, what := %s }" % (
                lstr(s["label"]), s["prim"], s["keySrc"], lstr(s["loc"]), "true" if s["inLoop"] else "false", lstr(s["what"])))
        rs.append("  { name := %s, loc := %s, scope := .%s, hasKeyParam := %s, sites := [\n%s ] }" % (
            lstr(r["name"]), lstr(f"{r['file']}:{r['line']}"), r["scope"], "true" if r["hasKeyParam"] else "false", ",\n".join(ss)))
    L.append(",\n".join(rs))
    L.append("]")
    L.append("")
    L.append("/-- uses of the hash chain (informational): (routine, op, argument, file:line) -/")
    L.append("def keyOps : List (String × String × String × String) := [")
    L.append(",\n".join("  (%s, %s, %s, %s)" % (lstr(k["routine"]), lstr(k["op"]), lstr(k["arg"]), lstr(k["loc"])) for k in model["keyOps"]))
    L.append("]")
    L.append("")
    L.append("end ColaVerif.Gen.RngSites")
    return "\n".join(L) + "\n"


def write(model, out_lean=OUT_LEAN, out_json=OUT_JSON):
    txt = to_lean(model)
    os.makedirs(os.path.dirname(out_lean), exist_ok=True)
    old = open(out_lean).read() if os.path.exists(out_lean) else None
    changed = old != txt
    if changed:   # do not touch the file (and trigger a rebuild) when nothing changed
        with open(out_lean, "w") as f:
            f.write(txt)
    os.makedirs(os.path.dirname(out_json), exist_ok=True)
    with open(out_json, "w") as f:
        json.dump(model, f, indent=1)
    return changed


SELFTEST_SRC = """
import numpy as np
import time
def a(A, key=None):
    xnp = A.xnp
    key = xnp.PRNGKey(42)
    return xnp.randn(3, key=key)
def b(A, key=None):
    xnp = A.xnp
    if A.n > 3:
        key = xnp.PRNGKey(42)
    return xnp.randn(3, key=key)
def c(A, key=None):
    xnp = A.xnp
    key = int(time.time())
    return xnp.randn(3, key=key)
def d(A, key=None):
    xnp = A.xnp
    key = xnp.PRNGKey(42) if key is None else key
    def body(state):
        i, key = state
        key = xnp.next_key(key)
        z = xnp.randn(3, key=key)
        return i + 1, key
    return xnp.while_loop(lambda s: s[0] < 3, body, (0, key))
def e(A, key=None):
    xnp = A.xnp
    def body(state):
        i, key = state
        z = xnp.randn(3, key=key)
        return i + 1, np.random.randint(5)
    return xnp.while_loop(lambda s: s[0] < 3, body, (0, key))
def f(A, key=None):
    xnp = A.xnp
    for i in range(3):
        z = xnp.randn(3, key=key)
        key = xnp.next_key(key)
def g(A, key=None):
    xnp = A.xnp
    for i in range(3):
        z = xnp.randn(3, key=key)
        key = i
def h(A, key=None):
    xnp = A.xnp
    key = 7
    def inner():
        return xnp.randn(3, key=key)
    return inner()
def k(A, key=None):
    xnp = A.xnp
    seed = key
    return xnp.randn(3, key=seed), np.random.default_rng(), np.random.default_rng(seed), xnp.normal(3), xnp.randn(3)
"""
SELFTEST_EXPECT = [
    ("x.a", KEYED, "const"), ("x.b", KEYED, "paramOrConst"), ("x.c", KEYED, "opaque"), ("x.d", KEYED, "paramOrConst"),
    ("x.e", KEYED, "opaque"), ("x.e", GLOBAL, "opaque"), ("x.f", KEYED, "param"), ("x.g", KEYED, "opaque"),
    ("x.h", KEYED, "const"), ("x.k", KEYED, "param"), ("x.k", LOCAL, "opaque"), ("x.k", LOCAL, "param"),
    ("x.k", GLOBAL, "opaque"), ("x.k", UNKEYED, "const"),
]


def selftest():
    """the provenance analysis on a synthetic module (overwritten / conditionally overwritten / opaque / loop-threaded /
    closure keys, unseeded and seeded local generators, backend alias of a global draw, un-keyed randn)"""
    saved = set(GLOBAL_ALIAS_NAMES)
    GLOBAL_ALIAS_NAMES.add("normal")
    try:
        ms = ModuleScan("x.py", "x", SELFTEST_SRC).scan()
    finally:
        GLOBAL_ALIAS_NAMES.clear()
        GLOBAL_ALIAS_NAMES.update(saved)
    got = [(s["routine"], s["prim"], s["keySrc"]) for s in ms.sites]
    if got != SELFTEST_EXPECT:
        raise RuntimeError(f"scan_rng_sites self-test failed:\n got      {got}\n expected {SELFTEST_EXPECT}")
    return len(got)


def main():
    quiet = "--quiet" in sys.argv
    selftest()
    model = scan()
    if "--no-write" not in sys.argv:
        changed = write(model)
    else:
        changed = None
    if not quiet:
        print(f"scanned {model['files']} files below {model['base']}; randn body = {model['randnBody']}; fallback key = {model['fallbackKey']}")
        for r in model["routines"]:
            print(f"{r['scope']:17s} {r['name']}  (key param: {r['hasKeyParam']})")
            for s in r["sites"]:
                print(f"      {s['prim']:27s} {s['keySrc']:13s} {s['loc']:55s} {s['what']}")
        print("table changed:", changed)


if __name__ == "__main__":
    main()
