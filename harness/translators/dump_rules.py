#!/venv/bin/python
"""Translator for property C04 (rule selection is total and unambiguous).

Reflects over the LIVE dispatcher of /repo (the global registry `plum.dispatch.functions` of the
vendored plum fork) and over the live class hierarchy, and regenerates

    lean/ColaVerif/Gen/RuleTable.lean      (GENERATED, never hand-edited)
    work/c04/lattice.json                  (the same data + the public call forms, for props/c04.py)

Nothing about cola's rules is written down here: signatures, precedences, conditions, default
expansion, union hints and the subclass relation are all read from the running objects.  What IS
fixed here, because it is part of the statement of C04, is the LATTICE: which public call forms
exist and which argument domains their documentation admits (tables DOMAINS / FORMS below), and
the named clause classes (CLAUSES) that the theorem may exclude.

Usage:  /venv/bin/python dump_rules.py [--out-lean PATH] [--out-json PATH] [--quiet]
It can also be imported (props/c04.py does) for `load()`, which returns the live model object.
"""
import collections.abc
import importlib
import inspect
import itertools
import json
import numbers
import operator
import os
import sys
import types
import typing

HERE = os.path.dirname(os.path.abspath(__file__))
HARNESS = os.path.dirname(HERE)
ROOT = os.path.dirname(HARNESS)
if HARNESS not in sys.path:
    sys.path.insert(0, HARNESS)

import numpy as np  # noqa: E402
import shim  # noqa: E402,F401  (installs the NumPy backend functions cola lacks)
import cola  # noqa: E402
import plum  # noqa: E402
from beartype.door import TypeHint  # noqa: E402

OUT_LEAN = os.path.join(ROOT, "lean", "ColaVerif", "Gen", "RuleTable.lean")
OUT_JSON = os.path.join(ROOT, "work", "c04", "lattice.json")


# --------------------------------------------------------------------------------------------
# 1. import every module of cola (so that the registry is the full one)
# --------------------------------------------------------------------------------------------
def import_all():
    """`import cola` leaves out packages without __init__ (linalg/svd, linalg/preconditioning,
    linalg/tbd).  Import every .py below the package, in sorted order (deterministic registration
    order); modules that need jax / torch are skipped and listed."""
    base = os.path.dirname(cola.__file__)
    skipped = []
    names = []
    for d, _dirs, files in os.walk(base):
        for f in files:
            if f.endswith(".py"):
                rel = os.path.relpath(os.path.join(d, f), os.path.dirname(base))[:-3]
                parts = rel.split(os.sep)
                if parts[-1] == "__init__":
                    parts = parts[:-1]
                names.append(".".join(parts))
    for n in sorted(set(names)):
        if n in sys.modules:
            continue
        try:
            importlib.import_module(n)
        except ImportError as ex:  # jax / torch backends
            skipped.append((n, str(ex)))
    return skipped


# --------------------------------------------------------------------------------------------
# 2. operator kinds: small real instances (3x3) of every concrete LinearOperator subclass
# --------------------------------------------------------------------------------------------
def _M():
    return np.array([[2., 1., 0.], [1., 3., 1.], [0., 1., 4.]])


def _M4():
    """4x4 symmetric positive definite with `_M()` as leading block (so a 3x3 slice of it is `_M()`)"""
    A = np.eye(4) * 5.
    A[:3, :3] = _M()
    A[3, :3] = A[:3, 3] = 1.
    return A


def _kernel_fn(a, b):
    return np.exp(-(a - b.T) ** 2)


def _ada_nys(pre_mod, A):
    """AdaNysPrecond draws its test matrix from NumPy's global generator: fixed seed, state put back"""
    st = np.random.get_state()
    try:
        np.random.seed(0)
        import logging
        lvl = logging.root.level
        logging.root.setLevel(logging.ERROR)   # "Non keyed randn used"
        try:
            return pre_mod.AdaNysPrecond(A, 2, bounds=(0.1, 10.))
        finally:
            logging.root.setLevel(lvl)
    finally:
        np.random.set_state(st)


def kind_builders():
    """name of the class -> zero-argument constructor of a real 3x3 instance.  Classes found by
    reflection that have no entry here (or whose constructor fails on the NumPy backend) get a
    stub instance (allocated with __new__, attributes shape/dtype/annotations set by hand): the
    resolver only looks at the class, `annotations` and, for Product, `Ms`.
    Round 5: the instances are chosen so that the rule BODIES of stream (c') run (non-singular, symmetric positive
    definite where the kind allows it: `Sliced` / `Concatenated` now represent `_M()` itself); Kernel, FFT and
    AdaNysPrecond have real constructors on the NumPy backend and are no stubs any more."""
    from cola.ops import (FFT, Adjoint, BlockDiag, Concatenated, Dense, Diagonal, Householder, Identity, Kernel,
                          Kronecker, KronSum, Permutation, Product, ScalarMul, Sliced, Sparse, Sum,
                          Transpose, Triangular, Tridiagonal)
    from cola.linalg.algorithm_base import IterativeOperatorWInfo
    from cola.linalg.inverse.gmres import GMRES
    inv_mod = sys.modules["cola.linalg.inverse.inv"]
    pinv_mod = sys.modules["cola.linalg.inverse.pinv"]
    unary_mod = sys.modules["cola.linalg.unary.unary"]
    pre_mod = sys.modules["cola.linalg.preconditioning.preconditioners"]
    f8 = np.float64
    D = lambda: Dense(_M())  # noqa: E731
    return {
        "LinearOperator": lambda: cola.fns.no_dispatch(D()),
        "Dense": D,
        "Triangular": lambda: Triangular(np.tril(_M()), lower=True),
        "Sparse": lambda: Sparse(np.array([1., 2., 3.]), np.array([0, 1, 2]), np.array([0, 1, 2]), shape=(3, 3)),
        "ScalarMul": lambda: ScalarMul(2., (3, 3), dtype=f8),
        "Identity": lambda: Identity((3, 3), f8),
        "Product": lambda: Product(D(), D()),
        "Sum": lambda: Sum(D(), D()),
        "Kronecker": lambda: Kronecker(D(), Dense(np.ones((1, 1)))),
        "KronSum": lambda: KronSum(D(), Dense(np.ones((1, 1)))),
        "BlockDiag": lambda: BlockDiag(Dense(np.eye(2) * 2), Dense(np.ones((1, 1)))),
        "Diagonal": lambda: Diagonal(np.array([1., 2., 3.])),
        "Tridiagonal": lambda: Tridiagonal(np.array([1., 1.]), np.array([2., 2., 2.]), np.array([1., 1.])),
        "Transpose": lambda: Transpose(D()),
        "Adjoint": lambda: Adjoint(D()),
        "Sliced": lambda: Sliced(Dense(_M4()), (slice(0, 3), slice(0, 3))),
        "Permutation": lambda: Permutation(np.array([1, 0, 2]), f8),
        "Concatenated": lambda: Concatenated(Dense(_M()[:1]), Dense(_M()[1:]), axis=0),
        "Householder": lambda: Householder(np.ones((3, 1))),
        "IterativeOperatorWInfo": lambda: IterativeOperatorWInfo(D(), GMRES()),
        "TriangularInv": lambda: inv_mod.TriangularInv(Triangular(np.tril(_M()), lower=True)),
        "LSTSQSolve": lambda: pinv_mod.LSTSQSolve(D()),
        "LanczosUnary": lambda: unary_mod.LanczosUnary(D(), np.exp),
        "ArnoldiUnary": lambda: unary_mod.ArnoldiUnary(D(), np.exp),
        "NystromPrecondLazy": lambda: pre_mod.NystromPrecondLazy(f8, (3, 3), np.eye(3)[:, :2], np.array(1.), np.array([2., 3.])),
        "NystromPrecond": lambda: pre_mod.NystromPrecond(cola.PSD(D()), 2),
        "Kernel": lambda: Kernel(np.array([[0.], [1.], [2.]]), np.array([[0.], [1.], [2.]]), _kernel_fn, 3, 3),
        "FFT": lambda: FFT(3, dtype=np.complex128),
        "AdaNysPrecond": lambda: _ada_nys(pre_mod, cola.PSD(D())),
    }


def stub_instance(cls):
    from cola.ops import LinearOperator
    o = LinearOperator.__new__(cls)
    o.shape = (3, 3)
    o.dtype = np.float64
    o.xnp = cola.backends.np_fns if hasattr(cola, "backends") else None
    o.annotations = set()
    o.device = None
    # Round 5: the class's own `_matmat` needs what only its constructor can provide (jvp / vjp of jax, a convolution of
    # jax.scipy: Jacobian, Hessian, ConvolveND).  So that the BODIES of the rules selected for a stub run in stream (c')
    # (to_dense, solves, Krylov iterations ... and the dispatch they do), the stub acts as the matrix `_M()`: instance
    # attributes shadow the methods.  Rule selection never calls them.
    M = _M()
    o._matmat = lambda X: M @ X
    o._rmatmat = lambda X: X @ M
    return o


def all_subclasses(c):
    out = []
    for s in c.__subclasses__():
        if s not in out:
            out.append(s)
        for t in all_subclasses(s):
            if t not in out:
                out.append(t)
    return out


def reflect_kinds():
    """Every LinearOperator class in the process.  Returns
       hint_classes  : the classes that can appear as hints (plain classes and the @parametric
                       wrappers), LinearOperator first
       kinds         : list of dict(name, cls (= runtime class of instances), make, stub) — the
                       concrete kinds K of the lattice.  For a @parametric wrapper W the runtime
                       class is one representative W[...] (e.g. Product[Dense, Dense])."""
    from cola.ops import LinearOperator
    builders = kind_builders()
    subs = all_subclasses(LinearOperator)
    hint_classes = [LinearOperator]
    kinds = []
    notes = []

    def is_wrapper(c):
        return getattr(c, "_parametric", False) and not getattr(c, "_concrete", False)

    def is_concrete_param(c):
        return getattr(c, "_parametric", False) and getattr(c, "_concrete", False)

    wrappers = [c for c in subs if is_wrapper(c)]
    inner = set()
    for w in wrappers:  # the undecorated class sits directly below the wrapper in the MRO
        for b in w.__mro__[1:]:
            if b is LinearOperator:
                break
            inner.add(b)
    seen_names = {}
    for c in [LinearOperator] + subs:
        if is_concrete_param(c) or c in inner:
            continue
        if c is not LinearOperator:
            hint_classes.append(c)
        name = c.__name__
        if name in seen_names:
            name = c.__module__.split(".")[-1] + "_" + name
        seen_names[name] = c
        stub = False
        inst = None
        b = builders.get(c.__name__)
        if b is not None:
            try:
                inst = b()
            except Exception as ex:  # constructor not usable on the NumPy backend
                notes.append(f"{name}: constructor failed ({type(ex).__name__}: {str(ex)[:80]}), using a stub instance")
        if inst is None:
            stub = True
            if is_wrapper(c):
                inst = stub_instance(c[LinearOperator])
            else:
                inst = stub_instance(c)
            if b is None:
                notes.append(f"{name}: no constructor in kind_builders(), using a stub instance")
        if not isinstance(inst, c):
            raise RuntimeError(f"builder for {name} returned {type(inst)}")
        kinds.append({"name": name, "cls": type(inst), "hint": c, "make": b, "stub": stub, "inst": inst,
                      "parametric": is_wrapper(c)})
    return hint_classes, kinds, notes


# --------------------------------------------------------------------------------------------
# 3. the lattice: argument domains and public call forms (PART OF THE STATEMENT OF C04)
# --------------------------------------------------------------------------------------------
def _alg(name):
    from cola.linalg.algorithm_base import Algorithm
    for c in all_subclasses(Algorithm):
        if c.__name__ == name:
            return c
    raise KeyError(name)


def _f_plain(x):
    return x


# admitted algorithm classes, read off the docstrings (where silent: the classes named by the
# function's own base-case rules)
ALGS = {
    "INV":   ["Auto", "LU", "Cholesky", "CG", "GMRES"],                       # inv / solve
    "PINV":  ["Auto", "LSTSQ", "CG"],                                         # pinv
    "LOG":   ["Auto", "LU", "Cholesky", "Lanczos", "Arnoldi"],                # slogdet / logdet: log_alg
    "TRACE": ["Auto", "Exact", "Hutch", "HutchPP"],                           # diag / trace / trace_alg (HutchPP: named by diag's base rule)
    "UNARY": ["Auto", "Eig", "Eigh", "Lanczos", "Arnoldi"],                   # exp log sqrt isqrt pow apply_unary
    "EIG":   ["Auto", "Eig", "Eigh", "Lanczos", "Arnoldi", "LOBPCG", "PowerIteration"],  # eig eigmax eigmin
    "SVD":   ["Auto", "DenseSVD", "Lanczos", "LOBPCG"],                       # svd
}


def domains(kinds):
    """name -> list of elements dict(label, cls, make)."""
    K = [{"label": k["name"], "cls": k["cls"], "make": None, "kind": k} for k in kinds]
    dom = {"K": K}
    for key, names in ALGS.items():
        dom[key] = [{"label": n, "cls": _alg(n), "make": _alg(n)} for n in names]
    dom["ARR"] = [{"label": "ndarray", "cls": np.ndarray, "make": lambda: np.eye(3)}]
    dom["INT"] = [{"label": "int", "cls": int, "make": lambda: 1}]
    dom["STR"] = [{"label": "str", "cls": str, "make": lambda: "LM"}]
    dom["FLOAT"] = [{"label": "float", "cls": float, "make": lambda: 1e-5}]
    dom["BOOL"] = [{"label": "bool", "cls": bool, "make": lambda: False}]
    dom["NUM"] = [{"label": "int", "cls": int, "make": lambda: 2},
                  {"label": "float", "cls": float, "make": lambda: 0.5},
                  {"label": "float64", "cls": np.float64, "make": lambda: np.float64(0.5)}]
    dom["SCALAR"] = [{"label": "int", "cls": int, "make": lambda: 2},
                     {"label": "float", "cls": float, "make": lambda: 0.5},
                     {"label": "complex", "cls": complex, "make": lambda: 1 + 2j},
                     {"label": "float64", "cls": np.float64, "make": lambda: np.float64(0.5)},
                     {"label": "ndarray", "cls": np.ndarray, "make": lambda: np.array(0.5)}]
    dom["FN"] = [{"label": "function", "cls": types.FunctionType, "make": lambda: _f_plain},
                 {"label": "ufunc", "cls": np.ufunc, "make": lambda: np.exp}]
    dom["KARR"] = K + dom["ARR"]
    dom["SMUL"] = [e for e in K if e["label"] == "ScalarMul"]
    dom["NYS"] = [e for e in K if e["label"] in ("NystromPrecond", "NystromPrecondLazy")]
    return dom


def forms():
    """The public call forms.  Each: (name, dispatched function, domains of the arguments,
    call on instances, target).  `target(*args) -> (positional, keyword)` are the arguments as
    they are handed to the dispatched entry point (None: the same positionals); the translator
    binds them like the entry point does (`@dispatch.abstract` fills the declared defaults and
    turns keywords into positionals; a bare plum Function dispatches on the positionals only).
    props/c04.py intercepts the first resolution of `call` and checks that it is this one."""
    L = cola.linalg
    fns = cola.fns
    ann = cola.annotations
    svd_mod = sys.modules["cola.linalg.svd.svd"]
    pre_mod = sys.modules["cola.linalg.preconditioning.preconditioners"]
    b3 = lambda: np.ones(3)  # noqa: E731
    F = []

    def form(name, fn, doms, call, target=None):
        F.append({"name": name, "fn": fn, "doms": doms, "call": call, "target": target})

    # ---- combinators
    form("A @ B", "dot", ["K", "K"], lambda A, B: A @ B)
    form("A + B", "add", ["K", "KARR"], lambda A, B: A + B)
    form("X + A (reflected)", "add", ["ARR", "K"], lambda X, A: X + A, lambda X, A: ((A, X), {}))
    form("cola.fns.add(X, Y)", "add", ["KARR", "KARR"], lambda X, Y: fns.add(X, Y))
    form("A * c", "mul", ["K", "SCALAR"], lambda A, c: A * c)
    form("c * A (reflected)", "mul", ["SCALAR", "K"], lambda c, A: c * A, lambda c, A: ((A, c), {}))
    form("cola.fns.mul(c, S)", "mul", ["SCALAR", "SMUL"], lambda c, S: fns.mul(c, S))
    form("S * S", "mul", ["SMUL", "SMUL"], lambda S, T: S * T)
    form("A.T", "transpose", ["K"], lambda A: A.T)
    form("A.H", "adjoint", ["K"], lambda A: A.H)
    form("cola.kron(X, Y)", "kron", ["KARR", "KARR"], lambda X, Y: cola.kron(X, Y))
    form("cola.kronsum(X, Y)", "kronsum", ["KARR", "KARR"], lambda X, Y: cola.kronsum(X, Y))
    form("get_annotations(A)", "get_annotations", ["K"], lambda A: ann.get_annotations(A))
    # ---- decompositions
    form("cholesky(A)", "cholesky", ["K"], lambda A: public_entry("cholesky")(A))
    form("plu(A)", "plu", ["K"], lambda A: public_entry("plu")(A))
    # ---- inverse
    form("inv(A)", "inv", ["K"], lambda A: L.inv(A))
    form("inv(A, alg)", "inv", ["K", "INV"], lambda A, a: L.inv(A, a))
    form("inv(A, alg=alg)", "inv", ["K", "INV"], lambda A, a: L.inv(A, alg=a), lambda A, a: ((A, ), {"alg": a}))
    form("solve(A, b)", "inv", ["K"], lambda A: L.solve(A, b3()), lambda A: ((A, L.Auto()), {}))
    form("solve(A, b, alg)", "inv", ["K", "INV"], lambda A, a: L.solve(A, b3(), a), lambda A, a: ((A, a), {}))
    form("pinv(A)", "pinv", ["K"], lambda A: L.pinv(A))
    form("pinv(A, alg)", "pinv", ["K", "PINV"], lambda A, a: L.pinv(A, a))
    # ---- log-determinant
    for nm, f in (("slogdet", L.slogdet), ("logdet", L.logdet)):
        form(f"{nm}(A)", "slogdet", ["K"], lambda A, f=f: f(A),
             None if nm == "slogdet" else lambda A: ((A, ), {"log_alg": L.Auto(), "trace_alg": L.Auto()}))
        form(f"{nm}(A, log_alg)", "slogdet", ["K", "LOG"], lambda A, a, f=f: f(A, a),
             None if nm == "slogdet" else lambda A, a: ((A, ), {"log_alg": a, "trace_alg": L.Auto()}))
        form(f"{nm}(A, log_alg, trace_alg)", "slogdet", ["K", "LOG", "TRACE"], lambda A, a, t, f=f: f(A, a, t),
             None if nm == "slogdet" else lambda A, a, t: ((A, ), {"log_alg": a, "trace_alg": t}))
        form(f"{nm}(A, trace_alg=t)", "slogdet", ["K", "TRACE"], lambda A, t, f=f: f(A, trace_alg=t),
             (lambda A, t: ((A, ), {"trace_alg": t})) if nm == "slogdet" else
             (lambda A, t: ((A, ), {"log_alg": L.Auto(), "trace_alg": t})))
    # ---- diagonal / trace
    form("diag(A)", "diag", ["K"], lambda A: L.diag(A))
    form("diag(A, k)", "diag", ["K", "INT"], lambda A, k: L.diag(A, k))
    form("diag(A, k, alg)", "diag", ["K", "INT", "TRACE"], lambda A, k, a: L.diag(A, k, a))
    form("diag(A, alg=alg)", "diag", ["K", "TRACE"], lambda A, a: L.diag(A, alg=a), lambda A, a: ((A, ), {"alg": a}))
    form("trace(A)", "trace", ["K"], lambda A: L.trace(A))
    form("trace(A, alg)", "trace", ["K", "TRACE"], lambda A, a: L.trace(A, a))
    # ---- unary functions
    for nm in ("exp", "log", "sqrt", "isqrt"):
        f = getattr(L, nm)
        form(f"{nm}(A)", nm, ["K"], lambda A, f=f: f(A))
        form(f"{nm}(A, alg)", nm, ["K", "UNARY"], lambda A, a, f=f: f(A, a))
        form(f"{nm}(A, alg=alg)", nm, ["K", "UNARY"], lambda A, a, f=f: f(A, alg=a), lambda A, a: ((A, ), {"alg": a}))
    form("pow(A, alpha)", "pow", ["K", "NUM"], lambda A, p: L.pow(A, p))
    form("pow(A, alpha, alg)", "pow", ["K", "NUM", "UNARY"], lambda A, p, a: L.pow(A, p, a))
    form("pow(A, alpha, alg=alg)", "pow", ["K", "NUM", "UNARY"], lambda A, p, a: L.pow(A, p, alg=a),
         lambda A, p, a: ((A, p), {"alg": a}))
    form("apply_unary(f, A)", "apply_unary", ["FN", "K"], lambda f, A: L.apply_unary(f, A))
    form("apply_unary(f, A, alg)", "apply_unary", ["FN", "K", "UNARY"], lambda f, A, a: L.apply_unary(f, A, a))
    # ---- eigenvalues
    form("eig(A, k)", "eig", ["K", "INT"], lambda A, k: L.eig(A, k))
    form("eig(A, k, which)", "eig", ["K", "INT", "STR"], lambda A, k, w: L.eig(A, k, w))
    form("eig(A, k, which, alg)", "eig", ["K", "INT", "STR", "EIG"], lambda A, k, w, a: L.eig(A, k, w, a))
    form("eig(A, k, alg=alg)", "eig", ["K", "INT", "EIG"], lambda A, k, a: L.eig(A, k, alg=a),
         lambda A, k, a: ((A, k), {"alg": a}))
    for nm, which in (("eigmax", "LM"), ("eigmin", "SM")):
        f = getattr(L, nm)
        form(f"{nm}(A)", "eig", ["K"], lambda A, f=f: f(A),
             lambda A, which=which: ((A, ), {"k": 1, "which": which, "alg": L.Auto()}))
        form(f"{nm}(A, alg)", "eig", ["K", "EIG"], lambda A, a, f=f: f(A, a),
             lambda A, a, which=which: ((A, ), {"k": 1, "which": which, "alg": a}))
    # ---- svd (module not imported by `import cola`)
    S = svd_mod.svd
    form("svd(A, k)", "svd", ["K", "INT"], lambda A, k: S(A, k))
    form("svd(A, k, which)", "svd", ["K", "INT", "STR"], lambda A, k, w: S(A, k, w))
    form("svd(A, k, which, alg)", "svd", ["K", "INT", "STR", "SVD"], lambda A, k, w, a: S(A, k, w, a))
    form("svd(A, k, alg=alg)", "svd", ["K", "INT", "SVD"], lambda A, k, a: S(A, k, alg=a),
         lambda A, k, a: ((A, k), {"alg": a}))
    # ---- preconditioners: documented for the two Nystrom classes only
    form("preconditioners.inverse(P)", "inverse", ["NYS"], lambda P: pre_mod.inverse(P))
    # ---- linalg/tbd: one rule with four defaulted positionals (tol, pbar, info, method)
    ns = public_entry("nullspace")
    form("nullspace(C)", "nullspace", ["K"], lambda C: ns(C))
    form("nullspace(C, tol)", "nullspace", ["K", "FLOAT"], lambda C, t: ns(C, t))
    form("nullspace(C, tol, pbar, info, method)", "nullspace", ["K", "FLOAT", "BOOL", "BOOL", "STR"],
         lambda C, t, p, i, me: ns(C, t, p, i, "dense" if isinstance(me, str) else me))  # a documented `method` (the STR element is eig's 'LM')
    return F


# Named clause classes: sets of lattice tuples on which rule selection is KNOWN to fail.  A clause
# is emitted (and excluded from the theorem) only while it is ACTIVE, i.e. while some lattice tuple
# in it is not uniquely resolved by the live table; props/c04.py then reports it as VIOLATION
# unless known_findings.json lists (property C04, this clause name).  `args`: per position the
# class names (an argument belongs when it is a subclass of one of them; [] = anything).
# All three are INACTIVE on the current /repo (the ties were repaired: 705c3a7, dd1f79c, 2e9f067), every
# generated `clauses_f` is `[]`, and Properties/C04/PartG.lean proves exactly that
# (`C04_no_recorded_exception`): when a clause becomes active again the Lean gate breaks on purpose and
# props/c04.py reports the failing calls; keeping the exception needs a deliberate restatement there.
CLAUSES = [
    {"clause": "pinv-base-alg-ties-structural", "fn": "pinv",
     "args": [["Identity", "ScalarMul", "Diagonal", "Permutation"], ["CG", "LSTSQ"]],
     "what": "pinv(A: LinearOperator, alg: CG|LSTSQ) registered with precedence 0 ties with the structural rules pinv(<kind>, Algorithm)"},
    {"clause": "eig-base-alg-ties-structural", "fn": "eig",
     "args": [["Identity", "Triangular", "Diagonal"], [], [], ["Arnoldi", "Lanczos", "LOBPCG"]],
     "what": "eig(A: LinearOperator, k, which, alg: Arnoldi|Lanczos|LOBPCG) registered with precedence 0 ties with eig(<kind>, int, str, Algorithm)"},
    {"clause": "svd-base-alg-ties-structural", "fn": "svd",
     "args": [["Identity", "Diagonal"], [], [], ["DenseSVD", "Lanczos", "LOBPCG"]],
     "what": "svd(A: LinearOperator, k, which, alg: DenseSVD|Lanczos|LOBPCG) registered with precedence 0 ties with svd(<kind>, int, str, Algorithm)"},
]


# --------------------------------------------------------------------------------------------
# 4. reflection over the registry
# --------------------------------------------------------------------------------------------
ANY = typing.Any


def hint_members(h):
    """a hint as the list of classes of the union (Any -> [Any])"""
    if h is ANY:
        return [ANY]
    if isinstance(h, types.UnionType) or typing.get_origin(h) is typing.Union:
        out = []
        for a in typing.get_args(h):
            out += hint_members(a)
        return out
    if h is typing.Callable or typing.get_origin(h) is collections.abc.Callable:
        return [collections.abc.Callable]
    if isinstance(h, type):
        return [h]
    raise NotImplementedError(f"type hint {h!r} is outside the model (only classes, unions of classes, Any, Callable)")


def impl_id(f):
    g = inspect.unwrap(f)
    return f"{g.__module__}:{g.__code__.co_firstlineno}"


def cond_text(c):
    try:
        src = inspect.getsource(c).strip().split("\n")[0]
    except (OSError, TypeError):
        src = getattr(c, "__name__", "?")
    return src[:140]


class Model:
    pass


def load(verbose=False):
    m = Model()
    m.skipped_modules = import_all()
    from cola.linalg.algorithm_base import Algorithm
    hint_classes, kinds, notes = reflect_kinds()
    m.kinds, m.notes = kinds, notes
    algs = [Algorithm] + all_subclasses(Algorithm)
    m.functions = {}
    reg = plum.dispatch.functions
    # ---- class universe
    classes = [ANY] + hint_classes
    for k in kinds:
        if k["cls"] not in classes:
            classes.append(k["cls"])
    classes += [a for a in algs if a not in classes]
    raw = {}
    for name, f in reg.items():
        f._resolve_pending_registrations()
        raw[name] = list(f._resolver.signatures)
        for s in raw[name]:
            for h in list(s.types) + ([s.varargs] if s.has_varargs else []):
                for c in hint_members(h):
                    if c not in classes:
                        classes.append(c)
    m.dom = domains(kinds)
    for d in m.dom.values():
        for e in d:
            if e["cls"] not in classes:
                classes.append(e["cls"])
    for c in (int, str):  # constants inserted by wrappers (eigmax: k=1, which='LM')
        if c not in classes:
            classes.append(c)
    m.classes = classes
    m.cid = {c: i for i, c in enumerate(classes)}

    def cname(c):
        if c is ANY:
            return "Any"
        mod = c.__module__
        return (c.__qualname__ if mod in ("builtins", ) else f"{mod}.{c.__qualname__}")
    m.class_names = [cname(c) for c in classes]
    # short labels for kinds / algs
    m.short = {}
    for k in kinds:
        m.short[m.cid[k["cls"]]] = k["name"]
    # ---- subclass matrix from the live classes, cross-checked against beartype's order
    n = len(classes)

    def sub(a, b):
        if b is ANY:
            return True
        if a is ANY:
            return False
        return issubclass(a, b)
    m.sub = [[sub(a, b) for b in classes] for a in classes]
    bad = []
    for i, a in enumerate(classes):
        for j, b in enumerate(classes):
            if (TypeHint(a) <= TypeHint(b)) != m.sub[i][j]:
                bad.append((m.class_names[i], m.class_names[j]))
    if bad:
        raise RuntimeError(f"issubclass and beartype.door disagree on {bad[:5]}")
    for i in range(n):  # the table must be a preorder (the Lean minimality lemma needs it)
        assert m.sub[i][i]
        for j in range(n):
            if m.sub[i][j]:
                for k in range(n):
                    if m.sub[j][k]:
                        assert m.sub[i][k], ("subclass relation not transitive", m.class_names[i], m.class_names[j], m.class_names[k])
    m.anc = [sum(1 << j for j in range(n) if m.sub[i][j]) for i in range(n)]
    # ---- signatures
    for name, sigs in raw.items():
        fn = {"name": name, "sigs": [], "conds": [], "live": sigs, "function": reg[name]}
        for idx, s in enumerate(sigs):
            tys = [[m.cid[c] for c in hint_members(h)] for h in s.types]
            va = [m.cid[c] for c in hint_members(s.varargs)] if s.has_varargs else None
            cond = None
            if s.condition is not None:
                cond = len(fn["conds"])
                fn["conds"].append({"sig": idx, "text": cond_text(s.condition)})
            prec = s.precedence
            if prec is None:
                raise NotImplementedError(f"{name}: signature registered through dispatch.multi (precedence None)")
            if int(prec) != prec:
                raise NotImplementedError(f"{name}: non-integer precedence {prec}")
            # the union / Any semantics assumed by the model, checked on the live hints
            fn["sigs"].append({"tys": tys, "va": va, "prec": int(prec), "cond": cond, "impl": impl_id(s.implementation),
                               "repr": ", ".join(plum.repr_short(t) for t in s.types)})
        # hint order of the model vs beartype on every pair of hints of this function
        hs = []
        for s in sigs:
            hs += list(s.types) + ([s.varargs] if s.has_varargs else [])
        for h in hs:
            for g in hs:
                live = bool(TypeHint(h) <= TypeHint(g))
                mod = all(any(m.sub[m.cid[a]][m.cid[b]] for b in hint_members(g)) for a in hint_members(h))
                if live != mod:
                    raise RuntimeError(f"{name}: model hint order differs from beartype on {h!r} <= {g!r}")
        m.functions[name] = fn
    build_lattice(m)
    if verbose:
        for nt in notes:
            print("note:", nt)
    return m


# --------------------------------------------------------------------------------------------
# 5. Python mirror of the Lean model (used to decide which clauses are active and as a third
#    opinion in props/c04.py); the Lean model is the one the theorems are about.
# --------------------------------------------------------------------------------------------
def _expand(s, n):
    if s["va"] is not None:
        return s["tys"] + [s["va"]] * max(n - len(s["tys"]), 0)
    return s["tys"]


def m_hint_le(m, h, g):
    return all(any(m.sub[a][b] for b in g) for a in h)


def m_sig_le(m, s, t):
    if s["va"] is not None and t["va"] is None:
        return False
    if s["va"] is not None and t["va"] is not None and not m_hint_le(m, s["va"], t["va"]):
        return False
    ls, lt = len(s["tys"]), len(t["tys"])
    if not (ls == lt or (ls > lt and t["va"] is not None) or (ls < lt and s["va"] is not None)):
        return False
    return all(m_hint_le(m, x, y) for x, y in zip(_expand(s, lt), _expand(t, ls)))


def m_match(m, s, args, conds):
    n = len(args)
    if not (len(s["tys"]) == n or (len(s["tys"]) < n and s["va"] is not None)):
        return False
    if not all(any(m.sub[a][b] for b in h) for a, h in zip(args, _expand(s, n))):
        return False
    return s["cond"] is None or bool((conds >> s["cond"]) & 1)


def mirror_resolve(m, fn, args, conds):
    """-> ('U', index) | ('A', [indices]) | ('N', [])"""
    sigs = fn["sigs"]
    le = lambda i, j: m_sig_le(m, sigs[i], sigs[j])  # noqa: E731
    lt = lambda i, j: le(i, j) and not le(j, i)  # noqa: E731
    cands = []
    for i, s in enumerate(sigs):
        if not m_match(m, s, args, conds):
            continue
        if not any(le(c, i) or le(i, c) for c in cands):
            cands.append(i)
            continue
        newc = [c for c in cands if not lt(i, c)]
        cands = newc + [i] if any(le(i, c) for c in cands) else newc
    if not cands:
        return ("N", [])
    if len(cands) == 1:
        return ("U", cands[0])
    sc = [2 * sigs[c]["prec"] + (1 if sigs[c]["cond"] is not None else 0) for c in cands]
    mx = max(sc)
    if sum(1 for x in sc if x == mx) == 1:
        return ("U", cands[sc.index(mx)])
    return ("A", cands)


# --------------------------------------------------------------------------------------------
# 6. the lattice of resolver-level tuples
# --------------------------------------------------------------------------------------------
def abstract_signature(f):
    """the inspect.Signature with which `@dispatch.abstract` binds the call (closure of new_fn)"""
    wrapper = getattr(f, "_abstract", None)
    if wrapper is None:
        return None
    for cell in wrapper.__closure__ or ():
        try:
            v = cell.cell_contents
        except ValueError:
            continue
        if isinstance(v, inspect.Signature):
            return v
    raise RuntimeError("abstract wrapper without a signature in its closure")


def dispatch_args(m, fname, entry_abstract, pos, kw):
    """what reaches Resolver.resolve for a call entry(*pos, **kw)"""
    f = m.functions[fname]["function"]
    if entry_abstract:
        sig = abstract_signature(f)
        b = sig.bind(*pos, **kw)
        b.apply_defaults()
        return tuple(b.arguments.values())
    return tuple(pos)  # Function.__call__ dispatches on the positionals only


def public_entry(fname):
    """the object a user calls for the dispatched function `fname`"""
    L = cola.linalg
    dec = sys.modules["cola.linalg.decompositions.decompositions"]
    special = {
        "svd": lambda: sys.modules["cola.linalg.svd.svd"].svd,
        "inverse": lambda: sys.modules["cola.linalg.preconditioning.preconditioners"].inverse,
        "cholesky": lambda: dec.cholesky,
        "plu": lambda: dec.plu,
        "nullspace": lambda: sys.modules["cola.linalg.tbd.nullspace"].nullspace,
    }
    if fname in special:
        return special[fname]()
    for ns in (L, cola.fns, cola.annotations):
        if hasattr(ns, fname):
            return getattr(ns, fname)
    raise KeyError(fname)


def public_entry_abstract(fname):
    """Is the PUBLIC name bound to the @dispatch.abstract wrapper or to the bare plum Function?
    (`sqrt` becomes abstract only when the preconditioners module is imported; the public
    cola.linalg.sqrt stays the bare Function.)"""
    return not isinstance(public_entry(fname), plum.Function)


def build_lattice(m):
    F = forms()
    m.forms = F
    covered = set()
    for fn in m.functions.values():
        fn["tuples"] = []      # list of (args ids tuple, conds)
        fn["tindex"] = {}
        fn["entry_abstract"] = public_entry_abstract(fn["name"])
    # one instance per domain element (kinds: the instance built during reflection)
    inst = {}
    for dname, els in m.dom.items():
        for e in els:
            key = (dname, e["label"])
            inst[key] = e["kind"]["inst"] if e.get("kind") else e["make"]()
            if type(inst[key]) is not e["cls"]:
                raise RuntimeError(f"domain element {key}: instance of {type(inst[key])}, expected {e['cls']}")
    m.dom_inst = inst
    for fo in F:
        fn = m.functions[fo["fn"]]
        covered.add(fo["fn"])
        fo["items"] = []
        doms = [m.dom[d] for d in fo["doms"]]
        for combo in itertools.product(*doms):
            vals = [inst[(d, e["label"])] for d, e in zip(fo["doms"], combo)]
            if fo["target"] is None:
                pos, kw = tuple(vals), {}
            else:
                pos, kw = fo["target"](*vals)
            dargs = dispatch_args(m, fo["fn"], fn["entry_abstract"], pos, kw)
            ids = tuple(m.cid[type(v)] for v in dargs)
            # condition bits: one per conditional rule whose types accept the tuple
            app = [c["sig"] for c in fn["conds"] if m_match(m, dict(fn["sigs"][c["sig"]], cond=None), ids, 0)]
            bits_idx = [fn["sigs"][i]["cond"] for i in app]
            tis = []
            for vals_bits in itertools.product([0, 1], repeat=len(bits_idx)):
                conds = sum(v << b for v, b in zip(vals_bits, bits_idx))
                key = (ids, conds)
                if key not in fn["tindex"]:
                    fn["tindex"][key] = len(fn["tuples"])
                    fn["tuples"].append(key)
                tis.append(fn["tindex"][key])
            fo["items"].append({"labels": [e["label"] for e in combo], "tuples": tis})
    missing = [n for n in m.functions if n not in covered]
    if missing:
        raise RuntimeError(f"dispatched functions without a public call form in FORMS: {missing} — extend the lattice table")
    # mirror outcomes and clause activity
    for fn in m.functions.values():
        fn["mirror"] = [mirror_resolve(m, fn, list(a), c) for a, c in fn["tuples"]]
        fn["nontrivial"] = sum(1 for a, c in fn["tuples"] if sum(1 for s in fn["sigs"] if m_match(m, s, a, c)) >= 2)
        fn["clauses"] = []
    by_short = {}
    for i, c in enumerate(m.classes):
        if c is not ANY:
            by_short.setdefault(c.__name__, []).append(i)
    m.inactive_clauses = []
    for cl in CLAUSES:
        fn = m.functions.get(cl["fn"])
        if fn is None:
            m.inactive_clauses.append(cl["clause"])
            continue
        pats = []
        for names in cl["args"]:
            ids = []
            for nm in names:
                # the hint class of that name (for @parametric kinds: the wrapper)
                cands = [i for i in by_short.get(nm, []) if not getattr(m.classes[i], "_concrete", False)]
                ids += cands[-1:] if cands else []
            pats.append(ids)
        members = [ti for ti, (a, c) in enumerate(fn["tuples"]) if clause_has(m, pats, a)]
        failing = [ti for ti in members if fn["mirror"][ti][0] != "U"]
        if not failing:
            m.inactive_clauses.append(cl["clause"])
            continue
        fn["clauses"].append({"name": cl["clause"], "pats": pats, "witness": failing[0], "members": members,
                              "exact": len(failing) == len(members), "what": cl["what"]})


def clause_has(m, pats, args):
    if len(pats) > len(args):
        return False
    return all((not p) or any(m.sub[a][b] for b in p) for a, p in zip(args, pats))


# --------------------------------------------------------------------------------------------
# 7. emit
# --------------------------------------------------------------------------------------------
def lean_list(xs):
    return "[" + ", ".join(xs) + "]"


def lean_hint(h):
    return lean_list(str(i) for i in h)


def emit_lean(m, path):
    o = []
    w = o.append
    w("/-  GENERATED by harness/translators/dump_rules.py from the live dispatcher of /repo — DO NOT EDIT.")
    w("    Regenerated on every run of `./check C04`; the committed copy only serves a fresh `lake build`.")
    w("    Contents: class ids, reflexive-transitive subclass table (bit masks), per dispatched function")
    w("    the registered signatures after default-argument expansion, and the lattice of C04. -/")
    w("import ColaVerif.Model.Dispatch")
    w("")
    w("namespace ColaVerif.Gen.RuleTable")
    w("open ColaVerif.Dispatch")
    w("")
    w("/-- class names by id (0 = typing.Any) -/")
    w("def classNames : List String := [")
    for i, nme in enumerate(m.class_names):
        w(f"  {json.dumps(nme)}{',' if i + 1 < len(m.class_names) else ''}  -- {i}")
    w("]")
    w("")
    w("/-- `anc[i]`: bit `j` set iff `issubclass(class i, class j)` (checked equal to beartype's `TypeHint <=`) -/")
    w("def anc : List Nat := [")
    for i, a in enumerate(m.anc):
        sup = [j for j in range(len(m.classes)) if m.sub[i][j] and j != i]
        w(f"  {a}{',' if i + 1 < len(m.anc) else ''}  -- {i} {m.class_names[i].split('.')[-1]} ≤ {sup}")
    w("]")
    w("")
    width = len(m.classes)
    packed = sum(a << (i * width) for i, a in enumerate(m.anc))
    w(f"/-- the same table packed into one number, {width} bits per class (see `Hier.wf`) -/")
    w(f"def ancPacked : Nat := 0x{packed:x}")
    w("")
    w(f"def hier : Hier := ⟨anc, {width}, ancPacked⟩")
    w("")
    names = sorted(m.functions)
    for name in names:
        fn = m.functions[name]
        w(f"/-! ### `{name}`: {len(fn['sigs'])} signatures, {len(fn['conds'])} conditions, {len(fn['tuples'])} lattice tuples -/")
        for c in fn["conds"]:
            w(f"-- condition bit {fn['sigs'][c['sig']]['cond']} (signature {c['sig']}): {c['text']}")
        w(f"def table_{name} : List Sig := [")
        for i, s in enumerate(fn["sigs"]):
            tys = lean_list(lean_hint(h) for h in s["tys"])
            va = "none" if s["va"] is None else f"(some {lean_hint(s['va'])})"
            cond = "none" if s["cond"] is None else f"(some {s['cond']})"
            prec = str(s["prec"]) if s["prec"] >= 0 else f"({s['prec']})"
            w(f"  ⟨{tys}, {va}, {prec}, {cond}⟩{',' if i + 1 < len(fn['sigs']) else ''}  -- {i}: ({s['repr']}) @ {s['impl']}")
        w("]")
        w(f"def impls_{name} : List String := " + lean_list(json.dumps(s["impl"]) for s in fn["sigs"]))
        w(f"def lattice_{name} : List Tup := [")
        per = 8
        ts = [f"⟨{lean_hint(a)}, {c}⟩" for a, c in fn["tuples"]]
        for i in range(0, len(ts), per):
            w("  " + ", ".join(ts[i:i + per]) + ("," if i + per < len(ts) else ""))
        w("]")
        w(f"def clauses_{name} : List Clause := " + lean_list(
            f"⟨{json.dumps(c['name'])}, {lean_list(lean_hint(p) for p in c['pats'])}⟩" for c in fn["clauses"]))
        for c in fn["clauses"]:
            a, cb = fn["tuples"][c["witness"]]
            w(f"/-- witness of clause `{c['name']}`: {c['what']} -/")
            w(f"def witness_{name}_{c['name'].replace('-', '_')} : Tup := ⟨{lean_hint(a)}, {cb}⟩")
        w("")
    w("/-- name, table, implementation ids, lattice, active clauses -/")
    w("def allFunctions : List (String × List Sig × List String × List Tup × List Clause) := [")
    for i, name in enumerate(names):
        w(f"  ({json.dumps(name)}, table_{name}, impls_{name}, lattice_{name}, clauses_{name}){',' if i + 1 < len(names) else ''}")
    w("]")
    w("")
    w("end ColaVerif.Gen.RuleTable")
    txt = "\n".join(o) + "\n"
    os.makedirs(os.path.dirname(path), exist_ok=True)
    old = open(path).read() if os.path.exists(path) else None
    if old != txt:  # keep the mtime when nothing changed (no needless rebuild)
        with open(path, "w") as f:
            f.write(txt)
    return old != txt


def summary(m):
    fs = {}
    for name, fn in m.functions.items():
        fs[name] = {
            "signatures": len(fn["sigs"]), "conditions": len(fn["conds"]), "tuples": len(fn["tuples"]),
            "nontrivial": fn["nontrivial"],
            "public_forms": {fo["name"]: len(fo["items"]) for fo in m.forms if fo["fn"] == name},
            "not_unique": [ti for ti, r in enumerate(fn["mirror"]) if r[0] != "U"],
            "clauses": [c["name"] for c in fn["clauses"]],
        }
    return fs


def emit_json(m, path):
    os.makedirs(os.path.dirname(path), exist_ok=True)
    js = {
        "classes": m.class_names,
        "kinds": [{"name": k["name"], "class_id": m.cid[k["cls"]], "stub": k["stub"], "parametric": k["parametric"]} for k in m.kinds],
        "skipped_modules": m.skipped_modules,
        "notes": m.notes,
        "inactive_clauses": m.inactive_clauses,
        "functions": {},
        "forms": [{"name": fo["name"], "fn": fo["fn"], "doms": fo["doms"], "items": fo["items"]} for fo in m.forms],
    }
    for name, fn in m.functions.items():
        js["functions"][name] = {
            "sigs": fn["sigs"], "conds": fn["conds"], "entry_abstract": fn["entry_abstract"],
            "tuples": [[list(a), c] for a, c in fn["tuples"]],
            "mirror": [[r[0], r[1]] for r in fn["mirror"]],
            "clauses": fn["clauses"],
        }
    with open(path, "w") as f:
        json.dump(js, f)
    return js


# --------------------------------------------------------------------------------------------
# 8. regression tables of Properties/C04/PartH*.lean, rebuilt from /repo's git HISTORY
# --------------------------------------------------------------------------------------------
# Hand-written here and part of the statement of the PartH / PartI theorems: the three repaired commits, the
# dispatched function each repaired, and the reduced class universe `rhier` (position = class id there).
OUT_REGRESSION = os.path.join(ROOT, "lean", "ColaVerif", "Properties", "C04", "PartHTables.lean")
HIST_DIR = os.path.join(ROOT, "work", "c04", "hist")
_OPS = "cola.ops.operators."
REGRESSION_CLASSES = [
    "Any", "cola.ops.operator_base.LinearOperator", _OPS + "Dense", _OPS + "Identity", _OPS + "ScalarMul", _OPS + "Permutation",
    _OPS + "Product", _OPS + "BlockDiag", _OPS + "Kronecker", _OPS + "Diagonal", _OPS + "Triangular",
    f"{_OPS}Kronecker[{_OPS}Dense, {_OPS}Dense]", f"{_OPS}Product[{_OPS}Dense, {_OPS}Dense]",
    "cola.linalg.algorithm_base.Algorithm", "cola.linalg.algorithm_base.Auto", "cola.linalg.decompositions.decompositions.Cholesky",
    "cola.linalg.decompositions.decompositions.LU", "cola.linalg.inverse.cg.CG", "cola.linalg.inverse.gmres.GMRES",
]
REGRESSION_TABLES = [
    {"fn": "inv", "commit": "f0220bc", "file": "cola/linalg/inverse/inv.py",
     "title": "fix: inv(A, GMRES()) on structured operators no longer ties with the structural rules"},
    {"fn": "dot", "commit": "1c4ad9a", "file": "cola/fns.py", "title": "fix: products with Identity resolve to a unique rule"},
    {"fn": "kron", "commit": "b369c4a", "file": "cola/fns.py",
     "title": "fix: kron(Kronecker, Kronecker) and kronsum(KronSum, KronSum) resolve to a unique rule"},
]


class _HStop(BaseException):
    pass


def _cname(c):
    if c is ANY:
        return "Any"
    return c.__qualname__ if c.__module__ == "builtins" else f"{c.__module__}.{c.__qualname__}"


def history_dump(fname):
    """Runs INSIDE a historical tree (PYTHONPATH = an extracted `git archive <sha> cola`): the rules of the dispatched
    function `fname` as plum registered them there, the subclass relation among REGRESSION_CLASSES, and what plum's REAL
    resolver answers there on calls with instances of those classes (first resolution intercepted, call aborted).
    -> JSON-able dict"""
    from plum.resolver import Resolver
    import_all()
    builders = kind_builders()
    short = {n: n.split("[")[0].split(".")[-1] for n in REGRESSION_CLASSES}
    insts, by_name = {}, {"Any": ANY}
    for n in REGRESSION_CLASSES:
        b = builders.get(short[n])
        if b is not None and short[n] not in insts:
            insts[short[n]] = b()
    from cola.linalg.algorithm_base import Algorithm
    for c in [cola.ops.LinearOperator] + all_subclasses(cola.ops.LinearOperator) + [Algorithm] + all_subclasses(Algorithm) + \
            [type(v) for v in insts.values()]:
        by_name.setdefault(_cname(c), c)
    missing = [n for n in REGRESSION_CLASSES if n not in by_name]
    if missing:
        raise RuntimeError(f"classes of the regression universe not found in this tree: {missing}")
    rc = [by_name[n] for n in REGRESSION_CLASSES]
    rid = {c: i for i, c in enumerate(rc)}

    def sub(a, b):
        return True if b is ANY else False if a is ANY else issubclass(a, b)
    f = plum.dispatch.functions[fname]
    f._resolve_pending_registrations()
    live = list(f._resolver.signatures)
    sigs, conds = [], []
    for idx, s in enumerate(live):
        cond = None
        if s.condition is not None:
            cond = len(conds)
            conds.append(idx)
        sigs.append({"tys": [[_cname(c) for c in hint_members(h)] for h in s.types],
                     "va": [_cname(c) for c in hint_members(s.varargs)] if s.has_varargs else None,
                     "prec": int(s.precedence), "cond": cond, "impl": impl_id(s.implementation),
                     "cond_text": cond_text(s.condition) if s.condition is not None else None,
                     "repr": ", ".join(plum.repr_short(t) for t in s.types)})
    # ---- the real resolver of this tree on real instances
    L = cola.linalg
    ops = [insts[k] for k in ("LinearOperator", "Dense", "Identity", "ScalarMul", "Permutation", "Product", "BlockDiag",
                              "Kronecker", "Diagonal", "Triangular")]

    def steered(A):
        import copy
        out = [A]
        for ann in ([cola.Unitary], []):
            o = copy.copy(A)
            o.annotations = set(ann) if not ann else set(A.annotations) | set(ann)
            out.append(o)
        return out
    ops.append(cola.ops.Product(cola.ops.Dense(np.ones((3, 2))), cola.ops.Dense(np.ones((2, 3)))))
    if fname == "inv":
        calls = [(lambda A=A, a=a: L.inv(A, a)) for B in ops for A in steered(B) for a in (L.Auto(), L.Cholesky(), L.LU(), L.CG(), L.GMRES())]
    elif fname == "dot":
        calls = [(lambda A=A, B=B: A @ B) for A in ops for B in ops]
    elif fname == "kron":
        calls = [(lambda A=A, B=B: cola.kron(A, B)) for A in ops for B in ops]
    else:
        raise KeyError(fname)
    observed, seen, n_calls = [], set(), 0
    orig = Resolver.resolve
    for thunk in calls:
        rec = {}

        def patched(rs, target):
            if rec or rs is not f._resolver or not isinstance(target, tuple):
                return orig(rs, target)
            rec["args"] = target
            try:
                sg = orig(rs, target)
                rec["out"] = ["U", next(i for i, s in enumerate(rs.signatures) if s is sg)]
            except plum.AmbiguousLookupError:
                rec["out"] = ["A"]
            except plum.NotFoundLookupError:
                rec["out"] = ["N"]
            raise _HStop()
        f._cache.clear()
        Resolver.resolve = patched
        try:
            thunk()
        except _HStop:
            pass
        except Exception:  # noqa: BLE001  (raised before `fname` is dispatched: nothing observed)
            pass
        finally:
            Resolver.resolve = orig
        n_calls += 1
        if "out" not in rec or any(type(v) not in rid for v in rec["args"]):
            continue
        args = rec["args"]
        bits = 0
        for k, idx in enumerate(conds):
            s = live[idx]
            ok = (len(s.types) == len(args) or (len(s.types) < len(args) and s.has_varargs)) and \
                all(plum._is_bearable(v, t) for v, t in zip(args, s.expand_varargs(len(args))))
            if ok and s.condition(*args):
                bits |= 1 << k
        key = (tuple(rid[type(v)] for v in args), bits)
        if key in seen:
            prev = next(o for o in observed if (tuple(o["args"]), o["bits"]) == key)
            if prev["out"] != rec["out"]:
                raise RuntimeError(f"plum resolves {key} differently on two calls: {prev['out']} / {rec['out']}")
            continue
        seen.add(key)
        observed.append({"args": list(key[0]), "bits": bits, "out": rec["out"]})
    observed.sort(key=lambda o: (o["args"], o["bits"]))
    return {"fn": fname, "cola": os.path.dirname(cola.__file__), "sigs": sigs,
            "supers": [[j for j, b in enumerate(rc) if sub(a, b)] for a in rc], "observed": observed, "calls": n_calls}


def _git(root, *args):
    import subprocess
    p = subprocess.run(["git", "-C", root] + list(args), capture_output=True)
    return p.returncode, p.stdout, p.stderr.decode(errors="replace")


def regression_history(repo_root=None):
    """For every entry of REGRESSION_TABLES: extract `git archive <commit>^ cola` and `git archive <commit> cola` of the
    repository that holds the cola under test (fallback: /repo), run `history_dump` in a fresh interpreter on each, and
    translate class names into `rhier` ids.  -> dict(available, why?, tables: {fn: {pre, post, ...}}, supers)"""
    import subprocess
    from concurrent.futures import ThreadPoolExecutor
    roots = [repo_root or os.path.dirname(os.path.dirname(os.path.abspath(cola.__file__))), "/repo"]
    root = next((r for r in roots if all(_git(r, "rev-parse", "--verify", "-q", t["commit"] + "^{commit}")[0] == 0
                                         for t in REGRESSION_TABLES)), None)
    if root is None:
        return {"available": False, "why": f"none of {roots} is a git repository that has the commits "
                                           f"{[t['commit'] for t in REGRESSION_TABLES]}"}
    jobs = []
    for t in REGRESSION_TABLES:
        for side, rev in (("pre", t["commit"] + "^"), ("post", t["commit"])):
            sha = _git(root, "rev-parse", rev)[1].decode().strip()
            src = _git(root, "show", f"{sha}:{t['file']}")
            if src[0] != 0:
                return {"available": False, "why": f"git show {rev}:{t['file']} failed: {src[2][:200]}"}
            d = os.path.join(HIST_DIR, sha)
            if not os.path.isdir(os.path.join(d, "cola")):
                os.makedirs(d + ".tmp", exist_ok=True)
                ar = subprocess.run(["git", "-C", root, "archive", sha, "cola"], capture_output=True)
                if ar.returncode != 0:
                    return {"available": False, "why": f"git archive {sha} failed: {ar.stderr.decode()[:200]}"}
                subprocess.run(["tar", "-x", "-C", d + ".tmp"], input=ar.stdout, check=True)
                os.replace(d + ".tmp", d)
            if open(os.path.join(d, t["file"]), "rb").read() != src[1]:
                raise RuntimeError(f"extracted tree {d} differs from git show {sha}:{t['file']}")
            jobs.append((t, side, sha, d))

    def run(job):
        t, side, sha, d = job
        env = dict(os.environ, PYTHONPATH=d)
        p = subprocess.run([sys.executable, os.path.abspath(__file__), "--history-dump", t["fn"]], env=env, capture_output=True,
                           cwd=d, timeout=900)
        if p.returncode != 0:
            raise RuntimeError(f"history dump of {t['fn']} at {sha[:7]} failed:\n" + (p.stdout + p.stderr).decode(errors="replace")[-1500:])
        js = json.loads(p.stdout.decode().strip().split("\n")[-1])
        if os.path.realpath(js["cola"]) != os.path.realpath(os.path.join(d, "cola")):
            raise RuntimeError(f"history dump imported cola from {js['cola']}, not from {d}")
        return js
    with ThreadPoolExecutor(len(jobs)) as ex:
        dumps = list(ex.map(run, jobs))
    rid = {n: i for i, n in enumerate(REGRESSION_CLASSES)}
    out = {"available": True, "repository": root, "tables": {}, "supers": dumps[0]["supers"]}
    for (t, side, sha, d), js in zip(jobs, dumps):
        if js["supers"] != out["supers"]:
            raise RuntimeError(f"the subclass relation among the regression classes at {sha[:7]} differs from the one at {jobs[0][2][:7]}")
        rows = []
        for s in js["sigs"]:
            bad = [c for h in s["tys"] + ([s["va"]] if s["va"] else []) for c in h if c not in rid]
            if bad:
                raise RuntimeError(f"{t['fn']} at {sha[:7]} mentions classes outside the regression universe: {bad}")
            rows.append(dict(s, tys=[[rid[c] for c in h] for h in s["tys"]], va=[rid[c] for c in s["va"]] if s["va"] else None,
                             names=s["tys"]))
        e = out["tables"].setdefault(t["fn"], {"commit": t["commit"], "file": t["file"], "title": t["title"]})
        e[side] = {"sha": sha, "sigs": rows, "observed": js["observed"], "calls": js["calls"]}
    return out


def _lean_res(o):
    return {"U": f".unique {o[1]}" if o[0] == "U" else "", "A": ".ambiguous", "N": ".notFound"}[o[0]]


def emit_regression_lean(H, path=OUT_REGRESSION):
    """-> True when the file changed"""
    o = []
    w = o.append
    w("/-  GENERATED by harness/translators/dump_rules.py (`regression_history`) from /repo's git HISTORY — DO NOT EDIT.")
    w("    Regenerated on every run of `./check C04`; the committed copy only serves a fresh `lake build`.")
    w("    For each repaired commit C of REGRESSION_TABLES: `<fn>_pre` = the rules of the dispatched function as plum")
    w("    registers them on the tree `git archive C^ cola`, `<fn>_post` = the same on `git archive C cola`;")
    w("    `<fn>_pre_observed` / `<fn>_post_observed` = what plum's REAL resolver answered on those trees on calls with")
    w("    instances of the classes of `rhier` (first resolution intercepted).  Class ids are positions in `rnames`. -/")
    w("import ColaVerif.Model.Dispatch")
    w("")
    w("namespace ColaVerif.Properties.C04")
    w("open ColaVerif.Dispatch")
    w("")
    w("/-- ancestor mask from the list of super-classes (incl. the class itself and `Any` = 0) -/")
    w("def Regression.maskOf (supers : List Nat) : Nat := supers.foldl (fun a j => a ||| (1 <<< j)) 0")
    w("")
    w("/-- the reduced class universe: the classes the three tables mention, `Dense`, and one runtime parametrisation each of")
    w("    the `@parametric` kinds `Kronecker` and `Product` -/")
    w("def Regression.rnames : List String := [")
    for i, n in enumerate(REGRESSION_CLASSES):
        w(f"  {json.dumps(n)}{',' if i + 1 < len(REGRESSION_CLASSES) else ''}  -- {i}")
    w("]")
    w("")
    w("open Regression in")
    w("/-- `issubclass` among these classes on the historical trees (same conventions as `Gen/RuleTable.lean: anc`) -/")
    w("def Regression.ranc : List Nat := [")
    for i, sup in enumerate(H["supers"]):
        w(f"  maskOf {lean_list(str(j) for j in sup)}{',' if i + 1 < len(H['supers']) else ''}  -- {i} {REGRESSION_CLASSES[i].split('.')[-1] if '[' not in REGRESSION_CLASSES[i] else _short_param(REGRESSION_CLASSES[i])}")
    w("]")
    w("")
    w(f"def Regression.rhier : Hier := ⟨Regression.ranc, {len(REGRESSION_CLASSES)}, packMasks {len(REGRESSION_CLASSES)} Regression.ranc⟩")
    w("")
    w("namespace Regression")
    for fn, e in H["tables"].items():
        for side in ("pre", "post"):
            t = e[side]
            rev = e["commit"] + ("^" if side == "pre" else "")
            w("")
            w(f"/-- `{fn}` in `{e['file']}` at /repo commit {rev} = {t['sha'][:12]} (\"{e['title']}\"" + (": its parent" if side == "pre" else "") + ")")
            for s in t["sigs"]:
                if s["cond"] is not None:
                    w(f"    condition bit {s['cond']}: {s['cond_text']}")
            w("-/")
            w(f"def {fn}_{side} : List Sig := [")
            for i, s in enumerate(t["sigs"]):
                tys = lean_list(lean_hint(h) for h in s["tys"])
                va = "none" if s["va"] is None else f"(some {lean_hint(s['va'])})"
                cond = "none" if s["cond"] is None else f"(some {s['cond']})"
                prec = str(s["prec"]) if s["prec"] >= 0 else f"({s['prec']})"
                w(f"  ⟨{tys}, {va}, {prec}, {cond}⟩{',' if i + 1 < len(t['sigs']) else ''}  -- {i}: ({s['repr']}) @ {s['impl']}")
            w("]")
            w(f"/-- answers of plum's real resolver on the tree {t['sha'][:12]} ({t['calls']} calls, {len(t['observed'])} distinct tuples) -/")
            w(f"def {fn}_{side}_observed : List (Tup × Res) := [")
            obs = [f"(⟨{lean_hint(x['args'])}, {x['bits']}⟩, {_lean_res(x['out'])})" for x in t["observed"]]
            for i in range(0, len(obs), 4):
                w("  " + ", ".join(obs[i:i + 4]) + ("," if i + 4 < len(obs) else ""))
            w("]")
    w("")
    w("end Regression")
    w("")
    w("end ColaVerif.Properties.C04")
    txt = "\n".join(o) + "\n"
    old = open(path).read() if os.path.exists(path) else None
    if old != txt:
        with open(path, "w") as f:
            f.write(txt)
    return old != txt


def _short_param(n):
    return n.split("[")[0].split(".")[-1] + "[" + ", ".join(x.strip().split(".")[-1] for x in n.split("[")[1].rstrip("]").split(",")) + "]"


def post_equals_today(H, m):
    """`<fn>_post` of the history against the table of TODAY's working tree (`m`, the data Gen/RuleTable.lean is emitted
    from), class ids translated by NAME; also `rhier` against today's subclass table.  -> {fn: True | description}"""
    res = {}
    name_id = {n: i for i, n in enumerate(m.class_names)}
    missing = [n for n in REGRESSION_CLASSES if n not in name_id]
    if missing:
        return {"hierarchy": f"classes missing today: {missing}"}
    ids = [name_id[n] for n in REGRESSION_CLASSES]
    today_sup = [[j for j, b in enumerate(ids) if m.sub[a][b]] for a in ids]
    res["hierarchy"] = True if today_sup == H["supers"] else "issubclass among the regression classes differs today"
    back = {name_id[n]: i for i, n in enumerate(REGRESSION_CLASSES)}
    for fn, e in H["tables"].items():
        today = m.functions[fn]["sigs"]
        try:
            tr = [([[back[c] for c in h] for h in s["tys"]], [back[c] for c in s["va"]] if s["va"] is not None else None,
                   s["prec"], s["cond"]) for s in today]
        except KeyError as ex:
            res[fn] = f"today's table mentions class {m.class_names[ex.args[0]]} outside the regression universe"
            continue
        post = [(s["tys"], s["va"], s["prec"], s["cond"]) for s in e["post"]["sigs"]]
        if tr == post:
            res[fn] = True
        else:
            diff = [i for i in range(max(len(tr), len(post))) if i >= len(tr) or i >= len(post) or tr[i] != post[i]]
            res[fn] = f"today's table_{fn} ({len(tr)} rows) differs from {fn}_post at {e['commit']} ({len(post)} rows) in rows {diff}"
    return res


def main(argv):
    out_lean, out_json, quiet = OUT_LEAN, OUT_JSON, False
    it = iter(argv)
    if argv[:1] == ["--history-dump"]:   # inside a historical tree (see regression_history)
        print(json.dumps(history_dump(argv[1])))
        return
    for a in it:
        if a == "--out-lean":
            out_lean = next(it)
        elif a == "--out-json":
            out_json = next(it)
        elif a == "--quiet":
            quiet = True
    m = load(verbose=not quiet)
    changed = emit_lean(m, out_lean)
    emit_json(m, out_json)
    s = summary(m)
    tot = sum(v["tuples"] for v in s.values())
    forms_tot = sum(sum(v["public_forms"].values()) for v in s.values())
    print(json.dumps({"functions": len(s), "signatures": sum(v["signatures"] for v in s.values()),
                      "classes": len(m.classes), "kinds": len(m.kinds), "tuples": tot, "public_form_items": forms_tot,
                      "changed": changed, "inactive_clauses": m.inactive_clauses,
                      "not_unique": {k: len(v["not_unique"]) for k, v in s.items() if v["not_unique"]}}))
    if not quiet:
        for k in sorted(s):
            print(f"  {k:16s} sigs={s[k]['signatures']:3d} conds={s[k]['conditions']} tuples={s[k]['tuples']:5d} "
                  f"nontrivial={s[k]['nontrivial']:5d} not_unique={len(s[k]['not_unique'])} clauses={s[k]['clauses']}")


if __name__ == "__main__":
    main(sys.argv[1:])
