#!/venv/bin/python
"""Translator for property C19, dispatch level ("structured operators are never densified").

Regenerates on every run, from the LIVE dispatcher and the SOURCE of /repo's working tree,

    lean/ColaVerif/Gen/RuleTable.lean        (through dump_rules.py, unchanged format)
    lean/ColaVerif/Gen/StructuralRules.lean  (GENERATED, never hand-edited)
    work/c19/structural.json                 (the same data for props/c19.py)

For every dispatched function of the linear-algebra family (FAMILY) it classifies each registered
rule by reading the AST of its implementation:

  structural : the operator parameter is annotated with structured kinds only (STRUCTURED, or a
               union of them) and the body touches the operator parameter only through its
               factors — attributes Ms / diag / c / multiplicities / shape / dtype / xnp / device /
               annotations / isa, `I_like(A)`, scalar `*`, or returning `A` itself.  Such a rule can
               call linear algebra on the FACTORS but never sees the composite as a matrix.
  forwarder  : every use of the operator parameter is as above or hands it, as a whole, to another
               dispatched function (trace -> diag, sqrt -> pow, exp -> apply_unary,
               cholesky(Diagonal | ScalarMul) -> sqrt, ...).  The classes of the forwarded
               arguments are read off the call expression.
  generic    : everything else (A.to_dense(), A @ ..., passing A to an iterative routine, ...).

and emits the C19 lattice: every public call form of the C04 lattice (dump_rules.FORMS) on every
structured operator kind, with the algorithm argument omitted and with every admitted algorithm
class, and every truth value of the applicable registration conditions.

Nothing about which rule is structural is written down here; what IS fixed here, as part of the
statement of C19, is FAMILY, STRUCTURED and the attribute whitelist.

Usage: /venv/bin/python dump_structural.py [--quiet]      (also importable: `analyse()`)
"""
import ast
import inspect
import json
import os
import sys
import types

HERE = os.path.dirname(os.path.abspath(__file__))
if HERE not in sys.path:
    sys.path.insert(0, HERE)
import dump_rules as D  # noqa: E402  (imports shim + cola)

ROOT = D.ROOT
OUT_LEAN = os.path.join(ROOT, "lean", "ColaVerif", "Gen", "StructuralRules.lean")
OUT_JSON = os.path.join(ROOT, "work", "c19", "structural.json")

# ---- the statement -------------------------------------------------------------------------
FAMILY = ["inv", "slogdet", "diag", "trace", "apply_unary", "exp", "log", "pow", "sqrt", "isqrt", "cholesky", "plu"]
STRUCTURED = ["Kronecker", "KronSum", "BlockDiag", "Diagonal", "Identity", "ScalarMul", "Product", "Sum"]
# attributes through which a rule may look at the operator without treating it as a matrix
ALLOWED_ATTRS = {"Ms", "diag", "c", "multiplicities", "shape", "dtype", "xnp", "device", "annotations", "isa"}
FACTOR_ATTRS = {"Ms", "diag", "c"}
# callables that take the operator as a whole and stay lazy (no matrix is formed)
LAZY_CALLEES = {"I_like"}
ALG_DOMS = set(D.ALGS)
FUEL = 6


# ---- source analysis -----------------------------------------------------------------------
_module_asts = {}


def module_ast(mod):
    if mod.__name__ not in _module_asts:
        src = inspect.getsource(mod)
        tree = ast.parse(src)
        _module_asts[mod.__name__] = tree
    return _module_asts[mod.__name__]


def find_def(fn_obj):
    """FunctionDef node of the implementation (co_firstlineno is the first decorator line)"""
    g = inspect.unwrap(fn_obj)
    mod = sys.modules[g.__module__]
    line = g.__code__.co_firstlineno
    for node in ast.walk(module_ast(mod)):
        if isinstance(node, (ast.FunctionDef, ast.AsyncFunctionDef)):
            first = min([node.lineno] + [d.lineno for d in node.decorator_list])
            if first == line and node.name == g.__name__:
                return g, mod, node
    raise RuntimeError(f"no FunctionDef for {g.__module__}:{line} ({g.__name__})")


def callee_name(func):
    if isinstance(func, ast.Name):
        return func.id
    if isinstance(func, ast.Attribute):
        return func.attr
    return None


def eval_in(mod, node):
    """evaluate a Name / dotted Attribute chain in the module's globals (None if impossible)"""
    try:
        code = compile(ast.Expression(body=node), "<c19>", "eval")
        return eval(code, dict(vars(mod)))  # noqa: S307  (names of the analysed module only)
    except Exception:
        return None


class RuleInfo:
    pass


def classify_expr(m, mod, fdef, node, params, defaults, pname, depth=0):
    """-> list of alternatives  ('param', k, dflt) | ('const', cid) | ('unknown',)"""
    if isinstance(node, ast.Name):
        assigned = []
        for sub in ast.walk(fdef):
            tgts = []
            if isinstance(sub, ast.Assign):
                tgts = [(t, sub.value) for t in sub.targets]
            elif isinstance(sub, ast.AnnAssign) and sub.value is not None:
                tgts = [(sub.target, sub.value)]
            elif isinstance(sub, ast.NamedExpr):
                tgts = [(sub.target, sub.value)]
            for t, v in tgts:
                if isinstance(t, ast.Name) and t.id == node.id:
                    assigned.append(v)
                elif isinstance(t, (ast.Tuple, ast.List)) and any(isinstance(e, ast.Name) and e.id == node.id for e in t.elts):
                    assigned.append(None)
        alts = []
        if node.id in params:
            k = params.index(node.id)
            alts.append(("param", k, defaults.get(k, 0)))
        elif not assigned:
            return [("unknown", )]
        if depth > 2:
            return [("unknown", )]
        for v in assigned:
            if v is None:
                return [("unknown", )]
            if isinstance(v, ast.Name) and v.id == node.id:
                continue
            for a in classify_expr(m, mod, fdef, v, params, defaults, pname, depth + 1):
                if a not in alts:
                    alts.append(a)
        return alts
    if isinstance(node, ast.UnaryOp) and isinstance(node.op, (ast.USub, ast.UAdd)):
        return classify_expr(m, mod, fdef, node.operand, params, defaults, pname, depth)
    if isinstance(node, ast.Constant):
        c = type(node.value)
        return [("const", m.cid[c])] if c in m.cid else [("unknown", )]
    if isinstance(node, ast.Lambda):
        return [("const", m.cid[types.FunctionType])]
    if isinstance(node, ast.Call):
        obj = eval_in(mod, node.func)
        if isinstance(obj, type) and obj in m.cid:
            return [("const", m.cid[obj])]
        return [("unknown", )]
    if isinstance(node, ast.Attribute):
        # A.xnp.<fn> : the NumPy backend function of that name
        if isinstance(node.value, ast.Attribute) and node.value.attr == "xnp":
            from cola.backends import np_fns
            obj = getattr(np_fns, node.attr, None)
            if obj is not None and type(obj) in m.cid:
                return [("const", m.cid[type(obj)])]
        return [("unknown", )]
    return [("unknown", )]


def analyse_rule(m, reg_by_obj, fname, sig_index, live_sig, op_pos):
    g, mod, fdef = find_def(live_sig.implementation)
    info = RuleInfo()
    info.impl = D.impl_id(live_sig.implementation)
    info.file = os.path.relpath(inspect.getsourcefile(g), os.path.dirname(os.path.dirname(D.cola.__file__)))
    info.line = fdef.lineno
    a = fdef.args
    params = [x.arg for x in a.posonlyargs + a.args]
    info.params = params
    pname = params[op_pos]
    info.pname = pname
    sigp = inspect.signature(g).parameters
    defaults = {}
    for k, p in enumerate(params):
        d = sigp[p].default
        if d is not inspect.Parameter.empty and type(d) in m.cid:
            defaults[k] = m.cid[type(d)]
    ann = a.args[op_pos].annotation if op_pos < len(a.args) else None
    info.annotation = ast.unparse(ann) if ann is not None else "?"
    info.def_text = f"def {fdef.name}({', '.join(ast.unparse(x) for x in a.posonlyargs + a.args)})"
    # parents
    parent = {}
    for n in ast.walk(fdef):
        for c in ast.iter_child_nodes(n):
            parent[c] = n
    attrs, bad, fwds = set(), [], []
    body_nodes = [n for b in fdef.body for n in ast.walk(b)]
    for node in body_nodes:
        if not (isinstance(node, ast.Name) and node.id == pname and isinstance(node.ctx, ast.Load)):
            continue
        par = parent[node]
        if isinstance(par, ast.Attribute) and par.value is node:
            if par.attr in ALLOWED_ATTRS:
                attrs.add(par.attr)
            else:
                bad.append(f"{pname}.{par.attr}")
        elif isinstance(par, ast.Call) and (node in par.args or any(k.value is node for k in par.keywords)):
            cn = callee_name(par.func)
            obj = eval_in(mod, par.func)
            tgt = reg_by_obj.get(id(obj))
            if cn in LAZY_CALLEES:
                attrs.add(f"{cn}({pname})")
            elif tgt is not None:
                fwds.append((par, tgt))
            else:
                bad.append(f"{cn or ast.unparse(par.func)}({pname}, …)")
        elif isinstance(par, ast.keyword):
            call = parent[par]
            obj = eval_in(mod, call.func)
            tgt = reg_by_obj.get(id(obj))
            if tgt is not None:
                if (call, tgt) not in fwds:
                    fwds.append((call, tgt))
            else:
                bad.append(f"{callee_name(call.func)}(…={pname})")
        elif isinstance(par, ast.Return) or (isinstance(par, ast.Tuple) and isinstance(parent.get(par), ast.Return)):
            attrs.add(f"return {pname}")
        elif isinstance(par, ast.BinOp) and isinstance(par.op, ast.Mult):
            attrs.add(f"scalar * {pname}")
        elif isinstance(par, ast.List) and isinstance(parent.get(par), ast.BinOp) and isinstance(parent[par].op, ast.Mult) \
                and isinstance(parent.get(parent[par]), ast.Call) and callee_name(parent[parent[par]].func) == "product":
            attrs.add(f"product([{pname}] * k)  (lazy Product)")
        elif isinstance(par, ast.BinOp) and isinstance(par.op, ast.MatMult):
            bad.append(f"{pname} @ …")
        else:
            bad.append(f"{type(par).__name__} use of {pname}")
    info.attrs = sorted(attrs)
    info.bad = bad
    # forwards: bind the call like the callee's entry point does
    info.fwds = []
    for call, (tname, is_abstract) in fwds:
        f = m.functions[tname]["function"]
        pos, kws = list(call.args), {k.arg: k.value for k in call.keywords if k.arg}
        if any(isinstance(x, ast.Starred) for x in pos) or any(k.arg is None for k in call.keywords):
            info.fwds.append({"target": tname, "args": None, "text": ast.unparse(call)})
            continue
        bound = None
        if is_abstract:
            try:
                b = D.abstract_signature(f).bind(*pos, **kws)
                b.apply_defaults()
                bound = list(b.arguments.values())
            except TypeError:
                bound = None
        else:
            bound = pos  # a bare plum Function dispatches on the positionals only
        if bound is None:
            info.fwds.append({"target": tname, "args": None, "text": ast.unparse(call)})
            continue
        args = []
        for v in bound:
            if isinstance(v, ast.AST):
                args.append(classify_expr(m, mod, fdef, v, params, defaults, pname))
            elif type(v) in m.cid:
                args.append([("const", m.cid[type(v)])])
            else:
                args.append([("unknown", )])
        info.fwds.append({"target": tname, "args": args, "text": ast.unparse(call)})
    # ---- the full per-rule structure (round 2): what is touched, and every call of a dispatched function of the family with
    # the SOURCE of each argument: the operator as a whole, a MEMBER of it (an element of `A.Ms`, or `A.A`), `I_like(A)`,
    # a parameter of the rule, or an expression of a statically known class
    member_names = set()
    for node in body_nodes:
        gens = node.generators if isinstance(node, (ast.ListComp, ast.GeneratorExp, ast.SetComp, ast.DictComp)) else []
        iters = [(g.target, g.iter) for g in gens]
        if isinstance(node, ast.For):
            iters.append((node.target, node.iter))
        for tgt, it in iters:
            txt = ast.unparse(it)
            if f"{pname}.Ms" not in txt:
                continue
            names = [tgt] if isinstance(tgt, ast.Name) else list(getattr(tgt, "elts", []))
            if isinstance(it, ast.Call) and callee_name(it.func) == "zip" and isinstance(tgt, (ast.Tuple, ast.List)):
                names = [t for t, a in zip(tgt.elts, it.args) if f"{pname}.Ms" in ast.unparse(a)]
            for t in names:
                if isinstance(t, ast.Name):
                    member_names.add(t.id)

    def arg_source(v):
        if isinstance(v, ast.Name) and v.id == pname:
            return ("whole", )
        if isinstance(v, ast.Name) and v.id in member_names:
            return ("member", )
        if isinstance(v, ast.Attribute) and isinstance(v.value, ast.Name) and v.value.id == pname and v.attr == "A":
            return ("member", )
        if isinstance(v, ast.Subscript) and ast.unparse(v.value) == f"{pname}.Ms":
            return ("member", )
        if isinstance(v, ast.Call) and callee_name(v.func) in LAZY_CALLEES and len(v.args) == 1 and isinstance(v.args[0], ast.Name) \
                and v.args[0].id == pname:
            return ("ilike", )
        return ("alts", classify_expr(m, mod, fdef, v, params, defaults, pname))
    info.calls = []
    for node in body_nodes:
        if not isinstance(node, ast.Call):
            continue
        tgt = reg_by_obj.get(id(eval_in(mod, node.func)))
        if tgt is None or tgt[0] not in FAMILY:
            continue
        tname, is_abstract = tgt
        f = m.functions[tname]["function"]
        pos, kws = list(node.args), {k.arg: k.value for k in node.keywords if k.arg}
        bound = None
        if not (any(isinstance(x, ast.Starred) for x in pos) or any(k.arg is None for k in node.keywords)):
            if is_abstract:
                try:
                    b = D.abstract_signature(f).bind(*pos, **kws)
                    b.apply_defaults()
                    bound = list(b.arguments.values())
                except TypeError:
                    bound = None
            else:
                bound = pos
        if bound is None:
            info.calls.append({"target": tname, "args": None, "text": ast.unparse(node)})
            continue
        srcs = []
        for v in bound:
            if isinstance(v, ast.AST):
                srcs.append(arg_source(v))
            elif type(v) in m.cid:
                srcs.append(("alts", [("const", m.cid[type(v)])]))
            else:
                srcs.append(("alts", [("unknown", )]))
        info.calls.append({"target": tname, "args": srcs, "text": ast.unparse(node)})
    norm = {"Ms": "Ms", "diag": "diag", "c": "c", "multiplicities": "multiplicities", f"return {pname}": "self",
            f"I_like({pname})": "I_like", f"scalar * {pname}": "scalarMul", f"product([{pname}] * k)  (lazy Product)": "lazyPower"}
    info.touch = sorted(norm[a] for a in attrs if a in norm)
    return info


# ---- the model in Python (diagnostics only; the Lean evaluation is what counts) ----------------
def hint_structured(S, h):
    return bool(h) and all(c in S for c in h)


def has_rule_for(m, S, ent, args, conds):
    if ent["opPos"] >= len(args):
        return False
    k = args[ent["opPos"]]
    for s in ent["fn"]["sigs"]:
        if ent["opPos"] < len(s["tys"]):
            h = s["tys"][ent["opPos"]]
            if hint_structured(S, h) and any(m.sub[k][b] for b in h) and (s["cond"] is None or (conds >> s["cond"]) & 1):
                return True
    return False


def fwd_tups(args, fw):
    if fw["args"] is None:
        return None
    choices = []
    for alts in fw["args"]:
        cs = []
        for a in alts:
            if a[0] == "param":
                cs.append(args[a[1]] if a[1] < len(args) else a[2])
            elif a[0] == "const":
                cs.append(a[1])
            else:
                return None
        choices.append(cs)
    out = [[]]
    for cs in choices:
        out = [o + [c] for o in out for c in cs]
    return out


def all_fwds(m, fam, ent, i, args, k):
    fs = [fw for fw in ent["fwds"] if fw["sig"] == i]
    if not fs:
        return False
    for fw in fs:
        g = fam.get(fw["target"])
        tups = fwd_tups(args, fw)
        if g is None or tups is None:
            return False
        for as_ in tups:
            for c in range(2 ** g["nconds"]):
                if not k(fw["target"], as_, c):
                    return False
    return True


def reach(m, fam, fuel, name, args, conds, trace=None):
    if fuel == 0 or name not in fam:
        return False
    ent = fam[name]
    r = D.mirror_resolve(m, ent["fn"], list(args), conds)
    if r[0] != "U":
        return False
    i = r[1]
    if trace is not None:
        trace.append((name, list(args), conds, ent["fn"]["sigs"][i]["impl"]))
    if i in ent["structural"]:
        return True
    return all_fwds(m, fam, ent, i, args, lambda n, a, c: reach(m, fam, fuel - 1, n, a, c, trace))


def expects(m, S, fam, fuel, name, args, conds):
    if fuel == 0 or name not in fam:
        return False
    ent = fam[name]
    if has_rule_for(m, S, ent, args, conds):
        return True
    r = D.mirror_resolve(m, ent["fn"], list(args), conds)
    if r[0] != "U":
        return False
    return all_fwds(m, fam, ent, r[1], args, lambda n, a, c: expects(m, S, fam, fuel - 1, n, a, c))


# ---- assembling ------------------------------------------------------------------------------
def analyse(verbose=False):
    m = D.load()
    from cola.ops import LinearOperator
    reg = {name: fn["function"] for name, fn in m.functions.items()}
    reg_by_obj = {}
    for name, f in reg.items():
        reg_by_obj[id(f)] = (name, False)
        w = getattr(f, "_abstract", None)
        if w is not None:
            reg_by_obj[id(w)] = (name, True)
    by_name = {}
    for c in m.classes:
        if c is not D.ANY and not getattr(c, "_concrete", False):
            by_name.setdefault(c.__name__, c)
    S = [m.cid[by_name[n]] for n in STRUCTURED]
    kinds = {k["name"]: k for k in m.kinds}
    fam = {}
    for name in FAMILY:
        fn = m.functions[name]
        # operator position: first parameter all of whose hints are LinearOperator classes
        op_pos = None
        for s in fn["live"]:
            for k, h in enumerate(s.types):
                mem = D.hint_members(h)
                if all(isinstance(c, type) and issubclass(c, LinearOperator) for c in mem):
                    op_pos = k if op_pos is None else op_pos
                    if op_pos != k:
                        raise RuntimeError(f"{name}: operator argument at positions {op_pos} and {k}")
                    break
        rules = [analyse_rule(m, reg_by_obj, name, i, s, op_pos) for i, s in enumerate(fn["live"])]
        structural, fwds, generic = [], [], []
        for i, (r, s) in enumerate(zip(rules, fn["sigs"])):
            kind_rule = op_pos < len(s["tys"]) and hint_structured(S, s["tys"][op_pos])
            r.kind_rule = kind_rule
            pure = not r.bad
            if kind_rule and pure and not r.fwds:
                r.cls = "structural"
                structural.append(i)
            elif pure and r.fwds:
                r.cls = "forwarder"
                for fw in r.fwds:
                    fwds.append({"sig": i, "target": fw["target"], "args": fw["args"], "text": fw["text"]})
            else:
                r.cls = "generic"
                generic.append(i)
        fam[name] = {"name": name, "fn": fn, "opPos": op_pos, "nconds": len(fn["conds"]), "structural": structural,
                     "fwds": fwds, "generic": generic, "rules": rules, "cases": []}
    # forwards into functions outside the family are not followed
    for ent in fam.values():
        for fw in ent["fwds"]:
            if fw["target"] not in fam:
                fw["args"] = None
    # ---- lattice: public call forms on structured kinds
    struct_kind_ids = {}
    for k in m.kinds:
        cid = m.cid[k["cls"]]
        if any(m.sub[cid][s] for s in S):
            struct_kind_ids[k["name"]] = cid
    for fo in m.forms:
        if fo["fn"] not in fam:
            continue
        ent = fam[fo["fn"]]
        fn = ent["fn"]
        alg_pos = [j for j, d in enumerate(fo["doms"]) if d in ALG_DOMS]
        op_doms = [j for j, d in enumerate(fo["doms"]) if d == "K"]
        if len(op_doms) != 1:
            raise RuntimeError(f"form {fo['name']}: expected exactly one operator domain")
        for it in fo["items"]:
            lab = it["labels"][op_doms[0]]
            if lab not in struct_kind_ids:
                continue
            pres = 0
            alg_label = None
            if alg_pos:
                alg_label = it["labels"][alg_pos[0]]
                pres = 1 + m.cid[D._alg(alg_label)]
            for ti in it["tuples"]:
                a, c = fn["tuples"][ti]
                ent["cases"].append({"kind": struct_kind_ids[lab], "kind_name": lab, "pres": pres, "alg": alg_label,
                                     "form": fo["name"], "labels": it["labels"], "args": list(a), "conds": c})
    # dedupe (kind, pres, tuple) keeping the first form as the label
    for ent in fam.values():
        seen, out = set(), []
        for c in ent["cases"]:
            key = (c["kind"], c["pres"], tuple(c["args"]), c["conds"])
            if key not in seen:
                seen.add(key)
                out.append(c)
        ent["cases"] = out
        for c in ent["cases"]:
            c["expects"] = expects(m, S, fam, FUEL, ent["name"], c["args"], c["conds"])
            tr = []
            c["reach"] = reach(m, fam, FUEL, ent["name"], c["args"], c["conds"], tr)
            c["chain"] = [f"{n}{tuple(a)}|{cc} -> {impl}" for n, a, cc, impl in tr]
            c["direct"] = has_rule_for(m, S, ent, c["args"], c["conds"])
    return m, S, fam


def lean_alt(a):
    if a[0] == "param":
        return f".param {a[1]} {a[2]}"
    if a[0] == "const":
        return f".const {a[1]}"
    return ".unknown"


def lean_src(a):
    if a[0] in ("whole", "member", "ilike"):
        return "." + a[0]
    return ".alts " + D.lean_list(lean_alt(x) for x in a[1])


def emit_lean(m, S, fam, path):
    o = []
    w = o.append
    short = lambda i: m.class_names[i].split("[")[0].split(".")[-1]  # noqa: E731
    w("/-  GENERATED by harness/translators/dump_structural.py from the live dispatcher and the source of /repo")
    w("    — DO NOT EDIT.  Regenerated on every run of `./check C19`.")
    w("    Per function of the linear-algebra family: which registered rules are STRUCTURAL (work on the")
    w("    factors of the operator, read off the AST of the rule), which FORWARD the operator to another")
    w("    dispatched function, and the C19 lattice (public call forms × structured kinds × algorithm")
    w("    argument omitted / present × condition values). -/")
    w("import ColaVerif.Model.Structural")
    w("import ColaVerif.Gen.RuleTable")
    w("")
    w("namespace ColaVerif.Gen.StructuralRules")
    w("open ColaVerif.Dispatch ColaVerif.Structural ColaVerif.Gen.RuleTable")
    w("")
    w("/-- class ids of the structured kinds: " + ", ".join(f"{short(i)} = {i}" for i in S) + " -/")
    w("def structuredIds : List Nat := " + D.lean_list(str(i) for i in S))
    w(f"def fuel : Nat := {FUEL}")
    w("")
    for name in FAMILY:
        ent = fam[name]
        fn = ent["fn"]
        w(f"/-! ### `{name}` — operator argument at position {ent['opPos']}; {len(fn['sigs'])} signatures: "
          f"{len(ent['structural'])} structural, {len(set(f['sig'] for f in ent['fwds']))} forwarding, {len(ent['generic'])} generic -/")
        for i, (r, s) in enumerate(zip(ent["rules"], fn["sigs"])):
            what = {"structural": "STRUCTURAL", "forwarder": "FORWARDER", "generic": "generic   "}[r.cls]
            detail = ("touches " + ", ".join(r.attrs)) if r.attrs else "does not touch the operator"
            if r.bad:
                detail += "; NOT factor-wise: " + ", ".join(sorted(set(r.bad)))
            if r.fwds:
                detail += "; forwards: " + " ; ".join(f["text"] for f in r.fwds)
            w(f"-- {i:2d} {what} ({s['repr']}) @ {r.file}:{r.line}  `{r.def_text}`  — {detail}")
        w(f"def structural_{name} : List Nat := " + D.lean_list(str(i) for i in ent["structural"]))
        w(f"def fwds_{name} : List Fwd := [")
        fl = []
        for fw in ent["fwds"]:
            if fw["args"] is None:
                args = "[[.unknown]]"
            else:
                args = D.lean_list(D.lean_list(lean_alt(a) for a in alts) for alts in fw["args"])
            fl.append(f"  ⟨{fw['sig']}, {json.dumps(fw['target'])}, {args}⟩")
        w(",\n".join(fl))
        w("]")
        w(f"def entry_{name} : Entry := ⟨{json.dumps(name)}, table_{name}, impls_{name}, {ent['opPos']}, {ent['nconds']}, "
          f"structural_{name}, fwds_{name}⟩")
        w("/-- per rule: (0 structural | 1 forwarder | 2 generic, what is touched of the operator, every call of a family function with the source of each argument) -/")
        w(f"def shapes_{name} : List RuleShape := [")
        sl = []
        for i, r in enumerate(ent["rules"]):
            calls = []
            for c in r.calls:
                if c["args"] is None:
                    calls.append(f"({json.dumps(c['target'])}, [.alts [.unknown]])")
                else:
                    calls.append(f"({json.dumps(c['target'])}, {D.lean_list(lean_src(a) for a in c['args'])})")
            code = {"structural": 0, "forwarder": 1, "generic": 2}[r.cls]
            sl.append(f"  ⟨{i}, {code}, {D.lean_list(json.dumps(t) for t in r.touch)}, {D.lean_list(calls)}⟩")
        w(",\n".join(sl))
        w("]")
        w(f"/-- (kind class, 0 = algorithm omitted | 1 + algorithm class, resolver tuple) — {len(ent['cases'])} cases -/")
        w(f"def cases_{name} : List Case := [")
        cs = [f"⟨{c['kind']}, {c['pres']}, ⟨{D.lean_hint(c['args'])}, {c['conds']}⟩⟩" for c in ent["cases"]]
        for i in range(0, len(cs), 6):
            w("  " + ", ".join(cs[i:i + 6]) + ("," if i + 6 < len(cs) else ""))
        w("]")
        w("")
    w("def family : List Entry := " + D.lean_list(f"entry_{n}" for n in FAMILY))
    w("def familyShapes : List (String × List RuleShape) := " + D.lean_list(f"({json.dumps(n)}, shapes_{n})" for n in FAMILY))
    w("def familyCases : List (String × List Case) := " + D.lean_list(f"({json.dumps(n)}, cases_{n})" for n in FAMILY))
    w("/-- Python class name of every structured kind and its class id -/")
    w("def kindIds : List (String × Nat) := " + D.lean_list(f"({json.dumps(short(i))}, {i})" for i in S))
    w("")
    w("end ColaVerif.Gen.StructuralRules")
    txt = "\n".join(o) + "\n"
    os.makedirs(os.path.dirname(path), exist_ok=True)
    old = open(path).read() if os.path.exists(path) else None
    if old != txt:
        with open(path, "w") as f:
            f.write(txt)
    return old != txt


def emit_json(m, S, fam, path):
    os.makedirs(os.path.dirname(path), exist_ok=True)
    js = {"structured": {m.class_names[i]: i for i in S}, "fuel": FUEL, "functions": {}}
    for name, ent in fam.items():
        js["functions"][name] = {
            "opPos": ent["opPos"], "nconds": ent["nconds"], "structural": ent["structural"], "generic": ent["generic"],
            "fwds": ent["fwds"],
            "rules": [{"index": i, "class": r.cls, "impl": r.impl, "where": f"{r.file}:{r.line}", "def": r.def_text,
                       "touches": r.attrs, "not_factorwise": sorted(set(r.bad)), "kind_rule": r.kind_rule,
                       "forwards": [f["text"] for f in r.fwds], "touch": r.touch,
                       "calls": [{"target": c["target"], "args": c["args"], "text": c["text"]} for c in r.calls]}
                      for i, r in enumerate(ent["rules"])],
            "cases": ent["cases"],
        }
    with open(path, "w") as f:
        json.dump(js, f)
    return js


def main(argv):
    quiet = "--quiet" in argv
    m, S, fam = analyse(verbose=not quiet)
    ch0 = D.emit_lean(m, D.OUT_LEAN)      # the rule table the Lean theorems are evaluated on
    D.emit_json(m, D.OUT_JSON)
    ch1 = emit_lean(m, S, fam, OUT_LEAN)
    emit_json(m, S, fam, OUT_JSON)
    failing = []
    for name, ent in fam.items():
        for c in ent["cases"]:
            if c["expects"] and not c["reach"]:
                failing.append({"fn": name, "form": c["form"], "labels": c["labels"], "conds": c["conds"], "chain": c["chain"]})
    summ = {
        "functions": len(fam), "cases": sum(len(e["cases"]) for e in fam.values()),
        "expected": sum(1 for e in fam.values() for c in e["cases"] if c["expects"]),
        "structural_rules": sum(len(e["structural"]) for e in fam.values()),
        "forwarding_rules": sum(len(set(f["sig"] for f in e["fwds"])) for e in fam.values()),
        "generic_rules": sum(len(e["generic"]) for e in fam.values()),
        "rule_table_changed": ch0, "changed": ch1, "failing": failing[:40], "n_failing": len(failing),
    }
    if not quiet:
        for name in FAMILY:
            ent = fam[name]
            print(f"== {name} (opPos {ent['opPos']})")
            for i, r in enumerate(ent["rules"]):
                print(f"   {i:2d} {r.cls:10s} {r.def_text:70s} touches={r.attrs} bad={sorted(set(r.bad))} fwd={[f['text'] for f in r.fwds]}")
            ex = sum(1 for c in ent["cases"] if c["expects"])
            print(f"   cases={len(ent['cases'])} expected={ex} reach-failures={sum(1 for c in ent['cases'] if c['expects'] and not c['reach'])}")
    print(json.dumps(summ))


if __name__ == "__main__":
    main(sys.argv[1:])
