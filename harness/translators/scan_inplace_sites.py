#!/venv/bin/python
"""Translator for property C18 (operators are persistent values).

AST scan of every module of the installed `cola` package (the directory is found through the import
system, so a PYTHONPATH override is honoured).  Lists every IN-PLACE SITE inside a function:

  augassign       `t += e`, `t -= e`, `t *= e`, `t /= e`, `t @= e`  (target Name / Subscript / Attribute)
  update_array    `xnp.update_array(t, ...)`                       (in-place `t[slices] = update` on NumPy)
  subscript_store `t[...] = e`
  method          `t.pop(..)`, `.update(..)`, `.clear()`, `.setdefault(..)`, `.sort()`, `.fill(..)`, `.append(..)`, ...
  attr_store      `t.attr = e` / `setattr(t, ..)` outside `__init__`/`__new__` (or on an object that is not `self`)

together with the PROVENANCE of the written object `t`, computed by a structured intra-procedural
reaching-definitions pass over the enclosing function (branches are joined, loop bodies are walked
twice so that loop-carried definitions reach; free variables of nested functions are resolved in the
enclosing function; the state tuple of a `while_loop`/`for_loop` body is resolved through the
`init_val` expression of the loop call — through the body of the `init_*` function that builds the
tuple — joined with what the body returns; calls of functions defined in cola are resolved through
their `return` expressions, parameters substituted by the actual arguments, depth <= 4):

  fresh          result of zeros / zeros_like / ones / eye / copy / canonical / randn / array / arithmetic /
                 a literal / a constructor call ...                       (table FRESH_FNS below)
  view-of p      subscript / reshape / .T / moveaxis / attribute of p     (same buffer as p)
  param          a function parameter (caller-owned)
  matmul-result  `A @ x`: a fresh array OR x itself (Identity returns its operand); operands that are
                 parameters annotated `LinearOperator` are operators, not buffers, and are dropped
  loop-carried   component of a loop state tuple: join of the init value and of what the body returns
  unknown        anything else (result of a call the scanner does not know, globals, ...)

For every site the scanner emits a straight-line program of the buffer-event IR of
lean/ColaVerif/Model/Heap.lean (`fresh x`, `alias x y`, `mayAlias x ys`, `write x`): the slice of the
function that defines the written object, followed by the write.  Variables that are never defined in
the program are bound at entry (parameters / unknown objects: caller-owned).

REASONS.  A library site whose target is NOT locally allocated inside its function (class param / unknown) is accepted only
with a reason that the scanner ESTABLISHES BY ANALYSIS and emits into the table as data the Lean theorem checks
(`Site.reason`, Lemmas/PersistSites.lean) — no prose allow-list:

  privateHelper  the function is a helper that is not exported (`@export` / `__all__`) and is referenced in the package only as
                 the callee of direct calls; for EVERY such call site the scanner emits the caller-side slice that defines the
                 actual argument, followed by `call [arg] r [arg]` (interprocedural edge of the IR; arguments that are themselves
                 parameters of a private helper are substituted through ITS callers, depth <= 4).  Lean: every caller program
                 obeys the discipline.
  primitive      the in-place backend primitive `np_fns.update_array` itself: every call `….update_array(t, …)` of the package is
                 a site of the table; their slices (ending in `call`) are the caller programs.
  ownedField     the target is (the contents of) an attribute `self.F`; for EVERY store to `F` in the class (any method) and every
                 store `x.F = …` through another receiver in the library the scanner emits the slice defining the stored object,
                 followed by `write`.  Lean: every such program obeys the discipline (the object was allocated by cola: the
                 `**kwargs` dict of a constructor call is a new dict, `{}` a new dict): the write never reaches an object the
                 caller passed in.
  writeOnlyField the site re-binds an attribute `self.F = …` outside the constructor, and NO library code reads `.F` (Load of the
                 attribute other than as receiver of a mutating method): the number of reads is emitted and must be 0.
  classLevel     the target is reached through `__class__` (class-level registry `_dynamic`, modelled by Model/Registry.lean).
  (none)         no reason established: the row is rejected unless Lemmas/PersistSites.lean lists it under a NAMED CLAUSE.

Output (REGENERATED on every run of ./check C18):
    lean/ColaVerif/Gen/InplaceSites.lean     generated Lean data (never hand-edited)
    work/c18/sites.json                      the same rows for the harness / evidence
"""
import ast
import importlib.util
import json
import os
import sys

HERE = os.path.dirname(os.path.abspath(__file__))
ROOT = os.path.dirname(os.path.dirname(HERE))
OUT_LEAN = os.path.join(ROOT, "lean", "ColaVerif", "Gen", "InplaceSites.lean")
OUT_JSON = os.path.join(ROOT, "work", "c18", "sites.json")

# functions whose result is a freshly allocated array / object on the NumPy backend (np_fns.py)
FRESH_FNS = {
    "zeros", "zeros_like", "ones", "ones_like", "eye", "copy", "canonical", "randn", "array", "arange", "normal",
    "roll", "where", "concat", "concatenate", "stack", "kron", "block_diag", "cast", "astype", "norm", "sum", "mean",
    "max", "min", "abs", "sqrt", "exp", "log", "sign", "clip", "argsort", "sort", "qr", "svd", "eigh", "eig", "cholesky",
    "solve", "solvetri", "lstsq", "inv", "nan_to_num", "prod", "maximum", "conj", "fft", "ifft", "tocsr", "coo_array",
    "sparse_csr", "dict", "list", "tuple", "set", "range", "len", "int", "float", "bool", "str", "tqdm", "time",
    "promote_types", "finfo", "get_device", "get_default_device", "PRNGKey", "next_key", "isclose", "round",
    "__new__", "lu", "slogdet", "diag_embed", "full", "empty", "linspace", "rand", "randint", "isreal", "all", "any",
    "softmax", "log_softmax", "tolist", "item", "squeeze_copy", "sorted", "reversed", "zip", "enumerate", "map", "filter",
}
# functions / methods / attributes whose result shares the buffer of their (first) argument / receiver
VIEW_FNS = {"reshape", "moveaxis", "permute", "transpose", "expand", "squeeze", "ravel", "view", "asarray", "to_np",
            "update_array", "diag", "real", "imag", "T", "H", "mT", "flatten_view", "expand_dims", "swapaxes", "move_to",
            "Parameter", "to", "cpu", "detach", "get", "setdefault", "items", "values", "keys", "__getitem__", "next", "iter"}
MUT_METHODS = {"pop", "popitem", "update", "clear", "setdefault", "sort", "reverse", "fill", "append", "extend", "insert",
               "remove", "add", "discard", "put", "itemset", "resize"}
# calls that leave the package and come back: optree.tree_unflatten(treedef, leaves) calls the classmethod `tree_unflatten` of the
# registered pytree node classes (AutoRegisteringPyTree registers every LinearOperator class)
EXTERNAL_DISPATCH = {"tree_unflatten": "tree_unflatten"}
LOOP_FNS = {"while_loop", "while_loop_no_jit", "for_loop", "while_fn", "while_loop_winfo", "new_while"}
MAX_DEPTH = 4


# --------------------------------------------------------------------------------------------
def scope_of(rel, base=None):
    r = rel.replace(os.sep, "/")
    if base is not None:
        d = os.path.dirname(os.path.join(base, rel))
        while os.path.abspath(d) != os.path.abspath(base) and len(d) > len(base):
            if not os.path.exists(os.path.join(d, "__init__.py")):
                return "notImported"   # package directory without __init__: not part of `import cola` (linalg/tbd, ...)
            d = os.path.dirname(d)
    if r in ("backends/torch_fns.py", "backends/jax_fns.py", "utils/jax_tqdm.py"):
        return "otherBackend"
    if r in ("utils/utils_for_tests.py",):
        return "testUtil"
    if r.endswith("__init__.py") or r in ("utils/custom_autodiff.py",):
        return "plumbing"    # import machinery (export / import_from_all) and the torch/jax autograd adapter
    return "library"


class Fn:
    """a function definition with its lexical parent"""

    def __init__(self, node, parent, module, cls):
        self.node, self.parent, self.module, self.cls = node, parent, module, cls
        self.name = node.name
        a = node.args
        self.params = [x.arg for x in a.posonlyargs + a.args] + ([a.vararg.arg] if a.vararg else []) + \
            [x.arg for x in a.kwonlyargs] + ([a.kwarg.arg] if a.kwarg else [])
        self.pos_params = [x.arg for x in a.posonlyargs + a.args]
        self.op_params = set()
        for x in a.posonlyargs + a.args + a.kwonlyargs:
            if x.annotation is not None and "LinearOperator" in ast.unparse(x.annotation):
                self.op_params.add(x.arg)
        self.children = {}
        self.decorators = [ast.unparse(d) for d in node.decorator_list]
        self.kwarg = a.kwarg.arg if a.kwarg else None
        self.final_defs = None   # name -> [prov] flow-insensitive union (for closures)
        self.qual = (parent.qual + "." if parent else (cls + "." if cls else "")) + self.name


class Module:
    def __init__(self, rel, tree):
        self.rel, self.tree = rel, tree
        self.fns = {}   # top-level function name -> Fn
        self.imported = set()
        for n in ast.walk(tree):
            if isinstance(n, ast.Import):
                self.imported |= {(a.asname or a.name).split(".")[0] for a in n.names}


# provenance constructors -------------------------------------------------------------------
def fresh(how):
    return ("fresh", how)


def view(p):
    if p[0] == "tuple":
        return ("tuple", [view(x) for x in p[1]])
    return ("view", p)


def join(ps):
    out = []
    for p in ps:
        if p[0] == "join":
            out.extend(p[1])
        else:
            out.append(p)
    uniq = []
    for p in out:
        if p not in uniq:
            uniq.append(p)
    if len(uniq) == 1:
        return uniq[0]
    return ("join", uniq)


def select(p, k):
    if p[0] == "tuple":
        return p[1][k] if isinstance(k, int) and -len(p[1]) <= k < len(p[1]) else join([view(x) for x in p[1]] or [fresh("empty")])
    if p[0] == "join":
        return join([select(x, k) for x in p[1]])
    if p[0] == "loop":
        return ("loop", select(p[1], k))
    if p[0] == "fresh":
        return p
    if p[0] == "self":
        return p
    return view(p)


class Analyzer:
    def __init__(self, modules):
        self.modules = modules
        self.global_fns = {}
        for m in modules.values():
            for n, f in m.fns.items():
                self.global_fns.setdefault(n, f)
        self.sites = []
        self.field_defs = {}     # (module, class, attr) -> [(function qual, line, prov)] stores `self.attr = e` inside the class
        self.foreign_defs = {}   # attr -> [(module, function qual, line, prov)] stores `x.attr = e` through another receiver

    @staticmethod
    def root_cls(fn):
        while fn.parent is not None:
            fn = fn.parent
        return fn.cls

    # ---------------------------------------------------------------- expression provenance
    def prov(self, e, env, fn, depth=0, stack=()):
        if e is None:
            return fresh("none")
        if isinstance(e, (ast.Constant, ast.JoinedStr)):
            return fresh("literal")
        if isinstance(e, (ast.List, ast.Tuple)):
            return ("tuple", [self.prov(x.value if isinstance(x, ast.Starred) else x, env, fn, depth, stack) for x in e.elts])
        if isinstance(e, (ast.Dict, ast.Set, ast.ListComp, ast.DictComp, ast.SetComp, ast.GeneratorExp, ast.Lambda)):
            return fresh("literal")
        if isinstance(e, ast.BinOp):
            if isinstance(e.op, ast.MatMult):
                ops = []
                for x in (e.left, e.right):
                    if self.is_operator(x, fn):
                        continue
                    ops.append(self.prov(x, env, fn, depth, stack))
                return ("matmul", ops)
            if isinstance(e.op, ast.Add):     # tuple concatenation keeps the components
                lp, rp = self.prov(e.left, env, fn, depth, stack), self.prov(e.right, env, fn, depth, stack)
                if lp[0] == "tuple" and rp[0] == "tuple":
                    return ("tuple", lp[1] + rp[1])
                if lp[0] == "tuple" or rp[0] == "tuple":
                    return join([select(lp, None), select(rp, None)])
            return fresh("arith")
        if isinstance(e, (ast.UnaryOp, ast.Compare, ast.BoolOp)):
            return fresh("arith")
        if isinstance(e, ast.IfExp):
            return join([self.prov(e.body, env, fn, depth, stack), self.prov(e.orelse, env, fn, depth, stack)])
        if isinstance(e, ast.NamedExpr):
            return self.prov(e.value, env, fn, depth, stack)
        if isinstance(e, ast.Starred):
            return self.prov(e.value, env, fn, depth, stack)
        if isinstance(e, ast.Name):
            return self.lookup(e.id, env, fn, depth, stack)
        if isinstance(e, ast.Attribute):
            return view(self.prov(e.value, env, fn, depth, stack))
        if isinstance(e, ast.Subscript):
            base = self.prov(e.value, env, fn, depth, stack)
            k = e.slice.value if isinstance(e.slice, ast.Constant) and isinstance(e.slice.value, int) else None
            if k is not None or base[0] in ("tuple",):
                return select(base, k)
            if isinstance(e.slice, (ast.List,)) or (isinstance(e.slice, ast.Tuple) and any(isinstance(x, ast.List) for x in e.slice.elts)):
                return fresh("fancy-index")   # x[[i, j]] copies
            return select(base, None) if base[0] in ("join", "loop") else view(base)
        if isinstance(e, ast.Call):
            return self.prov_call(e, env, fn, depth, stack)
        if isinstance(e, ast.Await):
            return self.prov(e.value, env, fn, depth, stack)
        return ("unknown", type(e).__name__)

    def is_operator(self, x, fn):
        """is the expression a parameter annotated LinearOperator (in this or an enclosing function)?"""
        if not isinstance(x, ast.Name):
            return False
        f = fn
        while f is not None:
            if x.id in f.params:
                return x.id in f.op_params
            f = f.parent
        return False

    def prov_call(self, e, env, fn, depth, stack):
        f = e.func
        name = f.attr if isinstance(f, ast.Attribute) else (f.id if isinstance(f, ast.Name) else None)
        if name is None:
            if isinstance(f, ast.Call):   # type(x)(...)
                return join([self.prov(a, env, fn, depth, stack) for a in e.args] or [fresh("call")])
            return ("unknown", "call")
        if name == "while_loop_winfo":
            return ("tuple", [fresh("closure"), fresh("literal")])
        if name in LOOP_FNS:
            lp = self.loop_call(e, env, fn, depth, stack)
            if lp is not None:
                return lp
        if name in EXTERNAL_DISPATCH and isinstance(f, ast.Attribute) and depth < MAX_DEPTH:
            tgt = EXTERNAL_DISPATCH[name]
            cands = [g for m in self.modules.values() for g in m.all_top if g.cls is not None and g.name == tgt
                     and scope_of(m.rel) == "library"]
            outs = [self.ret_prov_bound(g, {}, depth, stack) for g in cands if g.qual not in stack]
            if outs:
                return join(outs)
        if name in VIEW_FNS:
            if isinstance(f, ast.Attribute) and not self.is_backend(f.value):
                return view(self.prov(f.value, env, fn, depth, stack))      # receiver.reshape(...)
            if e.args:
                return view(self.prov(e.args[0], env, fn, depth, stack))    # xnp.reshape(x, ...)
            return ("unknown", "call " + name)
        callee = self.resolve_fn(name, f, fn)
        if callee is not None and depth < MAX_DEPTH and callee.qual not in stack:
            return self.ret_prov(callee, e, env, fn, depth, stack)
        if name in FRESH_FNS:
            return fresh(name)
        if name[:1].isupper():
            return fresh("object " + name)
        if name in ("partial", "jit"):
            return fresh("closure")
        return ("unknown", "call " + name)

    def loop_call(self, call, env, fn, depth, stack):
        """result of while_loop(cond, body, init) / for_loop(lo, hi, body, init) / while_fn(...): the
        loop state = join(init, what the body returns)"""
        args = list(call.args) + [k.value for k in call.keywords]
        init = None
        for k in call.keywords:
            if k.arg == "init_val":
                init = k.value
        if init is None and call.args:
            init = call.args[-1]
        if init is None:
            return None
        bodies = []
        for a in args:
            if isinstance(a, ast.Name) and a is not init:
                g = self.resolve_fn(a.id, a, fn)
                if g is not None and g.pos_params:
                    bodies.append(g)
        if not bodies:
            return None
        body = bodies[-1]          # (cond, body, init): the body is the last function argument
        if depth >= MAX_DEPTH or body.qual + "#state" in stack:
            return ("selfloop",)
        p_init = self.prov(init, env, fn, depth, stack)
        back = []
        st = stack + (body.qual + "#state",)
        self.walk_fn(body, bind={body.pos_params[-1]: ("selfloop",)}, depth=depth + 1, stack=st, collect_returns=back, emit=False)
        return ("loop", join([p_init] + back))

    @staticmethod
    def is_backend(v):
        return isinstance(v, ast.Name) and v.id in ("xnp", "np", "jnp", "torch") or \
            (isinstance(v, ast.Attribute) and v.attr in ("xnp", "linalg", "random", "fft")) or \
            (isinstance(v, ast.Name) and v.id in ("self",) and False)

    def resolve_fn(self, name, f, fn):
        """a function of cola called by plain name (nested function, same module, or any module)"""
        if not isinstance(f, ast.Name):
            return None
        g = fn
        while g is not None:
            if name in g.children:
                return g.children[name]
            g = g.parent
        m = self.modules[fn.module]
        if name in m.fns:
            return m.fns[name]
        return self.global_fns.get(name)

    def ret_prov(self, callee, call, env, fn, depth, stack):
        """provenance of callee(...)'s result: join over its return expressions, evaluated in the callee
        with its parameters bound to the provenance of the actual arguments"""
        bind = {}
        for i, a in enumerate(call.args):
            if isinstance(a, ast.Starred):
                continue
            if i < len(callee.pos_params):
                bind[callee.pos_params[i]] = self.prov(a, env, fn, depth, stack)
        for kw in call.keywords:
            if kw.arg:
                bind[kw.arg] = self.prov(kw.value, env, fn, depth, stack)
        return self.ret_prov_bound(callee, bind, depth, stack)

    def ret_prov_bound(self, callee, bind, depth, stack):
        rets = []
        self.walk_fn(callee, bind=bind, depth=depth + 1, stack=stack + (callee.qual,), collect_returns=rets, emit=False)
        return join(rets) if rets else fresh("none")

    # ---------------------------------------------------------------- names
    def lookup(self, name, env, fn, depth, stack):
        if name in env:
            return join(env[name])
        g = fn.parent
        while g is not None:                      # free variable: flow-insensitive union in the enclosing function
            defs = self.closure_defs(g, depth, stack)
            if name in defs:
                return join(defs[name])
            g = g.parent
        if name in ("self", "cls"):
            return ("param", name)
        return ("unknown", "global " + name)

    def closure_defs(self, g, depth, stack):
        """flow-insensitive union of the definitions of every name of g (what a nested function may see).
        Computed twice: references to g's own names met while computing (through nested functions that
        g calls) see {} in the first round and the first-round result in the second."""
        if g.final_defs is None:
            g.final_defs = {}
            for _round in range(2):
                acc = {}
                self.walk_fn(g, bind=None, depth=0, stack=(g.qual + "#closure",), emit=False, all_defs=acc)
                g.final_defs = acc
        return g.final_defs

    # ---------------------------------------------------------------- statements
    def walk_fn(self, fn, bind=None, depth=0, stack=(), collect_returns=None, emit=True, all_defs=None):
        env = {}
        for p in fn.params:
            if bind is not None and p in bind:
                env[p] = [bind[p]]
            else:
                env[p] = [self.param_prov(fn, p, depth, stack)]
        a = fn.node.args
        if bind is not None:   # defaults of unbound parameters
            defaults = dict(zip([x.arg for x in (a.posonlyargs + a.args)][-len(a.defaults):] if a.defaults else [], a.defaults))
            defaults.update({k.arg: d for k, d in zip(a.kwonlyargs, a.kw_defaults) if d is not None})
            for p in fn.params:
                if p not in bind:
                    env[p] = [fresh("default")] if p in defaults or p in (a.vararg.arg if a.vararg else None, a.kwarg.arg if a.kwarg else None) \
                        else [("param", p)]
        ctx = dict(fn=fn, depth=depth, stack=stack, rets=collect_returns, emit=emit, all_defs=all_defs)
        if all_defs is not None:
            for k, v in env.items():
                all_defs.setdefault(k, []).extend(v)
        self.walk_body(fn.node.body, env, ctx)

    def param_prov(self, fn, p, depth, stack):
        """a parameter: caller-owned, except the state parameter of a loop body (loop-carried)"""
        lc = self.loop_state(fn, p, depth, stack)
        if lc is not None:
            return lc
        if p == fn.kwarg:
            return fresh("**kwargs dict")     # Python builds a new dict for the var-keyword parameter at every call
        if fn.parent is not None and p not in ("self", "cls") and fn.qual + "#callers" not in stack:
            alts = self.caller_args(fn, p, depth, stack)     # a nested function: all its call sites are in the parent
            if alts:
                return join(alts)
        return ("param", p)

    def loop_state(self, fn, p, depth, stack):
        if fn.parent is None or not fn.pos_params or p != fn.pos_params[-1]:
            return None
        if fn.qual + "#state" in stack or depth >= MAX_DEPTH:
            return ("selfloop",)
        par = fn.parent
        for node in ast.walk(par.node):
            if isinstance(node, ast.Call):
                f = node.func
                nm = f.attr if isinstance(f, ast.Attribute) else (f.id if isinstance(f, ast.Name) else None)
                if nm not in LOOP_FNS:
                    continue
                args = list(node.args) + [k.value for k in node.keywords]
                names = [x.id for x in args if isinstance(x, ast.Name)]
                if fn.name not in names:
                    continue
                init = None
                for k in node.keywords:
                    if k.arg == "init_val":
                        init = k.value
                if init is None and node.args:
                    init = node.args[-1]
                st = stack + (fn.qual + "#state",)
                penv = {k: list(v) for k, v in self.closure_defs(par, depth, st).items()}
                for q in par.params:
                    penv.setdefault(q, [self.param_prov(par, q, depth + 1, st)])
                p_init = self.prov(init, penv, par, depth + 1, st)
                p_init = self.through_callers(p_init, par, depth, st)
                back = []
                self.walk_fn(fn, bind={p: ("selfloop",)}, depth=depth + 1, stack=st, collect_returns=back, emit=False)
                return ("loop", join([p_init] + back))
        return None

    def through_callers(self, p, fn, depth, stack):
        """init value that is a parameter of the function running the loop: substitute what the callers
        inside cola pass (e.g. lanczos_fact(A, init_val, ...) <- init_lanczos(...))"""
        def subst(q):
            if q[0] == "param" and q[1] in fn.params and q[1] not in ("self", "cls"):
                alts = self.caller_args(fn, q[1], depth, stack)
                return join(alts) if alts else q
            if q[0] in ("view", "loop"):
                return (q[0], subst(q[1]))
            if q[0] in ("join", "tuple", "matmul"):
                xs = [subst(x) for x in q[1]]
                return join(xs) if q[0] == "join" else (q[0], xs)
            return q
        return subst(p)

    def caller_args(self, fn, pname, depth, stack):
        if depth >= MAX_DEPTH:
            return []
        out = []
        idx = fn.pos_params.index(pname) if pname in fn.pos_params else None
        for m in self.modules.values():
            for g in self.all_fns(m):
                if g is fn:
                    continue
                for node in ast.walk(g.node):
                    if isinstance(node, ast.Call) and isinstance(node.func, ast.Name) and node.func.id == fn.name \
                            and self.resolve_fn(fn.name, node.func, g) is fn:
                        arg = None
                        if idx is not None and idx < len(node.args) and not any(isinstance(a, ast.Starred) for a in node.args[:idx + 1]):
                            arg = node.args[idx]
                        for k in node.keywords:
                            if k.arg == pname:
                                arg = k.value
                        if arg is None:
                            continue
                        st = stack + (fn.qual + "#callers",)
                        if g.qual + "#closure" in st:
                            continue
                        genv = {k: list(v) for k, v in self.closure_defs(g, depth + 1, st).items()}
                        out.append(self.prov(arg, genv, g, depth + 1, st))
        return out

    def all_fns(self, m):
        def rec(f):
            yield f
            for c in f.children.values():
                yield from rec(c)
        for f in m.all_top:
            yield from rec(f)

    def assign(self, target, p, env, ctx, value_node=None):
        if isinstance(target, ast.Name):
            env[target.id] = [p]
            if ctx["all_defs"] is not None:
                ctx["all_defs"].setdefault(target.id, []).append(p)
        elif isinstance(target, (ast.Tuple, ast.List)):
            star = [i for i, t in enumerate(target.elts) if isinstance(t, ast.Starred)]
            n = len(target.elts)
            for i, t in enumerate(target.elts):
                if isinstance(t, ast.Starred):
                    self.assign(t.value, select(p, None), env, ctx)
                elif star and i > star[0]:
                    self.assign(t, select(p, i - n), env, ctx)
                else:
                    self.assign(t, select(p, i), env, ctx)
        elif isinstance(target, ast.Subscript):
            self.site("subscript_store", target.value, target, env, ctx)
        elif isinstance(target, ast.Attribute):
            self.record_field_store(target, p, ctx)
            self.attr_store(target, env, ctx)

    def record_field_store(self, target, p, ctx):
        if not ctx["emit"]:
            return
        fn = ctx["fn"]
        base = target.value
        root = fn
        while root.parent is not None:
            root = root.parent
        is_self = isinstance(base, ast.Name) and root.cls is not None and root.params and base.id == root.params[0]
        if is_self:
            self.field_defs.setdefault((fn.module, root.cls, target.attr), []).append((fn.qual, target.lineno, p))
        else:
            self.foreign_defs.setdefault(target.attr, []).append((fn.module, fn.qual, target.lineno, p))

    def attr_store(self, target, env, ctx):
        fn = ctx["fn"]
        base = target.value
        if fn.name in ("__init__", "__new__") and isinstance(base, ast.Name) and \
                ((fn.params and base.id == fn.params[0] and fn.name == "__init__") or (fn.name == "__new__" and base.id == "obj")):
            return   # construction of the object itself
        self.site("attr_store", base, target, env, ctx)

    def site(self, kind, target_expr, node, env, ctx):
        if not ctx["emit"]:
            return
        fn = ctx["fn"]
        p = self.prov(target_expr, env, fn, ctx["depth"], ctx["stack"])
        # attribute stores are named with the attribute (`self.device`), the provenance is that of the object
        label = ast.unparse(node) if kind == "attr_store" and isinstance(node, ast.Attribute) else ast.unparse(target_expr)
        if kind == "attr_store" and isinstance(node, ast.Call):   # setattr(obj, k, v)
            label = ast.unparse(target_expr) + ".<setattr>"
        self.sites.append(dict(file=fn.module, line=node.lineno, func=fn.qual, kind=kind,
                               target=label, text=ast.unparse(node)[:100], prov=p, fn=fn, target_expr=target_expr, node=node))

    def scan_expr(self, e, env, ctx):
        """sites inside an expression: update_array(...) calls, mutating method calls, setattr"""
        for node in ast.walk(e):
            if isinstance(node, ast.Call):
                f = node.func
                if isinstance(f, ast.Attribute) and f.attr == "update_array" and node.args:
                    self.site("update_array", node.args[0], node, env, ctx)
                elif isinstance(f, ast.Name) and f.id == "update_array" and node.args:
                    self.site("update_array", node.args[0], node, env, ctx)
                elif isinstance(f, ast.Attribute) and f.attr in MUT_METHODS and not self.is_backend(f.value):
                    root = f.value
                    while isinstance(root, (ast.Attribute, ast.Subscript)):
                        root = root.value
                    fn = ctx["fn"]
                    if isinstance(root, ast.Name) and root.id in self.modules[fn.module].imported and root.id not in env:
                        continue   # function of an imported module (cola.fns.add, jax.config.update), not a container
                    if isinstance(root, ast.Name) and fn.name in ("__init__", "__new__") and fn.params and root.id == fn.params[0]:
                        continue   # construction of the object itself
                    self.site("method", f.value, node, env, ctx)
                elif isinstance(f, ast.Name) and f.id == "setattr" and node.args:
                    self.site("attr_store", node.args[0], node, env, ctx)

    def walk_body(self, body, env, ctx):
        for s in body:
            self.walk_stmt(s, env, ctx)

    def walk_stmt(self, s, env, ctx):
        fn, depth, stack = ctx["fn"], ctx["depth"], ctx["stack"]
        if isinstance(s, (ast.FunctionDef, ast.AsyncFunctionDef)):
            env[s.name] = [fresh("closure")]
            return
        if isinstance(s, ast.ClassDef):
            return
        if isinstance(s, ast.Assign):
            self.scan_expr(s.value, env, ctx)
            p = self.prov(s.value, env, fn, depth, stack)
            for t in s.targets:
                self.assign(t, p, env, ctx)
            return
        if isinstance(s, ast.AnnAssign):
            if s.value is not None:
                self.scan_expr(s.value, env, ctx)
                self.assign(s.target, self.prov(s.value, env, fn, depth, stack), env, ctx)
            return
        if isinstance(s, ast.AugAssign):
            self.scan_expr(s.value, env, ctx)
            t = s.target
            self.site("augassign", t, s, env, ctx)
            if isinstance(t, ast.Name):
                # `t op= e` keeps the buffer when t is an array and rebinds when it is an immutable scalar
                old = join(env.get(t.id, [("unknown", "unbound " + t.id)]))
                newp = join([old, fresh("arith")])
                env[t.id] = [newp]
                if ctx["all_defs"] is not None:
                    ctx["all_defs"].setdefault(t.id, []).append(newp)
            return
        if isinstance(s, ast.Return):
            if s.value is not None:
                self.scan_expr(s.value, env, ctx)
                if ctx["rets"] is not None:
                    ctx["rets"].append(self.prov(s.value, env, fn, depth, stack))
            return
        if isinstance(s, ast.Expr):
            self.scan_expr(s.value, env, ctx)
            return
        if isinstance(s, ast.If):
            self.scan_expr(s.test, env, ctx)
            e1 = {k: list(v) for k, v in env.items()}
            e2 = {k: list(v) for k, v in env.items()}
            self.walk_body(s.body, e1, ctx)
            self.walk_body(s.orelse, e2, ctx)
            self.merge(env, [e1, e2])
            return
        if isinstance(s, (ast.For, ast.AsyncFor, ast.While)):
            if isinstance(s, ast.While):
                self.scan_expr(s.test, env, ctx)
            else:
                self.scan_expr(s.iter, env, ctx)
            quiet = dict(ctx, emit=False, rets=None)
            e1 = {k: list(v) for k, v in env.items()}
            if not isinstance(s, ast.While):
                self.assign(s.target, select(self.prov(s.iter, env, fn, depth, stack), None), e1, quiet)
            self.walk_body(s.body, e1, quiet)            # first pass: find the loop-carried definitions
            e2 = {k: list(v) for k, v in env.items()}
            self.merge(e2, [env, e1])
            if not isinstance(s, ast.While):
                self.assign(s.target, select(self.prov(s.iter, e2, fn, depth, stack), None), e2, ctx)
            self.walk_body(s.body, e2, ctx)              # second pass: sites see entry + back-edge definitions
            self.walk_body(s.orelse, e2, ctx)
            self.merge(env, [env, e2])
            return
        if isinstance(s, (ast.With, ast.AsyncWith)):
            for it in s.items:
                self.scan_expr(it.context_expr, env, ctx)
                if it.optional_vars is not None:
                    self.assign(it.optional_vars, ("unknown", "with"), env, ctx)
            self.walk_body(s.body, env, ctx)
            return
        if isinstance(s, ast.Try):
            self.walk_body(s.body, env, ctx)
            for h in s.handlers:
                self.walk_body(h.body, env, ctx)
            self.walk_body(s.orelse, env, ctx)
            self.walk_body(s.finalbody, env, ctx)
            return
        if isinstance(s, ast.Match):
            self.scan_expr(s.subject, env, ctx)
            subj = self.prov(s.subject, env, fn, depth, stack)
            branches = []
            for c in s.cases:
                e1 = {k: list(v) for k, v in env.items()}
                for n in ast.walk(c.pattern):
                    nm = getattr(n, "name", None)
                    if isinstance(n, (ast.MatchAs, ast.MatchStar)) and nm:
                        e1[nm] = [view(subj)]
                self.walk_body(c.body, e1, ctx)
                branches.append(e1)
            self.merge(env, branches + [env])
            return
        if isinstance(s, ast.Delete):
            return
        for e in ast.iter_child_nodes(s):
            if isinstance(e, ast.expr):
                self.scan_expr(e, env, ctx)

    # ---------------------------------------------------------------- reasons (interprocedural / field analysis)
    def parents(self, m):
        if getattr(m, "_parents", None) is None:
            m._parents = {}
            for n in ast.walk(m.tree):
                for c in ast.iter_child_nodes(n):
                    m._parents[c] = n
        return m._parents

    def is_private(self, fn):
        """-> (bool, why).  A top-level function that is not exported and that the package references only as the callee of
        direct calls inside its own module: every call site is then known to `caller_args`."""
        if fn.parent is not None or fn.cls is not None:
            return False, "not a top-level function"
        if any(d.split("(")[0].split(".")[-1] == "export" for d in fn.decorators):
            return False, "decorated @export"
        for m in self.modules.values():
            par = self.parents(m)
            for n in ast.walk(m.tree):
                if isinstance(n, ast.Assign) and any(isinstance(t, ast.Name) and t.id == "__all__" for t in n.targets) \
                        and m.rel == fn.module and fn.name in ast.unparse(n.value):
                    return False, "listed in __all__"
                if isinstance(n, ast.ImportFrom) and any(a.name == fn.name for a in n.names):
                    return False, f"imported by name in {m.rel}"
                if isinstance(n, ast.Attribute) and n.attr == fn.name and not (m.rel == fn.module and False):
                    return False, f"referenced as attribute in {m.rel}:{n.lineno}"
                if isinstance(n, ast.Name) and n.id == fn.name and isinstance(n.ctx, ast.Load):
                    if m.rel != fn.module:
                        if n.id in m.fns or any(n.id in g.children for g in self.all_fns(m)):
                            continue      # another function of the same name in another module
                        return False, f"referenced in {m.rel}:{n.lineno}"
                    pn = par.get(n)
                    if not (isinstance(pn, ast.Call) and pn.func is n):
                        return False, f"used as a value in {m.rel}:{n.lineno}"
        return True, "not exported; referenced only as the callee of direct calls in its own module"

    def param_leaves(self, p, acc=None):
        acc = [] if acc is None else acc
        if p[0] == "param":
            if p[1] not in acc:
                acc.append(p[1])
        elif p[0] in ("view", "loop"):
            self.param_leaves(p[1], acc)
        elif p[0] in ("join", "tuple", "matmul"):
            for x in p[1]:
                self.param_leaves(x, acc)
        return acc

    def resolve_params(self, p, g, depth=0):
        """substitute the parameters of a PRIVATE helper g occurring in p by what g's callers pass (recursively)"""
        def subst(q):
            if q[0] == "param" and q[1] in g.params and q[1] not in ("self", "cls") and depth < MAX_DEPTH and self.is_private(g)[0]:
                alts = []
                for h, arg_p in self.call_sites(g, q[1]):
                    alts.append(self.resolve_params(arg_p, h, depth + 1))
                return join(alts) if alts else q
            if q[0] in ("view", "loop"):
                return (q[0], subst(q[1]))
            if q[0] in ("join", "tuple", "matmul"):
                xs = [subst(x) for x in q[1]]
                return join(xs) if q[0] == "join" else (q[0], xs)
            return q
        return subst(p)

    @staticmethod
    def own_nodes(fn):
        """AST nodes of the function body, not descending into nested function definitions"""
        todo = [n for n in fn.node.body if not isinstance(n, (ast.FunctionDef, ast.AsyncFunctionDef))]
        while todo:
            n = todo.pop()
            yield n
            for c in ast.iter_child_nodes(n):
                if not isinstance(c, (ast.FunctionDef, ast.AsyncFunctionDef)):
                    todo.append(c)

    def call_sites(self, fn, pname):
        """[(calling function, provenance of the actual argument in the caller)] for every direct call of fn in its module
        (each call attributed to the innermost function that contains it)"""
        out = []
        idx = fn.pos_params.index(pname) if pname in fn.pos_params else None
        m = self.modules[fn.module]
        for g in self.all_fns(m):
            for node in self.own_nodes(g):
                if isinstance(node, ast.Call) and isinstance(node.func, ast.Name) and node.func.id == fn.name \
                        and self.resolve_fn(fn.name, node.func, g) is fn:
                    arg = None
                    if idx is not None and idx < len(node.args) and not any(isinstance(a, ast.Starred) for a in node.args[:idx + 1]):
                        arg = node.args[idx]
                    for k in node.keywords:
                        if k.arg == pname:
                            arg = k.value
                    if arg is None:
                        out.append((g, ("unknown", "argument not found")))
                        continue
                    st = (fn.qual + "#callers",)
                    genv = {k: list(v) for k, v in self.closure_defs(g, 1, st).items()}
                    for q in g.params:
                        genv.setdefault(q, [self.param_prov(g, q, 1, st)])
                    out.append((g, self.prov(arg, genv, g, 1, st)))
        return out

    def attr_reads(self, attr):
        """library reads of `.attr` (Load context, not the receiver of a mutating method call and not a store target)"""
        n_reads, where = 0, []
        for m in self.modules.values():
            if scope_of(m.rel) != "library":
                continue
            par = self.parents(m)
            for n in ast.walk(m.tree):
                if isinstance(n, ast.Attribute) and n.attr == attr and isinstance(n.ctx, ast.Load):
                    pn = par.get(n)
                    if isinstance(pn, ast.Attribute) and pn.value is n and pn.attr in MUT_METHODS and isinstance(par.get(pn), ast.Call) \
                            and par[pn].func is pn:
                        continue
                    n_reads += 1
                    where.append(f"{m.rel}:{n.lineno}")
        return n_reads, where

    @staticmethod
    def merge(env, envs):
        keys = set()
        for e in envs:
            keys |= set(e)
        out = {}
        for k in keys:
            acc = []
            for e in envs:
                for p in e.get(k, []):
                    if p not in acc:
                        acc.append(p)
            out[k] = acc
        env.clear()
        env.update(out)


# --------------------------------------------------------------------------------------------
def load_modules(base):
    modules = {}
    for d, _dirs, files in os.walk(base):
        for f in sorted(files):
            if f.endswith(".py"):
                path = os.path.join(d, f)
                rel = os.path.relpath(path, base)
                try:
                    tree = ast.parse(open(path).read(), filename=path)
                except SyntaxError:
                    continue
                modules[rel] = Module(rel, tree)
    for m in modules.values():
        m.all_top = []

        def collect(body, parent, cls, m=m):
            for s in body:
                if isinstance(s, (ast.FunctionDef, ast.AsyncFunctionDef)):
                    fn = Fn(s, parent, m.rel, cls)
                    if parent is None:
                        m.all_top.append(fn)
                        if cls is None:
                            m.fns[s.name] = fn
                    else:
                        parent.children[s.name] = fn
                    collect(s.body, fn, None)
                elif isinstance(s, ast.ClassDef) and parent is None:
                    collect(s.body, None, s.name)
                elif isinstance(s, (ast.If, ast.For, ast.While, ast.With, ast.Try)):
                    for sub in ("body", "orelse", "finalbody"):
                        collect(getattr(s, sub, []) or [], parent, cls)
                    for h in getattr(s, "handlers", []) or []:
                        collect(h.body, parent, cls)
        collect(m.tree.body, None, None)
    return modules


# flat class of a provenance tree (for the table, statistics and humans) --------------------------
ORDER = ["fresh", "view-of-fresh", "loop-carried", "matmul-result", "param", "unknown"]


def flat(p):
    k = p[0]
    if k == "fresh":
        return "fresh"
    if k == "selfloop":
        return "fresh"
    if k == "view":
        c = flat(p[1])
        return "view-of-fresh" if c == "fresh" else c
    if k == "param":
        return "param"
    if k == "unknown":
        return "unknown"
    if k == "loop":
        c = flat(p[1])
        return "loop-carried" if c in ("fresh", "view-of-fresh") else c
    if k == "matmul":
        cs = [flat(x) for x in p[1]] or ["fresh"]
        w = max(cs, key=ORDER.index)
        return "matmul-result" if ORDER.index(w) <= ORDER.index("matmul-result") else w
    if k in ("join", "tuple"):
        cs = [flat(x) for x in p[1]] or ["fresh"]
        return max(cs, key=ORDER.index)
    return "unknown"


def chain(p):
    k = p[0]
    if k == "fresh":
        return f"fresh({p[1]})"
    if k == "selfloop":
        return "<loop state>"
    if k == "view":
        return "view-of " + chain(p[1])
    if k == "param":
        return f"param {p[1]}"
    if k == "unknown":
        return f"unknown({p[1]})"
    if k == "loop":
        return "loop-carried{" + chain(p[1]) + "}"
    if k == "matmul":
        return "matmul-result[" + ", ".join(chain(x) for x in p[1]) + "]"
    return k + "[" + ", ".join(chain(x) for x in p[1]) + "]"


class IR:
    """compile a provenance tree into a straight-line IR program; returns the variable holding it.
    Variables: 0.. ; variables never defined are bound at entry (caller-owned)."""

    def __init__(self):
        self.instrs = []
        self.n = 0
        self.entry = {}

    def new(self):
        self.n += 1
        return self.n - 1

    def comp(self, p):
        k = p[0]
        if k in ("fresh", "selfloop"):
            v = self.new()
            self.instrs.append(("fresh", v))
            return v
        if k == "view":
            y = self.comp(p[1])
            v = self.new()
            self.instrs.append(("alias", v, y))
            return v
        if k in ("param", "unknown"):
            key = (k, p[1])
            if key not in self.entry:
                self.entry[key] = self.new()
            return self.entry[key]
        if k == "loop":
            return self.comp(p[1])
        if k in ("matmul", "join", "tuple"):
            ys = [self.comp(x) for x in p[1] if x[0] != "selfloop"]
            v = self.new()
            self.instrs.append(("mayAlias", v, ys))
            return v
        key = ("unknown", k)
        if key not in self.entry:
            self.entry[key] = self.new()
        return self.entry[key]


def lean_str(s):
    return '"' + s.replace("\\", "\\\\").replace('"', '\\"').replace("\n", " ") + '"'


def lean_instr(i):
    if i[0] == "fresh":
        return f".fresh {i[1]}"
    if i[0] == "alias":
        return f".alias {i[1]} {i[2]}"
    if i[0] == "mayAlias":
        return f".mayAlias {i[1]} [{', '.join(map(str, i[2]))}]"
    if i[0] == "write":
        return f".write {i[1]}"
    if i[0] == "call":
        return f".call [{', '.join(map(str, i[1]))}] {i[2]} [{', '.join(map(str, i[3]))}]"
    raise ValueError(i)


def lean_prog(prog):
    return "[" + ", ".join(lean_instr(x) for x in prog) + "]"


def prog_of(p, last):
    """IR program of a provenance tree followed by `write v` or by the interprocedural edge `call [v] r [v]`"""
    ir = IR()
    v = ir.comp(p)
    if last == "write":
        ir.instrs.append(("write", v))
    else:
        r = ir.new()
        ir.instrs.append(("call", [v], r, [v]))
    return ir.instrs


def py_writes_only_fresh(prog):
    """mirror of Heap.writesOnlyFresh (diagnostics / statistics only; Lean decides)"""
    L = set()
    for i in prog:
        if i[0] == "fresh":
            L.add(i[1])
        elif i[0] == "alias":
            L.add(i[1]) if i[2] in L else L.discard(i[1])
        elif i[0] == "mayAlias":
            L.add(i[1]) if all(y in L for y in i[2]) else L.discard(i[1])
        elif i[0] == "write":
            if i[1] not in L:
                return False
        elif i[0] == "call":
            if not all(w in L for w in i[1]):
                return False
            L.add(i[2]) if all(y in L for y in i[3]) else L.discard(i[2])
    return True


def establish_reason(an, s, all_sites, base):
    """-> dict(kind, progs, detail, reads) for a library site whose own slice does not obey the discipline"""
    fn, texpr = s["fn"], s["target_expr"]
    text = ast.unparse(texpr)
    # class-level registry
    if "__class__" in text:
        return {"kind": "classLevel", "progs": [], "reads": 0, "detail": "target reached through __class__ (class-level table)"}
    # the backend primitive: every call of it in the package is a site of the table
    if s["file"].replace(os.sep, "/") == "backends/np_fns.py" and fn.name == "update_array" and fn.parent is None:
        progs, where = [], []
        for t in all_sites:
            if t["kind"] != "update_array" or scope_of(t["file"], base) != "library":
                continue
            p = t["prov"]
            params = [q for q in an.param_leaves(p) if q not in ("self", "cls")]
            if params and t["fn"].parent is None and an.is_private(t["fn"])[0]:
                p = an.resolve_params(p, t["fn"])
            progs.append(prog_of(p, "call"))
            where.append(f"{t['file']}:{t['line']} {t['func']}")
        return {"kind": "primitive", "progs": progs, "reads": 0,
                "detail": f"{len(progs)} calls of update_array in library modules: " + "; ".join(where)[:600]}
    # attribute of self
    root = fn
    while root.parent is not None:
        root = root.parent
    e = texpr
    chain_attrs = []
    while isinstance(e, (ast.Attribute, ast.Subscript)):
        if isinstance(e, ast.Attribute):
            chain_attrs.append(e.attr)
        e = e.value
    on_self = isinstance(e, ast.Name) and root.cls is not None and root.params and e.id == root.params[0]
    if on_self and s["kind"] == "attr_store" and isinstance(s["node"], ast.Attribute) and s["node"].value is e:
        attr = s["node"].attr
        n, where = an.attr_reads(attr)
        return {"kind": "writeOnlyField", "progs": [], "reads": n,
                "detail": f"attribute `{attr}` re-bound outside the constructor; library reads of `.{attr}`: {n}" + (" at " + ", ".join(where[:6]) if where else "")}
    if on_self and chain_attrs:
        attr = chain_attrs[-1]      # the attribute of self that holds the mutated object
        defs = list(an.field_defs.get((fn.module, root.cls, attr), []))
        foreign = [(q, ln, p) for (mod, q, ln, p) in an.foreign_defs.get(attr, []) if scope_of(mod, base) == "library"]
        progs = [prog_of(p, "write") for _q, _ln, p in defs + foreign]
        return {"kind": "ownedField", "progs": progs, "reads": 0,
                "detail": f"stores to `.{attr}`: " + "; ".join(f"{q}:{ln}" for q, ln, _p in defs + foreign)[:600]}
    # parameter of a private helper
    params = [q for q in an.param_leaves(s["prov"]) if q not in ("self", "cls")]
    if params and fn.parent is None and all(q in fn.params for q in params):
        ok, why = an.is_private(fn)
        if ok:
            progs, where = [], []
            for q in params:
                for g, argp in an.call_sites(fn, q):
                    progs.append(prog_of(an.resolve_params(argp, g), "call"))
                    where.append(g.qual)
            return {"kind": "privateHelper", "progs": progs, "reads": 0, "detail": why + "; call sites in: " + ", ".join(where)}
        return {"kind": "none", "progs": [], "reads": 0, "detail": "helper is not private: " + why}
    return {"kind": "none", "progs": [], "reads": 0, "detail": "no reason established"}


def lean_reason(r):
    k = r["kind"]
    if k in ("privateHelper", "primitive", "ownedField"):
        return f".{k} [" + ", ".join(lean_prog(pr) for pr in r["progs"]) + "]"
    if k == "writeOnlyField":
        return f".writeOnlyField {r['reads']}"
    if k == "classLevel":
        return ".classLevel"
    return ".none"


CLS_LEAN = {"fresh": "fresh", "view-of-fresh": "viewOfFresh", "loop-carried": "loopCarried", "matmul-result": "matmulResult",
            "param": "param", "unknown": "unknown"}
KIND_LEAN = {"augassign": "augAssign", "update_array": "updateArray", "subscript_store": "subscriptStore",
             "method": "method", "attr_store": "attrStore"}


def run(out_lean=OUT_LEAN, out_json=OUT_JSON, quiet=False):
    spec = importlib.util.find_spec("cola")
    base = list(spec.submodule_search_locations)[0]
    modules = load_modules(base)
    an = Analyzer(modules)
    for m in modules.values():
        for f in an.all_fns(m):
            an.walk_fn(f)
    rows = []
    seen = set()
    for s in an.sites:
        key = (s["file"], s["line"], s["kind"], s["target"], s["func"])
        if key in seen:
            continue
        seen.add(key)
        prog = prog_of(s["prov"], "write")
        scope = scope_of(s["file"], base)
        reason = {"kind": "none", "progs": [], "reads": 0, "detail": ""}
        if scope == "library" and not py_writes_only_fresh(prog):
            reason = establish_reason(an, s, an.sites, base)
        rows.append(dict(file=s["file"].replace(os.sep, "/"), line=s["line"], func=s["func"], kind=s["kind"], target=s["target"],
                         text=s["text"], cls=flat(s["prov"]), chain=chain(s["prov"]), prog=prog, scope=scope,
                         reason=reason["kind"], reason_progs=reason["progs"], reason_reads=reason["reads"], reason_detail=reason["detail"]))
    rows.sort(key=lambda r: (r["file"], r["line"], r["kind"], r["target"]))
    os.makedirs(os.path.dirname(out_json), exist_ok=True)
    with open(out_json, "w") as f:
        json.dump(dict(base=base, sites=rows), f, indent=1)
    lines = ["/- GENERATED by harness/translators/scan_inplace_sites.py — do not edit.",
             f"   In-place sites of the cola package ({len(rows)} sites), with the provenance class of the written object",
             "   and the slice of the enclosing function in the buffer-event IR of Model/Heap.lean. -/",
             "import ColaVerif.Model.Heap", "", "namespace ColaVerif.Gen.InplaceSites", "open ColaVerif.Heap", "",
             "def sites : List Site := ["]
    for i, r in enumerate(rows):
        prog = lean_prog(r["prog"])
        rs = lean_reason({"kind": r["reason"], "progs": r["reason_progs"], "reads": r["reason_reads"]})
        lines.append(f"  {{ file := {lean_str(r['file'])}, func := {lean_str(r['func'])}, kind := .{KIND_LEAN[r['kind']]}, "
                     f"target := {lean_str(r['target'])}, line := {r['line']}, scope := .{r['scope']}, cls := .{CLS_LEAN[r['cls']]},\n"
                     f"    chain := {lean_str(r['chain'][:300])},\n    prog := {prog},\n"
                     f"    reason := {rs}, reasonText := {lean_str(r['reason_detail'][:400])} }}" + ("," if i + 1 < len(rows) else ""))
    lines += ["]", "", "end ColaVerif.Gen.InplaceSites", ""]
    os.makedirs(os.path.dirname(out_lean), exist_ok=True)
    new = "\n".join(lines)
    old = open(out_lean).read() if os.path.exists(out_lean) else None
    if old != new:
        with open(out_lean, "w") as f:
            f.write(new)
    if not quiet:
        for r in rows:
            print(f"{r['scope'][:4]} {r['file']}:{r['line']} {r['func']} [{r['kind']}] {r['target']}  ->  {r['cls']}   {r['chain'][:140]}")
    return dict(base=base, sites=rows, changed=(old != new))


if __name__ == "__main__":
    sys.setrecursionlimit(10000)
    res = run(quiet="--quiet" in sys.argv)
    from collections import Counter
    print(Counter((r["scope"], r["cls"]) for r in res["sites"]), file=sys.stderr)
