"""C08 — exact diag / trace return the true (off-)diagonal and trace.

Three streams (all randomness from random.Random(ctx.seed ...)):
  A  random square operator trees of extent 1..8 (all listed kinds, nested), every k in [-n, n] (plus
     k = +-(n+1)), alg in {omitted, Auto(), Exact()}, diag and trace, real / code model / spec compared EXACTLY;
  B  block-boundary stream on the REAL code at n in {99,100,101,130,199,200,201,250} (both sides of the probing
     block size 100, not divisible by it): integer payloads on the generic probing path against numpy's
     np.diag / np.trace, and structured operators (tridiagonal / permutation / diagonal products and sums wrapped
     in no_dispatch) against the Lean model run with the same block-size constant 100;
  C  the Lean model with scaled-down block-size constants (bs in {1,2,3,4,5,7}, n in 2..9) against the
     specification (what the theorem C08_exact states for every bs; an executable sanity check of the model);
  D  rule selection: the rule of diag / trace the LIVE resolver of /repo selects for a real instance of every
     modelled kind (alg in {Auto(), Exact()}) against the rule the code model applies.
"""
import collections
import json
import os
import random
import warnings

import numpy as np

import build
import common
import gen
import oracle
import treecheck

warnings.simplefilter("ignore")
MODULE = "ColaVerif.Properties.C08"
DRIVER = "DriverC08.lean"
CORPUS = os.path.join(common.ROOT, "harness", "corpus", "c08.jsonl")

# Genuine defects of cola found by this check and not yet decided (repair in /repo or entry in known_findings.json).
PROVISIONAL_KNOWN = {}
# (history: `bdiag-nonsquare-block` and `kron-nonsquare-factor` — diag(BlockDiag) / diag(Kronecker) with non-square members
#  returned wrong values — were found by this check and are repaired in /repo: the rules refuse now; see the corpus and
#  the regression lemmas C08_regression_block / C08_regression_factor)

KINDS = ["dense", "tri", "sparse", "scalar", "eye", "diag", "tridiag", "perm", "house",
         "prod", "sum", "kron", "kronsum", "bdiag", "T", "H", "slice", "concat", "generic", "ann", "gram", "symslice"]
ALGS = ["omitted", "auto", "exact"]
BIG_N = [99, 100, 101, 130, 199, 200, 201, 250]
MAX_REPORTS = 4


TENSOR = ("kron", "kronsum", "bdiag")
PROBED = ("prod", "T", "H", "slice", "concat", "generic", "gram", "symslice")   # kinds whose diag is the probing loop


class SqGen(gen.Gen):
    """gen.Gen, but
    (a) a square Kronecker / BlockDiag mostly gets square members (the clause-free region);
    (b) BELOW a node whose diagonal is computed by the probing loop (Product, Transpose, Sliced, no_dispatch, ...)
        a Kronecker / KronSum / BlockDiag node gets leaf members only and is not nested in another one: the executable
        Lean model of `A @ X` (C01, Model/Matmat.lean: `FacAct.act`, the `act` arguments of the Sum / Sliced / Concatenated
        kernels) re-evaluates a member's product once per entry of the enclosing node, i.e. its cost is exponential in the
        nesting depth; the depth of such a subtree is therefore bounded by its extent.  Nesting of the structural kinds
        inside each other and inside Sum (the rule recursion of diag / trace) is unrestricted."""
    p_square = 0.8
    probed = 0      # number of enclosing probing-loop kinds
    tensor_below_probed = 0

    def comp(self, k, r, c, depth):
        if k in PROBED:
            if self.probed == 0:
                # the subtree below goes through `A @ chunk`: bound its depth by its extent (see the class comment;
                # Sum / Sliced / Concatenated members are re-evaluated per entry as well)
                depth = min(depth, 1 if r * c >= 36 else 2 if r * c >= 16 else 3)
            self.probed += 1
            try:
                return super().comp(k, r, c, depth)
            finally:
                self.probed -= 1
        if k not in TENSOR:
            return super().comp(k, r, c, depth)
        if self.probed == 0:
            return self.tensor(k, r, c, depth)
        if self.tensor_below_probed >= 1 or r * c > 64:
            return None
        self.tensor_below_probed += 1
        try:
            return self.tensor(k, r, c, 1)      # depth 1: the members are leaves
        finally:
            self.tensor_below_probed -= 1

    def tensor(self, k, r, c, depth):
        rng = self.rng
        d = depth - 1
        if r == c and k == "kron" and rng.random() < self.p_square:
            n = rng.choice([2, 2, 3])
            rs = self.factor(r, n)
            return ["kron"] + [self.op(x, x, d) for x in rs]
        if r == c and k == "bdiag" and rng.random() < self.p_square:
            for _ in range(20):
                nb = rng.choice([1, 2, 2, 3])
                mults = [rng.choice([1, 1, 2, 3]) for _ in range(nb)]
                rs = self.weighted_partition(r, mults)
                if rs is not None:
                    return ["bdiag", [self.op(x, x, d) for x in rs], mults]
            return None
        return super().comp(k, r, c, depth)


# ------------------------------------------------------------------------------------------ real code
def real_call(case, B=None):
    """observation of the real code: {'ok': exact value} or {'err': class, 'msg': ...}"""
    try:
        import cola
        from cola.linalg.algorithm_base import Auto
        from cola.linalg.trace.diagonal_estimation import Exact
        A = (B or build.Builder()).build(case["op"])
        alg = case.get("alg", "omitted")
        if case["call"] == "diag":
            k = int(case["k"])
            if alg == "omitted":
                r = cola.linalg.diag(A, k)
            else:
                r = cola.linalg.diag(A, k, Auto() if alg == "auto" else Exact())
            r = np.asarray(r)
            if r.ndim != 1:
                return {"err": "not-1d", "msg": f"ndim {r.ndim}"}
            v = build.exact_mat(r)
            return {"ok": v, "dtype": str(r.dtype)} if v is not None else {"err": "non-finite", "msg": ""}
        if case["call"] == "trace":
            if alg == "omitted":
                r = cola.linalg.trace(A)
            else:
                r = cola.linalg.trace(A, Auto() if alg == "auto" else Exact())
            r = np.asarray(r)
            if r.ndim != 0:
                return {"err": "not-0d", "msg": f"ndim {r.ndim}"}
            v = build.exact_mat(r)
            return {"ok": v, "dtype": str(r.dtype)} if v is not None else {"err": "non-finite", "msg": ""}
        raise ValueError(case["call"])
    except Exception as ex:  # noqa: BLE001
        return {"err": treecheck.err_class(ex), "msg": str(ex)[:160]}


def fq(x):
    if isinstance(x, str):
        n, d = x.split("/")
        return int(n) / int(d)
    return x


def bound_of(case, ans):
    b = max(abs(fq(ans.get("absbound", 0))), abs(fq(ans.get("tracebound", 0))) if case["call"] == "trace" else 0)
    return b


def classify(case, ans, real, known):
    """-> (status, detail); status in
    ok | refused-ok | unmodelled-ok | known | violation | stale-model | skipped | inexact | driver-error"""
    if "error" in ans:
        return "driver-error", ans["error"]
    if not ans.get("wf", True) or not ans.get("square", True):
        return "skipped", "not well-formed / not square"
    foreign = [c for c in ans.get("clauses", []) if c not in PROVISIONAL_KNOWN]
    if foreign:
        return "skipped", "hypothesis of C01 violated: " + ",".join(foreign)
    if bound_of(case, ans) >= treecheck.exact_bound(case):
        return "inexact", ""
    code, spec = ans["code"], ans["spec"]
    clauses = [c for c in ans.get("clauses", []) if c in PROVISIONAL_KNOWN]
    real_is_err = "err" in real
    real_eq_spec = (not real_is_err) and real["ok"] == spec
    if "err" in code:
        if code["err"].startswith("unmodelled"):
            # the model does not say what the code does here (non-square operand of the probing loop);
            # only the property itself is judged: same values as the true diagonal, or a refusal
            if real_is_err or real_eq_spec:
                return "unmodelled-ok", code["err"]
            if clauses:
                return "known", clauses
            return "violation", f"real returns values different from the true {case['call']} (model: {code['err']})"
        if real_is_err:
            if real["err"] == code["err"]:
                return "refused-ok", code["err"]
            return "stale-model", f"both refuse, but real raises {real['err']} and the model {code['err']}"
        if real_eq_spec:
            return "stale-model", f"real returns the true values, the model refuses with {code['err']}"
        if clauses:
            return "known", clauses
        return "violation", f"real returns values different from the true {case['call']} (the model refuses with {code['err']})"
    # the model returns values
    if not real_is_err and real["ok"] == code["ok"]:
        if code["ok"] == spec:
            return "ok", ""
        if clauses:
            return "known", clauses
        return "violation", "real = code model, both differ from the true values and no named clause covers the case"
    if real_is_err:
        if case["call"] == "diag" and ans.get("drule", "").endswith("LinearOperator"):
            # only a structural rule may refuse; the exact / automatic algorithm on the generic path must return the diagonal
            return "violation", f"the probing algorithm refuses a square operator ({real['err']}: {real.get('msg', '')})"
        return "stale-model", f"real refuses ({real['err']}: {real.get('msg', '')}), the model returns values"
    if real_eq_spec:
        return "stale-model", "real returns the true values, the model predicts others"
    if clauses:
        return "stale-model", "real, model and specification all differ on a case violating " + ",".join(clauses)
    return "violation", f"real returns values different from the true {case['call']} (and from the model)"


def drive(cases):
    """run the Lean driver; all observations on one operator go into ONE batch line (the represented
    matrix and the magnitude bound are computed once per operator) -> {case id: answer}"""
    groups = {}
    for c in cases:
        # nospec cases (large operators) share nothing: one line each, so that they spread over the processes
        key = (common.canon(c["op"]), False) if not c.get("nospec") else (str(c["id"]), True)
        groups.setdefault(key, []).append(c)
    lines = []
    for gi, ((_, nospec), cs) in enumerate(groups.items()):
        items = [{k: v for k, v in c.items() if k in ("call", "k", "alg", "bs")} for c in cs]
        lines.append({"id": gi, "call": "batch", "op": cs[0]["op"], "items": items, "nospec": nospec, "_ids": [c["id"] for c in cs]})
    heavy = any(l["nospec"] for l in lines)
    payload = [{k: v for k, v in l.items() if k != "_ids"} for l in lines]
    res = oracle.run_driver(payload, driver=DRIVER, nproc=min(16, max(1, len(lines))) if heavy else None)
    out = {}
    for l in lines:
        a = res.get(l["id"], {"error": "no answer from driver"})
        for pos, cid in enumerate(l["_ids"]):
            if "error" in a:
                out[cid] = {"error": a["error"]}
                continue
            one = {k: v for k, v in a.items() if k != "results"}
            one.update(a["results"][pos])
            one["id"] = cid
            out[cid] = one
    return out


# ------------------------------------------------------------------------------------------ engine
class Engine:
    def __init__(self, ctx):
        self.ctx = ctx
        self.stats = collections.Counter()
        self.kind_hist = collections.Counter()
        self.size_hist = collections.Counter()
        self.k_hist = collections.Counter()
        self.alg_hist = collections.Counter()
        self.cplx_hist = collections.Counter()
        self.distinct = set()
        self.samples = []
        self.nid = 0
        self.reported = 0
        self.known = dict(common.known_clauses(ctx.prop))
        self.known_what = {k: v["what"] for k, v in self.known.items()}
        for k, v in PROVISIONAL_KNOWN.items():
            self.known_what.setdefault(k, v)

    def mk(self, **kw):
        kw["id"] = self.nid
        self.nid += 1
        return kw

    def evaluate(self, cases):
        ans = drive(cases)
        out = []
        B = build.Builder()
        for c in cases:
            a = ans.get(c["id"], {"error": "no answer from driver"})
            real = real_call(c, B)
            if c.get("nospec") and "error" not in a:
                # large operators: the specification side is numpy on the dense matrix of the operator
                # (to_dense = den is C01); magnitudes stay far below 2^24 (payloads <= 3, <= 3 banded factors)
                Dm = np.asarray(B.build(c["op"]).to_dense())
                a = dict(a)
                a["spec"] = build.exact_mat(np.diag(Dm, int(c["k"])) if c["call"] == "diag" else np.trace(Dm))
                a["absbound"] = float(np.abs(Dm).max()) * 9
                a["tracebound"] = float(np.abs(Dm).sum())
            st, det = classify(c, a, real, self.known_what)
            out.append((c, a, real, st, det))
        return out

    def fails(self, case):
        """does the REAL code contradict the SPEC on this case (returns values, and they differ)?"""
        c = dict(case)
        c["id"] = 0
        (c, a, real, st, det) = self.evaluate([c])[0]
        if "error" in a or not a.get("wf", True) or not a.get("square", True):
            return False
        if bound_of(c, a) >= treecheck.exact_bound(c):
            return False
        if a.get("clauses"):
            return False          # recorded defects (and hypotheses of C01) are not what a replay should show
        if "err" in real:
            return (c["call"] == "diag" and a.get("drule", "").endswith("LinearOperator") and "ok" in a.get("code", {}))
        return real["ok"] != a["spec"]

    def shrink(self, case):
        cur = case
        for _ in range(12):
            progressed = False
            for s in treecheck.shrink_candidates(cur["op"])[:40]:
                c = dict(cur)
                c["op"] = s
                try:
                    if self.fails(c):
                        cur = c
                        progressed = True
                        break
                except Exception:  # noqa: BLE001
                    continue
            if not progressed:
                break
        return cur

    def neighbourhood(self, case):
        """a stale model: look for a nearby input on which the real code contradicts the specification"""
        cands = []
        for s in [case["op"]] + treecheck.shrink_candidates(case["op"])[:25]:
            for alg in ALGS:
                for k in ([case.get("k", 0), 0, 1, -1] if case["call"] == "diag" else [0]):
                    c = dict(case)
                    c.update({"op": s, "alg": alg, "k": k})
                    cands.append(c)
        for c in cands:
            try:
                if self.fails(c):
                    return c
            except Exception:  # noqa: BLE001
                continue
        return None

    def account(self, c, a, real, st, det, stream):
        ctx = self.ctx
        self.stats[st] += 1
        self.stats["evaluations"] += 1
        self.stats["stream-" + stream] += 1
        if st in ("ok", "refused-ok", "unmodelled-ok", "known"):
            self.kind_hist[c["op"][0]] += 1
            self.size_hist[a.get("rows")] += 1
            self.alg_hist[c.get("alg", "omitted")] += 1
            if c["call"] == "diag":
                n = a.get("rows", 0)
                k = c["k"]
                self.k_hist["0" if k == 0 else "+-n" if abs(k) == n else ">n" if abs(k) > n else "pos" if k > 0 else "neg"] += 1
            self.cplx_hist["complex" if any(d in ("c64", "c128") for d in treecheck.leaf_dtypes(c["op"])) else "real"] += 1
            if nontrivial(c):
                self.distinct.add(common.canon([c["op"], c["call"], c.get("k"), c.get("alg")]))
            if st == "ok" and len(self.samples) < 4 and nontrivial(c) and len(json.dumps(c)) < 700:
                self.samples.append({"case": c, "model": a.get("code"), "spec": a.get("spec")})
        if st in ("violation", "stale-model"):
            self.reported += 1
            if self.reported > MAX_REPORTS:      # a broken tree fails thousands of cases: report the first few, count the rest
                return
        if st == "known":
            for cl in det:
                common.known_finding(ctx, cl, self.known_what[cl])
        elif st == "violation":
            small = self.shrink(c) if self.fails(c) else c
            sc = dict(small)
            sc["id"] = 0
            (sc, sa, sreal, sst, sdet) = self.evaluate([sc])[0]
            common.violation(ctx, {"case": sc, "expected_spec": sa.get("spec"), "model_code": sa.get("code"), "real": sreal,
                                   "detail": sdet or det, "original_case": c,
                                   "replay_cmd": f"./check {ctx.prop} quick --replay <this file>"})
        elif st == "stale-model":
            near = self.neighbourhood(c)
            if near is not None:
                nc = dict(near)
                nc["id"] = 0
                (nc, na, nreal, nst, ndet) = self.evaluate([nc])[0]
                common.violation(ctx, {"case": nc, "expected_spec": na.get("spec"), "model_code": na.get("code"), "real": nreal,
                                       "detail": "found while searching around a model mismatch: " + str(det), "original_case": c,
                                       "replay_cmd": f"./check {ctx.prop} quick --replay <this file>"})
            else:
                common.violation(ctx, {"case": c, "model_code": a.get("code"), "spec": a.get("spec"), "real": real,
                                       "broken": "correspondence of the code model of diag/trace: " + str(det)}, no_input=True)
        elif st == "driver-error":
            ctx.notes.append(f"driver error on case {c.get('id')}: {det}")

    def run(self, cases, stream):
        res = self.evaluate(cases)
        for r in res:
            self.account(*r, stream)
        return res


def nontrivial(c):
    e = c["op"]
    return not (gen.depth_of(e) < 1 and e[0] in ("eye", "scalar", "diag"))


# ------------------------------------------------------------------------------------------ stream A
def stream_a_cases(ctx, eng, rng, ntrees):
    G = SqGen(rng, max_extent=4, kinds=KINDS, arr_index=False, ann_p=0.1)
    cases = []
    for t in range(ntrees):
        n = rng.choice([1, 2, 2, 3, 3, 4, 4, 5, 6, 6, 7, 8])
        G.max_extent = max(3, min(n, 5))
        depth = rng.choice([0, 1, 1, 2, 2, 3] + ([4] if ctx.thorough else []))
        if rng.random() < 0.5:
            top = rng.choice(["sum", "kron", "kronsum", "bdiag", "prod", "generic", "sum", "kron", "bdiag"])
            e = G.comp(top, n, n, max(depth, 1)) or G.op(n, n, depth)
        else:
            e = G.op(n, n, depth)
        ks = list(range(-n, n + 1))
        if rng.random() < 0.5:
            ks += [n + 1, -n - 1]
        for k in ks:
            algs = ALGS if k == 0 else [rng.choice(ALGS)]
            for alg in algs:
                cases.append(eng.mk(call="diag", op=e, k=k, alg=alg))
        for alg in ALGS:
            cases.append(eng.mk(call="trace", op=e, alg=alg))
        # square proper sub-expressions: nesting below the top node
        seen = {common.canon(e)}
        for s in gen.subexprs(e):
            key = common.canon(s)
            if key in seen or s[0] in ("eye", "scalar", "diag"):
                continue
            seen.add(key)
            sh = shape_of(s)
            if sh is None or sh[0] != sh[1]:
                continue
            m = sh[0]
            for k in rng.sample(list(range(-m, m + 1)), min(3, 2 * m + 1)):
                cases.append(eng.mk(call="diag", op=s, k=k, alg=rng.choice(ALGS)))
            cases.append(eng.mk(call="trace", op=s, alg=rng.choice(ALGS)))
    return cases


def shape_of(e):
    """shape of a case-language expression (None if it cannot be told cheaply)"""
    t = e[0]
    if t in ("dense", "tri", "sparse"):
        return e[2], e[3]
    if t == "scalar":
        return e[3], e[3]
    if t == "eye":
        return e[2], e[2]
    if t in ("diag", "perm", "house"):
        return len(e[2]), len(e[2])
    if t == "tridiag":
        return len(e[3]), len(e[3])
    if t in ("generic",):
        return shape_of(e[1])
    if t == "ann":
        return shape_of(e[2])
    if t in ("T", "H"):
        s = shape_of(e[1])
        return None if s is None else (s[1], s[0])
    if t == "sum":
        return shape_of(e[1])
    if t == "prod":
        a, b = shape_of(e[1]), shape_of(e[-1])
        return None if a is None or b is None else (a[0], b[1])
    if t in ("kron", "kronsum"):
        r = c = 1
        for x in e[1:]:
            s = shape_of(x)
            if s is None:
                return None
            r, c = r * s[0], c * s[1]
        return r, c
    if t == "bdiag":
        r = c = 0
        for x, m in zip(e[1], e[2]):
            s = shape_of(x)
            if s is None:
                return None
            r, c = r + m * s[0], c + m * s[1]
        return r, c
    return None


# ------------------------------------------------------------------------------------------ stream B
def big_k_sample(rng, n, count):
    pool = [0, 1, -1, n - 1, -(n - 1), n, -n, 99, -99, 100, -100, 101, -101, n - 100, 100 - n, n - 99, 99 - n, n - 101, 101 - n]
    pool = [k for k in dict.fromkeys(pool) if abs(k) <= n]
    pick = rng.sample(pool, min(len(pool), count))
    pick += [rng.randint(-n, n) for _ in range(max(2, count // 3))]
    return list(dict.fromkeys(pick))


def numpy_judge(case, B=None):
    """real code vs numpy on the dense matrix of the operator (no Lean model involved): -> (good, detail)"""
    B = B or build.Builder()
    A = B.build(case["op"])
    ref = np.asarray(A.to_dense())
    real = real_call(case, B)
    want = build.exact_mat(np.diag(ref, int(case["k"])) if case["call"] == "diag" else np.trace(ref))
    if "err" in real:
        # a refusal would be allowed by the property, but the probing path has no reason to refuse a square
        # operator: the model (and theorem C08_exact) say it returns the diagonal
        return False, {"real": real, "want": want, "why": "the probing path refused a square operator"}
    if real["ok"] != want:
        return False, {"real": real["ok"], "want": want, "why": "values differ from numpy's diagonal / trace of the dense matrix"}
    return True, None


def int_rows(M):
    if np.iscomplexobj(M):
        return [[[int(z.real), int(z.imag)] if z.imag != 0 else int(z.real) for z in row] for row in M]
    return [[int(z) for z in row] for row in M]


def stream_b_numpy(ctx, eng, rng):
    """real code at the true sizes on the generic probing path vs numpy's np.diag / np.trace"""
    nprng = np.random.default_rng(ctx.seed * 101 + 7)
    checked = 0
    reported = 0
    reps = 3 if ctx.thorough else 1
    for n in BIG_N:
        for rep in range(reps):
            for cplx in (False, True):
                dt = "c128" if cplx else "f64"
                M = nprng.integers(-3, 4, size=(n, n)) * (nprng.random((n, n)) < 0.15)
                if cplx:
                    M = M + 1j * (nprng.integers(-3, 4, size=(n, n)) * (nprng.random((n, n)) < 0.15))
                perm = [int(x) for x in nprng.permutation(n)]
                dense = ["dense", dt, n, n, int_rows(M)]
                forms = [("no_dispatch(Dense)", ["generic", dense]), ("Product(Dense, Permutation)", ["prod", dense, ["perm", dt, perm]])]
                B = build.Builder()
                for name, e in forms:
                    cases = [{"call": "diag", "op": e, "k": k, "alg": rng.choice(ALGS), "oracle": "numpy"}
                             for k in big_k_sample(rng, n, 9 if not ctx.thorough else 19)]
                    cases += [{"call": "trace", "op": e, "k": 0, "alg": alg, "oracle": "numpy"} for alg in ALGS]
                    for c in cases:
                        checked += 1
                        eng.stats["evaluations"] += 1
                        eng.stats["stream-B-numpy"] += 1
                        good, det = numpy_judge(c, B)
                        if good:
                            eng.stats["ok"] += 1
                            eng.size_hist[n] += 1
                            if c["call"] == "diag":
                                eng.k_hist["big|k|>=100" if abs(c["k"]) >= 100 else "big|k|<100"] += 1
                            eng.distinct.add(common.canon(["B", name, n, c["call"], c["k"], cplx, rep, c["alg"]]))
                        else:
                            eng.stats["violation"] += 1
                            reported += 1
                            if reported <= 3:
                                common.violation(ctx, {"stream": "block-boundary (numpy oracle)", "form": name, "n": n, "case": c, "detail": det,
                                                       "replay_cmd": f"./check {ctx.prop} quick --replay <this file>"})
    return checked


def structured_op(rng, n, cplx):
    """an n x n operator whose products cost O(1) per entry in the Lean model, with off-diagonal content"""
    dt = "c128" if cplx else "f64"

    def z():
        if cplx and rng.random() < 0.5:
            return [rng.randint(-3, 3), rng.randint(-3, 3)]
        return rng.randint(-3, 3)

    def tri():
        return ["tridiag", dt, [z() for _ in range(n - 1)], [z() for _ in range(n)], [z() for _ in range(n - 1)]]

    def perm():
        p = list(range(n))
        s = rng.choice([1, 2, 99, 100, 101, n - 1, rng.randint(1, n - 1)]) % n
        if rng.random() < 0.6:
            p = p[s:] + p[:s]          # cyclic shift: content on the diagonals k = s, s - n
        else:
            rng.shuffle(p)
        return ["perm", dt, p]

    def dg():
        return ["diag", dt, [z() for _ in range(n)]]
    form = rng.choice(["tp", "ptp", "sum", "tt", "p"])
    if form == "tp":
        e = ["prod", tri(), perm()]
    elif form == "ptp":
        e = ["prod", perm(), tri(), dg()]
    elif form == "sum":
        e = ["sum", ["prod", tri(), perm()], dg(), perm()]
    elif form == "tt":
        e = ["prod", tri(), tri()]
    else:
        e = ["prod", perm(), dg()]
    return ["generic", e] if rng.random() < 0.6 else e


def stream_b_lean_cases(ctx, eng, rng):
    cases = []
    sizes = BIG_N if ctx.thorough else rng.sample(BIG_N[:4], 2) + rng.sample(BIG_N[4:], 2)
    for n in sizes:
        for rep in range(2 if ctx.thorough else 1):
            e = structured_op(rng, n, cplx=rng.random() < 0.4)
            for k in big_k_sample(rng, n, 4 if not ctx.thorough else 8)[:6 if not ctx.thorough else 12]:
                cases.append(eng.mk(call="diag", op=e, k=k, alg=rng.choice(ALGS), nospec=True))
            cases.append(eng.mk(call="trace", op=e, alg=rng.choice(ALGS), nospec=True))
    return cases


# ------------------------------------------------------------------------------------------ stream C
def stream_c(ctx, eng, rng, count):
    """Lean model with a scaled-down block-size constant vs the specification (no real code involved)"""
    G = SqGen(rng, max_extent=4, kinds=KINDS, arr_index=False, ann_p=0.05)
    G.probed = 1       # every operator of this stream goes through the probing loop (see SqGen)
    cases = []
    for _ in range(count):
        n = rng.randint(2, 9)
        bs = rng.choice([1, 2, 3, 4, 5, 7])
        G.max_extent = max(3, min(n, 5))
        e = G.op(n, n, rng.choice([0, 1, 2]))
        for k in rng.sample(list(range(-n, n + 1)), 3):
            cases.append(eng.mk(call="exactdiag", op=e, k=k, bs=bs))
    ans = drive(cases)
    bad = 0
    for c in cases:
        a = ans.get(c["id"], {"error": "no answer"})
        eng.stats["evaluations"] += 1
        eng.stats["stream-C"] += 1
        if "error" in a:
            eng.stats["driver-error"] += 1
            ctx.notes.append(f"driver error (stream C): {a['error']}")
            continue
        if not a.get("wf") or not a.get("square") or [x for x in a.get("clauses", []) if x not in PROVISIONAL_KNOWN]:
            eng.stats["skipped"] += 1
            continue
        if a["code"].get("ok") == a["spec"]:
            eng.stats["ok"] += 1
            eng.distinct.add(common.canon(["C", c["op"], c["k"], c["bs"]]))
        else:
            bad += 1
            eng.stats["model!=spec"] += 1
            common.violation(ctx, {"broken": "the executable model of exact_diag with a scaled-down block size disagrees with the specification "
                                             "(contradicts theorem C08_exact: the Lean gate or the driver is broken)", "case": c,
                                   "model_code": a["code"], "spec": a["spec"]}, no_input=True)
    return len(cases)


# ------------------------------------------------------------------------------------------ stream D
KIND_EXAMPLES = [
    ["dense", "f64", 2, 2, [[1, 2], [3, 4]]],
    ["tri", "f64", 2, 2, True, [[1, 0], [3, 4]]],
    ["sparse", "f64", 2, 2, [[0, 1, 2]]],
    ["scalar", "f64", 3, 2],
    ["eye", "f64", 2],
    ["prod", ["dense", "f64", 2, 2, [[1, 2], [3, 4]]], ["diag", "f64", [1, 2]]],
    ["sum", ["dense", "f64", 2, 2, [[1, 2], [3, 4]]], ["diag", "f64", [1, 2]]],
    ["kron", ["dense", "f64", 2, 2, [[1, 2], [3, 4]]], ["diag", "f64", [1, 2]]],
    ["kronsum", ["dense", "f64", 2, 2, [[1, 2], [3, 4]]], ["diag", "f64", [1, 2]]],
    ["bdiag", [["dense", "f64", 2, 2, [[1, 2], [3, 4]]], ["diag", "f64", [1, 2]]], [1, 2]],
    ["diag", "f64", [1, 2]],
    ["tridiag", "f64", [1], [2, 3], [4]],
    ["T", ["sparse", "f64", 2, 2, [[0, 1, 2]]]],
    ["H", ["sparse", "f64", 2, 2, [[0, 1, 2]]]],
    ["slice", ["dense", "f64", 3, 3, [[1, 2, 3], [4, 5, 6], [7, 8, 9]]], {"s": [0, 2, None]}, {"s": [1, 3, None]}],
    ["perm", "f64", [1, 0]],
    ["concat", 0, ["dense", "f64", 1, 2, [[1, 2]]], ["dense", "f64", 1, 2, [[3, 4]]]],
    ["house", "f64", [1, 2], 1],
    ["generic", ["dense", "f64", 2, 2, [[1, 2], [3, 4]]]],
    ["ann", "PSD", ["dense", "f64", 2, 2, [[2, 1], [1, 2]]]],
    ["ann", "SelfAdjoint", ["sum", ["dense", "f64", 2, 2, [[2, 1], [1, 2]]], ["diag", "f64", [1, 2]]]],
    ["ann", "PSD", ["kron", ["diag", "f64", [1, 2]], ["diag", "f64", [1, 2]]]],
]


def stream_d(ctx, eng):
    """rule selection: for one real instance of every modelled kind and alg in {Auto(), Exact()} the rule the LIVE
    resolver selects for diag / trace must be the rule the code model applies (first-position class of its signature)"""
    from cola.linalg.algorithm_base import Auto
    from cola.linalg.trace.diagonal_estimation import Exact
    from cola.utils import dispatch

    def cname(t):
        return f"{t.__module__}.{t.__qualname__}".split("[")[0]
    cases = [eng.mk(call="diag", op=e, k=0, alg="exact") for e in KIND_EXAMPLES]
    ans = drive(cases)
    B = build.Builder()
    for c in cases:
        a = ans.get(c["id"], {"error": "no answer"})
        if "error" in a:
            ctx.notes.append(f"driver error (stream D): {a['error']}")
            eng.stats["driver-error"] += 1
            continue
        A = B.build(c["op"])
        for fname, key in (("diag", "drule"), ("trace", "trule")):
            F = dispatch.functions[fname]
            F._resolve_pending_registrations()
            for alg in (Auto(), Exact()):
                eng.stats["evaluations"] += 1
                eng.stats["stream-D"] += 1
                try:
                    sig = F._resolver.resolve((A, 0, alg) if fname == "diag" else (A, alg))
                    live = cname(sig.types[0])
                except Exception as ex:  # noqa: BLE001
                    live = treecheck.err_class(ex)
                live_cls = cname(type(A))
                if live == a[key] and live_cls == a["cls"]:
                    eng.stats["ok"] += 1
                    eng.distinct.add(common.canon(["D", c["op"][0], c["op"][1] if c["op"][0] == "ann" else "", fname, type(alg).__name__]))
                else:
                    eng.stats["stale-model"] += 1
                    near = None
                    for k in (0, 1, -1):
                        cc = dict(c)
                        cc.update({"k": k, "alg": "auto" if isinstance(alg, Auto) else "exact", "call": fname})
                        try:
                            if eng.fails(cc):
                                near = cc
                                break
                        except Exception:  # noqa: BLE001
                            pass
                    if near is not None:
                        common.violation(ctx, {"case": near, "detail": f"the live resolver selects the {fname} rule of {live} for a {live_cls}, "
                                               f"the model applies the rule of {a[key]}; on this input the real code contradicts the specification",
                                               "replay_cmd": f"./check {ctx.prop} quick --replay <this file>"})
                    else:
                        common.violation(ctx, {"broken": f"rule selection of {fname}: the live resolver selects the rule of {live} for a {live_cls} "
                                               f"(alg {type(alg).__name__}), the code model applies the rule of {a[key]} for a {a['cls']}",
                                               "case": c}, no_input=True)


# ------------------------------------------------------------------------------------------ entry
def run(ctx):
    import shim  # noqa: F401
    gate = None
    gate_err = None
    try:
        gate = common.lean_gate(ctx, MODULE)
    except common.LeanGateError as ex:
        gate_err = str(ex)
    rng = random.Random(ctx.seed * 6151 + 8)
    eng = Engine(ctx)
    timings = {}
    if ctx.replay:
        rp = json.load(open(ctx.replay))
        c = rp.get("case") or rp.get("original_case")
        if c is None:
            print(json.dumps({"replay": "this replay names a seeded stream; run its replay_cmd", "replay_cmd": rp.get("replay_cmd")}))
        else:
            c = dict(c)
            c["id"] = 0
            if c.get("oracle") == "numpy":
                good, det = numpy_judge(c)
                eng.stats["evaluations"] += 1
                if not good:
                    common.violation(ctx, {"stream": "block-boundary (numpy oracle)", "case": c, "detail": det,
                                           "replay_cmd": f"./check {ctx.prop} quick --replay <this file>"})
                print(json.dumps({"replayed": {k: v for k, v in c.items() if k != "op"}, "status": "ok" if good else "violation",
                                  "detail": det})[:3000])
            else:
                res = eng.run([c], "replay")
                print(json.dumps({"replayed": c, "status": [r[3] for r in res], "detail": [str(r[4]) for r in res]})[:3000])
    else:
        cases = []
        if os.path.exists(CORPUS):
            for line in open(CORPUS):
                if line.strip():
                    c = json.loads(line)
                    cases.append(eng.mk(**{k: v for k, v in c.items() if k != "id"}))
        ntrees = 110 if not ctx.thorough else 1200
        cases += stream_a_cases(ctx, eng, rng, ntrees)
        timings["gate"] = round(ctx.wall(), 1)
        batch = 6000
        for i in range(0, len(cases), batch):
            eng.run(cases[i:i + batch], "A")
        timings["A"] = round(ctx.wall(), 1)
        eng.run(stream_b_lean_cases(ctx, eng, rng), "B-lean")
        timings["B-lean"] = round(ctx.wall(), 1)
        stream_b_numpy(ctx, eng, rng)
        timings["B-numpy"] = round(ctx.wall(), 1)
        stream_c(ctx, eng, rng, 60 if not ctx.thorough else 1200)
        timings["C"] = round(ctx.wall(), 1)
        stream_d(ctx, eng)
        timings["D"] = round(ctx.wall(), 1)
    if gate_err is not None and not ctx.violations:
        common.violation(ctx, {"broken": f"Lean gate of {MODULE}", "detail": gate_err[-3000:]}, no_input=True)
    cov = {
        "evaluations": eng.stats["evaluations"],
        "distinct_nontrivial": len(eng.distinct),
        "rule": "distinct = canonical JSON of (expression, call, k, alg) [stream A, B-lean], (form, n, k, dtype, alg) [stream B-numpy], "
                "(expression, k, bs) [stream C]; non-trivial = not a bare Identity/ScalarMul/Diagonal leaf and the comparison was "
                "carried out exactly (status ok / refused-ok / known)",
        "outcomes": dict(eng.stats),
        "kinds_top": dict(eng.kind_hist),
        "sizes": {str(k): v for k, v in sorted(eng.size_hist.items(), key=lambda t: (t[0] is None, t[0]))},
        "k_classes": dict(eng.k_hist),
        "algs": dict(eng.alg_hist),
        "real_complex": dict(eng.cplx_hist),
        "samples": eng.samples,
        "provisional_known": PROVISIONAL_KNOWN,
        "notes": ctx.notes[:8],
        "cumulative_wall_s_after_stage": timings,
        "compare": "exact (Gaussian-integer payloads; cases whose magnitude bound leaves the exactly representable range are 'inexact' and not compared)",
    }
    common.write_evidence(ctx, gate, cov, assumptions=[
        "the theorems are about exact ring arithmetic; floating-point results are compared exactly only where every intermediate is an exactly representable integer",
        "Hutchinson estimation (Auto with numel >= 1e11, alg=Hutch) is outside C08 and outside the model ('unmodelled:hutch')",
        "the block size 100 of exact_diag is a universally quantified parameter bs0 > 0 of the theorems; the real loop is exercised at the true sizes "
        "99..250 against numpy and against the Lean model with bs0 = 100",
        "diag of a NON-square operand through the probing loop is not modelled ('unmodelled:nonsquare-exact'); since the BlockDiag / Kronecker rules refuse non-square members it is unreachable from a square tree",
    ])
    print(json.dumps({"outcomes": cov["outcomes"], "distinct_nontrivial": cov["distinct_nontrivial"],
                      "gate": (gate or {}).get("obligations")}))
