"""C08 — exact diag / trace return the true (off-)diagonal and trace.

Streams A-D, described below (all randomness from random.Random(ctx.seed ...)):
  A  random square operator trees of extent 1..8 (all listed kinds, nested), every k in [-n, n] (plus
     k = +-(n+1)), alg in {omitted, Auto(), Exact()}, diag and trace, real / code model / spec compared EXACTLY;
  B  block-boundary stream on the REAL code at n in {99,100,101,130,199,200,201,250} (both sides of the probing
     block size 100, not divisible by it): integer payloads on the generic probing path against numpy's
     np.diag / np.trace, and structured operators (tridiagonal / permutation / diagonal products and sums wrapped
     in no_dispatch) against the Lean model run with the same block-size constant 100;
  C  the Lean model with scaled-down block-size constants (bs in {1,2,3,4,5,7}, n in 2..9) against the
     specification (what the theorem C08_exact states for every bs; an executable sanity check of the model);
  D  rule selection, derived from the LIVE dispatch table: every registered method of cola.linalg.diag / trace
     (signature, precedence, condition) is enumerated from the running dispatcher; each must have a counterpart in
     the Lean model's rule table (and vice versa); for every method, every operator kind of the case language x
     every algorithm class (Auto, Exact, Hutch, HutchPP) that matches its signature and condition is instantiated
     and the method the live resolver selects is compared with the one the model names.  An unknown method, a
     method no instance reaches, or a different selection is a VIOLATION (stale model).  The same comparison is
     made for EVERY real call of streams A, B and E;
  E  block-constant stream on the REAL code: n in {99,100,101,199,200,201,250} x k in a sample of {-n+1..n-1} that
     always contains 0, +-1, +-99, +-100, +-101, +-(n-1) (thorough: every k), on Product / no_dispatch operators of
     all four dtypes (mixed within one operator), integer-valued payloads; compared EXACTLY with np.diag(to_dense, k)
     and with an independent int64 evaluation of the expression;
  H  the hutchReach boundary, SELECTION ONLY: lazy operators of extent 316227 / 316228 (numel on both sides of 1e11; nothing
     n x n is allocated), alone and as members of Sum / Kronecker / KronSum / BlockDiag (multiplicity 0, 0 x 0 factor) /
     annotated trees; the two estimators are replaced by recording stubs (they cannot be run at that size) and the
     estimator the real rule recursion hands each generic node to is compared with Lean's Op.hutchReach and with the
     input predicate hutch_reach.  No value is compared in stream H.

Refusals (streams A, B-lean): an exception of the real call is an observation.  `refused-ok` is a THREE-WAY agreement on the
exception CLASS: real raises X, the Lean code model answers error:X, and predicted_refusal — the rules of diag_trace.py read
off the source as a decidable predicate on the input — gives X (with the reason, counted in the evidence).  The model's escape
value `unmodelled:hutch` is accepted only under the input predicate hutch_reach (numel >= 1e11 at a generic node, alg != Exact;
theorem C08_refusals_are_exceptions says it cannot occur otherwise); streams A-E never generate it.  Stream H observes the
predicate on the real rule recursion (selection only: see stream H above).  The one recorded clause
(`bdiag-zero-multiplicity`) is attributed per call by the input predicate rule_zero_mult and excuses the dtype observation only.
The trees of the Lean witness theorems (C08_rules_witness, C08_trace_witness, C08_probing_witness) are corpus lines (`witness`):
the real code must return the value stated in the theorem.

Result dtype (three-way, in every stream where the real code runs): dtype of the returned array vs the Lean code
model (Op.diagDt / Op.traceDt: which arrays are created with which dtype, NumPy promotion) vs the specification
(Op.dtypeSpec: promotion of the leaf dtypes; cross-checked against numpy.result_type and the operator's .dtype).
"""
import collections
import json
import os
import random
import warnings

import numpy as np

import build
import common
import gen
import oracle
import treecheck

warnings.simplefilter("ignore")
MODULE = "ColaVerif.Properties.C08"
DRIVER = "DriverC08.lean"
CORPUS = os.path.join(common.ROOT, "harness", "corpus", "c08.jsonl")

# Recorded findings are read from /verif/known_findings.json through common.known_clauses (C08: `bdiag-zero-multiplicity`,
# a RESULT-DTYPE clause; there is no value clause).  No finding is provisional.
# History: diag / trace of a BlockDiag / Kronecker with non-square members returned wrong values; found by this check,
# repaired in /repo (bbee7eb: the rules refuse with an AssertionError).  The former clause names of that defect are not
# clauses any more; the corpus lines 1-4 and the theorems C08_regression_block / C08_regression_factor are its regression tests.

KINDS = ["dense", "tri", "sparse", "scalar", "eye", "diag", "tridiag", "perm", "house",
         "prod", "sum", "kron", "kronsum", "bdiag", "T", "H", "slice", "concat", "generic", "ann", "gram", "symslice"]
ALGS = ["omitted", "auto", "exact"]
BIG_N = [99, 100, 101, 130, 199, 200, 201, 250]
MAX_REPORTS = 4


TENSOR = ("kron", "kronsum", "bdiag")
PROBED = ("prod", "T", "H", "slice", "concat", "generic", "gram", "symslice")   # kinds whose diag is the probing loop


class SqGen(gen.Gen):
    """gen.Gen, but
    (a) a square Kronecker / BlockDiag mostly gets square members (the clause-free region);
    (b) BELOW a node whose diagonal is computed by the probing loop (Product, Transpose, Sliced, no_dispatch, ...)
        a Kronecker / KronSum / BlockDiag node gets leaf members only and is not nested in another one: the executable
        Lean model of `A @ X` (C01, Model/Matmat.lean: `FacAct.act`, the `act` arguments of the Sum / Sliced / Concatenated
        kernels) re-evaluates a member's product once per entry of the enclosing node, i.e. its cost is exponential in the
        nesting depth; the depth of such a subtree is therefore bounded by its extent.  Nesting of the structural kinds
        inside each other and inside Sum (the rule recursion of diag / trace) is unrestricted."""
    p_square = 0.8
    probed = 0      # number of enclosing probing-loop kinds
    tensor_below_probed = 0

    def comp(self, k, r, c, depth):
        if k in PROBED:
            if self.probed == 0:
                # the subtree below goes through `A @ chunk`: bound its depth by its extent (see the class comment;
                # Sum / Sliced / Concatenated members are re-evaluated per entry as well)
                depth = min(depth, 1 if r * c >= 36 else 2 if r * c >= 16 else 3)
            self.probed += 1
            try:
                return super().comp(k, r, c, depth)
            finally:
                self.probed -= 1
        if k not in TENSOR:
            return super().comp(k, r, c, depth)
        if self.probed == 0:
            return self.tensor(k, r, c, depth)
        if self.tensor_below_probed >= 1 or r * c > 64:
            return None
        self.tensor_below_probed += 1
        try:
            return self.tensor(k, r, c, 1)      # depth 1: the members are leaves
        finally:
            self.tensor_below_probed -= 1

    def tensor(self, k, r, c, depth):
        rng = self.rng
        d = depth - 1
        if r == c and k == "kron" and rng.random() < self.p_square:
            n = rng.choice([2, 2, 3])
            rs = self.factor(r, n)
            return ["kron"] + [self.op(x, x, d) for x in rs]
        if r == c and k == "bdiag" and rng.random() < self.p_square:
            for _ in range(20):
                nb = rng.choice([1, 2, 2, 3])
                mults = [rng.choice([1, 1, 2, 3]) for _ in range(nb)]
                rs = self.weighted_partition(r, mults)
                if rs is not None:
                    return ["bdiag", [self.op(x, x, d) for x in rs], mults]
            return None
        return super().comp(k, r, c, depth)


# ------------------------------------------------------------------------------------------ real code
ALG_INDEX = {"omitted": 0, "auto": 0, "exact": 1, "hutch": 2, "hutchpp": 3}


def cname(t):
    """full name of a class; `Product[Dense, Dense]` -> `cola.ops.operators.Product`"""
    if t.__module__ == "builtins":
        return t.__qualname__
    return f"{t.__module__}.{t.__qualname__}".split("[")[0]


def hint_names(h):
    import types
    import typing
    if isinstance(h, types.UnionType) or typing.get_origin(h) is typing.Union:
        out = []
        for a in typing.get_args(h):
            out += hint_names(a)
        return sorted(out)
    if isinstance(h, type):
        return [cname(h)]
    return ["?" + repr(h)]


def sig_name(sig):
    """canonical name of a registered method: the hints of the positions joined by '|', the members of a union sorted
    and joined by ','; varargs / a condition are part of the name (the model's table has neither)"""
    parts = [",".join(hint_names(h)) for h in sig.types]
    if sig.has_varargs:
        parts.append("*" + ",".join(hint_names(sig.varargs)))
    nm = "|".join(parts)
    if sig.condition is not None:
        nm += "|cond:" + getattr(sig.condition, "__name__", "?")
    return nm


def live_function(fname):
    from cola.utils import dispatch
    F = dispatch.functions[fname]
    F._resolve_pending_registrations()
    return F


def live_select(fname, args):
    """the method the live resolver selects for these arguments (canonical name) or the error class"""
    try:
        return sig_name(live_function(fname)._resolver.resolve(args))
    except Exception as ex:  # noqa: BLE001
        return "error:" + treecheck.err_class(ex)


def real_dtname(dtype):
    try:
        return build.dtname(dtype)
    except KeyError:
        return "other:" + str(dtype)


def real_call(case, B=None, A=None):
    """observation of the real code: {'ok': exact value, 'dtype': ..., 'rule': ...} or {'err': class, 'msg': ..., 'rule': ...};
    'rule' = the method the live resolver selects for the arguments of the call"""
    out = {}
    try:
        import cola
        from cola.linalg.algorithm_base import Auto
        from cola.linalg.trace.diagonal_estimation import Exact
        if A is None:       # (callers with large operators pass the built operator: Builder.build serialises the expression)
            A = (B or build.Builder()).build(case["op"])
        alg = case.get("alg", "omitted")
        algo = Exact() if alg == "exact" else Auto()
        out["rule"] = live_select("diag", (A, int(case.get("k", 0)), algo)) if case["call"] == "diag" else live_select("trace", (A, algo))
        out["opdtype"] = real_dtname(A.dtype)
        if case["call"] == "diag":
            k = int(case["k"])
            if alg == "omitted":
                r = cola.linalg.diag(A, k)
            else:
                r = cola.linalg.diag(A, k, Auto() if alg == "auto" else Exact())
            r = np.asarray(r)
            if r.ndim != 1:
                out.update({"err": "not-1d", "msg": f"ndim {r.ndim}"})
                return out
            v = build.exact_mat(r)
            out.update({"ok": v, "dtype": real_dtname(r.dtype)} if v is not None else {"err": "non-finite", "msg": ""})
            return out
        if case["call"] == "trace":
            if alg == "omitted":
                r = cola.linalg.trace(A)
            else:
                r = cola.linalg.trace(A, Auto() if alg == "auto" else Exact())
            r = np.asarray(r)
            if r.ndim != 0:
                out.update({"err": "not-0d", "msg": f"ndim {r.ndim}"})
                return out
            v = build.exact_mat(r)
            out.update({"ok": v, "dtype": real_dtname(r.dtype)} if v is not None else {"err": "non-finite", "msg": ""})
            return out
        raise ValueError(case["call"])
    except Exception as ex:  # noqa: BLE001
        out.update({"err": treecheck.err_class(ex), "msg": str(ex)[:160]})
        return out


def fq(x):
    if isinstance(x, str):
        n, d = x.split("/")
        return int(n) / int(d)
    return x


def bound_of(case, ans):
    b = max(abs(fq(ans.get("absbound", 0))), abs(fq(ans.get("tracebound", 0))) if case["call"] == "trace" else 0)
    return b


def numpy_spec_dtype(e):
    """the property's expectation, computed by NumPy itself: result_type of the dtypes of the leaves"""
    return build.dtname(np.result_type(*[build.DT[d] for d in treecheck.leaf_dtypes(e)]))


def model_rule(case, ans):
    return (ans.get("drules") if case["call"] == "diag" else ans.get("trules"))[ALG_INDEX[case.get("alg", "omitted")]]


def judge_rule(case, ans, real):
    """rule selection of this very call: -> None (agrees) or a description of the difference"""
    if "rule" not in real or "drules" not in ans:
        return None
    want = model_rule(case, ans)
    if real["rule"] == want:
        return None
    return f"selection differs: the live resolver selects the {case['call']} method ({real['rule']}), the model applies ({want})"


def judge_dtype(case, ans, real):
    """three-way comparison of the result dtype -> (status, detail), status in ok | known | violation | stale-model"""
    rdt, cdt, sdt = real.get("dtype"), ans.get("cdt"), ans.get("sdt")
    if rdt is None or cdt is None or sdt is None:
        return "ok", ""
    npdt = numpy_spec_dtype(case["op"])
    if npdt != sdt:
        return "stale-model", f"dtype specification: Lean's promotion of the leaf dtypes is {sdt}, numpy.result_type gives {npdt}"
    if real.get("opdtype") not in (None, sdt):
        return "stale-model", f"the operator's .dtype is {real['opdtype']}, the promotion of its leaf dtypes is {sdt}"
    dtcl = [c for c in ans.get("dtclauses", [])]
    # the recorded clause is attributed by the decidable predicate on THIS expression (Op.ruleZeroMult in the driver,
    # rule_zero_mult here: two readings of the same predicate, which must agree), and it excuses nothing but the dtype
    # observation of this call, and only in the form the model predicts (real = code model != promotion of the leaves)
    py_zero = rule_zero_mult(case["op"])
    if py_zero != (ZERO_MULT in dtcl) or [c for c in dtcl if c != ZERO_MULT]:
        return "stale-model", (f"clause attribution: the driver reports the dtype clauses {dtcl}, the input predicate 'a BlockDiag on the "
                               f"path of the structural rules has a block of multiplicity 0' is {py_zero}")
    if rdt == cdt:
        if cdt == sdt:
            return "ok", ""
        if py_zero and ZERO_MULT in KNOWN_JSON:
            return "known", [ZERO_MULT]
        return "violation", f"result dtype {rdt} (= code model) differs from the promotion of the leaf dtypes {sdt} and no named clause covers the case"
    if rdt == sdt:
        return "stale-model", f"result dtype: real {rdt} = specification, the code model predicts {cdt}"
    if dtcl:
        return "stale-model", f"result dtype: real {rdt}, code model {cdt}, specification {sdt} all differ on a case violating {','.join(dtcl)}"
    return "violation", f"result dtype {rdt} differs from the promotion of the leaf dtypes {sdt} (code model: {cdt})"


KNOWN_JSON = {}
ZERO_MULT = "bdiag-zero-multiplicity"
C01_HYPOTHESES = ("sliced-repeated-index", "scalar-times-annotated")     # Op.clauses: hypotheses `dupSlice = false` / `HermOK` of the value theorems
HUTCH_NUMEL = 10 ** 11
REFUSALS = collections.Counter()     # evidence: reason of every refusal on which real, model and the input predicate agree


def rule_path_kids(e):
    """members the rules of diag / trace recurse into (Sum / BlockDiag / Kronecker / KronSum members, declaration wrappers)"""
    t = e[0]
    if t in ("sum", "kron", "kronsum"):
        return list(e[1:])
    if t == "bdiag":
        return list(e[1])
    if t == "ann":
        return [e[2]]
    return []


def rule_zero_mult(e):
    """the input predicate of the clause `bdiag-zero-multiplicity` (Lean: Op.ruleZeroMult)"""
    if e[0] == "bdiag" and any(int(m) == 0 for m in e[2]):
        return True
    return any(rule_zero_mult(x) for x in rule_path_kids(e))


def hutch_reach(e):
    """the input predicate under which Auto() leaves the exact algorithm (Lean: Op.hutchReach): the rule recursion hands an
    operator with numel >= 1e11 to the generic LinearOperator rule"""
    t = e[0]
    if t in ("dense", "tri", "eye", "diag", "scalar"):
        return False
    if t in ("sum", "kron", "kronsum", "bdiag", "ann"):
        return any(hutch_reach(x) for x in rule_path_kids(e))
    r, c_ = gen.shape_of(e)
    return r * c_ >= HUTCH_NUMEL


def predicted_refusal(e, call, k=0):
    """the exception the rules of cola/linalg/trace/diag_trace.py must raise on this INPUT, read off the source
    independently of the Lean code model: -> (error class, reason) or None (the call returns).  Evaluation order as in
    the source: the asserts of a rule come before its member calls, members are visited left to right."""
    t = e[0]
    if call == "trace":
        if t == "ann":
            return predicted_refusal(e[2], "trace")
        if t == "kron":                                   # product([trace(M, alg) for M in A.Ms])
            for x in e[1:]:
                r = predicted_refusal(x, "trace")
                if r is not None:
                    return r
            return None
        r_, c_ = gen.shape_of(e)
        if r_ != c_:                                      # assert A.shape[0] == A.shape[1]
            return "error:AssertionError", "trace: operand not square"
        return predicted_refusal(e, "diag", 0)
    if t == "ann":
        return predicted_refusal(e[2], "diag", k)
    if t in ("dense", "tri"):                             # xnp.diag(A.A, diagonal=k): empty for |k| >= n
        return None
    if t in ("eye", "diag", "scalar"):                    # xnp.zeros((n - abs(k),)) for k != 0
        n = gen.shape_of(e)[0]
        return ("error:ValueError", "Identity/Diagonal/ScalarMul: |k| > n, zeros of negative extent") if (k != 0 and abs(k) > n) else None
    if t == "sum":                                        # sum(diag(M, k, alg) for M in A.Ms); all members n x n: equal lengths
        for x in e[1:]:
            r = predicted_refusal(x, "diag", k)
            if r is not None:
                return r
        return None
    if t in ("bdiag", "kron", "kronsum"):
        name = {"bdiag": "BlockDiag", "kron": "Kronecker", "kronsum": "KronSum"}[t]
        if k != 0:                                        # assert k == 0
            return "error:AssertionError", f"{name}: k != 0"
        kids = rule_path_kids(e)
        if t != "kronsum" and any(gen.shape_of(x)[0] != gen.shape_of(x)[1] for x in kids):
            return "error:AssertionError", f"{name}: non-square member"
        for x in kids:
            r = predicted_refusal(x, "diag", 0)
            if r is not None:
                return r
        if t == "bdiag" and all(int(m) == 0 for m in e[2]):
            return "error:ValueError", "BlockDiag: no block present, concatenate of nothing"
        return None
    # every other class: the generic LinearOperator rules (probing loop); range(0, 0, 0) on an empty operator
    r_, c_ = gen.shape_of(e)
    if r_ == 0:
        return "error:ValueError", "probing loop on an empty operator"
    return None


def classify(case, ans, real, known):
    """values, then (where the values are settled) rule selection and result dtype of the same call"""
    st, det = classify_values(case, ans, real, known)
    if st in ("ok", "refused-ok", "inexact"):
        rd = judge_rule(case, ans, real)
        if rd is not None:
            return "stale-model", rd
    if st in ("ok", "inexact") and "ok" in real:
        dst, ddet = judge_dtype(case, ans, real)
        if dst in ("violation", "stale-model"):
            return dst, ddet
        if dst == "known":
            # values agree three-way; ONLY the dtype observation of this call is covered by the recorded clause
            return "known", list(ddet)
    return st, det


def classify_values(case, ans, real, known):
    """-> (status, detail); status in
    ok | refused-ok | unmodelled-ok | violation | stale-model | skipped | inexact | driver-error
    (there is no `known` status for values: C08 has no recorded value clause; a value mismatch is never excused)"""
    if "error" in ans:
        return "driver-error", ans["error"]
    if not ans.get("wf", True) or not ans.get("square", True):
        return "skipped", "not well-formed / not square"
    foreign = [c for c in ans.get("clauses", [])]
    if foreign:
        # Op.clauses names the hypotheses `dupSlice = false` / `HermOK` of the value theorems (recorded findings of C01 / C05):
        # the theorems claim nothing here.  The call is still observed: where real, model and specification agree (values or
        # exception class) it counts as compared, and its rule selection / dtype are judged; only a disagreement on the
        # VALUES is left to C01 / C05 (`skipped`, with the violated hypothesis as the reason)
        st, det = classify_values(case, {k: v for k, v in ans.items() if k != "clauses"}, real, known)
        if st in ("ok", "refused-ok", "inexact", "driver-error"):
            return st, det
        return "skipped", "hypothesis of the value theorems violated: " + ",".join(foreign) + " (real / model / specification differ: " + st + ")"
    code, spec = ans["code"], ans["spec"]
    real_is_err = "err" in real
    exact = bound_of(case, ans) < treecheck.exact_bound(case)
    want = predicted_refusal(case["op"], case["call"], int(case.get("k", 0)))
    if "err" in code:
        if code["err"].startswith("unmodelled"):
            # the model does not say what the code does.  By C08_refusals_are_exceptions / C08_trace_refusals_are_exceptions
            # this happens on a well-formed square tree only under the input predicate hutch_reach (some operator handed to
            # the generic rule has numel >= 1e11) with alg != Exact(): checked here on the input; nothing else is excused
            alg_exact = case.get("alg", "omitted") == "exact"
            if not (code["err"] == "unmodelled:hutch" and hutch_reach(case["op"]) and bool(ans.get("hutch")) and not alg_exact):
                return "stale-model", (f"the model answers {code['err']} although the input predicate for it is false "
                                       f"(numel >= 1e11 at a generic node: {hutch_reach(case['op'])}, driver: {ans.get('hutch')}, alg: {case.get('alg')})")
            if real_is_err:
                return "violation", f"Auto() on an operator with numel >= 1e11 raised {real['err']}: {real.get('msg', '')}"
            return "unmodelled-ok", code["err"]            # a stochastic estimate: outside C08 (never generated)
        # the model predicts an exception: its class is compared with the real one whatever the magnitudes are
        if real_is_err:
            if real["err"] != code["err"]:
                return "stale-model", f"both refuse, but real raises {real['err']} ({real.get('msg', '')}) and the model {code['err']}"
            if want is None or want[0] != code["err"]:
                return "stale-model", (f"real and model refuse with {code['err']}, but the rules read off the source predict "
                                       f"{want[0] if want else 'a returned value'} for this input")
            REFUSALS[want[0] + " | " + want[1]] += 1
            return "refused-ok", code["err"]
        if not exact:
            return "inexact", ""
        if real["ok"] == spec:
            return "stale-model", f"real returns the true values, the model refuses with {code['err']}"
        return "violation", f"real returns values different from the true {case['call']} (the model refuses with {code['err']})"
    # the model returns values
    if real_is_err:
        if case["call"] == "diag" and ans.get("drule", "").endswith("LinearOperator"):
            # only a structural rule may refuse; the exact / automatic algorithm on the generic path must return the diagonal
            # (model: C08_generic_total)
            return "violation", f"the probing algorithm refuses a square operator ({real['err']}: {real.get('msg', '')})"
        return "stale-model", f"real refuses ({real['err']}: {real.get('msg', '')}), the model returns values"
    if want is not None:
        return "stale-model", f"real and model return values, but the rules read off the source predict {want[0]} ({want[1]}) for this input"
    if not exact:
        return "inexact", ""
    if real["ok"] == code["ok"]:
        if code["ok"] == spec:
            return "ok", ""
        return "violation", "real = code model, both differ from the true values (C08 has no recorded value clause)"
    if real["ok"] == spec:
        return "stale-model", "real returns the true values, the model predicts others"
    return "violation", f"real returns values different from the true {case['call']} (and from the model)"


def drive(cases):
    """run the Lean driver; all observations on one operator go into ONE batch line (the represented
    matrix and the magnitude bound are computed once per operator) -> {case id: answer}"""
    groups = {}
    for c in cases:
        # nospec cases (large operators) share nothing: one line each, so that they spread over the processes
        key = (common.canon(c["op"]), False) if not c.get("nospec") else (str(c["id"]), True)
        groups.setdefault(key, []).append(c)
    lines = []
    for gi, ((_, nospec), cs) in enumerate(groups.items()):
        items = [{k: v for k, v in c.items() if k in ("call", "k", "alg", "bs")} for c in cs]
        lines.append({"id": gi, "call": "batch", "op": cs[0]["op"], "items": items, "nospec": nospec, "_ids": [c["id"] for c in cs]})
    heavy = any(l["nospec"] for l in lines)
    payload = [{k: v for k, v in l.items() if k != "_ids"} for l in lines]
    res = oracle.run_driver(payload, driver=DRIVER, nproc=min(16, max(1, len(lines))) if heavy else None)
    out = {}
    for l in lines:
        a = res.get(l["id"], {"error": "no answer from driver"})
        for pos, cid in enumerate(l["_ids"]):
            if "error" in a:
                out[cid] = {"error": a["error"]}
                continue
            one = {k: v for k, v in a.items() if k != "results"}
            one.update(a["results"][pos])
            one["id"] = cid
            out[cid] = one
    return out


# ------------------------------------------------------------------------------------------ engine
class Engine:
    def __init__(self, ctx):
        self.ctx = ctx
        self.stats = collections.Counter()
        self.kind_hist = collections.Counter()
        self.size_hist = collections.Counter()
        self.k_hist = collections.Counter()
        self.alg_hist = collections.Counter()
        self.cplx_hist = collections.Counter()
        self.distinct = set()
        self.samples = []
        self.nid = 0
        self.reported = 0
        self.known = dict(common.known_clauses(ctx.prop))
        self.known_what = {k: v["what"] for k, v in self.known.items()}
        KNOWN_JSON.clear()
        KNOWN_JSON.update(self.known)
        self.dtype_hist = collections.Counter()
        self.skip_reasons = collections.Counter()
        REFUSALS.clear()
        self.sel_mismatch = 0
        self.block_cov = {}
        self.live_rules = {}
        self.rule_hist = collections.Counter()

    def mk(self, **kw):
        kw["id"] = self.nid
        self.nid += 1
        return kw

    def evaluate(self, cases):
        ans = drive(cases)
        out = []
        B = build.Builder()
        for c in cases:
            a = ans.get(c["id"], {"error": "no answer from driver"})
            real = real_call(c, B)
            if c.get("nospec") and "error" not in a:
                # large operators: the specification side is numpy on the dense matrix of the operator
                # (to_dense = den is C01); magnitudes stay far below 2^24 (payloads <= 3, <= 3 banded factors)
                Dm = np.asarray(B.build(c["op"]).to_dense())
                a = dict(a)
                a["spec"] = build.exact_mat(np.diag(Dm, int(c["k"])) if c["call"] == "diag" else np.trace(Dm))
                a["absbound"] = float(np.abs(Dm).max()) * 9
                a["tracebound"] = float(np.abs(Dm).sum())
            st, det = classify(c, a, real, self.known_what)
            out.append((c, a, real, st, det))
        return out

    def fails(self, case):
        """does the REAL code contradict the SPEC on this case (returns values, and they differ)?"""
        c = dict(case)
        c["id"] = 0
        (c, a, real, st, det) = self.evaluate([c])[0]
        if "error" in a or not a.get("wf", True) or not a.get("square", True):
            return False
        if bound_of(c, a) >= treecheck.exact_bound(c):
            return False
        if a.get("clauses"):
            return False          # recorded defects (and hypotheses of C01) are not what a replay should show
        if "err" in real:
            return (c["call"] == "diag" and a.get("drule", "").endswith("LinearOperator") and "ok" in a.get("code", {}))
        if real["ok"] != a["spec"]:
            return True
        # result dtype: the real array's dtype differs from the promotion of the leaf dtypes (outside the named clause)
        return bool(a.get("sdt")) and real.get("dtype") != a["sdt"] and not a.get("dtclauses")

    def shrink(self, case):
        cur = case
        for _ in range(12):
            progressed = False
            for s in treecheck.shrink_candidates(cur["op"])[:40]:
                c = dict(cur)
                c["op"] = s
                try:
                    if self.fails(c):
                        cur = c
                        progressed = True
                        break
                except Exception:  # noqa: BLE001
                    continue
            if not progressed:
                break
        return cur

    def neighbourhood(self, case):
        """a stale model: look for a nearby input on which the real code contradicts the specification"""
        cands = []
        for s in [case["op"]] + treecheck.shrink_candidates(case["op"])[:25]:
            for alg in ALGS:
                for k in ([case.get("k", 0), 0, 1, -1] if case["call"] == "diag" else [0]):
                    c = dict(case)
                    c.update({"op": s, "alg": alg, "k": k})
                    cands.append(c)
        for c in cands:
            try:
                if self.fails(c):
                    return c
            except Exception:  # noqa: BLE001
                continue
        return None

    def account(self, c, a, real, st, det, stream):
        ctx = self.ctx
        self.stats[st] += 1
        self.stats["evaluations"] += 1
        self.stats["stream-" + stream] += 1
        if st == "skipped":
            self.skip_reasons[str(det)] += 1
        if c.get("witness") and st != "driver-error":
            # a corpus line carrying the tree and the value of a Lean witness theorem (C08_rules_witness, ...): the real code,
            # the executable model and the value stated in the theorem must be the same
            w = c["witness"]["value"]
            wv = [int(w), 0] if c["call"] == "trace" else [[int(x), 0] for x in w]
            if st != "ok" or real.get("ok") != wv or a.get("code", {}).get("ok") != wv:
                self.stats["witness-mismatch"] += 1
                common.violation(ctx, {"case": c, "real": real, "model_code": a.get("code"), "status": st,
                                       "broken": f"the tree of the Lean theorem {c['witness']['theorem']} does not evaluate to the value stated there"},
                                 no_input=(st != "violation"))
            else:
                self.stats["witness-confirmed"] += 1
        if st in ("ok", "refused-ok", "known"):
            self.kind_hist[c["op"][0]] += 1
            self.size_hist[a.get("rows")] += 1
            self.alg_hist[c.get("alg", "omitted")] += 1
            if c["call"] == "diag":
                n = a.get("rows", 0)
                k = c["k"]
                self.k_hist["0" if k == 0 else "+-n" if abs(k) == n else ">n" if abs(k) > n else "pos" if k > 0 else "neg"] += 1
            self.cplx_hist["complex" if any(d in ("c64", "c128") for d in treecheck.leaf_dtypes(c["op"])) else "real"] += 1
            if "dtype" in real and a.get("cdt"):
                lds = sorted(set(treecheck.leaf_dtypes(c["op"])))
                self.dtype_hist[("mixed:" if len(lds) > 1 else "uniform:") + real["dtype"]] += 1
                self.stats["dtype-compared"] += 1
            if "rule" in real and a.get("drules"):
                self.rule_hist[c["call"] + ":" + real["rule"]] += 1
                self.stats["rule-compared"] += 1
            if nontrivial(c):
                self.distinct.add(common.canon([c["op"], c["call"], c.get("k"), c.get("alg")]))
            if st == "ok" and len(self.samples) < 4 and nontrivial(c) and len(json.dumps(c)) < 700:
                self.samples.append({"case": c, "model": a.get("code"), "spec": a.get("spec")})
        if st in ("violation", "stale-model"):
            self.reported += 1
            if self.reported > MAX_REPORTS:      # a broken tree fails thousands of cases: report the first few, count the rest
                return
        if st == "known":
            for cl in det:
                common.known_finding(ctx, cl, self.known_what[cl])
        elif st == "violation":
            small = self.shrink(c) if self.fails(c) else c
            sc = dict(small)
            sc["id"] = 0
            (sc, sa, sreal, sst, sdet) = self.evaluate([sc])[0]
            common.violation(ctx, {"case": sc, "expected_spec": sa.get("spec"), "model_code": sa.get("code"), "real": sreal,
                                   "detail": sdet or det, "original_case": c,
                                   "replay_cmd": f"./check {ctx.prop} quick --replay <this file>"})
        elif st == "stale-model":
            near = self.neighbourhood(c)
            if near is not None:
                nc = dict(near)
                nc["id"] = 0
                (nc, na, nreal, nst, ndet) = self.evaluate([nc])[0]
                common.violation(ctx, {"case": nc, "expected_spec": na.get("spec"), "model_code": na.get("code"), "real": nreal,
                                       "detail": "found while searching around a model mismatch: " + str(det), "original_case": c,
                                       "replay_cmd": f"./check {ctx.prop} quick --replay <this file>"})
            else:
                common.violation(ctx, {"case": c, "model_code": a.get("code"), "spec": a.get("spec"), "real": real,
                                       "broken": "correspondence of the code model of diag/trace: " + str(det)}, no_input=True)
        elif st == "driver-error":
            ctx.notes.append(f"driver error on case {c.get('id')}: {det}")

    def run(self, cases, stream):
        res = self.evaluate(cases)
        for r in res:
            self.account(*r, stream)
        return res


def nontrivial(c):
    e = c["op"]
    return not (gen.depth_of(e) < 1 and e[0] in ("eye", "scalar", "diag"))


# ------------------------------------------------------------------------------------------ stream A
def stream_a_cases(ctx, eng, rng, ntrees):
    G = SqGen(rng, max_extent=4, kinds=KINDS, arr_index=False, ann_p=0.1)
    cases = []
    for t in range(ntrees):
        n = rng.choice([1, 2, 2, 3, 3, 4, 4, 5, 6, 6, 7, 8])
        G.max_extent = max(3, min(n, 5))
        depth = rng.choice([0, 1, 1, 2, 2, 3] + ([4] if ctx.thorough else []))
        if rng.random() < 0.5:
            top = rng.choice(["sum", "kron", "kronsum", "bdiag", "prod", "generic", "sum", "kron", "bdiag"])
            e = G.comp(top, n, n, max(depth, 1)) or G.op(n, n, depth)
        else:
            e = G.op(n, n, depth)
        ks = list(range(-n, n + 1))
        if rng.random() < 0.5:
            ks += [n + 1, -n - 1]
        for k in ks:
            algs = ALGS if k == 0 else [rng.choice(ALGS)]
            for alg in algs:
                cases.append(eng.mk(call="diag", op=e, k=k, alg=alg))
        for alg in ALGS:
            cases.append(eng.mk(call="trace", op=e, alg=alg))
        # square proper sub-expressions: nesting below the top node
        seen = {common.canon(e)}
        for s in gen.subexprs(e):
            key = common.canon(s)
            if key in seen:
                continue
            seen.add(key)
            sh = shape_of(s)
            if sh is None or sh[0] != sh[1]:
                continue
            m = sh[0]
            if s[0] in ("eye", "scalar", "diag"):
                # bare Identity / ScalarMul / Diagonal members: one call each (their rules' values, dtype, selection)
                cases.append(eng.mk(call="diag", op=s, k=rng.choice([0, 0, 1, -1, m]), alg=rng.choice(ALGS)))
                continue
            for k in rng.sample(list(range(-m, m + 1)), min(3, 2 * m + 1)):
                cases.append(eng.mk(call="diag", op=s, k=k, alg=rng.choice(ALGS)))
            cases.append(eng.mk(call="trace", op=s, alg=rng.choice(ALGS)))
    return cases


def shape_of(e):
    """shape of a case-language expression (None if it cannot be told cheaply)"""
    t = e[0]
    if t in ("dense", "tri", "sparse"):
        return e[2], e[3]
    if t == "scalar":
        return e[3], e[3]
    if t == "eye":
        return e[2], e[2]
    if t in ("diag", "perm", "house"):
        return len(e[2]), len(e[2])
    if t == "tridiag":
        return len(e[3]), len(e[3])
    if t in ("generic",):
        return shape_of(e[1])
    if t == "ann":
        return shape_of(e[2])
    if t in ("T", "H"):
        s = shape_of(e[1])
        return None if s is None else (s[1], s[0])
    if t == "sum":
        return shape_of(e[1])
    if t == "prod":
        a, b = shape_of(e[1]), shape_of(e[-1])
        return None if a is None or b is None else (a[0], b[1])
    if t in ("kron", "kronsum"):
        r = c = 1
        for x in e[1:]:
            s = shape_of(x)
            if s is None:
                return None
            r, c = r * s[0], c * s[1]
        return r, c
    if t == "bdiag":
        r = c = 0
        for x, m in zip(e[1], e[2]):
            s = shape_of(x)
            if s is None:
                return None
            r, c = r + m * s[0], c + m * s[1]
        return r, c
    return None


# ------------------------------------------------------------------------------------------ stream B
def big_k_sample(rng, n, count):
    pool = [0, 1, -1, n - 1, -(n - 1), n, -n, 99, -99, 100, -100, 101, -101, n - 100, 100 - n, n - 99, 99 - n, n - 101, 101 - n]
    pool = [k for k in dict.fromkeys(pool) if abs(k) <= n]
    pick = rng.sample(pool, min(len(pool), count))
    pick += [rng.randint(-n, n) for _ in range(max(2, count // 3))]
    return list(dict.fromkeys(pick))


def lean_meta(ops):
    """dtype and rule-selection answers of the Lean model for (large) operators; no values are computed, so dense
    operators of extent 250 cost only their parsing.  -> {canonical op: header + cdt per (call, k == 0)}"""
    lines = []
    for i, e in enumerate(ops):
        lines.append({"id": i, "call": "batch", "op": e, "nospec": True,
                      "items": [{"call": "dtype", "of": "diag", "k": 0}, {"call": "dtype", "of": "diag", "k": 1},
                                {"call": "dtype", "of": "trace"}]})
    res = oracle.run_driver(lines, driver=DRIVER, nproc=min(16, max(1, len(lines))))
    out = {}
    for i, e in enumerate(ops):
        a = res.get(i, {"error": "no answer from driver"})
        if "error" in a:
            out[common.canon(e)] = {"error": a["error"]}
            continue
        m = {k: v for k, v in a.items() if k != "results"}
        m["cdt_diag0"], m["cdt_diagk"], m["cdt_trace"] = (r["cdt"] for r in a["results"])
        out[common.canon(e)] = m
    return out


def meta_answer(meta, case):
    """the part of a driver answer the rule / dtype judgement needs, for one call on an operator of `lean_meta`
    (`meta`: the result of lean_meta, or the entry of this operator)"""
    m = None
    if meta:
        m = meta if "sdt" in meta or "error" in meta else meta.get(common.canon(case["op"]))
    if not m or "error" in m:
        return None
    a = dict(m)
    a["cdt"] = m["cdt_trace"] if case["call"] == "trace" else m["cdt_diag0"] if int(case["k"]) == 0 else m["cdt_diagk"]
    return a


def numpy_judge(case, B=None, meta=None, want=None, A=None):
    """real code vs numpy on the dense matrix of the operator (values: no Lean model involved), then rule selection and
    result dtype of the same call against the Lean model (`meta`): -> (good, detail, has_failing_input)"""
    B = B or build.Builder()
    if A is None:
        A = B.build(case["op"])
    real = real_call(case, B, A)
    if want is None:
        ref = np.asarray(A.to_dense())
        want = build.exact_mat(np.diag(ref, int(case["k"])) if case["call"] == "diag" else np.trace(ref))
    if "err" in real:
        # a refusal would be allowed by the property, but the probing path has no reason to refuse a square
        # operator: the model (and theorem C08_exact) say it returns the diagonal
        return False, {"real": real, "want": want, "why": "the probing path refused a square operator"}, True
    if real["ok"] != want:
        return False, {"real": real["ok"], "want": want, "why": "values differ from numpy's diagonal / trace of the dense matrix"}, True
    a = meta_answer(meta, case)
    if a is not None:
        rd = judge_rule(case, a, real)
        if rd is not None:
            return False, {"why": rd, "real_rule": real.get("rule")}, False
        dst, ddet = judge_dtype(case, a, real)
        if dst in ("violation", "stale-model"):
            return False, {"why": ddet, "real_dtype": real.get("dtype"), "code_dtype": a.get("cdt"), "spec_dtype": a.get("sdt")}, real.get("dtype") != a.get("sdt")
    return True, {"dtype": real.get("dtype"), "rule": real.get("rule"), "lean": a is not None}, False


def int_rows(M):
    if np.iscomplexobj(M):
        return [[[int(z.real), int(z.imag)] if z.imag != 0 else int(z.real) for z in row] for row in M]
    return [[int(z) for z in row] for row in M]


def run_numpy_stream(ctx, eng, groups, stream, label):
    """groups: [(form name, n, expression, cases, want-by-case-index or None)].  One driver run for the dtype / rule
    answers of all operators, then every real call is judged."""
    meta = lean_meta([g[2] for g in groups])
    for m in meta.values():
        if "error" in m:
            eng.stats["driver-error"] += 1
            ctx.notes.append(f"driver error ({stream}, dtype/rule answers): {m['error']}")
    reported = 0
    for gi, (name, n, e, cases, wants) in enumerate(groups):
        B = build.Builder()
        A = B.build(e)
        m = meta.get(common.canon(e))
        if wants is None:
            ref = np.asarray(A.to_dense())
            wants = [build.exact_mat(np.diag(ref, int(c["k"])) if c["call"] == "diag" else np.trace(ref)) for c in cases]
        for ci, c in enumerate(cases):
            eng.stats["evaluations"] += 1
            eng.stats["stream-" + stream] += 1
            good, det, has_input = numpy_judge(c, B, m, wants[ci], A)
            if good:
                eng.stats["ok"] += 1
                eng.size_hist[n] += 1
                if c["call"] == "diag":
                    eng.k_hist["big|k|>=100" if abs(c["k"]) >= 100 else "big|k|<100"] += 1
                if det.get("lean"):
                    lds = sorted(set(treecheck.leaf_dtypes(e)))
                    eng.dtype_hist[("mixed:" if len(lds) > 1 else "uniform:") + str(det["dtype"])] += 1
                    eng.stats["dtype-compared"] += 1
                    eng.rule_hist[c["call"] + ":" + str(det["rule"])] += 1
                    eng.stats["rule-compared"] += 1
                eng.distinct.add(common.canon([stream, name, n, gi, c["call"], c["k"], c.get("tag"), c["alg"]]))
            else:
                eng.stats["violation"] += 1
                reported += 1
                if reported <= 3:
                    common.violation(ctx, {"stream": label, "form": name, "n": n, "case": c, "detail": det,
                                           "replay_cmd": f"./check {ctx.prop} quick --replay <this file>"}, no_input=not has_input)


def stream_b_numpy(ctx, eng, rng):
    """real code at the true sizes on the generic probing path vs numpy's np.diag / np.trace"""
    nprng = np.random.default_rng(ctx.seed * 101 + 7)
    reps = 3 if ctx.thorough else 1
    groups = []
    for n in BIG_N:
        for rep in range(reps):
            for cplx in (False, True):
                dt = "c128" if cplx else "f64"
                M = nprng.integers(-3, 4, size=(n, n)) * (nprng.random((n, n)) < 0.15)
                if cplx:
                    M = M + 1j * (nprng.integers(-3, 4, size=(n, n)) * (nprng.random((n, n)) < 0.15))
                perm = [int(x) for x in nprng.permutation(n)]
                dense = ["dense", dt, n, n, int_rows(M)]
                forms = [("no_dispatch(Dense)", ["generic", dense]), ("Product(Dense, Permutation)", ["prod", dense, ["perm", dt, perm]])]
                for name, e in forms:
                    cases = [{"call": "diag", "op": e, "k": k, "alg": rng.choice(ALGS), "oracle": "numpy", "tag": [cplx, rep]}
                             for k in big_k_sample(rng, n, 9 if not ctx.thorough else 19)]
                    cases += [{"call": "trace", "op": e, "k": 0, "alg": alg, "oracle": "numpy", "tag": [cplx, rep]} for alg in ALGS]
                    groups.append((name, n, e, cases, None))
    run_numpy_stream(ctx, eng, groups, "B-numpy", "block-boundary (numpy oracle)")
    return sum(len(g[3]) for g in groups)


# ------------------------------------------------------------------------------------------ stream E
BLOCK_N = [99, 100, 101, 199, 200, 201, 250]


def int_eval(e):
    """independent exact evaluation of an expression of the block stream with int64 arithmetic:
    -> (re, im, ab) with ab an entrywise bound of every intermediate magnitude"""
    t = e[0]

    def cz(v):
        return (int(v[0]), int(v[1])) if isinstance(v, list) else (int(v), 0)
    if t == "dense":
        re = np.array([[cz(v)[0] for v in row] for row in e[4]], dtype=np.int64).reshape(e[2], e[3])
        im = np.array([[cz(v)[1] for v in row] for row in e[4]], dtype=np.int64).reshape(e[2], e[3])
        return re, im, np.abs(re) + np.abs(im)
    if t == "diag":
        re = np.diag(np.array([cz(v)[0] for v in e[2]], dtype=np.int64))
        im = np.diag(np.array([cz(v)[1] for v in e[2]], dtype=np.int64))
        return re, im, np.abs(re) + np.abs(im)
    if t == "tridiag":
        n = len(e[3])
        re, im = np.zeros((n, n), dtype=np.int64), np.zeros((n, n), dtype=np.int64)
        for i, v in enumerate(e[3]):
            re[i, i], im[i, i] = cz(v)
        for i, v in enumerate(e[2]):       # alpha: lower band
            re[i + 1, i], im[i + 1, i] = cz(v)
        for i, v in enumerate(e[4]):       # gamma: upper band
            re[i, i + 1], im[i, i + 1] = cz(v)
        return re, im, np.abs(re) + np.abs(im)
    if t == "perm":
        n = len(e[2])
        re = np.zeros((n, n), dtype=np.int64)
        re[np.arange(n), np.array(e[2])] = 1          # (P @ X)[i] = X[perm[i]]
        return re, np.zeros((n, n), dtype=np.int64), re.copy()
    if t == "generic":
        return int_eval(e[1])
    if t == "prod":
        re, im, ab = int_eval(e[1])
        for x in e[2:]:
            r2, i2, a2 = int_eval(x)
            re, im, ab = re @ r2 - im @ i2, re @ i2 + im @ r2, ab @ a2
        return re, im, ab
    if t == "sum":
        re, im, ab = int_eval(e[1])
        for x in e[2:]:
            r2, i2, a2 = int_eval(x)
            re, im, ab = re + r2, im + i2, ab + a2
        return re, im, ab
    raise ValueError(f"int_eval: kind {t} is not part of the block stream")


def block_k_sample(rng, n, extra):
    must = [0, 1, -1, 99, -99, 100, -100, 101, -101, n - 1, -(n - 1)]
    must = [k for k in dict.fromkeys(must) if abs(k) <= n - 1]
    pool = [k for k in range(-n + 1, n) if k not in must]
    return must + rng.sample(pool, min(extra, len(pool)))


def block_forms(rng, nprng, n):
    """Product / no_dispatch operators of extent n, every leaf with its own dtype, integer-valued payloads"""
    def payload(dt, shape, density):
        M = nprng.integers(-3, 4, size=shape) * (nprng.random(shape) < density)
        if gen.is_cplx(dt):
            M = M + 1j * (nprng.integers(-3, 4, size=shape) * (nprng.random(shape) < density))
        return M

    def dense(density=0.25):
        dt = rng.choice(gen.DTYPES)
        return ["dense", dt, n, n, int_rows(payload(dt, (n, n), density))]

    def vec(dt, m, density=0.9):
        return int_rows(payload(dt, (1, m), density))[0]

    def dg():
        dt = rng.choice(gen.DTYPES)
        return ["diag", dt, vec(dt, n)]

    def perm():
        p = list(range(n))
        s = rng.choice([1, 2, 99, 100, 101, n - 1, rng.randint(1, n - 1)]) % n
        if rng.random() < 0.5:
            p = p[s:] + p[:s]
        else:
            rng.shuffle(p)
        return ["perm", rng.choice(gen.DTYPES), p]

    def tri():
        dt = rng.choice(gen.DTYPES)
        return ["tridiag", dt, vec(dt, n - 1), vec(dt, n), vec(dt, n - 1)]
    return [
        ("no_dispatch(Dense)", lambda: ["generic", dense(0.4)]),
        ("Product(Dense, Dense)", lambda: ["prod", dense(), dense()]),
        ("Product(Dense, Permutation)", lambda: ["prod", dense(0.5), perm()]),
        ("no_dispatch(Product(Diagonal, Dense))", lambda: ["generic", ["prod", dg(), dense(0.5)]]),
        ("Product(Permutation, Dense, Diagonal)", lambda: ["prod", perm(), dense(0.5), dg()]),
        ("Product(Tridiagonal, Dense)", lambda: ["prod", tri(), dense()]),
        ("no_dispatch(Sum(Dense, Product(Permutation, Dense)))", lambda: ["generic", ["sum", dense(), ["prod", perm(), dense()]]]),
    ]


def stream_e(ctx, eng, rng):
    """behaviour at the real block constant 100: sizes around 100, 200 and 250, offsets around 0, +-99..101, +-(n-1)"""
    nprng = np.random.default_rng(ctx.seed * 977 + 13)
    groups = []
    skipped = 0
    for n in BLOCK_N:
        forms = block_forms(rng, nprng, n)
        chosen = forms if ctx.thorough else rng.sample(forms, 3)
        for rep in range(2 if ctx.thorough else 1):
            for name, mk in chosen:
                e = mk()
                re, im, ab = int_eval(e)
                limit = treecheck.F32_BOUND if any(d in ("f32", "c64") for d in treecheck.leaf_dtypes(e)) else treecheck.F64_BOUND
                if int(ab.max()) * 4 >= limit:
                    skipped += 1          # (does not happen with these payloads; kept so that exactness is never assumed)
                    continue
                # the dense matrix of the operator must be the independently computed integer matrix (to_dense = den is C01)
                Dm = np.asarray(build.Builder().build(e).to_dense())
                if not (np.array_equal(np.real(Dm), re) and np.array_equal(np.imag(Dm), im)):
                    eng.stats["to_dense!=int-oracle"] += 1
                    ctx.notes.append(f"stream E: to_dense() of {name} (n={n}) differs from the int64 evaluation of the expression (C01's business); np.diag(to_dense) is used")
                    re, im = np.real(Dm).astype(np.int64), np.imag(Dm).astype(np.int64)
                Z = re + 1j * im
                ks = list(range(-n + 1, n)) if ctx.thorough else block_k_sample(rng, n, 10)
                cases, wants = [], []
                for i, k in enumerate(ks):
                    cases.append({"call": "diag", "op": e, "k": k, "alg": ALGS[i % 3], "oracle": "numpy", "tag": [rep]})
                    wants.append(build.exact_mat(np.diag(Z, k)))
                for alg in ALGS:
                    cases.append({"call": "trace", "op": e, "k": 0, "alg": alg, "oracle": "numpy", "tag": [rep]})
                    wants.append(build.exact_mat(np.trace(Z)))
                groups.append((name, n, e, cases, wants))
    run_numpy_stream(ctx, eng, groups, "E", "block constant 100 (numpy / int64 oracle)")
    eng.block_cov = {"sizes": BLOCK_N, "operators": len(groups), "skipped_inexact": skipped,
                     "forms": dict(collections.Counter(g[0] for g in groups)),
                     "offsets_always": "0, +-1, +-99, +-100, +-101, +-(n-1) (when |k| <= n-1)" + ("; thorough: every k in -n+1..n-1" if ctx.thorough else " + 10 random"),
                     "leaf_dtypes": dict(collections.Counter(d for g in groups for d in treecheck.leaf_dtypes(g[2])))}
    return sum(len(g[3]) for g in groups)


def structured_op(rng, n, cplx):
    """an n x n operator whose products cost O(1) per entry in the Lean model, with off-diagonal content"""
    dt = "c128" if cplx else "f64"

    def z():
        if cplx and rng.random() < 0.5:
            return [rng.randint(-3, 3), rng.randint(-3, 3)]
        return rng.randint(-3, 3)

    def tri():
        return ["tridiag", dt, [z() for _ in range(n - 1)], [z() for _ in range(n)], [z() for _ in range(n - 1)]]

    def perm():
        p = list(range(n))
        s = rng.choice([1, 2, 99, 100, 101, n - 1, rng.randint(1, n - 1)]) % n
        if rng.random() < 0.6:
            p = p[s:] + p[:s]          # cyclic shift: content on the diagonals k = s, s - n
        else:
            rng.shuffle(p)
        return ["perm", dt, p]

    def dg():
        return ["diag", dt, [z() for _ in range(n)]]
    form = rng.choice(["tp", "ptp", "sum", "tt", "p"])
    if form == "tp":
        e = ["prod", tri(), perm()]
    elif form == "ptp":
        e = ["prod", perm(), tri(), dg()]
    elif form == "sum":
        e = ["sum", ["prod", tri(), perm()], dg(), perm()]
    elif form == "tt":
        e = ["prod", tri(), tri()]
    else:
        e = ["prod", perm(), dg()]
    return ["generic", e] if rng.random() < 0.6 else e


def stream_b_lean_cases(ctx, eng, rng):
    cases = []
    sizes = BIG_N if ctx.thorough else rng.sample(BIG_N[:4], 2) + rng.sample(BIG_N[4:], 2)
    for n in sizes:
        for rep in range(2 if ctx.thorough else 1):
            e = structured_op(rng, n, cplx=rng.random() < 0.4)
            for k in big_k_sample(rng, n, 4 if not ctx.thorough else 8)[:6 if not ctx.thorough else 12]:
                cases.append(eng.mk(call="diag", op=e, k=k, alg=rng.choice(ALGS), nospec=True))
            cases.append(eng.mk(call="trace", op=e, alg=rng.choice(ALGS), nospec=True))
    return cases


# ------------------------------------------------------------------------------------------ stream C
def stream_c(ctx, eng, rng, count):
    """Lean model with a scaled-down block-size constant vs the specification (no real code involved)"""
    G = SqGen(rng, max_extent=4, kinds=KINDS, arr_index=False, ann_p=0.05)
    G.probed = 1       # every operator of this stream goes through the probing loop (see SqGen)
    cases = []
    for _ in range(count):
        n = rng.randint(2, 9)
        bs = rng.choice([1, 2, 3, 4, 5, 7])
        G.max_extent = max(3, min(n, 5))
        e = G.op(n, n, rng.choice([0, 1, 2]))
        for k in rng.sample(list(range(-n, n + 1)), 3):
            cases.append(eng.mk(call="exactdiag", op=e, k=k, bs=bs))
    ans = drive(cases)
    bad = 0
    for c in cases:
        a = ans.get(c["id"], {"error": "no answer"})
        eng.stats["evaluations"] += 1
        eng.stats["stream-C"] += 1
        if "error" in a:
            eng.stats["driver-error"] += 1
            ctx.notes.append(f"driver error (stream C): {a['error']}")
            continue
        if not a.get("wf") or not a.get("square") or a.get("clauses"):
            eng.stats["skipped"] += 1          # (model-only stream: a generated tree outside the hypotheses of C08_exact)
            continue
        if a["code"].get("ok") == a["spec"]:
            eng.stats["ok"] += 1
            eng.distinct.add(common.canon(["C", c["op"], c["k"], c["bs"]]))
        else:
            bad += 1
            eng.stats["model!=spec"] += 1
            common.violation(ctx, {"broken": "the executable model of exact_diag with a scaled-down block size disagrees with the specification "
                                             "(contradicts theorem C08_exact: the Lean gate or the driver is broken)", "case": c,
                                   "model_code": a["code"], "spec": a["spec"]}, no_input=True)
    return len(cases)


# ------------------------------------------------------------------------------------------ stream D
KIND_EXAMPLES = [
    ["dense", "f64", 2, 2, [[1, 2], [3, 4]]],
    ["tri", "f64", 2, 2, True, [[1, 0], [3, 4]]],
    ["sparse", "f64", 2, 2, [[0, 1, 2]]],
    ["scalar", "f64", 3, 2],
    ["eye", "f64", 2],
    ["prod", ["dense", "f64", 2, 2, [[1, 2], [3, 4]]], ["diag", "f64", [1, 2]]],
    ["sum", ["dense", "f64", 2, 2, [[1, 2], [3, 4]]], ["diag", "f64", [1, 2]]],
    ["kron", ["dense", "f64", 2, 2, [[1, 2], [3, 4]]], ["diag", "f64", [1, 2]]],
    ["kronsum", ["dense", "f64", 2, 2, [[1, 2], [3, 4]]], ["diag", "f64", [1, 2]]],
    ["bdiag", [["dense", "f64", 2, 2, [[1, 2], [3, 4]]], ["diag", "f64", [1, 2]]], [1, 2]],
    ["diag", "f64", [1, 2]],
    ["tridiag", "f64", [1], [2, 3], [4]],
    ["T", ["sparse", "f64", 2, 2, [[0, 1, 2]]]],
    ["H", ["sparse", "f64", 2, 2, [[0, 1, 2]]]],
    ["slice", ["dense", "f64", 3, 3, [[1, 2, 3], [4, 5, 6], [7, 8, 9]]], {"s": [0, 2, None]}, {"s": [1, 3, None]}],
    ["perm", "f64", [1, 0]],
    ["concat", 0, ["dense", "f64", 1, 2, [[1, 2]]], ["dense", "f64", 1, 2, [[3, 4]]]],
    ["house", "f64", [1, 2], 1],
    ["generic", ["dense", "f64", 2, 2, [[1, 2], [3, 4]]]],
    ["ann", "PSD", ["dense", "f64", 2, 2, [[2, 1], [1, 2]]]],
    ["ann", "SelfAdjoint", ["sum", ["dense", "f64", 2, 2, [[2, 1], [1, 2]]], ["diag", "f64", [1, 2]]]],
    ["ann", "PSD", ["kron", ["diag", "f64", [1, 2]], ["diag", "f64", [1, 2]]]],
]


# one more instance per kind where the class is @parametric (Product[Dense, Dense] and Product[Dense, Diagonal] are
# different runtime classes) or the members have mixed dtypes
KIND_EXAMPLES += [
    ["prod", ["diag", "f32", [1, 2]], ["perm", "c64", [1, 0]], ["dense", "f64", 2, 2, [[1, 2], [3, 4]]]],
    ["sum", ["eye", "f32", 2], ["scalar", "c64", [1, 1], 2], ["tridiag", "f64", [1], [2, 3], [4]]],
    ["kron", ["eye", "f32", 2], ["prod", ["dense", "f64", 2, 2, [[1, 2], [3, 4]]], ["diag", "c64", [1, 2]]]],
    ["kronsum", ["tri", "f32", 2, 2, False, [[1, 2], [0, 4]]], ["house", "f64", [1, 2], 1]],
    ["bdiag", [["scalar", "f32", 2, 1], ["generic", ["dense", "c128", 2, 2, [[1, 2], [3, 4]]]]], [2, 1]],
    ["T", ["prod", ["dense", "f64", 2, 3, [[1, 2, 3], [4, 5, 6]]], ["dense", "f32", 3, 2, [[1, 2], [3, 4], [5, 6]]]]],
    ["H", ["tridiag", "c64", [[0, 1]], [2, 3], [4]]],
    ["generic", ["kron", ["diag", "f64", [1, 2]], ["diag", "f64", [1, 2]]]],
    ["ann", "Unitary", ["perm", "f64", [1, 0]]],
    ["ann", "SelfAdjoint", ["tri", "f64", 2, 2, True, [[1, 0], [0, 4]]]],
    ["ann", "PSD", ["bdiag", [["diag", "f64", [1, 2]], ["eye", "f32", 1]], [1, 2]]],
    ["ann", "PSD", ["eye", "f64", 3]],
    ["ann", "PSD", ["scalar", "f64", 2, 3]],
    ["ann", "PSD", ["kronsum", ["diag", "f64", [1, 2]], ["diag", "f64", [1, 2]]]],
    ["ann", "SelfAdjoint", ["diag", "f64", [1, 2]]],
]
CASE_LANGUAGE_KINDS = ["dense", "tri", "sparse", "scalar", "eye", "prod", "sum", "kron", "kronsum", "bdiag", "diag", "tridiag",
                       "T", "H", "slice", "perm", "concat", "house", "generic", "ann"]
ALG_CLASSES = ["auto", "exact", "hutch", "hutchpp"]


def stream_d(ctx, eng):
    """rule selection, derived from the LIVE dispatch table (see the module docstring)"""
    from cola.linalg.algorithm_base import Auto
    from cola.linalg.trace.diagonal_estimation import Exact, Hutch, HutchPP
    assert sorted({e[0] for e in KIND_EXAMPLES}) == sorted(CASE_LANGUAGE_KINDS), "an operator kind of the case language has no instance"
    alg_obj = {"auto": Auto(), "exact": Exact(), "hutch": Hutch(), "hutchpp": HutchPP()}
    # ---- the model's tables and its selection for every instance
    head = oracle.run_driver([{"id": "rules", "call": "rules"}], driver=DRIVER, nproc=1).get("rules", {"error": "no answer"})
    cases = [eng.mk(call="diag", op=e, k=0, alg="exact") for e in KIND_EXAMPLES]
    ans = drive(cases)
    B = build.Builder()
    report = {}
    if "error" in head:
        eng.stats["driver-error"] += 1
        ctx.notes.append(f"driver error (stream D, rule tables): {head['error']}")
        return report
    model_tables = {"diag": head["diag"], "trace": head["trace"]}
    insts = []
    for c in cases:
        a = ans.get(c["id"], {"error": "no answer"})
        if "error" in a:
            ctx.notes.append(f"driver error (stream D): {a['error']}")
            eng.stats["driver-error"] += 1
            continue
        A = B.build(c["op"])
        if cname(type(A)) != a["cls"]:
            eng.stats["stale-model"] += 1
            common.violation(ctx, {"broken": f"class of the operator object: real {cname(type(A))}, model {a['cls']}", "case": c}, no_input=True)
            continue
        insts.append((c, a, A))

    def search_input(fname, members):
        """a concrete input among the instances on which the real code contradicts the specification"""
        for (c, a, A, algk) in members:
            if algk not in ("auto", "exact"):
                continue
            for k in ((0, 1, -1) if fname == "diag" else (0, )):
                cc = dict(c)
                cc.update({"k": k, "alg": algk, "call": fname})
                try:
                    if eng.fails(cc):
                        return cc
                except Exception:  # noqa: BLE001
                    pass
        return None

    for fname in ("diag", "trace"):
        F = live_function(fname)
        sigs = list(F._resolver.signatures)
        rows = []
        live_names = []
        for s_ in sigs:
            nm = sig_name(s_)
            live_names.append(nm)
            rows.append({"method": nm, "precedence": s_.precedence, "condition": None if s_.condition is None else getattr(s_.condition, "__name__", "?"),
                         "impl": f"{s_.implementation.__module__}:{getattr(getattr(s_.implementation, '__code__', None), 'co_firstlineno', '?')}",
                         "in_model_table": nm in model_tables[fname], "instances_matching": 0, "instances_selected": 0, "kinds_selected": []})
        by_name = {r["method"]: r for r in rows}
        matching = {r["method"]: [] for r in rows}
        selected = {r["method"]: [] for r in rows}
        for (c, a, A) in insts:
            for ai, algk in enumerate(ALG_CLASSES):
                args = (A, 0, alg_obj[algk]) if fname == "diag" else (A, alg_obj[algk])
                eng.stats["evaluations"] += 1
                eng.stats["stream-D"] += 1
                for s_, nm in zip(sigs, live_names):
                    try:
                        m = bool(s_.match(args)) and (s_.condition is None or bool(s_.condition(*args)))
                    except Exception:  # noqa: BLE001
                        m = False
                    if m:
                        by_name[nm]["instances_matching"] += 1
                        matching[nm].append((c, a, A, algk))
                live = live_select(fname, args)
                want = (a["drules"] if fname == "diag" else a["trules"])[ai]
                if live in by_name:
                    by_name[live]["instances_selected"] += 1
                    selected[live].append((c, a, A, algk))
                    kd = c["op"][0] + ("/" + c["op"][2][0] if c["op"][0] == "ann" else "")
                    if kd not in by_name[live]["kinds_selected"]:
                        by_name[live]["kinds_selected"].append(kd)
                if live == want:
                    eng.stats["ok"] += 1
                    eng.distinct.add(common.canon(["D", c["op"], fname, algk]))
                else:
                    eng.stats["stale-model"] += 1
                    eng.sel_mismatch += 1
                    if eng.sel_mismatch > 3:
                        continue
                    near = search_input(fname, [(c, a, A, algk)])
                    detail = (f"selection differs: for a {a['cls']} and an algorithm object of class {type(alg_obj[algk]).__name__} the live resolver "
                              f"selects the {fname} method ({live}), the model applies ({want})")
                    if near is not None:
                        common.violation(ctx, {"case": near, "detail": detail + "; on this input the real code contradicts the specification",
                                               "replay_cmd": f"./check {ctx.prop} quick --replay <this file>"})
                    else:
                        common.violation(ctx, {"broken": "rule selection of " + fname + ": " + detail, "case": c}, no_input=True)
        # ---- the two tables must be the same set of methods; every live method must be reached by an instance
        for r in rows:
            nm = r["method"]
            if not r["in_model_table"]:
                eng.stats["stale-model"] += 1
                near = search_input(fname, selected[nm] + matching[nm])
                detail = (f"unknown rule: the live dispatch table of {fname} has the method ({nm}) [precedence {r['precedence']}, condition "
                          f"{r['condition']}, {r['impl']}], the Lean model (Op.{fname}RuleTable) has no counterpart; "
                          f"{r['instances_matching']} instances match it, {r['instances_selected']} select it")
                if near is not None:
                    common.violation(ctx, {"case": near, "detail": detail + "; on this input the real code contradicts the specification",
                                           "replay_cmd": f"./check {ctx.prop} quick --replay <this file>"})
                else:
                    common.violation(ctx, {"broken": "stale model: " + detail}, no_input=True)
            elif r["instances_matching"] == 0:
                eng.stats["stale-model"] += 1
                common.violation(ctx, {"broken": f"the method ({nm}) of {fname} is matched by no operator kind x algorithm class of the case language: "
                                                 "it is not exercised by this check"}, no_input=True)
        for nm in model_tables[fname]:
            if nm not in by_name:
                eng.stats["stale-model"] += 1
                common.violation(ctx, {"broken": f"stale model: the Lean model's table of {fname} has the method ({nm}), the live dispatch table does not "
                                                 f"(live: {live_names})"}, no_input=True)
        report[fname] = rows
    return report


# ------------------------------------------------------------------------------------------ stream H: the hutchReach boundary
HUTCH_N = 316228          # 316228**2 = 100000147984 >= 1e11 > 316227**2 = 99999515529


def hutch_ops():
    """lazy operators of huge extent (nothing of size n x n is ever allocated: Identity / ScalarMul behind cola.no_dispatch,
    Sliced / Transpose / Product of them, and the structured kinds whose rules recurse into such members), on both sides of
    numel = 1e11, with the multiplicity-0 and 0 x 0-factor cases (the rules visit EVERY member, also one that contributes nothing)"""
    N = HUTCH_N
    g = lambda dt, n: ["generic", ["eye", dt, n]]          # noqa: E731
    return [
        g("f64", N), g("f64", N - 1), g("c64", N + 5),
        ["generic", ["scalar", "f64", 3, N]],
        ["kron", g("f32", N), ["dense", "f64", 2, 2, [[1, 2], [3, 4]]]],
        ["kron", ["dense", "f64", 2, 2, [[1, 2], [3, 4]]], g("f64", N - 1)],
        ["bdiag", [g("f64", N), ["diag", "f64", [1, 2]]], [0, 1]],              # multiplicity 0: diag of the member is still computed
        ["bdiag", [["diag", "f64", [1, 2]], g("f64", N)], [2, 1]],
        ["bdiag", [g("f64", N - 1), ["diag", "f64", [1, 2]]], [0, 1]],
        ["kron", ["dense", "f64", 0, 0, []], g("f64", N)],                      # 0 x 0 factor: the product is empty, the member is still visited
        ["sum", ["eye", "f64", N], ["generic", ["scalar", "f64", 3, N]]],
        ["kronsum", g("f64", N), ["diag", "f64", [1, 2]]],
        ["ann", "SelfAdjoint", g("f64", N)],
        ["kron", g("f64", 1000), g("f64", 1000)],                               # numel of the PRODUCT 1e12, of each member 1e6: no reach
        ["slice", ["eye", "f64", N], {"s": [0, N, 1]}, {"s": [0, N, 1]}],
        ["T", g("f64", N)],
        ["prod", g("f64", N), g("f64", N)],
        ["eye", "f64", N], ["scalar", "f64", 2, N],                             # huge, but never handed to the generic rule
        ["kron", ["eye", "f64", N], ["eye", "f64", 2]],
        ["sum", ["kron", g("f64", N), ["eye", "f64", 2]], ["eye", "f64", 2 * N]],   # nested: reach below two rule nodes
    ]


def generic_nodes(e):
    """the operators the rule recursion of diag (k = 0) / trace hands to the generic LinearOperator rule, in visiting order
    (read off cola/linalg/trace/diag_trace.py: members left to right, every member whatever its multiplicity / extent)"""
    t = e[0]
    if t in ("dense", "tri", "eye", "diag", "scalar"):
        return []
    if t in ("sum", "kron", "kronsum", "bdiag", "ann"):
        return [x for m in rule_path_kids(e) for x in generic_nodes(m)]
    return [tuple(gen.shape_of(e))]


def stream_h(ctx, eng):
    """the hypothesis `alg = Exact() or A.hutchReach = false` observed on the REAL rule recursion.  The estimators themselves
    cannot be run at numel >= 1e11 (Hutchinson: ~25 products with 316228 x 100 probes, stochastic result; exact_diag: 3163
    blocks), so cola.linalg.trace.diagonal_estimation.{hutchinson_diag_estimate, exact_diag} are replaced by RECORDING STUBS for
    the duration of this stream: what is compared is the SELECTION -- which estimator the real rules hand which node to --
    three ways: real (recorded calls) / Lean `Op.hutchReach` (driver call `reach`) / the input predicate hutch_reach +
    generic_nodes read off the source.  No value is compared in this stream."""
    import cola
    from cola.linalg.algorithm_base import Auto
    from cola.linalg.trace import diagonal_estimation as DE
    from cola.linalg.trace.diagonal_estimation import Exact
    ops = hutch_ops()
    res = oracle.run_driver([{"id": i, "call": "reach", "op": e} for i, e in enumerate(ops)], driver=DRIVER, nproc=min(16, len(ops)))
    calls = []

    def hutch_stub(A, k=0, **kw):
        calls.append(("hutch", tuple(A.shape)))
        return np.zeros((A.shape[0] - abs(k),), dtype=A.dtype), {}

    def exact_stub(A, k, bs):
        calls.append(("exact", tuple(A.shape)))
        return np.zeros((A.shape[0] - abs(k),), dtype=A.dtype)

    saved = (DE.hutchinson_diag_estimate, DE.exact_diag)
    cov = collections.Counter()
    B = build.Builder()
    try:
        DE.hutchinson_diag_estimate, DE.exact_diag = hutch_stub, exact_stub
        for i, e in enumerate(ops):
            a = res.get(i, {"error": "no answer from driver"})
            reach_py = hutch_reach(e)
            nodes = generic_nodes(e)
            for alg in ("omitted", "auto", "exact"):
                for call in ("diag", "trace"):
                    case = {"op": e, "call": call, "k": 0, "alg": alg, "stream": "hutch-reach"}
                    eng.stats["evaluations"] += 1
                    del calls[:]
                    err = None
                    try:
                        A = B.build(e)
                        args = () if alg == "omitted" else (Auto() if alg == "auto" else Exact(),)
                        if call == "diag":
                            cola.linalg.diag(A, 0, *args)
                        else:
                            cola.linalg.trace(A, *args)
                    except Exception as ex:  # noqa: BLE001
                        err = f"{treecheck.err_class(ex)}: {str(ex)[:120]}"
                    want = [("exact" if alg == "exact" or r * c < HUTCH_NUMEL else "hutch", (r, c)) for r, c in nodes]
                    real_reach = any(w == "hutch" for w, _ in calls)
                    bad = None
                    if "error" in a:
                        eng.stats["driver-error"] += 1
                        bad = "driver: " + str(a["error"])[:200]
                    elif err is not None:
                        bad = "the real call raised " + err
                    elif bool(a["hutch"]) != reach_py:
                        bad = f"Lean Op.hutchReach = {a['hutch']}, input predicate hutch_reach = {reach_py}"
                    elif real_reach != (reach_py and alg != "exact"):
                        bad = (f"the real rules {'handed' if real_reach else 'did not hand'} a node to the Hutchinson estimator "
                               f"(recorded: {calls}); predicate hutchReach = {reach_py}, alg = {alg}")
                    elif list(calls) != want:
                        bad = f"estimator calls of the real rules {calls} differ from the rules read off the source {want}"
                    if bad:
                        eng.stats["stale-model"] += 1
                        common.violation(ctx, {"stream": "hutch-reach (selection only, estimators stubbed)", "case": case, "detail": bad},
                                         no_input=True)
                    else:
                        eng.stats["hutch-reach-ok"] += 1
                        cov["reach, Auto/omitted: Hutchinson selected" if real_reach else
                            "reach, Exact(): exact selected" if reach_py else "no reach: exact / structured rules only"] += 1
                        eng.distinct.add(common.canon([e, call, 0, alg]))
    finally:
        DE.hutchinson_diag_estimate, DE.exact_diag = saved
    return {"operators": len(ops), "agreements": dict(cov),
            "boundary": f"n = {HUTCH_N} (n^2 >= 1e11) and n = {HUTCH_N - 1} (n^2 < 1e11)"}


# ------------------------------------------------------------------------------------------ entry
def run(ctx):
    import shim  # noqa: F401
    gate = None
    gate_err = None
    try:
        gate = common.lean_gate(ctx, MODULE)
    except common.LeanGateError as ex:
        gate_err = str(ex)
    rng = random.Random(ctx.seed * 6151 + 8)
    eng = Engine(ctx)
    timings = {}
    if ctx.replay:
        rp = json.load(open(ctx.replay))
        c = rp.get("case") or rp.get("original_case")
        if c is None:
            print(json.dumps({"replay": "this replay names a seeded stream; run its replay_cmd", "replay_cmd": rp.get("replay_cmd")}))
        else:
            c = dict(c)
            c["id"] = 0
            if c.get("oracle") == "numpy":
                good, det, has_input = numpy_judge(c, None, lean_meta([c["op"]]))
                eng.stats["evaluations"] += 1
                if not good:
                    common.violation(ctx, {"stream": "block-boundary (numpy oracle)", "case": c, "detail": det,
                                           "replay_cmd": f"./check {ctx.prop} quick --replay <this file>"}, no_input=not has_input)
                print(json.dumps({"replayed": {k: v for k, v in c.items() if k != "op"}, "status": "ok" if good else "violation",
                                  "detail": det})[:3000])
            else:
                res = eng.run([c], "replay")
                print(json.dumps({"replayed": c, "status": [r[3] for r in res], "detail": [str(r[4]) for r in res]})[:3000])
    else:
        cases = []
        if os.path.exists(CORPUS):
            for line in open(CORPUS):
                if line.strip():
                    c = json.loads(line)
                    cases.append(eng.mk(**{k: v for k, v in c.items() if k != "id"}))
        ntrees = 110 if not ctx.thorough else 1200
        cases += stream_a_cases(ctx, eng, rng, ntrees)
        timings["gate"] = round(ctx.wall(), 1)
        batch = 6000
        for i in range(0, len(cases), batch):
            eng.run(cases[i:i + batch], "A")
        timings["A"] = round(ctx.wall(), 1)
        eng.run(stream_b_lean_cases(ctx, eng, rng), "B-lean")
        timings["B-lean"] = round(ctx.wall(), 1)
        stream_b_numpy(ctx, eng, rng)
        timings["B-numpy"] = round(ctx.wall(), 1)
        stream_c(ctx, eng, rng, 60 if not ctx.thorough else 1200)
        timings["C"] = round(ctx.wall(), 1)
        eng.live_rules = stream_d(ctx, eng)
        timings["D"] = round(ctx.wall(), 1)
        stream_e(ctx, eng, rng)
        timings["E"] = round(ctx.wall(), 1)
        eng.hutch_cov = stream_h(ctx, eng)
        timings["H"] = round(ctx.wall(), 1)
    if gate_err is not None and not ctx.violations:
        common.violation(ctx, {"broken": f"Lean gate of {MODULE}", "detail": gate_err[-3000:]}, no_input=True)
    cov = {
        "evaluations": eng.stats["evaluations"],
        "distinct_nontrivial": len(eng.distinct),
        "rule": "distinct = canonical JSON of (expression, call, k, alg) [stream A, B-lean], (form, n, k, dtype, alg) [stream B-numpy], "
                "(expression, k, bs) [stream C]; non-trivial = not a bare Identity/ScalarMul/Diagonal leaf and the comparison was "
                "carried out exactly (status ok = values three-way equal; refused-ok = exception class three-way equal; known = values "
                "three-way equal and the dtype observation covered by the recorded clause)",
        "outcomes": dict(eng.stats),
        "kinds_top": dict(eng.kind_hist),
        "sizes": {str(k): v for k, v in sorted(eng.size_hist.items(), key=lambda t: (t[0] is None, t[0]))},
        "k_classes": dict(eng.k_hist),
        "algs": dict(eng.alg_hist),
        "real_complex": dict(eng.cplx_hist),
        "result_dtypes_compared": dict(eng.dtype_hist),
        "rules_selected_in_real_calls": dict(eng.rule_hist),
        "live_rules": eng.live_rules,
        "block_constant_stream": eng.block_cov,
        "hutch_reach_stream": getattr(eng, "hutch_cov", None),
        "samples": eng.samples,
        "provisional_known": {},
        "refusals": {
            "meaning": "refused-ok = THREE-WAY agreement on the exception CLASS: the real call raises X, the Lean code model answers error:X, and "
                       "predicted_refusal (the rules of cola/linalg/trace/diag_trace.py read off the source, a decidable predicate on the input) "
                       "gives X with the reason below; any disagreement among the three is a VIOLATION (stale model)",
            "by_class_and_reason": dict(REFUSALS),
            "total": sum(REFUSALS.values()),
        },
        "not_compared": {
            "skipped (tree outside wf / square / the C01-C05 hypotheses dupSlice=false, HermOK; by reason)": dict(eng.skip_reasons),
            "inexact (both sides return values whose magnitude bound leaves the exactly representable range; exception classes, rule "
            "selection and dtype are still compared)": eng.stats["inexact"],
            "unmodelled-ok (model answers unmodelled:hutch AND the input predicate numel >= 1e11 at a generic node holds AND alg != Exact)": eng.stats["unmodelled-ok"],
        },
        "recorded_clause_attribution": "bdiag-zero-multiplicity is attributed per call by the input predicate (Op.ruleZeroMult in the driver = "
                                       "rule_zero_mult in the harness, which must agree) and excuses only the dtype observation real = code model != "
                                       "promotion of the leaf dtypes; values, exception classes and rule selection of the same call are never excused",
        "lean_witness_trees_confirmed_on_real_code": eng.stats["witness-confirmed"],
        "notes": ctx.notes[:8],
        "cumulative_wall_s_after_stage": timings,
        "compare": "exact (Gaussian-integer payloads; cases in which both sides return values whose magnitude bound leaves the exactly representable "
                   "range are 'inexact': values not compared)",
    }
    common.write_evidence(ctx, gate, cov, assumptions=[
        "the theorems are about exact ring arithmetic; floating-point results are compared exactly only where every intermediate is an exactly representable integer",
        "hypotheses of the value theorems (C08_exact, C08_rules, C08_trace, ...), each still a parameter: `hwf : A.wf = true` (constructor "
        "preconditions), `hnd : A.dupSlice = false` (C01's recorded clause sliced-repeated-index), `hh : A.HermOK` (what C05 proves; fails on C05's "
        "recorded scalar-times-annotated trees), `hsq : A.rows = A.cols` (square), `hbs : 0 < bs0`; witnessed by C08_hypotheses_witness, "
        "C08_rules_witness, C08_trace_witness, C08_probing_witness (concrete nested trees, also run on the real code: corpus lines with `witness`)",
        "hypothesis of the dtype theorems (C08_dtype_diag_partial, C08_dtype_trace_partial, C08_dtype_is_operator_dtype): `hz : A.ruleZeroMult = false` "
        "= the recorded clause bdiag-zero-multiplicity (C08_dtype_clause_needed shows it cannot be dropped)",
        "hypothesis of C08_refusals_are_exceptions / C08_trace_refusals_are_exceptions / C08_rule_agrees_with_probing_strict: `alg = Exact() or "
        "A.hutchReach = false` (no operator with numel >= 1e11 reaches the generic rule); C08_escape_witness shows it cannot be dropped. Beyond it "
        "the model answers 'unmodelled:hutch' (Auto() returns a Hutchinson estimate: outside C08).  Streams A-E never generate it ('unmodelled-ok' is 0 there); "
        "stream H observes the hypothesis on the REAL rule recursion at both sides of numel = 1e11 (lazy Identity / ScalarMul operators of extent 316227 / 316228 "
        "behind no_dispatch, Sliced, Transpose, Product, and Sum / Kronecker / KronSum / BlockDiag / annotated trees over them, incl. a multiplicity-0 block and a "
        "0 x 0 Kronecker factor): SELECTION ONLY -- the estimators hutchinson_diag_estimate / exact_diag are replaced by recording stubs because neither can be run "
        "at that size; real estimator calls vs Lean Op.hutchReach (driver call `reach`) vs the input predicate; the VALUE of the code model ('unmodelled:hutch') is "
        "not requested there (the driver's header walks index ranges), it is tied to Op.hutchReach by C08_refusals_are_exceptions / C08_escape_witness",
        "the block size 100 of exact_diag is a universally quantified parameter bs0 > 0 of the theorems; the real loop is exercised at the true sizes "
        "99..250 against numpy and against the Lean model with bs0 = 100",
        "the code model of `A @ chunk` inside the probing loop is C01's Op.mm (values; Op.mm_eq needs wf, dupSlice=false, HermOK) and C01's Op.mmDtype "
        "(dtype: promote_types(A.dtype, X.dtype)); both are taken from C01, not re-proved here",
        "NumPy promotion of the four floating dtypes and NEP 50 (a weak Python 0 / 0. adopts the array's dtype) are modelled (binDt, pySumDt, "
        "reduceMulDt, concatDt) and compared with numpy.result_type and the real result dtype on every case, not derived from NumPy's source",
        "rule selection: the model's rule tables are compared with the live dispatch table on every run (stream D); that the Lean function "
        "diagRuleSig equals plum's resolution is carried by that comparison on every instance and every real call, not by a theorem about plum",
        "exception classes: the model's error:<Class> is compared with the class of the exception the real call raises and with the rules read off the "
        "source (predicted_refusal) on every refusing call; the exception MESSAGE is not compared",
    ])
    print(json.dumps({"outcomes": cov["outcomes"], "distinct_nontrivial": cov["distinct_nontrivial"],
                      "gate": (gate or {}).get("obligations")}))
