"""C10 — eig returns the requested eigenpairs of the represented matrix.

Three parties per input:
  real   cola.linalg.eig / eigmax / eigmin on the NumPy backend (+ harness shim), observed through
         pass-through spies on the routines the rules call (xnp.eig, xnp.eigh, lanczos_eigs, arnoldi_eigs,
         lobpcg, power_iteration, compute_upper_triangular_eigvecs, I_like, Orthonormal): which rule ran,
         and the spectrum in the order the routine computed it
  code   lean/ColaVerif/Model/Eig.lean run by lean/DriverC10.lean: the rule `route` ends in, the positions
         `select_by_magnitude` returns for the computed magnitudes, the structural rules in exact Q[i]
         arithmetic, power iteration on the same IEEE doubles
  spec   the statement of the property: evaluated with numpy on the REAL outputs (failing-input oracle) and,
         for the selection / the structural rules, exactly by the driver (extreme magnitudes, eigenpairs of den)

Comparison rule (compare: "tol").  s = ||A||_2.
  oracle (real outputs):  k values and an n x k matrix;  ||A v - lam v|| <= 1e-6 s ||v||;  ||v|| > 1e-12;  smallest
      singular value of the column-normalised V >= 1e-8;  ||V^H V - I||_max <= 1e-6 when A is Hermitian;  every
      returned value matches a distinct eigenvalue of np.linalg.eigvals(A) to 1e-6 s and the sorted magnitudes equal
      the k extreme magnitudes to 1e-6 s (ties between equal magnitudes -- complex-conjugate pairs -- are free).
      Power iteration: claims only after a stop by the tolerance test (steps < max_iter): residual and orthonormality
      tolerance 10 sqrt(tol) (the value converges quadratically faster than the vector for Hermitian A; 1e-4 for
      tol = 1e-10), value tolerance 1e-6 s resp. 100 tol s.
  real = code:  the same rule;  the same positions (the returned values are located in the spied spectrum bit for bit;
      the model sorts the bit patterns of abs(eig_vals), which order like the doubles; numpy's argsort is not stable, so
      positions are compared up to the order among EXACTLY equal magnitudes -- complex-conjugate pairs);
      Identity / Diagonal outputs exactly, Triangular outputs to 1e-9 (LAPACK solve against exact rationals);
      power iteration: the same number of steps whenever every evaluation of the test in the model has
      |err - tol| > 1e-6 tol + 1e-12 (determined decisions; rounding differs through BLAS summation orders), value
      (relative) and vector (entrywise, unit vectors; POWER_VEC_TOL, derived at its definition) to 1e-9 then.
  code = spec:  the driver's exact verdict (selection: the selected positions are an extreme-magnitude selection of
      the magnitude ranks; structural: eigenpairs of den, orthonormality, rank, extreme magnitudes) must agree with the
      oracle's verdict on the real output.
  contract (assumed of LAPACK, observed):  every spectrum xnp.eig / xnp.eigh computed satisfies DenseContract -- A P = P diag(lam)
      to 1e-10 ||A||, unit columns, smin(P) >= 1e-8, eigh: ||P^H P - I|| <= 1e-10, ascending; every spectrum lanczos_eigs /
      arnoldi_eigs computed with max_iters >= n consists of eigenpairs to 1e-6 ||A|| (conclusion of C10_lanczos_path /
      C10_arnoldi_path).
  round 5 -- eigh on the projected T (eigh_observe): on EVERY real Lanczos run the argument T of the one xnp.eigh call inside
      lanczos_eigs is read by the spy, the same eigh is called again; both results: T Y = Y diag(theta) to 1e-10 ||T|| (eigh_contract),
      ||Y^H Y - I||_max <= 1e-10 and smin(Y) >= 1e-8 (eigh_independent, eigh_contract_unit), number of Ritz values = size of T.
  round 5 -- caps BELOW n ('lanczos-d', 'lanczos/d', 'arnoldi-d', 'arnoldi/d'): no eigenpair of A is claimed.  Lanczos: the
      conclusion of C10_lanczos_any_cap on the real output (ritz_oracle, 1e-8 ||A||): m <= min(cap, n) Ritz pairs, min(k, m)
      returned = the extreme magnitudes AMONG THE COMPUTED Ritz values, orthonormal unit vectors, real values = Rayleigh quotients,
      residuals of rank <= 1.  Arnoldi: the count and the selection only.  real = code: route and positions as for every case.
  power iteration, EVERY case (also those stopped by the cap), on the iterates the real run formed (arguments of A @ v,
      logged by RecDense), STEP_TOL = 1e-12:  number of products = iterations - 1 <= max_iter;  iterate j+1 = A v_j / ||A v_j||,
      unit norm;  returned value = conj(vprev) @ A vprev;  |value_j| <= ||A|| ||v_j||^2;  Hermitian A: Im value_j = 0;
      Hermitian PSD A: value_{j+1} >= value_j - 1e-12 ||A|| for j >= 1;  stopping rule on the recomputed errors with the
      margin 1e-6 tol + 1e-12;  info['errors'] = recomputed errors (rtol 1e-9);  model values equal the real ones step by
      step on the common prefix (1e-9).
Spectra are well separated BY CONSTRUCTION: A = V diag(lam) V^-1, cond(V) <= ~10, distinct magnitudes with relative
gaps >= 12 %, the dominant one >= 1.7 x the next (power iteration converges), complex-conjugate pairs for real A.
"""
import json
import math
import random
import re
import struct
import sys
import time
import warnings
from fractions import Fraction

import numpy as np

import common
import oracle
import shim  # noqa: F401
import cola
from build import Builder
from cola.backends import np_fns
from cola.linalg.algorithm_base import Auto
from cola.linalg.decompositions.decompositions import Arnoldi, Lanczos
from cola.linalg.unary.unary import Eig, Eigh
from cola.ops.operators import Dense

E = sys.modules["cola.linalg.eig.eigs"]
P = sys.modules["cola.linalg.eig.power_iteration"]
LOBPCG = E.LOBPCG
PowerIteration = P.PowerIteration
eig, eigmax, eigmin = E.eig, E.eigmax, E.eigmin

MODULE = "ColaVerif.Properties.C10"
SUBMODULES = ["ColaVerif.Properties.C10.CapsBelow"]     # round 5: C10_lanczos_any_cap, C10_lanczos_cap_one_ritz_not_eigen
DRIVER = "DriverC10.lean"

# Findings of this property.  FIXED in /repo (known_findings.json `fixed:`): 9624153 selection by position instead of
# magnitude, bb973bc Triangular rule on lower triangular data, d3bb5ef complex Triangular, 3dd8195 unconjugated Rayleigh
# quotient, 1c54ca4 relative change against the signed eig.  RECORDED in /verif/known_findings.json (the only clause of
# C10): `lobpcg-drops-smallest` -- eig's LOBPCG rule only sees the n - 1 algebraically largest pairs lobpcg computes
# (Lean: hypotheses enoughComputed / droppedNotWanted of C10_lobpcg_partial, witness C10_lobpcg_clause_needed); it is read
# through common.known_clauses and reported through common.known_finding.
# Genuine defects found by this check and not yet decided by the main session would be listed here: none.
PROVISIONAL_KNOWN = {}
LOBPCG_TOL = 1e-4     # lobpcg works in single precision (float32 / complex64)

RES_TOL = 1e-6
MAX_VIOLATION_LINES = 5
STEP_TOL = 1e-12     # one-step claims of power iteration: a few rounding errors of one product of size n <= 10
# Returned VECTOR of power iteration, model (Lean, IEEE doubles, sequential sums) against the real run (numpy / BLAS sums),
# compared entrywise on unit vectors when both made the same number of steps.  The two runs perform the same operations
# in different summation orders, u = 2^-53 = 1.1e-16.  One step v -> A v / ||A v||, n <= 10: each entry of A v carries
# <= n u (|A||v|)_i, the norm (n + 2) u, the division u, so two evaluations of one step differ by
#     d <= 2 (n + 3) u sqrt(n) ||A|| / ||A v||  <=  2 * 13 * 1.1e-16 * 3.2 * cond(V)  ~  1e-13     (cond(V) <= ~10).
# A perturbation of the iterate is mapped on by the step as (projected) A / ||A v||: in the eigenbasis it contracts by
# |lam_2 / lam_1| <= 1/1.7 per step (generator), i.e. the differences do NOT add up over the <= 400 steps but sum to at
# most d * cond(V) / (1 - 1/1.7) ~ 2.4e-12 in the Euclidean norm.  First-order worst case B ~ 2.4e-12; the tolerance keeps
# a factor ~400 for the higher-order terms and for the first steps of a run whose start vector has a small dominant
# component (||A v|| < |lam_1|, larger d):  1e-9 -- the same number as for the returned value.  (It was 1e-8 with a doc
# text saying 1e-9; the MEASURED maximum is recorded as distributions.power.vector_maxdiff in the evidence: 5.5e-16 on
# the quick stream of seed 0.)
POWER_VEC_TOL = 1e-9


class RecDense(Dense):
    """Dense operator that logs the argument of every product A @ X: the harness observes the iterates the real
    power_iteration forms (and nothing else changes: the operator is an input of the code under test)"""
    def __init__(self, A):
        super().__init__(A)
        self.rec = []

    def _matmat(self, X):
        self.rec.append(np.array(X, copy=True))
        return super()._matmat(X)


# ----------------------------------------------------------------------------------------------
# doubles <-> bit patterns
def bits(x):
    return struct.unpack('<Q', struct.pack('<d', float(x)))[0]


def unbits(n):
    return struct.unpack('<d', struct.pack('<Q', int(n)))[0]


def enc_entry(x, cplx):
    if cplx:
        return [bits(x.real), bits(x.imag)]
    return bits(x)


def enc_mat(A, cplx):
    return [[enc_entry(x, cplx) for x in row] for row in A]


def dec_entry(e):
    if isinstance(e, list):
        return complex(unbits(e[0]), unbits(e[1]))
    return unbits(e)


def dec_mat(M, cplx):
    return np.array([[dec_entry(e) for e in row] for row in M], dtype=np.complex128 if cplx else np.float64)


# ----------------------------------------------------------------------------------------------
# spies
class _Routed(Exception):
    pass


class Spy:
    """pass-through (or raising) wrappers around the routines the rules of eig call"""
    SITES = [(E, "lanczos_eigs", "lanczos"), (E, "arnoldi_eigs", "arnoldi"), (E, "lobpcg", "lobpcg"),
             (P, "power_iteration", "power"), (E, "compute_upper_triangular_eigvecs", "triangular"),
             (np_fns, "eig", "eig"), (np_fns, "eigh", "eigh"), (E, "I_like", "I_like"), (E, "Orthonormal", "Orthonormal")]
    PRIMARY = ("lanczos", "arnoldi", "lobpcg", "power", "triangular", "eig", "eigh")

    def __init__(self, raising=False):
        self.raising = raising
        self.log = []
        self.calls = []      # (tag, positional arguments, result): round 5, the projected T handed to eigh inside lanczos_eigs
        self.saved = []

    def __enter__(self):
        for mod, name, tag in self.SITES:
            orig = getattr(mod, name)
            self.saved.append((mod, name, orig))
            setattr(mod, name, self._wrap(orig, tag))
        return self

    def _wrap(self, orig, tag):
        def w(*a, **kw):
            if self.raising and tag in self.PRIMARY:
                self.log.append((tag, None))
                raise _Routed(tag)
            r = orig(*a, **kw)
            self.log.append((tag, r))
            self.calls.append((tag, a, r))
            return r
        w.__name__ = getattr(orig, "__name__", tag)
        return w

    def __exit__(self, *exc):
        for mod, name, orig in self.saved:
            setattr(mod, name, orig)
        return False

    def path(self):
        # the spies log on return (inner calls first); lanczos_eigs / arnoldi_eigs / lobpcg call eigh / eig inside
        tags = [t for t, _ in self.log]
        for t in ("lanczos", "arnoldi", "lobpcg", "power", "triangular"):
            if t in tags:
                return t
        for t in ("eigh", "eig"):
            if t in tags:
                return t
        if "I_like" in tags:
            return "diagonal"
        if "Orthonormal" in tags:
            return "identity"
        return "unknown"

    def result(self, tag):
        for t, r in self.log:
            if t == tag:
                return r
        return None


KRYLOV_SPEC = re.compile(r"^(lanczos|arnoldi)(?:([+*/-])(\d+))?(?:@(.+))?$")


def krylov_params(spec, n):
    """'arnoldi' / 'lanczos+3' / 'arnoldi*3@1e-18' / 'lanczos+1@0' -> (name, max_iters, tol or None):
    cap n (bare), n + d ('+d'), d * n ('*d'), round 5 -- caps BELOW n: max(1, n - d) ('-d'), max(1, n // d) ('/d');
    '@tol' sets the tolerance (default: the class default 1e-7)"""
    m = KRYLOV_SPEC.match(spec)
    if not m:
        return None
    name, op, d, tol = m.groups()
    if op is None:
        cap = n
    elif op == "+":
        cap = n + int(d)
    elif op == "*":
        cap = n * int(d)
    elif op == "-":
        cap = max(1, n - int(d))
    else:
        cap = max(1, n // int(d))
    return name, cap, (None if tol is None else float(tol))


def make_alg(spec, n):
    if spec == "omitted":
        return None
    if spec == "auto":
        return Auto()
    if spec == "auto-tol":
        return Auto(tol=1e-10, max_iter=500)
    if spec == "eig":
        return Eig()
    if spec == "eigh":
        return Eigh()
    kp = krylov_params(spec, n)
    if kp is not None:
        name, cap, tol = kp
        cls = Lanczos if name == "lanczos" else Arnoldi
        return cls(max_iters=cap) if tol is None else cls(max_iters=cap, tol=tol)
    if spec == "lobpcg":
        return LOBPCG()
    if spec == "power":
        return PowerIteration(tol=1e-10, max_iter=500)
    if spec == "power-default":
        return PowerIteration()
    raise ValueError(spec)


def alg_class(spec):
    if spec in ("omitted", "auto", "auto-tol"):
        return "auto"
    if spec.startswith("lanczos"):
        return "lanczos"
    if spec.startswith("arnoldi"):
        return "arnoldi"
    if spec.startswith("power"):
        return "power"
    return spec


def power_params(spec):
    """(tol, max_iter) of the power iteration a case ends in"""
    if spec == "power":
        return 1e-10, 500
    if spec == "auto-tol":
        return 1e-10, 500
    return 1e-6, 100   # Auto() / omitted / PowerIteration() defaults


def build_op(c):
    if c.get("op") is not None:
        return Builder().build(c["op"])
    A = dec_mat(c["A"], c["cplx"])
    op = RecDense(A)
    if c["sa"]:
        op = cola.SelfAdjoint(op)
    return op


def call_eig(op, k, which, spec, n, fn="eig"):
    alg = make_alg(spec, n)
    if fn == "eigmax":
        return eigmax(op) if alg is None else eigmax(op, alg)
    if fn == "eigmin":
        return eigmin(op) if alg is None else eigmin(op, alg)
    if alg is None:
        return eig(op, k, which) if which != "LM-default" else eig(op, k)
    return eig(op, k, which, alg)


def to_dense(V):
    if hasattr(V, "to_dense"):
        V = V.to_dense()
    return np.asarray(V)


def run_real(c, raising=False):
    """one real call under the spies"""
    op = build_op(c)
    n = op.shape[0]
    out = {"n": n}
    with warnings.catch_warnings():
        warnings.simplefilter("ignore")
        with Spy(raising=raising) as spy:
            try:
                r = call_eig(op, c["k"], c["which"], c["alg"], n, c.get("fn", "eig"))
                if c.get("fn", "eig") == "eig":
                    vals, V = r
                    out["vals"] = np.asarray(vals)
                    out["V"] = to_dense(V)
                else:
                    out["scalar"] = r
            except _Routed as ex:
                out["routed"] = str(ex)
            except AssertionError as ex:
                out["exc"] = "AssertionError"
                out["exc_msg"] = str(ex)[:200]
            except Exception as ex:  # noqa: BLE001
                out["exc"] = type(ex).__name__
                out["exc_msg"] = str(ex)[:300]
        out["path"] = out.get("routed") or ("AssertionError" if out.get("exc") == "AssertionError" else spy.path())
        p = out["path"]
        if not raising and p in ("eig", "eigh", "lanczos", "arnoldi", "lobpcg") and "exc" not in out:
            r = spy.result(p)
            if r is not None:
                out["computed_vals"] = np.asarray(r[0])
                out["computed_vecs"] = to_dense(r[1])
        if not raising and p == "power" and "exc" not in out:
            r = spy.result("power")
            if r is not None:
                out["power_iterations"] = int(r[2]["iterations"])
                out["power_errors"] = np.asarray(r[2]["errors"])
                out["power_rec"] = [np.asarray(x).reshape(-1) for x in getattr(op, "rec", [])]
                out["power_ret"] = (np.asarray(r[1]), np.asarray(r[0]))
        if not raising and p == "lanczos" and "exc" not in out:
            # lanczos_eigs: `eigvals, eigvectors = xnp.eigh(T.to_dense())` -- the one eigh call of the run
            ec = [(a, r) for t, a, r in spy.calls if t == "eigh"]
            if len(ec) == 1 and len(ec[0][0]) >= 1:
                out["lanczos_T"] = np.array(ec[0][0][0], copy=True)
                out["lanczos_eigh"] = (np.array(ec[0][1][0], copy=True), np.array(ec[0][1][1], copy=True))
            out["lanczos_eigh_calls"] = len(ec)
    out["dense"] = np.asarray(op.to_dense())
    out["dtype_complex"] = np.iscomplexobj(out["dense"])
    return out


# ----------------------------------------------------------------------------------------------
# generators
def magnitudes(rng, n):
    """distinct magnitudes, relative gaps >= 12 %, the largest >= 1.7 x the next; scale 10^[-1, 1]"""
    m = [1.0]
    for _ in range(n - 1):
        m.append(m[-1] * (1.12 + 0.25 * rng.random()))
    if n >= 2:
        m[-1] = m[-2] * (1.7 + 0.6 * rng.random())
    scale = 10.0 ** rng.uniform(-1, 1)
    return [x * scale for x in m]


def well_conditioned(nrng, n, cplx):
    M = nrng.standard_normal((n, n))
    if cplx:
        M = M + 1j * nrng.standard_normal((n, n))
    Q, _ = np.linalg.qr(M)
    d = np.exp(nrng.uniform(-0.7, 0.7, size=n))
    M2 = nrng.standard_normal((n, n))
    if cplx:
        M2 = M2 + 1j * nrng.standard_normal((n, n))
    Q2, _ = np.linalg.qr(M2)
    return Q @ np.diag(d) @ Q2.conj().T   # singular values in [e^-0.7, e^0.7]: cond <= ~4


def gen_matrix(rng, family, n):
    """-> (A, cplx, sa_declared, description)"""
    nrng = np.random.default_rng(rng.getrandbits(64))
    mags = magnitudes(rng, n)
    if family in ("herm-def", "herm-indef", "herm-unannotated"):
        cplx = rng.random() < 0.4
        lam = np.array(mags)
        if family != "herm-def":
            signs = [rng.choice([-1, 1]) for _ in range(n)]
            if family == "herm-indef":
                if all(s > 0 for s in signs):
                    signs[rng.randrange(n)] = -1
                if n >= 2 and rng.random() < 0.6:
                    signs[-1] = -1   # the dominant eigenvalue negative: 'LM' by value is wrong
            lam = lam * np.array(signs)
        M = nrng.standard_normal((n, n))
        if cplx:
            M = M + 1j * nrng.standard_normal((n, n))
        U, _ = np.linalg.qr(M)
        perm = nrng.permutation(n)
        A = (U * lam[perm]) @ U.conj().T
        A = (A + A.conj().T) / 2
        if cplx:
            A[np.diag_indices(n)] = A[np.diag_indices(n)].real
        return A, cplx, family != "herm-unannotated"
    if family == "real-general":
        # real eigenvalues and complex-conjugate pairs; the dominant one real
        use = mags[:-1]
        j = 0
        D = np.zeros((n, n))
        pos = 0
        while j < len(use):
            if len(use) - j >= 2 and rng.random() < 0.5:
                r = use[j]          # a conjugate pair of modulus use[j] (use[j+1] is dropped: same gap structure)
                th = rng.uniform(0.3, 2.8)
                D[pos:pos + 2, pos:pos + 2] = r * np.array([[math.cos(th), -math.sin(th)], [math.sin(th), math.cos(th)]])
                pos += 2
                j += 2
            else:
                D[pos, pos] = use[j] * rng.choice([-1, 1])
                pos += 1
                j += 1
        D[pos, pos] = mags[-1] * rng.choice([-1, 1])
        V = well_conditioned(nrng, n, False)
        A = V @ D @ np.linalg.inv(V)
        return A, False, False
    if family == "complex-general":
        lam = np.array([m * np.exp(1j * rng.uniform(0, 2 * math.pi)) for m in mags])
        V = well_conditioned(nrng, n, True)
        A = V @ np.diag(lam[nrng.permutation(n)]) @ np.linalg.inv(V)
        return A, True, False
    raise ValueError(family)


def gen_structural(rng, kind, n):
    """case-language operator with exact small entries"""
    if kind == "identity":
        return ["eye", rng.choice(["f64", "c128", "f32"]), n]
    if kind == "diagonal":
        # distinct MAGNITUDES: numpy's argsort is not stable, the order among equal magnitudes is unspecified
        flavour = rng.choice(["positive", "mixed", "mixed", "complex", "dyadic"])
        if flavour == "complex":
            pool = [(a, b) for a in range(-4, 5) for b in range(-4, 5)]
            rng.shuffle(pool)
            ents, seen = [], set()
            for a, b in pool:
                if a * a + b * b not in seen and len(ents) < n:
                    seen.add(a * a + b * b)
                    ents.append((a, b))
            e = ["diag", "c128", [[a, b] for a, b in ents]]
        elif flavour == "dyadic":
            mags = rng.sample(range(1, 31), n)
            ents = [Fraction(m * rng.choice([-1, 1]), 4) for m in mags]
            e = ["diag", "f64", [{"q": [x.numerator, x.denominator]} for x in ents]]
        else:
            mags = rng.sample(range(1, 20), n)
            ents = mags if flavour == "positive" else [m * rng.choice([-1, 1]) for m in mags]
            e = ["diag", rng.choice(["f64", "f64", "c128"]), ents]
        if flavour != "complex" and rng.random() < 0.25:
            e = ["ann", "SelfAdjoint", e]
        return e
    if kind in ("tri-upper", "tri-lower"):
        cplx = rng.random() < 0.2
        dt = "c128" if cplx else "f64"
        diag = [m * rng.choice([-1, 1]) for m in rng.sample(range(1, 12), n)]   # distinct magnitudes

        def off():
            if rng.random() < 0.25:
                return 0
            if cplx:
                return [rng.randint(-2, 2), rng.randint(-2, 2)]
            return rng.randint(-2, 2)
        M = [[0] * n for _ in range(n)]
        for i in range(n):
            for j in range(n):
                if i == j:
                    M[i][j] = diag[i]
                elif (j > i) == (kind == "tri-upper"):
                    M[i][j] = off()
        return ["tri", dt, n, n, kind == "tri-lower", M]
    raise ValueError(kind)


# ----------------------------------------------------------------------------------------------
# oracle on the real outputs
def oracle_eig(A, k, which, vals, V, hermitian, tol_res=RES_TOL, tol_val=RES_TOL, tol_orth=1e-6, check_selection=True):
    """-> list of (failure, detail)"""
    fails = []
    n = A.shape[0]
    s = max(np.linalg.norm(A, 2), 1e-300)
    vals = np.asarray(vals)
    V = np.asarray(V)
    kk = min(k, n)
    if vals.ndim != 1 or V.ndim != 2 or vals.shape[0] != kk or V.shape != (n, kk):
        return [("shape", f"values {vals.shape}, vectors {V.shape}, expected ({kk},) and ({n}, {kk})")]
    if not (np.all(np.isfinite(vals)) and np.all(np.isfinite(V))):
        return [("non-finite", "nan / inf in the output")]
    norms = np.linalg.norm(V, axis=0)
    if np.any(norms <= 1e-12):
        fails.append(("zero-vector", f"column norms {norms.tolist()}"))
        return fails
    R = A @ V - V * vals[None, :]
    rel = np.linalg.norm(R, axis=0) / (s * norms)
    if np.any(rel > tol_res):
        j = int(np.argmax(rel))
        fails.append(("residual", f"||A v - lam v|| / (||A|| ||v||) = {rel[j]:.3e} for column {j} (lam = {vals[j]})"))
    Vn = V / norms[None, :]
    smin = np.linalg.svd(Vn, compute_uv=False)[-1]
    if smin < 1e-8:
        fails.append(("dependent", f"smallest singular value of the normalised vectors {smin:.3e}"))
    if hermitian:
        G = V.conj().T @ V
        dev = np.abs(G - np.eye(kk)).max()
        if dev > tol_orth:
            fails.append(("not-orthonormal", f"max |V^H V - I| = {dev:.3e}"))
    ref = np.linalg.eigvals(A)
    # every returned value is a distinct eigenvalue
    avail = list(ref)
    for x in vals:
        d = [abs(x - y) for y in avail]
        j = int(np.argmin(d))
        if d[j] > tol_val * s:
            fails.append(("not-eigenvalues", f"returned value {x} is no eigenvalue of A (nearest at distance {d[j]:.3e})"))
            break
        avail.pop(j)
    if check_selection:
        mags = np.sort(np.abs(ref))
        want = mags[-kk:] if which != "SM" else mags[:kk]
        got = np.sort(np.abs(vals))
        if np.abs(got - want).max() > tol_val * s:
            fails.append(("selection", f"which={which} k={k}: returned magnitudes {got.tolist()}, the {kk} "
                                       f"{'largest' if which != 'SM' else 'smallest'} are {want.tolist()}"))
    return fails


def power_claims(A, real, tol, max_iter, hermitian, psd):
    """The one-step claims of power iteration -- theorems C10_power_cap (at most max_iter products), C10_power_returns
    (returned value = conj(vprev) @ A vprev, returned vector = A vprev / ||A vprev||, stop at the cap or by the test),
    C10_power_rayleigh (unit iterates, |value| <= ||A||, real for Hermitian A) and C10_power_monotone (Hermitian PSD A:
    the values never decrease from the second one on) -- evaluated with numpy on the iterates the REAL run formed
    (the arguments of its products A @ v, logged by RecDense), on EVERY case, whatever stopped the loop.
    -> list of (failure, detail)"""
    fails = []
    rec = real["power_rec"]
    value, v = real["power_ret"]
    value = complex(value)
    v = np.asarray(v).reshape(-1)
    s = len(rec)
    steps = real["power_iterations"] - 1
    sA = max(np.linalg.norm(A, 2), 1e-300)
    if steps != s:
        fails.append(("power-count", f"info['iterations'] - 1 = {steps}, but {s} products A @ v were formed"))
    if s > max_iter:
        fails.append(("power-cap", f"{s} products A @ v with max_iter={max_iter}"))
    if s == 0:
        return fails
    with np.errstate(all="ignore"):
        AV = [A @ x for x in rec]
        nv2 = [float(np.vdot(x, x).real) for x in rec]
        rho = [complex(np.vdot(x, ax)) for x, ax in zip(rec, AV)]     # conj(v_j) @ (A v_j)
        seq = rec + [v]
        for j in range(s):
            npn = np.linalg.norm(AV[j])
            if not (npn > 0 and np.isfinite(npn)):
                continue
            d = np.abs(seq[j + 1] - AV[j] / npn).max()
            if not d <= STEP_TOL:
                fails.append(("power-step", f"iterate {j + 1} differs from A v_{j} / ||A v_{j}|| by {d:.3e}"))
                break
            dn = abs(np.linalg.norm(seq[j + 1]) - 1.0)
            if not dn <= STEP_TOL:
                fails.append(("power-unit", f"iterate {j + 1} has norm 1 + {dn:.3e}"))
                break
        scale = max(sA * nv2[s - 1], 1e-300)
        if not abs(value - rho[s - 1]) <= STEP_TOL * scale:
            fails.append(("power-value", f"returned value {value}, conj(vprev) @ (A vprev) = {rho[s - 1]} at the iterate "
                                         f"before the returned vector ({s} products)"))
        for j in range(s):
            if not abs(rho[j]) <= sA * nv2[j] * (1 + STEP_TOL):
                fails.append(("power-bound", f"|value {j}| = {abs(rho[j])} exceeds ||A|| ||v||^2 = {sA * nv2[j]}"))
                break
            if hermitian and not abs(rho[j].imag) <= STEP_TOL * sA * nv2[j]:
                fails.append(("power-real", f"value {j} = {rho[j]} of a Hermitian operator is not real"))
                break
        if psd:
            for j in range(1, s - 1):
                if not rho[j + 1].real >= rho[j].real - STEP_TOL * sA:
                    fails.append(("power-monotone", f"Hermitian PSD operator: value {j + 1} = {rho[j + 1].real} < value {j} = "
                                                    f"{rho[j].real}"))
                    break
        # the stopping rule, on the errors recomputed from the iterates (state j: eig_j, eigprev_j)
        eigs = [10.0 + 0j] + rho
        prevs = [1.0 + 0j] + eigs[:-1]
        errs = [abs(pj - ej) / abs(ej) if abs(ej) > 0 else float("inf") for ej, pj in zip(eigs, prevs)]
        margin = 1e-6 * tol + 1e-12
        for j in range(s):
            if errs[j] < tol - margin:
                fails.append(("power-stop", f"the loop went on after evaluation {j} of the test although err = {errs[j]:.6e} <= "
                                            f"tol = {tol}"))
                break
        if s < max_iter and errs[s] > tol + margin:
            fails.append(("power-stop", f"the loop stopped after {s} < max_iter = {max_iter} products although err = "
                                        f"{errs[s]:.6e} > tol = {tol}"))
        rerr = np.asarray(real.get("power_errors", []), dtype=float)
        want = np.array(errs[2:] + errs[-1:]) if s >= 1 else np.array([])
        if rerr.shape == want.shape and rerr.size:
            bad = ~(np.abs(rerr - want) <= 1e-9 * np.abs(want) + 1e-12) & np.isfinite(want)
            if bad.any():
                j = int(np.argmax(bad))
                fails.append(("power-errors", f"info['errors'][{j}] = {rerr[j]}, recomputed from the iterates {want[j]}"))
        elif rerr.shape != want.shape:
            fails.append(("power-errors", f"info['errors'] has {rerr.shape} entries, {want.shape} evaluations expected"))
    return fails


def contract_check(A, path, cvals, cvecs, hermitian):
    """The contract the theorems ASSUME of the routine behind a rule, observed on the spectrum the routine actually
    computed (before the selection): `DenseContract` of C10_dense_eig / C10_dense_eigh -- A P = P diag(lam), n pairs,
    unit (hence non-zero) columns, linearly independent; xnp.eigh: P unitary -- and, for the Krylov routines run with
    at least n iterations, the conclusion of C10_lanczos_path / C10_arnoldi_path (every computed pair is an eigenpair).
    LAPACK paths to 1e-10 ||A||, Krylov paths to the oracle's 1e-6 ||A||.  -> list of (failure, detail)"""
    out = []
    n = A.shape[0]
    s = max(np.linalg.norm(A, 2), 1e-300)
    lam = np.asarray(cvals)
    P = np.asarray(cvecs)
    lapack = path in ("eig", "eigh")
    tol = 1e-10 if lapack else RES_TOL
    if lam.ndim != 1 or P.ndim != 2 or P.shape[0] != n or P.shape[1] != lam.shape[0] or (lapack and lam.shape[0] != n):
        return [("contract-shape", f"{path}: values {lam.shape}, vectors {P.shape} for n = {n}")]
    if not (np.all(np.isfinite(lam)) and np.all(np.isfinite(P))):
        return [("contract-finite", f"{path}: nan / inf in the computed spectrum")]
    norms = np.linalg.norm(P, axis=0)
    if lapack and np.abs(norms - 1).max() > 1e-10:
        out.append(("contract-unit", f"{path}: column norms {norms.tolist()}"))
    if np.any(norms <= 1e-12):
        return out + [("contract-zero-column", f"{path}: column norms {norms.tolist()}")]
    res = np.linalg.norm(A @ P - P * lam[None, :], axis=0) / (s * norms)
    if res.max() > tol:
        out.append(("contract-eigenpairs", f"{path}: max ||A p - lam p|| / (||A|| ||p||) = {res.max():.3e}"))
    if lapack:
        smin = np.linalg.svd(P / norms[None, :], compute_uv=False)[-1]
        if smin < 1e-8:
            out.append(("contract-independent", f"{path}: smallest singular value of P {smin:.3e}"))
    if path == "eigh" and hermitian:
        dev = np.abs(P.conj().T @ P - np.eye(n)).max()
        if dev > 1e-10:
            out.append(("contract-unitary", f"eigh: max |P^H P - I| = {dev:.3e}"))
        if np.iscomplexobj(lam) or np.any(np.diff(lam) < 0):
            out.append(("contract-ascending", f"eigh: values {lam.tolist()}"))
    return out


EIGH_TOL = 1e-10     # round 5: the two eigh contracts of the Lanczos theorems, observed on the projected T of the real run


def eigh_observe(T, spied, n):
    """Round 5, AS_BUILT C10 'Not covered' (iii).  The hypotheses the Lanczos theorems ASSUME of `xnp.eigh` on the
    projected tridiagonal matrix, observed on the REAL run: `T` is the argument lanczos_eigs handed to xnp.eigh (read by
    the spy), `spied` = (values, Y) what that call returned; the SAME eigh (cola.backends.np_fns.eigh) is called again on
    `T` and both results are examined:
      eigh_contract (C14, hypothesis of C10_lanczos_path / _full / _caps_above_n / _spectrum):  m values, T Y = Y diag(theta)
          to 1e-10 ||T||;
      eigh_independent (C10_lanczos_spectrum / _of_grade: IsUnit of the eigenvector matrix) and eigh_contract_unit (C14,
          hypothesis of C10_lanczos_any_cap):  ||Y^H Y - I||_max <= 1e-10 (so smin(Y) >= 1 - m 1e-10 > 0), smin(Y) >= 1e-8 recomputed;
      ran_n_steps:  m = n (reported, not required: below n only C10_lanczos_any_cap applies).
    -> (failures, info)"""
    fails, info = [], {}
    T = np.asarray(T)
    m = T.shape[0] if T.ndim == 2 else -1
    info["m"] = m
    info["ran_n_steps"] = bool(m == n)
    if T.ndim != 2 or T.shape[0] != T.shape[1] or m < 1 or m > n:
        return [("contract-eigh-shape", f"projected matrix of shape {T.shape} for n = {n}")], info
    tn = max(np.linalg.norm(T, 2), 1e-300)
    if np.abs(T - T.conj().T).max() > 1e-12 * tn:
        fails.append(("contract-eigh-input", "the projected matrix handed to eigh is not Hermitian"))
    again = np_fns.eigh(np.array(T, copy=True))
    info["recall_bit_equal"] = bool(np.array_equal(np.asarray(again[0]), spied[0]) and np.array_equal(np.asarray(again[1]), spied[1]))
    dev_max, smin_min, res_max = 0.0, float("inf"), 0.0
    for tag, (th, Y) in (("spied", spied), ("recall", again)):
        th, Y = np.asarray(th), np.asarray(Y)
        if th.shape != (m,) or Y.shape != (m, m) or not (np.all(np.isfinite(th)) and np.all(np.isfinite(Y))):
            fails.append(("contract-eigh-shape", f"{tag}: values {th.shape}, vectors {Y.shape} for a {m} x {m} matrix"))
            continue
        res = np.abs(T @ Y - Y * th[None, :]).max() / tn
        dev = np.abs(Y.conj().T @ Y - np.eye(m)).max()
        smin = np.linalg.svd(Y, compute_uv=False)[-1]
        dev_max, smin_min, res_max = max(dev_max, dev), min(smin_min, smin), max(res_max, res)
        if res > EIGH_TOL:
            fails.append(("contract-eigh-pairs", f"{tag}: max |T Y - Y diag(theta)| / ||T|| = {res:.3e}"))
        if dev > EIGH_TOL:
            fails.append(("contract-eigh-orthonormal", f"{tag}: max |Y^H Y - I| = {dev:.3e}"))
        if smin < 1e-8:
            fails.append(("contract-eigh-independent", f"{tag}: smallest singular value of Y {smin:.3e}"))
    info.update(orth_dev=dev_max, smin=smin_min, residual=res_max)
    return fails, info


def ritz_oracle(A, k, which, vals, V, cvals, cvecs, cap, lanczos=True):
    """Round 5, AS_BUILT C10 'Not covered' (vi): what is claimed of eig(A, k, which, Lanczos(max_iters = cap)) for a cap
    BELOW n -- the conclusion of C10_lanczos_any_cap, evaluated on the real output (s = ||A||_2, 1e-8 s):
      m = number of computed Ritz pairs <= min(cap, n);  min(k, m) pairs returned;  their magnitudes are the k extreme
      magnitudes of the m COMPUTED Ritz values (not of the spectrum of A);  every computed vector is a unit vector, the
      computed vectors are orthonormal, every value is real and is the Rayleigh quotient x^H A x of its vector;  all
      residuals A x - theta x are multiples of ONE vector (second singular value of the residual matrix <= 1e-8 s).
    NO eigenpair of A is claimed.  lanczos=False (Arnoldi rule, no theorem about a cap below n beyond C10_select): only the
    count and the selection.  -> list of (failure, detail)"""
    fails = []
    n = A.shape[0]
    s = max(np.linalg.norm(A, 2), 1e-300)
    vals, V, cvals, X = np.asarray(vals), np.asarray(V), np.asarray(cvals), np.asarray(cvecs)
    m = cvals.shape[0] if cvals.ndim == 1 else -1
    if m < 1 or m > min(cap, n) or X.shape != (n, m):
        return [("ritz-count", f"{cvals.shape} Ritz values, vectors {X.shape}, cap {cap}, n {n}")]
    kk = min(k, m)
    if vals.shape != (kk,) or V.shape != (n, kk):
        return [("shape", f"values {vals.shape}, vectors {V.shape}, expected ({kk},) and ({n}, {kk})")]
    if not (np.all(np.isfinite(cvals)) and np.all(np.isfinite(X))):
        return [("non-finite", "nan / inf in the computed Ritz pairs")]
    tol = 1e-8
    mags = np.sort(np.abs(cvals))
    want = mags[-kk:] if which != "SM" else mags[:kk]
    if np.abs(np.sort(np.abs(vals)) - want).max() > 1e-6 * s:
        fails.append(("selection", f"which={which} k={k}: returned magnitudes {np.sort(np.abs(vals)).tolist()}, the {kk} extreme "
                                   f"of the {m} computed Ritz values are {want.tolist()}"))
    if not lanczos:
        return fails
    if np.abs(np.linalg.norm(X, axis=0) - 1).max() > tol or np.abs(X.conj().T @ X - np.eye(m)).max() > tol:
        fails.append(("ritz-not-orthonormal", f"max |X^H X - I| = {np.abs(X.conj().T @ X - np.eye(m)).max():.3e}"))
    if np.iscomplexobj(cvals) and np.abs(cvals.imag).max() > tol * s:
        fails.append(("ritz-not-real", f"values {cvals.tolist()}"))
    ray = np.einsum("ij,ij->j", X.conj(), A @ X)
    if np.abs(ray - cvals).max() > tol * s:
        fails.append(("ritz-rayleigh", f"max |x^H A x - theta| = {np.abs(ray - cvals).max():.3e}"))
    R = A @ X - X * cvals[None, :]
    sv = np.linalg.svd(R, compute_uv=False)
    if m >= 2 and sv[1] > tol * s:
        fails.append(("ritz-residual-rank", f"second singular value of A X - X diag(theta): {sv[1]:.3e}"))
    return fails


def mag_ranks(vals, s):
    """magnitude ranks of a computed spectrum (equal within 1e-6 s: the same rank), in computed order"""
    mags = np.abs(np.asarray(vals))
    order = np.argsort(mags, kind="stable")
    ranks = [0] * len(mags)
    r = 0
    for t, idx in enumerate(order):
        if t > 0 and mags[idx] - mags[order[t - 1]] > 1e-6 * s:
            r += 1
        ranks[idx] = r
    return ranks


def locate(vals, computed):
    """positions of the returned values inside the computed spectrum (bit for bit)"""
    pos = []
    comp = list(np.asarray(computed))
    for x in np.asarray(vals):
        hits = [i for i, y in enumerate(comp) if (x == y) and i not in pos]
        if not hits:
            return None
        pos.append(hits[0])
    return pos


# ----------------------------------------------------------------------------------------------
# exact values from the driver
def qval(x):
    if isinstance(x, str):
        return Fraction(x)
    return Fraction(x)


def zval(z):
    return complex(float(qval(z[0])), float(qval(z[1])))


# ----------------------------------------------------------------------------------------------
def case_key(c):
    return (c["stream"], c.get("family"), c["n"], c["k"], c["which"], c["alg"], c.get("fn", "eig"))


def gen_cases(ctx, rng):
    cases = []
    sizes = list(range(2, 11))
    reps = 1 if not ctx.thorough else 16
    cid = [0]

    def add(c):
        c["id"] = cid[0]
        cid[0] += 1
        cases.append(c)

    # --- value stream: dense operators through the algorithm rules ---------------------------------------
    fam_algs = {
        "herm-def": ["omitted", "auto", "auto-tol", "eig", "eigh", "lanczos", "lanczos+3", "arnoldi", "arnoldi+3", "power"],
        "herm-indef": ["omitted", "auto", "auto-tol", "eig", "eigh", "lanczos", "lanczos+3", "arnoldi", "power"],
        "herm-unannotated": ["omitted", "auto-tol", "eig", "arnoldi", "power"],
        "real-general": ["omitted", "auto-tol", "eig", "arnoldi", "arnoldi+3", "power"],
        "complex-general": ["omitted", "auto-tol", "eig", "arnoldi", "arnoldi+3", "power"],
    }
    # Krylov rules with an iteration cap ABOVE n and a tolerance below round-off ("run all the iterations"): the
    # cap min(max_iters, n) of arnoldi_fact / lanczos is what keeps noise columns out of the Ritz problem
    arnoldi_above = [f"arnoldi{cap}@{tol}" for cap in ("+1", "+4", "*3") for tol in ("0", "1e-18")]
    lanczos_above = ["lanczos+1@0", "lanczos+4@1e-18", "lanczos*3@0"]
    # round 5, caps BELOW n (max(1, n - d) / max(1, n // d)): Ritz values, no eigenpair claim (C10_lanczos_any_cap; for
    # Arnoldi only the count and the selection among the computed values, C10_select)
    lanczos_below = ["lanczos-1", "lanczos-2@0", "lanczos/2@1e-18"]
    arnoldi_below = ["arnoldi-1@1e-18", "arnoldi/2"]
    for _ in range(reps):
        for family, algs0 in fam_algs.items():
            for n in sizes:
                A, cplx, sa = gen_matrix(rng, family, n)
                base = {"stream": "value", "family": family, "n": n, "cplx": cplx, "sa": sa, "A": enc_mat(A, cplx)}
                algs = algs0 + arnoldi_above + (lanczos_above if sa else []) + arnoldi_below + (lanczos_below if sa else [])
                for alg in algs:
                    for which in ("LM", "SM"):
                        for k in range(1, n + 1):
                            if alg.startswith("power") and not (k == 1 and which == "LM"):
                                continue
                            add(dict(base, k=k, which=which, alg=alg))
                # eigmax / eigmin
                for alg in [a for a in algs0 if a not in ("power",)] + ["power", "arnoldi+4@1e-18"]:
                    add(dict(base, k=1, which="LM", alg=alg, fn="eigmax"))
                    if not alg.startswith("power"):
                        add(dict(base, k=1, which="SM", alg=alg, fn="eigmin"))
                # which omitted (default 'LM')
                add(dict(base, k=min(2, n), which="LM-default", alg="omitted"))
    # --- structural stream ----------------------------------------------------------------------------------
    salgs = ["omitted", "auto", "eig", "eigh", "lanczos", "arnoldi", "power-default"]
    for _ in range(reps):
        for kind in ("identity", "diagonal", "diagonal", "tri-upper", "tri-upper", "tri-lower"):
            for n in (sizes if not kind.startswith("tri") else [2, 3, 4, 5, 6, 7]):
                e = gen_structural(rng, kind, n)
                base = {"stream": "structural", "family": kind, "n": n, "op": e, "cplx": False, "sa": False}
                for which in ("LM", "SM"):
                    for k in range(1, n + 1):
                        add(dict(base, k=k, which=which, alg="omitted" if (k + n) % 3 else rng.choice(salgs)))
                add(dict(base, k=1, which="LM", alg="omitted", fn="eigmax"))
                add(dict(base, k=1, which="SM", alg="omitted", fn="eigmin"))
    # --- route stream (spies raise: no numerical work; the size threshold of Auto included) -------------------
    ralgs = ["omitted", "auto", "eig", "eigh", "lanczos", "arnoldi", "lobpcg", "power-default"]
    for _ in range(reps):
        for (rows, sa_decl, kind) in [(3, False, "dense"), (3, True, "dense"), (3, "PSD", "dense"), (1000, False, "dense"),
                                      (1000, True, "dense"), (1001, False, "dense"), (1001, True, "dense"),
                                      (4, False, "diagonal"), (4, True, "diagonal"), (4, False, "tri"), (4, False, "identity"),
                                      (1001, False, "diagonal"), (4, False, "sum"), (4, True, "sum")]:
            for alg in ralgs:
                for (k, which) in [(1, "LM"), (1, "SM"), (2, "LM"), (2, "SM")]:
                    add({"stream": "route", "family": f"{kind}:{rows}:{sa_decl}", "n": rows, "k": k, "which": which,
                         "alg": alg, "rkind": kind, "rsa": sa_decl})
    # --- LOBPCG rule, numerically (single precision routine; the n - 1 algebraically largest pairs) -------------------
    for _ in range(reps):
        for family in ("herm-def", "herm-indef", "herm-def", "herm-indef"):
            for n in (3, 4, 5, 6, 7, 8):
                A, cplx, sa = gen_matrix(rng, family, n)
                base = {"stream": "lobpcg", "family": family, "n": n, "cplx": cplx, "sa": True, "A": enc_mat(A, cplx)}
                for which in ("LM", "SM"):
                    for k in range(1, n + 1):
                        add(dict(base, k=k, which=which, alg="lobpcg"))
    # --- power iteration stream -----------------------------------------------------------------------------
    for _ in range(reps):
        for family in ("herm-def", "herm-indef", "real-general", "herm-def", "complex-general"):
            for n in (2, 3, 4, 6, 8, 10):
                A, cplx, sa = gen_matrix(rng, family, n)
                for tol in (1e-3, 1e-6, 1e-10):
                    for max_iter in (1, 2, 5, 30, 100, 400):
                        add({"stream": "power", "family": family, "n": n, "cplx": cplx, "sa": sa, "A": enc_mat(A, cplx),
                             "k": 1, "which": "LM", "alg": "power-explicit", "tol": tol, "max_iter": max_iter})
    return cases


def route_op(c):
    """the operator of a route case (cheap to build, never multiplied)"""
    n = c["n"]
    kind = c["rkind"]
    if kind == "dense":
        op = Dense(np.zeros((n, n)))
    elif kind == "diagonal":
        op = cola.ops.Diagonal(np.arange(1.0, n + 1))
    elif kind == "tri":
        op = cola.ops.Triangular(np.triu(np.ones((n, n))) + np.diag(np.arange(n)), lower=False)
    elif kind == "identity":
        op = cola.ops.Identity((n, n), np.float64)
    elif kind == "sum":
        op = Dense(np.eye(n)) + cola.ops.Diagonal(np.arange(1.0, n + 1))
    else:
        raise ValueError(kind)
    if c["rsa"] is True:
        op = cola.SelfAdjoint(op)
    elif c["rsa"] == "PSD":
        op = cola.PSD(op)
    return op


def route_model_case(c):
    kind = {"dense": "other", "sum": "other", "diagonal": "diagonal", "tri": "triangular", "identity": "identity"}[c["rkind"]]
    # Identity infers PSD itself; a Sum of a Dense and a Diagonal infers nothing
    sa = bool(c["rsa"]) or kind == "identity"
    return {"id": c["id"], "call": "route", "op": None, "kind": kind, "sa": sa, "rows": c["n"], "cols": c["n"], "k": c["k"],
            "which": c["which"], "alg": alg_class(c["alg"])}


# ----------------------------------------------------------------------------------------------
def run(ctx):
    gate = None
    gate_err = None
    try:
        gate = dict(common.lean_gate(ctx, MODULE))
        for sub in SUBMODULES:
            g = common.lean_gate(ctx, sub)
            gate["obligations"] += g["obligations"]
            gate["discharged"] += g["discharged"]
            gate["theorems"] = sorted(set(gate["theorems"]) | set(g["theorems"]))
            # one runnable line: the trailing shell comment of each part is dropped and written once at the end
            parts = [x.replace("   # kernel re-check + #print axioms audit", "") for x in
                     (gate["checker_cmd"], g["checker_cmd"].split("cd lean && ", 1)[-1])]
            gate["checker_cmd"] = " && ".join(parts) + "   # kernel re-check + #print axioms audit"
    except common.LeanGateError as ex:
        gate_err = str(ex)
    t_gate = ctx.wall()
    rng = random.Random(ctx.seed * 7919 + 10)
    known = dict(common.known_clauses(ctx.prop))
    provisional = {k: v for k, v in PROVISIONAL_KNOWN.items() if k not in known}
    if ctx.replay:
        rp = json.load(open(ctx.replay))
        cases = [rp["case"]]
        cases[0]["id"] = 0
    else:
        cases = gen_cases(ctx, rng)

    outcomes = {"ok": 0, "modelled-defect": 0, "spec-fail": 0, "real-ne-model": 0, "model-error": 0, "inconsistent": 0}
    dist = {"streams": {}, "families": {}, "paths": {}, "algs": {}, "n": {}, "which": {}, "k_eq_n": 0, "clauses": {},
            "power": {"determined": 0, "undetermined": 0, "stopped_by_tol": 0, "stopped_by_cap": 0, "complex": 0,
                      "values_compared": 0, "one_step_claims_checked": 0, "one_step_claims_at_cap": 0, "monotone_checked": 0,
                      "vectors_compared": 0, "vector_maxdiff": 0.0},
            "eigmax_eigmin": 0, "positions_checked": 0, "contract_checked": {},
            "eigh_independent": {"observed": 0, "ran_n_steps": 0, "fewer_than_n_steps": 0, "cap_below_n": 0, "recall_bit_equal": 0,
                                 "failed": 0, "max_orth_dev": 0.0, "min_smin": 1e300, "max_residual": 0.0, "tolerance": EIGH_TOL},
            "caps_below": {},
            "lobpcg": {"checked": 0, "dropped_pair_wanted": 0}, "structural_exact": 0, "verdict_by_rule": {}}
    sigs = set()
    nontrivial = 0
    samples = []
    first_mismatch = [None]
    suppressed = [0]
    finding_replays = []

    def clean_case(c):
        return {k: v for k, v in c.items() if k not in ("id",)}

    def payload(c, status, fails, mism, clauses, extra=None):
        p = {"case": clean_case(c), "status": status, "spec_fails": [[f, d] for f, d in fails],
             "mismatch": [[f, d] for f, d in mism], "clauses": sorted(clauses),
             "how_to_read": "case.A: IEEE-754 bit patterns of the doubles of the dense matrix ([re, im] for complex), wrapped "
                            "in cola.SelfAdjoint when case.sa; case.op: case-language operator (harness/build.py); call "
                            "cola.linalg.eig(A, k, which[, alg]) (alg: omitted / Auto() / auto-tol = Auto(tol=1e-10, max_iter=500) / "
                            "Eig() / Eigh() / Lanczos(max_iters=n[+3]) / Arnoldi(max_iters=n[+3]) / 'arnoldi+d@t', 'arnoldi*d@t', "
                            "'lanczos+d@t', 'lanczos*d@t' = Arnoldi / Lanczos(max_iters=n+d resp. d*n, tol=t) / power = "
                            "PowerIteration(tol=1e-10, max_iter=500) / lobpcg = LOBPCG()), or eigmax / eigmin when case.fn says so; stream 'power': "
                            "PowerIteration(tol=case.tol, max_iter=case.max_iter)"}
        if extra:
            p.update(extra)
        return p

    def report_violation(p):
        if len(ctx.violations) < MAX_VIOLATION_LINES:
            common.violation(ctx, p)
        else:
            suppressed[0] += 1

    def settle(c, fails, mism, clauses, lean_spec_ok, detail=None):
        """three-way verdict of one case"""
        if mism:
            status = "real-ne-model"
        elif fails:
            unexplained = [cl for cl in clauses if cl not in known and cl not in provisional]
            if clauses and not unexplained and lean_spec_ok is False:
                status = "modelled-defect"
            else:
                status = "spec-fail"
        elif lean_spec_ok is False:
            status = "inconsistent"
        else:
            status = "ok"
        outcomes[status] += 1
        if status == "modelled-defect":
            for cl in sorted(clauses):
                dist["clauses"][cl] = dist["clauses"].get(cl, 0) + 1
                entry = known.get(cl) or provisional.get(cl)
                tag = "" if cl in known else " [PROVISIONAL, not yet in known_findings.json]"
                f0, d0 = fails[0]
                common.known_finding(ctx, cl, f"{entry['what']}{tag}; first witness of this run: {c['stream']} case "
                                     f"(family={c.get('family')}, n={c['n']}, k={c['k']}, which={c['which']}, alg={c['alg']}, "
                                     f"fn={c.get('fn', 'eig')}): {f0}: {d0}")
                if not any(w.get("clause") == cl for w in finding_replays):
                    path = common.write_replay(ctx, dict(payload(c, status, fails, mism, clauses, detail), known_finding=cl))
                    finding_replays.append({"clause": cl, "replay": path})
        elif status == "spec-fail":
            report_violation(payload(c, status, fails, mism, clauses, detail))
        elif status in ("real-ne-model", "inconsistent"):
            if fails and not (clauses and all(cl in known or cl in provisional for cl in clauses)):
                # the real code contradicts the statement on this very input
                report_violation(payload(c, status, fails, mism, clauses, detail))
            elif first_mismatch[0] is None:
                first_mismatch[0] = payload(c, status, fails, mism, clauses, detail)
        if ctx.replay:
            print(json.dumps({"replayed": True, "status": status, "spec_fails": fails, "mismatch": mism,
                              "clauses": sorted(clauses)}, default=str)[:4000])
        return status

    # ------------------------------------------------------------------------------------------------
    # 1. real runs
    t0 = time.time()
    reals = {}
    for c in cases:
        if c["stream"] == "route":
            op = route_op(c)
            out = {}
            with warnings.catch_warnings():
                warnings.simplefilter("ignore")
                with Spy(raising=True) as spy:
                    try:
                        call_eig(op, c["k"], c["which"], c["alg"], c["n"])
                        out["path"] = spy.path()
                    except _Routed as ex:
                        out["path"] = str(ex)
                    except AssertionError:
                        out["path"] = "AssertionError"
                    except Exception as ex:  # noqa: BLE001
                        out["path"] = "EXC:" + type(ex).__name__
            reals[c["id"]] = out
        elif c["stream"] == "power":
            cc = dict(c)
            A = dec_mat(c["A"], c["cplx"])
            op = RecDense(A)
            if c["sa"]:
                op = cola.SelfAdjoint(op)
            out = {"dense": A}
            with warnings.catch_warnings():
                warnings.simplefilter("ignore")
                with Spy() as spy:
                    try:
                        vals, V = eig(op, 1, "LM", PowerIteration(tol=c["tol"], max_iter=c["max_iter"]))
                        out["vals"], out["V"] = np.asarray(vals), to_dense(V)
                        out["path"] = spy.path()
                        r = spy.result("power")
                        out["power_iterations"] = int(r[2]["iterations"])
                        out["power_errors"] = np.asarray(r[2]["errors"])
                        out["power_rec"] = [np.asarray(x).reshape(-1) for x in op.rec]
                        out["power_ret"] = (np.asarray(r[1]), np.asarray(r[0]))
                    except Exception as ex:  # noqa: BLE001
                        out["exc"] = type(ex).__name__ + ": " + str(ex)[:200]
            out["v0"] = np_fns.randn(c["n"], dtype=A.dtype, key=np_fns.PRNGKey(42))
            reals[c["id"]] = out
        else:
            reals[c["id"]] = run_real(c)
    t_real = time.time() - t0

    # ------------------------------------------------------------------------------------------------
    # 2. model cases
    mcases = []
    select_keys = {}
    for c in cases:
        real = reals[c["id"]]
        if c["stream"] == "route":
            mcases.append(route_model_case(c))
        elif c["stream"] == "power":
            mcases.append({"id": c["id"], "call": "power", "n": c["n"], "cplx": c["cplx"], "A": c["A"],
                           "v0": [enc_entry(x, c["cplx"]) for x in real["v0"]], "tol": bits(c["tol"]),
                           "max_iter": c["max_iter"]})
        elif c["stream"] == "structural":
            mcases.append({"id": c["id"], "call": "structural", "op": c["op"], "k": c["k"],
                           "which": "LM" if c["which"] == "LM-default" else c["which"]})
            mcases.append({"id": f"r{c['id']}", "call": "route", "op": c["op"], "k": c["k"],
                           "which": "LM" if c["which"] == "LM-default" else c["which"], "alg": alg_class(c["alg"])})
        else:
            which = "LM" if c["which"] == "LM-default" else c["which"]
            mcases.append({"id": f"r{c['id']}", "call": "route", "op": None, "kind": "other", "sa": c["sa"], "rows": c["n"],
                           "cols": c["n"], "k": c["k"], "which": which, "alg": alg_class(c["alg"])})
            if c["stream"] == "lobpcg":
                ref = np.linalg.eigvalsh(real["dense"])          # the full spectrum, ascending by value
                s_ = max(np.linalg.norm(real["dense"], 2), 1e-300)
                real["ref"] = ref
                mcases.append({"id": f"l{c['id']}", "call": "lobpcg", "k": c["k"], "which": which, "max_iters": 100,
                               "magkey": [bits(abs(x)) for x in ref], "magrank": mag_ranks(ref, s_)})
                continue
            if "computed_vals" in real:
                s = max(np.linalg.norm(real["dense"], 2), 1e-300)
                ranks = mag_ranks(real["computed_vals"], s)
                magkey = [bits(x) for x in np.abs(real["computed_vals"])]   # what the code sorts, exactly
                real["ranks"], real["magkey"] = ranks, magkey
                key = (c["k"], which, tuple(ranks), tuple(magkey))
                if key not in select_keys:
                    select_keys[key] = f"s{len(select_keys)}"
                    mcases.append({"id": select_keys[key], "call": "select", "k": c["k"], "which": which,
                                   "magrank": ranks, "magkey": magkey})
                real["select_id"] = select_keys[key]
            if real.get("path") == "power" and "exc" not in real:
                tol, max_iter = power_params(c["alg"])
                A = real["dense"]
                v0 = np_fns.randn(c["n"], dtype=A.dtype, key=np_fns.PRNGKey(42))
                mcases.append({"id": f"p{c['id']}", "call": "power", "n": c["n"], "cplx": c["cplx"], "A": c["A"],
                               "v0": [enc_entry(x, c["cplx"]) for x in v0], "tol": bits(tol), "max_iter": max_iter})
                real["power_params"] = (tol, max_iter)
    t0 = time.time()
    answers = oracle.run_driver(mcases, nproc=8, driver=DRIVER)
    t_model = time.time() - t0

    # ------------------------------------------------------------------------------------------------
    # 3. verdicts
    def power_compare(c, real, ans, tol, max_iter):
        """-> (mismatches, determined, info)"""
        mism = []
        if "error" in ans:
            return [("model-error", ans["error"])], False, {}
        errs = [unbits(b) for b in ans["errs"]]
        determined = all((not math.isfinite(e)) or abs(e - tol) > 1e-6 * tol + 1e-12 for e in errs) and \
            all(math.isfinite(e) for e in errs)
        steps_real = real["power_iterations"] - 1
        info = {"steps_model": ans["steps"], "steps_real": steps_real, "determined": determined}
        # every value the loop formed, on the common prefix of the two runs (whatever stopped them): state j >= 1 of
        # the model holds conj(v_{j-1}) @ A v_{j-1}; the real run's iterates are the logged arguments of A @ v
        rec = real.get("power_rec")
        if rec is not None and "eigs" in ans:
            A_ = real["dense"]
            common_n = min(ans["steps"], len(rec))
            for j in range(common_n):
                rho = complex(np.vdot(rec[j], A_ @ rec[j]))
                mv_ = complex(dec_entry(ans["eigs"][j + 1]))
                sc = max(abs(rho), abs(mv_), 1e-300)
                if not abs(mv_ - rho) <= 1e-9 * sc:
                    mism.append(("power-value-step", f"value {j}: model {mv_}, real run {rho}"))
                    break
            dist["power"]["values_compared"] += common_n
        if determined:
            if ans["steps"] != steps_real:
                mism.append(("power-steps", f"model {ans['steps']} products, real {steps_real} (tol={tol}, max_iter={max_iter})"))
            else:
                ev = dec_entry(ans["eig"])
                rv = complex(real["vals"][0]) if "vals" in real else complex(real["scalar"])
                sc = max(abs(ev), abs(rv), 1e-300)
                if abs(ev - rv) > 1e-9 * sc:
                    mism.append(("power-value", f"model {ev}, real {rv}"))
                if "V" in real:
                    mv = np.array([dec_entry(e) for e in ans["v"]])
                    dvec = float(np.abs(mv - real["V"][:, 0]).max())
                    dist["power"]["vectors_compared"] += 1
                    dist["power"]["vector_maxdiff"] = max(dist["power"]["vector_maxdiff"], dvec)   # MEASURED, in the evidence
                    if not dvec <= POWER_VEC_TOL:
                        mism.append(("power-vector", f"max entry difference {dvec:.3e} > {POWER_VEC_TOL:g}"))
        return mism, determined, info

    def power_oracle(A, real, tol, max_iter, hermitian):
        """claims only after a stop by the tolerance test"""
        steps = real["power_iterations"] - 1
        if steps > max_iter:
            # C10_power_cap: never more than max_iter products
            return [("power-cap", f"{steps} products A @ v with max_iter={max_iter}")], True
        if steps >= max_iter:
            return [], False
        tr = max(1e-6, 10 * math.sqrt(tol))
        tv = max(1e-6, 100 * tol)
        vals = real["vals"] if "vals" in real else np.array([real["scalar"]])
        if "V" in real:
            return oracle_eig(A, 1, "LM", vals, real["V"], hermitian, tol_res=tr, tol_val=tv, tol_orth=tr), True
        # eigmax: the value only
        ref = np.linalg.eigvals(A)
        s = np.linalg.norm(A, 2)
        top = ref[np.argmax(np.abs(ref))]
        if abs(vals[0] - top) > tv * s:
            return [("selection", f"eigmax returned {vals[0]}, the eigenvalue of largest magnitude is {top}")], True
        return [], True

    def claims_power(c, real, tol, max_iter, hermitian):
        if "power_rec" not in real:
            return [("power-not-observed", "the iterates of the real run were not logged")]
        psd = hermitian and c.get("family") == "herm-def"
        dist["power"]["one_step_claims_checked"] += 1
        if real["power_iterations"] - 1 >= max_iter:
            dist["power"]["one_step_claims_at_cap"] += 1
        if psd:
            dist["power"]["monotone_checked"] += 1
        return power_claims(real["dense"], real, tol, max_iter, hermitian, psd)

    t0 = time.time()
    for c in cases:
        real = reals[c["id"]]
        st = c["stream"]
        dist["streams"][st] = dist["streams"].get(st, 0) + 1
        dist["families"][c.get("family")] = dist["families"].get(c.get("family"), 0) + 1
        dist["algs"][c["alg"]] = dist["algs"].get(c["alg"], 0) + 1
        dist["n"][c["n"]] = dist["n"].get(c["n"], 0) + 1
        dist["which"][c["which"]] = dist["which"].get(c["which"], 0) + 1
        fails, mism, clauses, lean_ok, detail = [], [], set(), None, {}
        try:
            if st == "route":
                ans = answers.get(c["id"], {"error": "no answer"})
                if "error" in ans:
                    mism.append(("model-error", ans["error"]))
                else:
                    if ans["path"] != real["path"]:
                        mism.append(("route", f"model {ans['path']}, real {real['path']}"))
                    dist["paths"][real["path"]] = dist["paths"].get(real["path"], 0) + 1
                settle(c, fails, mism, clauses, lean_ok, detail)
                sg = ("route", c["family"], c["alg"], c["k"], c["which"], real["path"])
                if sg not in sigs:
                    sigs.add(sg)
                    nontrivial += 1
                continue
            if st == "power":
                ans = answers.get(c["id"], {"error": "no answer"})
                A = real["dense"]
                hermitian = bool(np.abs(A - A.conj().T).max() <= 1e-12 * max(1.0, np.abs(A).max()))
                if "exc" in real:
                    fails.append(("raises", real["exc"]))
                else:
                    mism, determined, info = power_compare(c, real, ans, c["tol"], c["max_iter"])
                    detail = {"power": info}
                    dist["power"]["determined" if determined else "undetermined"] += 1
                    steps = real["power_iterations"] - 1
                    dist["power"]["stopped_by_cap" if steps >= c["max_iter"] else "stopped_by_tol"] += 1
                    if c["cplx"]:
                        dist["power"]["complex"] += 1
                    fails, claimed = power_oracle(A, real, c["tol"], c["max_iter"], hermitian)
                    fails = fails + claims_power(c, real, c["tol"], c["max_iter"], hermitian)
                settle(c, fails, mism, clauses, lean_ok, detail)
                sg = ("power", c["family"], c["n"], c["tol"], c["max_iter"], real.get("power_iterations"))
                if sg not in sigs:
                    sigs.add(sg)
                    if (real.get("power_iterations") or 0) >= 3:
                        nontrivial += 1
                continue
            # value / structural streams ------------------------------------------------------------------
            A = real["dense"]
            n = c["n"]
            which = "LM" if c["which"] == "LM-default" else c["which"]
            hermitian = bool(np.abs(A - A.conj().T).max() <= 1e-12 * max(1.0, np.abs(A).max()))
            rans = answers.get(f"r{c['id']}", {"error": "no answer"})
            if "error" in rans:
                mism.append(("model-error", rans["error"]))
            elif rans["path"] != real["path"]:
                mism.append(("route", f"model {rans['path']}, real {real['path']}"))
            dist["paths"][real["path"]] = dist["paths"].get(real["path"], 0) + 1
            fn = c.get("fn", "eig")
            if "exc" in real:
                fails.append(("raises", f"{real['exc']}: {real.get('exc_msg')}"))
            elif fn in ("eigmax", "eigmin"):
                dist["eigmax_eigmin"] += 1
                # agreement with eig(A, 1, which, alg)[0][0], bit for bit
                c2 = dict(c, fn="eig")
                r2 = run_real(c2)
                if "exc" in r2 or not (np.asarray(r2["vals"])[0] == real["scalar"] or
                                       (np.isnan(real["scalar"]) and np.isnan(np.asarray(r2["vals"])[0]))):
                    fails.append(("eigmax-disagrees", f"{fn} = {real['scalar']}, eig(A, 1, {which!r})[0][0] = "
                                                      f"{r2.get('vals')}"))
                if "computed_vals" in real and "select_id" in real:
                    sa_ = answers.get(real["select_id"], {"error": "no answer"})
                    if "error" in sa_:
                        mism.append(("model-error", sa_["error"]))
                    else:
                        pos = locate([real["scalar"]], real["computed_vals"])
                        mk = real["magkey"]
                        if pos is None or len(sa_["pos"]) != 1 or mk[pos[0]] != mk[sa_["pos"][0]]:
                            mism.append(("eigmax-position", f"{fn} = {real['scalar']} at {pos}, model position {sa_['pos']}"))
                # the value against the spectrum
                ref = np.linalg.eigvals(A)
                s = max(np.linalg.norm(A, 2), 1e-300)
                tgt = np.abs(ref).max() if fn == "eigmax" else np.abs(ref).min()
                tv = 1e-6
                if real["path"] == "power":
                    tol, max_iter = power_params(c["alg"])
                    tv = max(1e-6, 100 * tol)
                    if real["power_iterations"] - 1 >= max_iter:
                        tv = None
                if tv is not None and abs(abs(real["scalar"]) - tgt) > tv * s:
                    fails.append(("selection", f"{fn} = {real['scalar']}, extreme magnitude {tgt}"))
                if real["path"] == "power":
                    tol, max_iter = power_params(c["alg"])
                    fails = fails + claims_power(c, real, tol, max_iter, hermitian)
                elif "select_id" in real:
                    sans = answers.get(real["select_id"], {"error": "no answer"})
                    if "error" not in sans:
                        clauses |= set(sans["clauses"])
                        lean_ok = sans["spec_ok"]
                elif st == "structural":
                    sans = answers.get(c["id"], {"error": "no answer"})
                    if "error" not in sans and sans.get("code"):
                        if not sans.get("in_domain", True):
                            mism.append(("generator-out-of-domain", "Triangular operator without triangular data"))
                        lean_ok = sans["spec"]["extreme_ok"]   # only the value is returned
                        mv = zval(sans["code"]["vals"][0]) if sans["code"]["vals"] else None
                        if mv is None or abs(mv - real["scalar"]) > 1e-9 * max(1.0, abs(mv)):
                            mism.append(("structural-value", f"model {mv}, real {real['scalar']}"))
            elif st == "lobpcg":
                lans = answers.get(f"l{c['id']}", {"error": "no answer"})
                s_ = max(np.linalg.norm(A, 2), 1e-300)
                fails = oracle_eig(A, c["k"], which, real["vals"], real["V"], hermitian, tol_res=LOBPCG_TOL,
                                   tol_val=LOBPCG_TOL, tol_orth=LOBPCG_TOL)
                if "error" in lans:
                    mism.append(("model-error", lans["error"]))
                else:
                    ref = real["ref"]
                    # the contract of the routine: the min(n - 1, max_iters) algebraically largest pairs, ascending
                    cv = np.asarray(real.get("computed_vals", []))
                    want_c = ref[n - lans["computed"]:]
                    if cv.shape != want_c.shape or np.abs(cv - want_c).max() > LOBPCG_TOL * s_:
                        mism.append(("lobpcg-contract", f"lobpcg computed {cv.tolist()}, the {lans['computed']} algebraically "
                                                        f"largest eigenvalues are {want_c.tolist()}"))
                    want = ref[lans["pos"]] if lans["pos"] else np.array([])
                    rv = np.asarray(real["vals"])
                    if rv.shape != want.shape or (want.size and np.abs(rv - want).max() > LOBPCG_TOL * s_):
                        mism.append(("lobpcg-selection", f"real {rv.tolist()}, model: eigenvalues at positions {lans['pos']} of the "
                                                         f"ascending spectrum = {want.tolist()}"))
                    clauses |= set(lans["clauses"])
                    lean_ok = lans["spec_ok"]
                    dist["lobpcg"]["checked"] += 1
                    if not lean_ok:
                        dist["lobpcg"]["dropped_pair_wanted"] += 1
                    ofail = {f for f, _ in fails}
                    if (ofail - {"shape", "selection"}) or (bool(ofail) != (not lean_ok) and not mism):
                        # a failure the clause does not explain, or oracle and exact verdict disagree
                        if ofail - {"shape", "selection"}:
                            clauses = set()
                        else:
                            mism.append(("spec-disagreement", f"driver verdict {lean_ok}, oracle {sorted(ofail)}"))
            elif st == "structural":
                sans = answers.get(c["id"], {"error": "no answer"})
                fails = oracle_eig(A, c["k"], which, real["vals"], real["V"], hermitian)
                if "error" in sans:
                    mism.append(("model-error", sans["error"]))
                elif sans.get("code") is None:
                    mism.append(("structural", "the model has no structural rule / fails where the real code returned"))
                else:
                    mvals = np.array([zval(z) for z in sans["code"]["vals"]])
                    mV = np.array([[zval(z) for z in col] for col in sans["code"]["vecs"]]).T.reshape(n, -1)
                    exact = c["family"] in ("identity", "diagonal")
                    tolc = 0.0 if exact else 1e-9
                    rvals, rV = np.asarray(real["vals"]), np.asarray(real["V"])
                    if mvals.shape != rvals.shape or mV.shape != rV.shape:
                        mism.append(("structural-shape", f"model {mvals.shape} {mV.shape}, real {rvals.shape} {rV.shape}"))
                    else:
                        if rvals.dtype == np.float32 or rV.dtype in (np.float32, np.complex64):
                            tolc = max(tolc, 1e-5) if not exact else 0.0
                        dv = np.abs(mvals - rvals).max() if mvals.size else 0.0
                        dV = (np.abs(mV - rV) / np.maximum(1.0, np.abs(mV))).max() if mV.size else 0.0
                        if dv > tolc * max(1.0, np.abs(mvals).max() if mvals.size else 1.0):
                            mism.append(("structural-values", f"model {mvals.tolist()}, real {rvals.tolist()}"))
                        if dV > tolc:
                            mism.append(("structural-vectors", f"max relative entry difference {dV:.3e}"))
                        if exact:
                            dist["structural_exact"] += 1
                    if not sans.get("in_domain", True):
                        # hypothesis triangularData of C10_triangular: a fault of the generator, never a finding
                        mism.append(("generator-out-of-domain", "Triangular operator without triangular data"))
                    sp = sans["spec"]
                    lean_fail = set()
                    if not sp["pairs_ok"]:
                        lean_fail.add("residual")
                    if not sp["indep_ok"]:
                        lean_fail.add("dependent")
                    if not sp["extreme_ok"]:
                        lean_fail.add("selection")
                    if hermitian and not sp["orth_ok"]:
                        lean_fail.add("not-orthonormal")
                    lean_ok = not lean_fail
                    ofail = {f for f, _ in fails}
                    # the exact verdict and the oracle must name the same failures (not-eigenvalues follows residual)
                    if (ofail - {"not-eigenvalues"}) != lean_fail and not mism:
                        mism.append(("spec-disagreement", f"driver (exact): {sorted(lean_fail)}, oracle (numpy): {sorted(ofail)}"))
                    detail = {"driver_spec": sp}
                    clauses = set()   # no modelled defect is left for the structural rules: every failure is a violation
            else:
                # value stream, eig
                if real["path"] == "power":
                    tol, max_iter = power_params(c["alg"])
                    pans = answers.get(f"p{c['id']}", {"error": "no answer"})
                    pm, determined, info = power_compare(c, real, pans, tol, max_iter)
                    mism += pm
                    detail = {"power": info}
                    dist["power"]["determined" if determined else "undetermined"] += 1
                    fails, claimed = power_oracle(A, real, tol, max_iter, hermitian)
                    fails = fails + claims_power(c, real, tol, max_iter, hermitian)
                else:
                    kp = krylov_params(c["alg"], n)
                    below = kp is not None and kp[1] < n     # round 5: iteration cap below n
                    if below and "computed_vals" in real:
                        # no eigenpair of A is claimed: the Ritz statement of C10_lanczos_any_cap (Lanczos) / the count and
                        # the selection among the computed values (Arnoldi, C10_select)
                        fails = ritz_oracle(A, c["k"], which, real["vals"], real["V"], real["computed_vals"],
                                            real["computed_vecs"], kp[1], lanczos=(real["path"] == "lanczos"))
                        cb = dist["caps_below"]
                        cb[real["path"]] = cb.get(real["path"], 0) + 1
                        Xc, tc = np.asarray(real["computed_vecs"]), np.asarray(real["computed_vals"])
                        if Xc.ndim == 2 and Xc.shape[1] == tc.shape[0] and tc.shape[0] >= 1:
                            rr = np.linalg.norm(A @ Xc - Xc * tc[None, :], axis=0).max() / max(np.linalg.norm(A, 2), 1e-300)
                            if rr > RES_TOL:
                                cb["some_ritz_pair_is_no_eigenpair"] = cb.get("some_ritz_pair_is_no_eigenpair", 0) + 1
                            cb["max_ritz_residual"] = max(cb.get("max_ritz_residual", 0.0), float(rr))
                    else:
                        fails = oracle_eig(A, c["k"], which, real["vals"], real["V"], hermitian)
                    if "computed_vals" not in real:
                        mism.append(("no-computed-spectrum", f"path {real['path']}"))
                    else:
                        pos = locate(real["vals"], real["computed_vals"])
                        sans = answers.get(real["select_id"], {"error": "no answer"})
                        cfail = []
                        if not below:
                            cfail = contract_check(A, real["path"], real["computed_vals"], real["computed_vecs"], hermitian)
                            dist["contract_checked"][real["path"]] = dist["contract_checked"].get(real["path"], 0) + 1
                        if real["path"] == "lanczos":
                            # round 5: the eigh contracts of the Lanczos theorems on the projected T of THIS run
                            eo = dist["eigh_independent"]
                            if "lanczos_T" not in real:
                                cfail.append(("contract-eigh-not-observed", f"{real.get('lanczos_eigh_calls')} eigh calls inside "
                                                                            "lanczos_eigs (expected exactly one)"))
                            else:
                                ef, ei = eigh_observe(real["lanczos_T"], real["lanczos_eigh"], n)
                                cfail += ef
                                eo["observed"] += 1
                                eo["ran_n_steps" if ei.get("ran_n_steps") else "fewer_than_n_steps"] += 1
                                eo["cap_below_n"] += 1 if below else 0
                                eo["recall_bit_equal"] += 1 if ei.get("recall_bit_equal") else 0
                                eo["failed"] += 1 if ef else 0
                                if "orth_dev" in ei:
                                    eo["max_orth_dev"] = max(eo["max_orth_dev"], float(ei["orth_dev"]))
                                    eo["min_smin"] = min(eo["min_smin"], float(ei["smin"]))
                                    eo["max_residual"] = max(eo["max_residual"], float(ei["residual"]))
                                if np.asarray(real["computed_vals"]).shape[0] != ei.get("m"):
                                    cfail.append(("contract-eigh-count", f"{np.asarray(real['computed_vals']).shape[0]} Ritz values "
                                                                         f"from a {ei.get('m')} x {ei.get('m')} projected matrix"))
                        if cfail and not fails:
                            mism += cfail
                        if "error" in sans:
                            mism.append(("model-error", sans["error"]))
                        else:
                            dist["positions_checked"] += 1
                            mk = real["magkey"]
                            same = pos is not None and len(pos) == len(sans["pos"]) and len(set(pos)) == len(pos) and \
                                [mk[p] for p in pos] == [mk[p] for p in sans["pos"]]
                            if not same or not sans["slice_ok"]:
                                mism.append(("positions", f"real {pos}, model {sans['pos']} (slice model ok: {sans['slice_ok']}) of "
                                                          f"{len(real['computed_vals'])} computed values"))
                            else:
                                cv = real["computed_vecs"][:, pos]
                                if cv.shape != real["V"].shape or np.abs(cv - real["V"]).max() > 1e-12 * max(1.0, np.abs(cv).max()):
                                    mism.append(("vector-positions", "the returned vectors are not the computed columns at the selected positions"))
                            lean_ok = sans["spec_ok"]
                            ofail = {f for f, _ in fails}
                            if ("selection" in ofail) != (not lean_ok) and not (ofail - {"selection"}) and not mism:
                                mism.append(("spec-disagreement", f"driver selection verdict {lean_ok}, oracle {sorted(ofail)}"))
                            if ofail == {"selection"}:
                                clauses = set(sans["clauses"])
                            elif ofail:
                                clauses = set()
                                lean_ok = None
                    if c["k"] == n:
                        dist["k_eq_n"] += 1
        except Exception as ex:  # noqa: BLE001
            import traceback
            mism.append(("harness-error", f"{type(ex).__name__}: {ex}; {traceback.format_exc()[-400:]}"))
        status = settle(c, fails, mism, clauses, lean_ok, detail)
        key = f"{real.get('path')}/{'complex' if np.iscomplexobj(real.get('dense')) else 'real'}/{status}" + \
            ("/" + "+".join(sorted(clauses)) if status == "modelled-defect" else "")
        dist["verdict_by_rule"][key] = dist["verdict_by_rule"].get(key, 0) + 1
        sg = (st, c.get("family"), c["n"], c["k"], which if st != "route" else c["which"], c["alg"], c.get("fn", "eig"),
              real.get("path"), status)
        if sg not in sigs:
            sigs.add(sg)
            if c["n"] >= 3 and (c.get("fn", "eig") != "eig" or 1 <= c["k"]):
                nontrivial += 1
        if len(samples) < 14 and c["id"] % 97 == 5:
            samples.append({"stream": st, "family": c.get("family"), "n": c["n"], "k": c["k"], "which": c["which"],
                            "alg": c["alg"], "fn": c.get("fn", "eig"), "path": real.get("path"), "status": status,
                            "returned": None if "vals" not in real else [str(x) for x in np.asarray(real["vals"])[:4]]})
    t_verdict = time.time() - t0

    if first_mismatch[0] is not None:
        p = dict(first_mismatch[0])
        p["note"] = ("the Lean code model and the code disagree on this input (or the exact and the numerical specification "
                     "verdicts do); the oracle found no violated statement on the real output of an input of this run that is "
                     "not explained by a recorded clause")
        p["mismatching_cases"] = outcomes["real-ne-model"] + outcomes["inconsistent"]
        common.violation(ctx, p, no_input=not ctx.violations)
    if gate_err is not None and not ctx.violations:
        common.violation(ctx, {"broken": f"Lean gate of {MODULE}", "detail": gate_err[-3000:]}, no_input=True)

    cov = {
        "evaluations": len(cases),
        "distinct_nontrivial": nontrivial,
        "distinct_signatures": len(sigs),
        "outcomes": outcomes,
        "compare": "tol",
        "compare_rule": __doc__.split("Comparison rule", 1)[1].strip(),
        "rule": ("distinct = distinct tuples (stream, family, n, k, which, alg, function, rule that ran, verdict); non-trivial = "
                 "n >= 3 (value / structural), a distinct (operator class, annotation, size class, alg, k, which, rule) tuple "
                 "(route), at least 2 products (power).  Streams: value -- Dense operators A = V diag(lam) V^-1 (Hermitian definite / "
                 "indefinite, SelfAdjoint-declared or not; real with complex-conjugate pairs; complex), n = 2..10, every 1 <= k <= n, "
                 "which in {LM, SM, omitted}, alg in {omitted, Auto(), Auto(tol=1e-10, max_iter=500), Eig, Eigh, Lanczos(n), Lanczos(n+3), "
                 "Arnoldi(n), Arnoldi(n+3), Arnoldi(max_iters in {n+1, n+4, 3n}, tol in {0, 1e-18}), Lanczos(n+1, 0), Lanczos(n+4, 1e-18), "
                 "Lanczos(3n, 0), round 5 caps below n: Lanczos(n-1), Lanczos(n-2, 0), Lanczos(n//2, 1e-18), Arnoldi(n-1, 1e-18), Arnoldi(n//2) "
                 "(each at least 1), PowerIteration(1e-10, 500)}, eigmax / eigmin; structural -- Identity, Diagonal (positive / mixed-sign / "
                 "complex / dyadic, unsorted), upper and lower Triangular (real f64 / f32 and complex, distinct diagonals) with exact "
                 "small entries, every k, both which, assorted alg arguments; route -- the rule reached for every alg class incl. "
                 "LOBPCG, SelfAdjoint / PSD declarations, sizes 1000 / 1001 around Auto's 10^6 threshold (spies raise, no numerics); "
                 "lobpcg -- eig(A, k, which, LOBPCG()) numerically on SelfAdjoint Hermitian definite / indefinite operators, n = 3..8, every "
                 "k, both which (single precision routine: tolerance 1e-4 ||A||; the model returns the positions in the "
                 "ascending spectrum, the finding lobpcg-drops-smallest is matched case by case); "
                 "power -- PowerIteration(tol in {1e-3, 1e-6, 1e-10}, max_iter in {1, 2, 5, 30, 100, 400}) on doubles, model on the "
                 "same doubles.  All randomness from random.Random(seed)"),
        "distributions": dist,
        "samples": samples,
        "known_findings_seen": [list(k) for k in ctx.known],
        "violations_not_written": suppressed[0],
        "provisional_known": sorted(provisional),
        "finding_replays": finding_replays,
        "not_covered": ["iteration caps below n: only the Ritz statement of C10_lanczos_any_cap (Lanczos) / count and selection "
                        "(Arnoldi) are claimed and compared -- no eigenpair of A, no accuracy of the Ritz values; the loop itself "
                        "below n is C14's / C15's subject", "the order numpy's unstable argsort "
                        "gives members of exactly equal magnitude", "LOBPCG for n > 8 (scipy then iterates instead of its dense fallback) and max_iters < n - 1", "jax / torch backends",
                        "convergence of power iteration (claimed only after a stop by the tolerance test; the one-step claims "
                        "of C10_power_rayleigh / C10_power_monotone are checked on every run, also at the cap)"],
        "timing_s": {"lean_gate": round(t_gate, 1), "real": round(t_real, 1), "model": round(t_model, 1),
                     "verdicts": round(t_verdict, 1)},
        "trusted_base_extra": [
            "numpy.linalg.eig / eigh (LAPACK) and lanczos_eigs / arnoldi_eigs are parameters of Model/Eig.lean (contract as "
            "hypothesis; lanczos_eigs / arnoldi_eigs are the subject of C14 / C15); np.linalg.solve on a triangular system is "
            "modelled by exact substitution",
            "the spies of harness/props/c10.py (pass-through wrappers installed around module attributes of cola for the duration "
            "of one call) are ours",
            "power iteration: the model is generic over law-free operations; the theorems hold for every instance, the "
            "correspondence runs the Float / complex-Float instance of Model/NumOpsL.lean"],
    }
    common.write_evidence(ctx, gate, cov, assumptions=[
        "simple spectrum with distinct magnitudes except complex-conjugate pairs (input domain of the property)",
        "CONTRACT (assumed, not proved; observed on every computed spectrum by contract_check): LAPACK eig / eigh return "
        "A P = P diag(lam) with n unit columns (eigh: unitary, ascending) -- structure DenseContract, hypothesis of "
        "C10_dense_eig / C10_dense_spectrum / C10_dense_eigh and (for the projected matrix) of C10_arnoldi_path / "
        "C10_arnoldi_full; witnesses C10_dense_contract_witness, C10_dense_spectrum_witness, C10_arnoldi_full_witness",
        "CONTRACT (assumed): LINEAR INDEPENDENCE of the eigenvectors xnp.eig (LAPACK geev) returns -- premise `independent : "
        "IsUnit (colsM n n s.vecs)` of C10_dense_spectrum / C10_dense_op; geev delivers a full set of independent eigenvectors "
        "only for a diagonalisable input (the generator's A = V diag(lam) V^-1 with distinct lam); observed as smin(P) >= 1e-8 "
        "by contract_check; for xnp.eigh it is PROVED from unitarity (C10_dense_eigh); witnessed on a non-normal input with a "
        "non-unitary P by C10_dense_spectrum_witness",
        "Lanczos: C10_lanczos_path / _full / _caps_above_n claim extremeness among the computed RITZ values only; equality of "
        "the Ritz values with the spectrum of A (C10_lanczos_spectrum, C10_lanczos_spectrum_of_grade) needs a run of n = dim "
        "steps (grade n, C14_grade) and the CONTRACT `eigh_independent` (eigh returns an invertible -- for LAPACK unitary -- "
        "eigenvector matrix of T; assumed)",
        "round 5: eigh_contract / eigh_independent / eigh_contract_unit are no longer only assumed: they are OBSERVED on the projected "
        "T of every real Lanczos run (distributions.eigh_independent: observed, ran_n_steps, max_orth_dev, min_smin, max_residual; "
        "tolerance 1e-10); with ran_n_steps this is the whole hypothesis bundle of C10_lanczos_spectrum about the run; they remain "
        "unproved of LAPACK",
        "round 5: for max_iters < n the claim is C10_lanczos_any_cap (Properties/C10/CapsBelow.lean): Ritz pairs, extreme among the "
        "computed Ritz values; C10_lanczos_cap_one_ritz_not_eigen shows a one-step Ritz value that is no eigenvalue",
        "the Krylov theorems C10_arnoldi_path / C10_lanczos_path cite C15_eigs_partial / C14_lanczos_eigs: exact arithmetic, "
        "clauses noClip / stopExact (C15 findings) resp. an exhausted Krylov space, tol > 0 for Arnoldi (tol = 0 is exercised "
        "by the generator, outside the theorem)",
        "exact arithmetic in the theorems; floating point enters through the correspondence (tolerance rule) and the oracle",
        "power iteration: convergence needs a unique dominant eigenvalue (real for real A) -- generator-controlled; the "
        "one-step claims need nothing"])
    print(json.dumps({"outcomes": outcomes, "evaluations": len(cases), "distinct_nontrivial": nontrivial,
                      "gate": (gate or {}).get("obligations"), "timing": cov["timing_s"]}))
