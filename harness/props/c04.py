"""C04 — rule selection is total and unambiguous.

Every run:
 (a) harness/translators/dump_rules.py regenerates lean/ColaVerif/Gen/RuleTable.lean (signatures,
     class hierarchy, lattice) from the live dispatcher of /repo's working tree;
 (b) Lean gate: ColaVerif.Properties.C04 (kernel evaluation of the model resolver on every lattice
     tuple, `decide +kernel`) is rebuilt and its axioms audited;
 (c) exhaustive correspondence: every public call form of the lattice is executed on real
     instances with plum's `Resolver.resolve` intercepted (the first resolution is recorded, then
     the call is aborted before the selected rule runs); classes of the intercepted arguments,
     truth values of the conditions and the outcome (signature | ambiguous | not found) must
     equal what the Lean model printed for that tuple (lean --run DriverC04.lean);
 (c') nested resolutions: the SAME calls once more, run to completion (rule bodies execute, plum's
     method cache off, iteration budgets of Algorithm arguments cut down) with `Resolver.resolve`
     wrapped to record EVERY resolution of the call, i.e. also those a selected rule makes itself
     (`inv` on the factors of a Kronecker, `inv(A, Auto)` re-dispatching with `LU()`, `dot`/`add`/
     `get_annotations` on operators built inside a body ...).  Every observed (function, argument
     classes, condition bits) of a function of the registry must be a tuple of that function's
     lattice — so the C04_f theorems cover it — and the real outcome must equal the model's answer
     for it; otherwise VIOLATION with the outer call and the nested tuple.  Runtime classes that are
     other parametrisations of a @parametric kind (`Product[Dense, Diagonal]`) are identified with
     the kind's representative after checking that they have the same superclasses among all
     classes that can be hints.  Exceptions of rule bodies are counted, not judged;
 (a') round 5: the regression tables of Properties/C04/PartH.lean / PartI.lean (`PartHTables.lean`) are regenerated from
     /repo's git HISTORY: for each of the three repaired commits C the trees `git archive C^ cola` and `git archive C cola`
     are extracted, plum registers the rules of that tree in a fresh interpreter (`dump_rules.py --history-dump`), and
     plum's real resolver is run there on instances of the reduced class universe; PartI proves that the Lean model
     answers like the historical plum (incl. `.ambiguous` before each repair).  The `_post` tables are compared with
     today's table (the data Gen/RuleTable.lean is emitted from) up to class ids: evidence `regression_tables`;
 (c'') round 5, cached resolutions: the same calls with plum's method cache ON and never cleared, twice (second pass with
     OTHER instances of the same classes): the rule a cache hit returns must be the model's answer for the tuple, and a
     function with a conditional rule must never be cached;
 (iii) round 5: every body exception of (c') is classified by (function, kinds, exception class, raising site) and judged
     (refused by an explicit assert/raise of cola | stub artefact | raised below the body); a call refused for a missing
     PSD / SelfAdjoint declaration is re-run with the declaration; evidence `nested_resolutions.body_exceptions_judged`
     (`unobserved_share`);
 (d) every tuple on which the REAL resolver fails is replayed as a plain public call; a call that
     raises AmbiguousLookupError / NotFoundLookupError is a VIOLATION (or KNOWN-FINDING when
     known_findings.json lists its clause); a broken gate / correspondence without such a call is
     reported with no-failing-input-found;
 (e) evidence.
"""
import copy
import importlib
import itertools
import json
import os
import sys
import time
from typing import Any as typing_Any

import common

MODULE = "ColaVerif.Properties.C04"
PARTS = [f"ColaVerif.Properties.C04.Part{p}" for p in "ABCDEFGHI"] + ["ColaVerif.Properties.C04.PartHTables"]
# round 5: audited sub-modules gated in addition to MODULE (own `#print axioms` lists)
SUBMODULES = ["ColaVerif.Properties.C04.PartI"]
GENERATED = ["lean/ColaVerif/Gen/RuleTable.lean", "lean/ColaVerif/Properties/C04/PartHTables.lean"]
# Suspected defects awaiting a decision (BUILDER_NOTES "Genuine defects"): clause name -> what fails.  None.
PROVISIONAL_KNOWN = {}
TRANSLATOR = os.path.join(common.ROOT, "harness", "translators", "dump_rules.py")
LATTICE_JSON = os.path.join(common.WORK, "c04", "lattice.json")
ANNOTATIONS = ["SelfAdjoint", "PSD", "Stiefel", "Unitary"]


def limit_blas_threads():
    """One OpenBLAS thread in THIS process (and, through the environment, in the interpreters started from it).  The rule
    bodies of streams (c') work on 3x3 operators; with the default (one thread per core) sixteen forked workers on a machine
    that is busy anyway spend their time in OpenBLAS' spin-waits (measured: 223 calls 0.7 s with one thread, 158 s without).
    Affects speed only.  No `threadpoolctl` on this image: the libraries' own setters are called through ctypes."""
    import ctypes
    import re
    os.environ["OPENBLAS_NUM_THREADS"] = "1"
    os.environ["OMP_NUM_THREADS"] = "1"
    done = []
    try:
        libs = {mm.group(1) for line in open("/proc/self/maps") for mm in [re.search(r"(/\S*openblas\S*\.so\S*)", line)] if mm}
        for lib in sorted(libs):
            h = ctypes.CDLL(lib)
            for sym in ("scipy_openblas_set_num_threads64_", "scipy_openblas_set_num_threads", "openblas_set_num_threads64_",
                        "openblas_set_num_threads"):
                if hasattr(h, sym):
                    getattr(h, sym)(1)
                    done.append(f"{os.path.basename(lib)}:{sym}")
                    break
    except Exception:  # noqa: BLE001  (speed only)
        pass
    return done


class _Stop(BaseException):
    """aborts the public call right after the first resolution"""


class _NoCache(dict):
    """a method cache that never stores: every call goes through Resolver.resolve"""

    def __setitem__(self, k, v):
        pass


# ------------------------------------------------------------------------------------------
def load_translator():
    d = os.path.dirname(TRANSLATOR)
    if d not in sys.path:
        sys.path.insert(0, d)
    return importlib.import_module("dump_rules")


def run_lean_driver():
    """-> {fn: {(args ids, conds): (outcome string, n_matching)}}"""
    rc, so, se = common.sh(["lake", "env", "lean", "--run", "DriverC04.lean"], cwd=common.LEAN_DIR, timeout=900)
    if rc != 0:
        raise RuntimeError("DriverC04.lean failed:\n" + (so + se)[-2000:])
    res = {}
    order = {}
    for line in so.split("\n"):
        if not line.strip():
            continue
        name, key, out, nm = line.split("\t")
        a, c = key.split("|")
        ids = tuple(int(x) for x in a.split(",")) if a else ()
        excl = nm.endswith(" X")
        nm = int(nm.split()[0])
        p = out.split()
        o = ("U", int(p[1])) if p[0] == "U" else (p[0], None)
        res.setdefault(name, {})[(ids, int(c))] = (o, nm, excl)
        order.setdefault(name, []).append((ids, int(c)))
    return res, order


class Real:
    """the live side: interception of plum's resolver"""

    def __init__(self, D, m):
        import plum
        from plum.resolver import Resolver
        self.plum = plum
        self.Resolver = Resolver
        self.m = m
        self.D = D
        self.by_resolver = {}
        for name, fn in m.functions.items():
            f = fn["function"]
            f._resolve_pending_registrations()
            self.by_resolver[id(f._resolver)] = name
        self.bearable = plum._is_bearable
        self.canon = {}   # runtime class outside the table -> (representative id | None, reason)
        self.hint_ids()

    def clear_caches(self):
        for fn in self.m.functions.values():
            fn["function"]._cache.clear()

    def intercept(self, thunk):
        """run thunk(); -> dict(fn, args, out=('U', idx)|('A', msg)|('N', msg)) or dict(error=...)"""
        rec = {}
        Resolver = self.Resolver
        orig = Resolver.resolve
        plum = self.plum

        def patched(rs, target):
            if rec:
                return orig(rs, target)
            rec["resolver"] = rs
            rec["args"] = target
            try:
                sig = orig(rs, target)
                rec["out"] = ("U", next(i for i, s in enumerate(rs.signatures) if s is sig))
            except plum.AmbiguousLookupError as ex:
                rec["out"] = ("A", str(ex))
            except plum.NotFoundLookupError as ex:
                rec["out"] = ("N", str(ex))
            raise _Stop()

        self.clear_caches()
        Resolver.resolve = patched
        try:
            thunk()
            if not rec:
                rec["error"] = "the call returned without any resolution"
        except _Stop:
            pass
        except Exception as ex:  # raised before the first resolution
            if "out" not in rec:
                rec["error"] = f"{type(ex).__name__}: {str(ex)[:200]}"
        finally:
            Resolver.resolve = orig
        if "resolver" in rec:
            rec["fn"] = self.by_resolver.get(id(rec["resolver"]), "?")
        return rec

    def all_functions(self):
        """id(resolver) -> name for EVERY plum Function alive in the process (also those that are not in
        cola's dispatcher registry, e.g. plum's own parametric helpers), for naming nested resolutions"""
        import gc
        out = {}
        for o in gc.get_objects():
            try:
                if isinstance(o, self.plum.Function):
                    out[id(o._resolver)] = getattr(o, "__name__", None) or getattr(o, "_f", None) and o._f.__name__ or "?"
            except Exception:  # noqa: BLE001  (objects with broken __class__ / weak proxies)
                continue
        return out

    def record_all(self, thunk, other_names):
        """Run thunk() TO COMPLETION (rule bodies execute, nothing is aborted) with plum's
        `Resolver.resolve` wrapped so that EVERY resolution of the call — the first one and all nested
        ones made by the selected rules — is recorded.  plum's per-function cache is switched off for
        the duration (a cache hit would skip the resolver and hide a resolution).
        -> (records, exception of the body or None); a record is dict(fn | other, key | key_err, out,
        classes)."""
        recs = []
        Resolver = self.Resolver
        orig = Resolver.resolve
        plum = self.plum

        def patched(rs, target):
            r = {}
            name = self.by_resolver.get(id(rs))
            if name is None:
                r["other"] = other_names.get(id(rs), "?")
            elif not isinstance(target, tuple):
                r["other"] = name + " (resolved by signature, not by arguments)"
            else:
                r["fn"] = name
                r["classes"] = [f"{type(v).__module__}.{type(v).__qualname__}" for v in target]
                # class ids and condition bits NOW, before the selected rule can touch the arguments
                try:
                    r["key"], r["key_err"] = self.key_of({"fn": name, "args": target})
                except Exception as ex:  # noqa: BLE001  (a condition that raises on these arguments)
                    r["key"], r["key_err"] = None, f"condition raised {type(ex).__name__}: {str(ex)[:120]}"
            recs.append(r)
            try:
                sig = orig(rs, target)
            except plum.AmbiguousLookupError as ex:
                r["out"] = ("A", str(ex)[:600])
                raise
            except plum.NotFoundLookupError as ex:
                r["out"] = ("N", str(ex)[:600])
                raise
            r["out"] = ("U", next(i for i, s in enumerate(rs.signatures) if s is sig))
            return sig

        saved = {}
        for name, fn in self.m.functions.items():
            f = fn["function"]
            saved[name] = f._cache
            f._cache = _NoCache()
        Resolver.resolve = patched
        err = None
        try:
            thunk()
        except Exception as ex:  # noqa: BLE001  (raised by a rule body: not C04's business, but counted)
            err = ex
        finally:
            Resolver.resolve = orig
            for name, fn in self.m.functions.items():
                fn["function"]._cache = saved[name]
        return recs, err

    def class_id(self, c):
        """id of a runtime class in the class table.  A runtime class that is ANOTHER parametrisation of a
        @parametric kind than the representative of the table (e.g. `Product[Dense, Diagonal]` built inside a
        rule body; the table has `Product[Dense, Dense]`) is mapped to the representative, AFTER checking the
        assumption that makes this exact: it has the same superclasses as the representative among all classes
        that can occur as hints (every class of the table that is not itself a concrete parametrisation; no
        registered hint or clause pattern is one — checked once in `hint_ids`).  The model's `sigMatch` reads
        an argument only through those bits, so the model's answer for the representative IS its answer for
        this class.  -> (id, None) | (None, reason)"""
        m = self.m
        if c in m.cid:
            return m.cid[c], None
        if c not in self.canon:
            self.canon[c] = self._canonicalise(c)
        return self.canon[c]

    def hint_ids(self):
        m = self.m
        ids = set()
        for fn in m.functions.values():
            for s in fn["sigs"]:
                for h in s["tys"] + ([s["va"]] if s["va"] is not None else []):
                    ids.update(h)
            for cl in fn["clauses"]:
                for p in cl["pats"]:
                    ids.update(p)
        bad = [m.class_names[i] for i in ids if getattr(m.classes[i], "_concrete", False)]
        if bad:
            raise RuntimeError(f"a registered hint is a concrete parametrisation {bad}: parametrisations of a kind can no longer be identified")
        return ids

    def _canonicalise(self, c):
        m = self.m
        name = f"{c.__module__}.{c.__qualname__}"
        if not (getattr(c, "_parametric", False) and getattr(c, "_concrete", False)):
            return None, f"argument class {name} outside the class table"
        wrapper = next((b for b in c.__mro__[1:] if getattr(b, "_parametric", False) and not getattr(b, "_concrete", False)), None)
        rep = next((k for k in m.kinds if k["hint"] is wrapper), None)
        if rep is None:
            return None, f"argument class {name}: no kind of the class table is its @parametric wrapper"
        rid = m.cid[rep["cls"]]
        for j, b in enumerate(m.classes):
            if getattr(b, "_concrete", False):
                continue  # never a hint (hint_ids)
            sub = True if b is typing_Any else issubclass(c, b)
            if sub != m.sub[rid][j]:
                return None, (f"argument class {name} and the representative {m.class_names[rid]} of its kind differ in "
                              f"issubclass(·, {m.class_names[j]})")
        return rid, None

    def key_of(self, rec):
        """(class ids, condition bits) of the intercepted arguments"""
        m = self.m
        fn = m.functions[rec["fn"]]
        args = rec["args"]
        ids = []
        for v in args:
            i, err = self.class_id(type(v))
            if err:
                return None, err
            ids.append(i)
        bits = 0
        for c in fn["conds"]:
            s = fn["live"][c["sig"]]
            ok = (len(s.types) == len(args) or (len(s.types) < len(args) and s.has_varargs)) and \
                all(self.bearable(v, t) for v, t in zip(args, s.expand_varargs(len(args))))
            if ok and s.condition(*args):
                bits |= 1 << fn["sigs"][c["sig"]]["cond"]
        return (tuple(ids), bits), None


def variants(D, m, kind):
    """instances of one operator kind that steer the conditions: the five annotation states of
    the property statement (none, SelfAdjoint, PSD, Stiefel, Unitary) through cola's wrappers,
    plus states forced by overwriting `annotations` where the kind fixes them itself (Identity is
    always Unitary+PSD ...), plus a Product with non-square factors.  -> list of (tag, instance)"""
    import cola
    import numpy as np
    out = []
    bases = [("", kind["inst"])]
    if kind["name"] == "Product":
        from cola.ops import Dense, Product
        bases.append(("nonsquare-factors ", Product(Dense(np.ones((3, 2))), Dense(np.ones((2, 3))))))
    for tag, inst in bases:
        out.append((tag + "as-built", inst, False))
        for a in ANNOTATIONS:
            A = getattr(cola, a)
            try:
                out.append((tag + f"cola.{a}(A)", A(inst), False))
            except Exception:
                o = copy.copy(inst)
                o.annotations = set(inst.annotations) | {A}
                out.append((tag + f"annotations|={{{a}}} (forced)", o, True))
        o = copy.copy(inst)
        o.annotations = set()
        out.append((tag + "annotations={} (forced)", o, True))
        o = copy.copy(inst)
        o.annotations = {cola.Unitary, cola.PSD}
        out.append((tag + "annotations={Unitary,PSD} (forced)", o, True))
    return out


def describe(m, fn, ids):
    return [m.class_names[i].split(".")[-1] if "[" not in m.class_names[i] else m.class_names[i].split("[")[0].split(".")[-1] + "[…]"
            for i in ids]


# ------------------------------------------------------------------------------------------
def call_sites(D, m):
    """every public form item × steering variant: yields (form, item, lattice tuples of the item, args, variant tag,
    forced).  Shared by the first-resolution correspondence (c) and the nested-resolution stream (c')."""
    kinds = {k["name"]: k for k in m.kinds}
    var_cache = {}
    for fo in m.forms:
        fn = m.functions[fo["fn"]]
        for it in fo["items"]:
            vals = [m.dom_inst[(d, lab)] for d, lab in zip(fo["doms"], it["labels"])]
            need = {fn["tuples"][ti] for ti in it["tuples"]}
            # positions that hold an operator kind, steered only when several condition states exist
            vsets = []
            for d, lab, v in zip(fo["doms"], it["labels"], vals):
                if len(need) > 1 and lab in kinds and d in ("K", "KARR", "SMUL", "NYS"):
                    if lab not in var_cache:
                        var_cache[lab] = variants(D, m, kinds[lab])
                    vsets.append(var_cache[lab])
                else:
                    vsets.append([("", v, False)])
            for combo in itertools.product(*vsets):
                yield (fo, it, need, [c[1] for c in combo], " ".join(c[0] for c in combo if c[0]),
                       any(c[2] for c in combo))


def correspondence(ctx, D, m, lean, stats):
    """(c): every public form item × steering variants"""
    R = Real(D, m)
    mismatches, failures, errors = [], [], []
    covered = {name: set() for name in m.functions}
    samples = []
    for fo, it, need, args, tag, forced in call_sites(D, m):
        fn = m.functions[fo["fn"]]
        rec = R.intercept(lambda: fo["call"](*args))
        stats["calls"] += 1
        where = {"form": fo["name"], "labels": it["labels"], "variant": tag}
        if "error" in rec and "out" not in rec:
            errors.append(dict(where, error=rec["error"]))
            continue
        if rec["fn"] != fo["fn"]:
            mismatches.append(dict(where, why=f"first resolution was {rec['fn']}, expected {fo['fn']}"))
            continue
        key, err = R.key_of(rec)
        if err:
            mismatches.append(dict(where, why=err))
            continue
        if key not in need:
            mismatches.append(dict(where, why=f"intercepted tuple {key} is not among the lattice tuples {sorted(need)} of this call form"))
            continue
        lo = lean[fo["fn"]].get(key)
        if lo is None:
            mismatches.append(dict(where, why=f"tuple {key} missing from the Lean lattice"))
            continue
        (lout, nmatch, excl) = lo
        real = rec["out"]
        real_c = (real[0], real[1] if real[0] == "U" else None)
        stats["evaluations"] += 1
        if nmatch >= 2:
            stats["nontrivial"].add((fo["fn"], key))
        if not forced:
            stats["natural"].add((fo["fn"], key))
        covered[fo["fn"]].add(key)
        if real_c != lout:
            mismatches.append(dict(where, why=f"real resolver {real_c} vs Lean model {lout}", tuple=[list(key[0]), key[1]]))
        if real[0] != "U":
            failures.append(dict(where, fn=fo["fn"], key=key, outcome=real[0], message=real[1][:600], forced=forced))
        elif len(samples) < 400 and nmatch >= 2 and stats["calls"] % 37 == 0:
            samples.append({"call": fo["name"], "classes": describe(m, fn, key[0]), "conds": key[1],
                            "selected": fn["sigs"][real[1]]["impl"], "signature": fn["sigs"][real[1]]["repr"]})
    uncovered = []
    for name, fn in m.functions.items():
        for t in fn["tuples"]:
            if t not in covered[name]:
                uncovered.append({"fn": name, "tuple": [list(t[0]), t[1]], "classes": describe(m, fn, t[0])})
    return mismatches, failures, errors, uncovered, samples


# ------------------------------------------------------------------------------------------
# (c') nested resolutions: the same calls run to completion, every resolution recorded
# ------------------------------------------------------------------------------------------
CHEAP_FIELDS = (("max_iters", 4), ("max_iter", 4), ("bs", 3))


def cheap(a):
    """An Algorithm argument with its iteration budget cut down (same class, so the same dispatch tuples; rule
    selection never looks at these fields): with the defaults (Hutch: 10000 x 100 probes through a 1000-step
    Arnoldi) a handful of bodies would take minutes on 3x3 operators."""
    import dataclasses
    from cola.linalg.algorithm_base import Algorithm
    if isinstance(a, Algorithm) and dataclasses.is_dataclass(a):
        ch = {f.name: min(getattr(a, f.name), cap) for f in dataclasses.fields(a) for nm, cap in CHEAP_FIELDS
              if f.name == nm and isinstance(getattr(a, f.name), int)}
        if ch:
            return dataclasses.replace(a, **ch)
    return a


_NS = {}


class _AbsentFinder:
    """answers `import jax` / `import torch` (not installed) at once"""

    def __init__(self, names):
        self.names = names

    def find_spec(self, name, path=None, target=None):
        if name.split(".")[0] in self.names:
            raise ModuleNotFoundError(f"No module named '{name}'", name=name)
        return None


ALG_DOMS = ("INV", "PINV", "LOG", "TRACE", "UNARY", "EIG", "SVD")


def exc_site(err):
    """where a body exception was raised: `file:line function` of the innermost frame that lies in cola (or, when no
    frame does, of the innermost frame at all), path shortened"""
    tb, frames = err.__traceback__, []
    while tb is not None:
        c = tb.tb_frame.f_code
        frames.append((c.co_filename, tb.tb_lineno, c.co_name))
        tb = tb.tb_next
    incola = [f for f in frames if os.sep + "cola" + os.sep in f[0] and "site-packages" not in f[0]]
    f = (incola or frames or [("?", 0, "?")])[-1]
    fn = f[0].split(os.sep + "cola" + os.sep)[-1] if incola else os.path.basename(f[0])
    how = "outside-cola"
    if incola:
        import linecache
        line = linecache.getline(f[0], f[1]).strip()
        innermost = frames[-1] == f
        how = "assert" if innermost and line.startswith("assert") else "raise" if innermost and line.startswith("raise") else "call"
    return f"{fn}:{f[1]} {f[2]}", how


REFUSAL_RETRY = ("only valid for PSD", "only valid for SelfAdjoint")


def annotated(a):
    """the operator with PSD and SelfAdjoint declared (same class): used to RE-RUN a call whose selected rule refused the
    as-built instance with `assert A.isa(PSD | SelfAdjoint)`, so that the body behind the assertion is observed too"""
    import cola
    from cola.ops import LinearOperator
    if not isinstance(a, LinearOperator):
        return a
    o = copy.copy(a)
    o.annotations = set(a.annotations) | {cola.PSD, cola.SelfAdjoint}
    return o


def _nested_worker(w):
    """calls number w, w+W, w+2W, ... of `call_sites`, each run to completion; -> aggregated observations"""
    import importlib.util
    import warnings
    warnings.simplefilter("ignore")
    # cola.backends.get_library_fns tries `import jax` / `import torch` on every operator construction; a failing
    # import searches sys.path each time (a third of this stream's time).  Same ImportError, no search.  (Round 5: a
    # finder, not `sys.modules[lib] = None` — scipy's array-API layer reads `sys.modules["jax"].Array` when the key exists,
    # which made BlockDiag.to_dense fail inside this stream only.)
    absent = tuple(lib for lib in ("jax", "torch") if lib not in sys.modules and importlib.util.find_spec(lib) is None)
    if absent and not any(isinstance(f, _AbsentFinder) for f in sys.meta_path):
        sys.meta_path.insert(0, _AbsentFinder(absent))
    D, m, W, only = _NS["D"], _NS["m"], _NS["W"], _NS.get("only")
    limit_blas_threads()
    R = Real(D, m)
    other = R.all_functions()
    obs, unkeyed = {}, {}
    outside, errs, err_samples, err_detail, retry_err = {}, {}, {}, {}, {}
    calls = res = nested = retries = 0
    t_start, c_start = time.time(), time.process_time()
    for idx, (fo, it, _need, args, tag, _forced) in enumerate(call_sites(D, m)):
        if idx % W != w or (only is not None and idx not in only):
            continue
        args = [cheap(a) for a in args]
        recs, err = R.record_all(lambda: fo["call"](*args), other)
        calls += 1
        res += len(recs)
        outer = (idx, fo["name"], it["labels"], tag)
        retry_recs = []
        if err is not None:
            en = type(err).__name__
            errs[en] = errs.get(en, 0) + 1
            err_samples.setdefault(en, f"{fo['name']} {it['labels']} {tag}: {str(err)[:160]}")
            site, how = exc_site(err)
            kl = tuple(lab for d, lab in zip(fo["doms"], it["labels"]) if d in ("K", "KARR", "SMUL", "NYS"))
            al = tuple(lab for d, lab in zip(fo["doms"], it["labels"]) if d in ALG_DOMS)
            e = err_detail.setdefault((fo["fn"], kl, al, en, site, how), {"n": 0, "msg": str(err)[:200], "call": f"{fo['name']} {it['labels']} {tag}"})
            e["n"] += 1
            if how == "assert" and any(t in str(err) for t in REFUSAL_RETRY):
                # the rule refuses an operator that is not declared PSD / SelfAdjoint: once more with the declaration, so that
                # the rest of the body (and its dispatch) is observed; judged like every other call of the stream
                args2 = [annotated(a) for a in args]
                recs2, err2 = R.record_all(lambda: fo["call"](*args2), other)
                retries += 1
                res += len(recs2)
                retry_recs = [(r, (idx, fo["name"], it["labels"], (tag + " [re-run with annotations|={PSD,SelfAdjoint}]").strip())) for r in recs2]
                if err2 is not None:
                    site2, how2 = exc_site(err2)
                    e2 = retry_err.setdefault((fo["fn"], kl, al, type(err2).__name__, site2, how2),
                                              {"n": 0, "msg": str(err2)[:200], "call": f"{fo['name']} {it['labels']} {tag} [re-run]"})
                    e2["n"] += 1
        for i, (r, outer) in enumerate([(r, outer) for r in recs] + retry_recs):
            if "other" in r:
                outside[r["other"]] = outside.get(r["other"], 0) + 1
                continue
            i = i if i < len(recs) else i - len(recs)
            nested += i > 0
            out = (r["out"][0], r["out"][1] if r["out"][0] == "U" else None) if "out" in r else ("?", None)
            if r["key"] is None:
                e = unkeyed.setdefault((r["fn"], tuple(r["classes"]), r["key_err"]),
                                       {"n": 0, "nested": 0, "outer": outer, "outs": set(), "pos": i})
            else:
                e = obs.setdefault((r["fn"], r["key"]), {"n": 0, "nested": 0, "outer": outer, "outs": set(), "pos": i,
                                                         "classes": r["classes"], "msg": None})
            e["n"] += 1
            e["nested"] += i > 0
            e["outs"].add(out)
            if out[0] in "AN" and e.get("msg") is None:
                e["msg"] = r["out"][1]
    changed = [name for name, fn in m.functions.items()
               if len(fn["function"]._resolver.signatures) != len(fn["live"])
               or any(a is not b for a, b in zip(fn["function"]._resolver.signatures, fn["live"]))]
    canon = {f"{c.__module__}.{c.__qualname__}": (m.class_names[v[0]] if v[0] is not None else None) for c, v in R.canon.items()}
    return {"obs": obs, "unkeyed": unkeyed, "outside": outside, "errs": errs, "err_samples": err_samples,
            "err_detail": err_detail, "retry_err": retry_err, "retries": retries, "calls": calls, "res": res, "nested": nested, "registry_changed": changed, "canon": canon,
            "wall": round(time.time() - t_start, 1), "cpu": round(time.process_time() - c_start, 1)}


def nested_stream(D, m, only=None):
    """(c'): every call of the correspondence once more, UNABORTED (the selected rule bodies run), with every
    resolution recorded.  Forked workers (the instances are shared copy-on-write; whatever a body does to them
    stays in its worker).  -> merged observations"""
    import multiprocessing
    W = 1 if only is not None else max(1, min(16, os.cpu_count() or 1))
    _NS.update(D=D, m=m, W=W, only=only)
    if W == 1:
        parts = [_nested_worker(0)]
    else:
        with multiprocessing.get_context("fork").Pool(W) as pool:
            parts = pool.map(_nested_worker, range(W), chunksize=1)
    tot = {"obs": {}, "unkeyed": {}, "outside": {}, "errs": {}, "err_samples": {}, "err_detail": {}, "retry_err": {}, "retries": 0, "calls": 0, "res": 0, "nested": 0,
           "registry_changed": set(), "canon": {}, "workers": W}
    for p in parts:
        for k in ("calls", "res", "nested", "retries"):
            tot[k] += p[k]
        for k in ("outside", "errs"):
            for a, b in p[k].items():
                tot[k][a] = tot[k].get(a, 0) + b
        for a, b in p["err_samples"].items():
            tot["err_samples"].setdefault(a, b)
        for k in ("err_detail", "retry_err"):
            for a, b in p[k].items():
                t = tot[k].setdefault(a, dict(b, n=0))
                t["n"] += b["n"]
        tot.setdefault("worker_wall_cpu", []).append((p["wall"], p["cpu"]))
        tot["registry_changed"].update(p["registry_changed"])
        tot["canon"].update(p["canon"])
        for k in ("obs", "unkeyed"):
            for key, e in p[k].items():
                t = tot[k].get(key)
                if t is None:
                    tot[k][key] = e
                else:
                    t["n"] += e["n"]
                    t["nested"] += e["nested"]
                    t["outs"] |= e["outs"]
                    if e["outer"][0] < t["outer"][0]:   # deterministic: the first call that shows it
                        t["outer"], t["pos"] = e["outer"], e["pos"]
                        if "classes" in e:
                            t["classes"] = e["classes"]
                    if t.get("msg") is None:
                        t["msg"] = e.get("msg")
    return tot


EXC_CATEGORIES = {
    "refused": "refused by cola on purpose: an explicit `assert` / `raise` statement of the rule body (annotation or argument "
               "precondition, unimplemented case) — the body ends there for this input in every run, nothing is left unobserved",
    "stub": "harness artefact: a stub instance lacks an attribute the class's own methods need",
    "below": "raised below the rule body (numpy / scipy / backend function called by cola) on the lattice's 3x3 instance: "
             "numerical failure or an input the backend does not accept — the rest of that body's dispatch is unobserved",
    "other": "raised inside cola by an expression (not an assert / raise statement) — the rest of that body's dispatch is unobserved",
}


def exc_category(en, site, how, msg, kinds, stubs):
    if en == "AttributeError" and any(f"'{k}' object has no attribute" in msg for k in stubs) or \
            ("Primary MatMul call failed" in msg and any(k in stubs for k in kinds)):
        return "stub"
    if how in ("assert", "raise"):
        return "refused"
    if how == "outside-cola" or site.startswith("backends" + os.sep):
        return "below"
    return "below" if en in ("LinAlgError", ) else "other"


def judge_exceptions(m, tot):
    """(iii) of the round-5 item: every body exception of stream (c') classified by (function, kinds, exception class, raising
    site) and judged: on purpose / harness artefact / unobserved remainder."""
    stubs = [k["name"] for k in m.kinds if k["stub"]]
    out = {}
    for which in ("err_detail", "retry_err"):
        agg = {}
        for (fn, kl, al, en, site, how), e in tot[which].items():
            cat = exc_category(en, site, how, e["msg"], kl, stubs)
            a = agg.setdefault((cat, en, site), {"n": 0, "functions": set(), "kinds": set(), "algorithms": set(), "message": e["msg"][:140],
                                                 "sample_call": e["call"][:140], "raised_by": how})
            a["n"] += e["n"]
            a["functions"].add(fn)
            a["kinds"].update(kl)
            a["algorithms"].update(al)
        rows = [{"category": k[0], "exception": k[1], "site": k[2], "calls": a["n"], "raised_by": a["raised_by"],
                 "functions": sorted(a["functions"]), "kinds": sorted(a["kinds"]) if len(a["kinds"]) <= 8 else f"{len(a['kinds'])} kinds",
                 "algorithms": sorted(a["algorithms"]), "message": a["message"], "sample_call": a["sample_call"]}
                for k, a in sorted(agg.items(), key=lambda kv: (-kv[1]["n"], kv[0]))]
        by_cat = {}
        for r in rows:
            by_cat[r["category"]] = by_cat.get(r["category"], 0) + r["calls"]
        out[which] = (rows, by_cat)
    rows, by_cat = out["err_detail"]
    rrows, rby = out["retry_err"]
    total = sum(by_cat.values())
    refused = by_cat.get("refused", 0)
    # a refused call that was re-run with the declaration and then ran to completion (or was refused again) leaves nothing unobserved
    unobserved = total - refused + sum(v for k, v in rby.items() if k != "refused")
    return {
        "calls_ending_in_body_exception": total,
        "share_of_calls": round(total / max(tot["calls"], 1), 4),
        "by_category": by_cat,
        "categories": EXC_CATEGORIES,
        "refused_calls_re_run_with_PSD_SelfAdjoint_declared": tot["retries"],
        "re_runs_ending_in_exception_by_category": rby,
        "calls_with_unobserved_remainder": unobserved,
        "unobserved_share": round(unobserved / max(tot["calls"], 1), 4),
        "classes": rows[:60],
        "re_run_classes": rrows[:20],
    }


def _short(c):
    """`cola.ops.operators.Product[cola.ops.operators.Dense, ...]` -> `Product[…]`"""
    return c.split("[")[0].split(".")[-1] + ("[…]" if "[" in c else "")


def judge_nested(m, lean, tot):
    """-> (list of findings, summary for the evidence).  A finding is a (function, argument tuple) that reached
    plum's resolver during a public call of the lattice and
      * is not a tuple of the function's lattice (the lattice under-approximates what reaches the resolver), or
      * has an argument class outside the class table, or
      * is resolved by the real resolver differently from the Lean model's answer for that tuple."""
    findings = []
    in_lat = 0
    for (fname, key), e in sorted(tot["obs"].items(), key=lambda kv: kv[1]["outer"][0]):
        lo = lean.get(fname, {}).get(key)
        base = {"form": e["outer"][1], "labels": e["outer"][2], "variant": e["outer"][3],
                "nested": {"fn": fname, "tuple": [list(key[0]), key[1]], "classes": e["classes"], "position_in_call": e["pos"],
                           "real_outcomes": sorted(f"{o[0]} {o[1]}" if o[0] == "U" else o[0] for o in e["outs"]),
                           "times_observed": e["n"]}}
        if lo is None:
            findings.append(dict(base, kind="not-in-lattice", lookup_error=e.get("msg"),
                                 what=(f"during `{e['outer'][1]}` on {e['outer'][2]} {e['outer'][3]} the dispatched function `{fname}` is resolved on "
                                       f"({', '.join(_short(c) for c in e['classes'])}; condition bits {key[1]}), which is not a tuple of the "
                                       f"lattice of `{fname}`: the C04 theorems say nothing about it")))
            continue
        in_lat += 1
        if e["outs"] != {lo[0]}:
            findings.append(dict(base, kind="real-vs-model", model=f"{lo[0][0]} {lo[0][1]}", lookup_error=e.get("msg"),
                                 what=f"nested resolution of `{fname}`: the real resolver answers {sorted(map(str, e['outs']))}, the Lean model {lo[0]}"))
    for (fname, classes, err), e in sorted(tot["unkeyed"].items(), key=lambda kv: kv[1]["outer"][0]):
        findings.append({"form": e["outer"][1], "labels": e["outer"][2], "variant": e["outer"][3], "kind": "class-outside-table",
                         "nested": {"fn": fname, "tuple": None, "classes": list(classes), "position_in_call": e["pos"],
                                    "real_outcomes": sorted(f"{o[0]} {o[1]}" if o[0] == "U" else o[0] for o in e["outs"]),
                                    "times_observed": e["n"]},
                         "what": f"during `{e['outer'][1]}` on {e['outer'][2]} {e['outer'][3]} `{fname}` is resolved on ({', '.join(_short(c) for c in classes)}): {err}"})
    nested_keys = {k for k, e in tot["obs"].items() if e["nested"]}
    summary = {
        "calls_run_to_completion": tot["calls"],
        "resolutions_observed": tot["res"],
        "nested_resolutions_observed": tot["nested"],
        "distinct_tuples_observed": len(tot["obs"]) + len(tot["unkeyed"]),
        "distinct_nested_tuples": len(nested_keys) + sum(1 for e in tot["unkeyed"].values() if e["nested"]),
        "distinct_nested_tuples_in_lattice": sum(1 for k in nested_keys if k[1] in lean.get(k[0], {})),
        "nested_by_function": {f: sum(1 for k in nested_keys if k[0] == f) for f in sorted({k[0] for k in nested_keys})},
        "not_in_lattice": [f["nested"] | {"outer": [f["form"], f["labels"], f["variant"]], "kind": f["kind"]}
                           for f in findings if f["kind"] != "real-vs-model"][:50],
        "real_vs_model_mismatches": sum(1 for f in findings if f["kind"] == "real-vs-model"),
        "nested_outside_registry": dict(sorted(tot["outside"].items())),
        "other_parametrisations_identified_with_representative": len([v for v in tot["canon"].values() if v]),
        "other_parametrisations_sample": dict(sorted((k, v) for k, v in tot["canon"].items() if v)[:8]),
        "body_exceptions": dict(sorted(tot["errs"].items(), key=lambda kv: -kv[1])),
        "body_exception_samples": tot["err_samples"],
        "body_exceptions_judged": (je := judge_exceptions(m, tot)),
        "calls_ending_in_body_exception": je["calls_ending_in_body_exception"],
        "unobserved_share": je["unobserved_share"],
        "workers": tot["workers"],
    }
    return findings, summary


def report_nested(ctx, findings, cap=6):
    """one VIOLATION per distinct (function, nested class tuple), at most `cap` (the evidence has the full count)"""
    for f in findings[:cap]:
        common.violation(ctx, dict(f, findings_of_this_kind=len(findings)))
    return min(len(findings), cap)


# ------------------------------------------------------------------------------------------
# (c'') cached resolutions: plum's method cache ON and never cleared between the calls
# ------------------------------------------------------------------------------------------
def _fresh(a):
    """a DIFFERENT instance of the same class (same annotations / fields): the second pass of the cached stream calls
    with these, so a cache hit is a resolution for another object than the one that filled the cache"""
    try:
        b = copy.copy(a)
    except Exception:  # noqa: BLE001
        return a
    return b if type(b) is type(a) else a


def _cached_worker(w):
    """All call sites of the functions number w, w+W, ... (sorted names), in the order of `call_sites`, twice (pass 1:
    the instances of the lattice; pass 2: fresh copies), with `Function._resolve_method_with_cache` — the entry of every
    dispatched call — wrapped: the OUTER call's selected signature is recorded (from the cache entry on a hit, from
    `Resolver.resolve` on a miss; plum's own code does the caching) and the call is aborted before the rule runs.  The
    caches of this process are cleared ONCE, before the first call."""
    import warnings
    warnings.simplefilter("ignore")
    D, m, W, lean = _NS["D"], _NS["m"], _NS["W"], _NS["lean"]
    R = Real(D, m)
    plum = R.plum
    Function, Resolver = plum.Function, R.Resolver
    mine = {n for i, n in enumerate(sorted(m.functions)) if i % W == w}
    by_function = {id(fn["function"]): n for n, fn in m.functions.items()}
    orig_rm, orig_res = Function._resolve_method_with_cache, Resolver.resolve
    R.clear_caches()
    st = {"calls": [0, 0], "hits": [0, 0], "stored": [0, 0], "hits_by_fn": {}, "entries": {}, "cached_with_condition": [],
          "second_differs_from_first": 0, "errors": []}
    findings, first = [], {}
    for pno in (0, 1):
        for idx, (fo, it, _need, args, tag, forced) in enumerate(call_sites(D, m)):
            if fo["fn"] not in mine:
                continue
            if pno == 1:
                args = [_fresh(a) for a in args]
            rec = {}

            def res_patched(rs, target):
                sg = orig_res(rs, target)
                if "sig" not in rec and rec.get("resolver") is rs:
                    rec["sig"] = sg
                return sg

            def rm_patched(fself, args=None, types=None):
                if rec:
                    return orig_rm(fself, args=args, types=types)
                rec["fn"] = by_function.get(id(fself), "?")
                rec["args"], rec["resolver"] = args, fself._resolver
                if args is None:
                    rec["error"] = "entered with types, not arguments"
                    raise _Stop()
                if fself._pending:
                    fself._resolve_pending_registrations()
                ty = tuple(map(type, args))
                rec["hit"], rec["stored"] = ty in fself._cache, False
                try:
                    method = orig_rm(fself, args=args)[0]     # plum's own lookup + caching
                    if rec["hit"]:
                        ent = fself._cache[ty]
                        rec["sig"] = ent[2]
                        if ent[0] is not method:
                            rec["error"] = "the cache entry is not what the cached lookup returned"
                    rec["stored"] = (not rec["hit"]) and ty in fself._cache
                    sg = rec.get("sig")
                    rec["out"] = ("U", next((i for i, s in enumerate(fself._resolver.signatures) if s is sg), None))
                    if sg is not None and sg.implementation is not method:
                        rec["error"] = "selected signature and returned method differ"
                except plum.AmbiguousLookupError as ex:
                    rec["out"] = ("A", str(ex)[:300])
                except plum.NotFoundLookupError as ex:
                    rec["out"] = ("N", str(ex)[:300])
                raise _Stop()

            Function._resolve_method_with_cache, Resolver.resolve = rm_patched, res_patched
            try:
                fo["call"](*args)
            except _Stop:
                pass
            except Exception as ex:  # noqa: BLE001  (raised before any dispatch)
                rec.setdefault("error", f"{type(ex).__name__}: {str(ex)[:160]}")
            finally:
                Function._resolve_method_with_cache, Resolver.resolve = orig_rm, orig_res
            st["calls"][pno] += 1
            where = {"form": fo["name"], "labels": it["labels"], "variant": tag, "pass": pno + 1, "call_index": idx}
            if "out" not in rec or rec.get("fn") != fo["fn"] or "error" in rec:
                st["errors"].append(dict(where, error=rec.get("error") or f"first dispatched function was {rec.get('fn')}"))
                continue
            st["hits"][pno] += rec["hit"]
            st["stored"][pno] += rec["stored"]
            if rec["hit"]:
                st["hits_by_fn"][fo["fn"]] = st["hits_by_fn"].get(fo["fn"], 0) + 1
            key, err = R.key_of(rec)
            if err:
                st["errors"].append(dict(where, error=err))
                continue
            lo = lean[fo["fn"]].get(key)
            real = (rec["out"][0], rec["out"][1] if rec["out"][0] == "U" else None)
            if pno == 0:
                first[idx] = real
            elif first.get(idx) != real:
                st["second_differs_from_first"] += 1
            if lo is None or real != lo[0]:
                findings.append(dict(where, kind="cached-vs-model", cached=True, cache_hit=rec["hit"], forced=forced,
                                     function=fo["fn"], tuple=[list(key[0]), key[1]],
                                     classes=describe(m, m.functions[fo["fn"]], key[0]),
                                     real=f"{real[0]} {real[1]}", first_pass=str(first.get(idx)),
                                     model=None if lo is None else f"{lo[0][0]} {lo[0][1]}",
                                     what=(f"with plum's method cache left on (not cleared since the start of the stream), `{fo['name']}` on "
                                           f"{it['labels']} {tag} selects {real} ({'cache hit' if rec['hit'] else 'cache miss'}); the model "
                                           f"resolver, which the C04 theorems are about, answers {None if lo is None else lo[0]} on this tuple")))
    for n in mine:
        f = m.functions[n]["function"]
        st["entries"][n] = len(f._cache)
        if f._cache and any(s.condition is not None for s in f._resolver.signatures):
            st["cached_with_condition"].append(n)
    R.clear_caches()
    return st, findings


def cached_stream(D, m, lean):
    """(c''): -> (findings, summary).  Workers are split BY FUNCTION (a function's cache only sees that function's calls,
    so every function sees exactly the sequence of calls it would see in one process)."""
    import multiprocessing
    W = max(1, min(16, os.cpu_count() or 1, len(m.functions)))
    _NS.update(D=D, m=m, W=W, lean=lean)
    if W == 1:
        parts = [_cached_worker(0)]
    else:
        with multiprocessing.get_context("fork").Pool(W) as pool:
            parts = pool.map(_cached_worker, range(W), chunksize=1)
    findings = sorted((f for _, fs in parts for f in fs), key=lambda f: (f["pass"], f["call_index"]))
    tot = {"calls": [0, 0], "hits": [0, 0], "stored": [0, 0]}
    entries, hits_by_fn, cwc, errors, differs = {}, {}, [], [], 0
    for st, _ in parts:
        for k in tot:
            tot[k] = [a + b for a, b in zip(tot[k], st[k])]
        entries.update(st["entries"])
        hits_by_fn.update(st["hits_by_fn"])
        cwc += st["cached_with_condition"]
        errors += st["errors"]
        differs += st["second_differs_from_first"]
    conditional = sorted(n for n, fn in m.functions.items() if fn["conds"])
    unfaithful = sorted(n for n, fn in m.functions.items() if not fn["function"]._resolver.is_faithful)
    summary = {
        "calls_first_pass": tot["calls"][0], "calls_second_pass_fresh_instances": tot["calls"][1],
        "cache_hits_first_pass": tot["hits"][0], "cache_hits_second_pass": tot["hits"][1],
        "entries_stored_first_pass": tot["stored"][0], "entries_stored_second_pass": tot["stored"][1],
        "cache_entries_at_end": dict(sorted((k, v) for k, v in entries.items() if v)),
        "functions_with_a_conditional_rule": conditional,
        "functions_plum_never_caches (resolver not faithful)": unfaithful,
        "conditional_function_with_cache_entries": sorted(cwc),
        "second_pass_selects_another_rule_than_first": differs,
        "cached_vs_model_mismatches": len(findings),
        "calls_not_judged": len(errors), "calls_not_judged_first": errors[:5],
        "workers": W,
    }
    return findings, summary, errors


def real_call(D, m, form_name, labels, variant):
    """(d): the plain public call, nothing patched.  -> (call text, exception or None)"""
    fo = next(f for f in m.forms if f["name"] == form_name)
    kinds = {k["name"]: k for k in m.kinds}
    args = []
    vtags = variant
    for d, lab in zip(fo["doms"], labels):
        v = m.dom_inst[(d, lab)]
        if variant and lab in kinds and d in ("K", "KARR", "SMUL", "NYS"):
            for tag, inst, _ in variants(D, m, kinds[lab]):
                if tag == vtags:
                    v = inst
        args.append(v)
    text = f"{form_name}  with  " + ", ".join(f"{type(a).__module__}.{type(a).__qualname__}" for a in args) + (f"  [{variant}]" if variant else "")
    for fn in m.functions.values():
        fn["function"]._cache.clear()
    try:
        fo["call"](*args)
        return text, None
    except Exception as ex:  # noqa: BLE001
        return text, ex


def clause_of(m, fname, key, outcome):
    fn = m.functions[fname]
    D = sys.modules["dump_rules"]
    for c in fn["clauses"]:
        if D.clause_has(m, c["pats"], key[0]):
            return c["name"], c["what"]
    mir = D.mirror_resolve(m, fn, list(key[0]), key[1])
    impls = "+".join(fn["sigs"][i]["impl"].split(".")[-1] for i in (mir[1] if mir[0] == "A" else []))
    return f"{fname}-{'ambiguous' if outcome == 'A' else 'not-found'}" + (f"-{impls}" if impls else ""), None


def restore_committed_table():
    """The library root imports the C04 modules, so a generated table on which the C04 theorems
    fail (a defective or mutated tree) would break `lake build ColaVerif` and with it the Lean gate
    of every other property.  After such a run put the committed copy back (it is regenerated by
    the next run of this check anyway); the failure itself has been reported above."""
    for rel in GENERATED:
        rc, so, _ = common.sh(["git", "show", "HEAD:" + rel], cwd=common.ROOT)
        path = os.path.join(common.ROOT, rel)
        if rc == 0 and so and so != open(path).read():
            with open(path, "w") as f:
                f.write(so)
            print(f"note: C04 theorems fail on the regenerated tables; restored the committed {rel} "
                  "so that the rest of the library keeps building", flush=True)


# ------------------------------------------------------------------------------------------
def run(ctx):
    t0 = time.time()
    broken = []
    limit_blas_threads()
    # (a) translator on the current working tree of /repo, in a fresh interpreter
    rc, so, se = common.sh(["/venv/bin/python", TRANSLATOR, "--quiet"], cwd=common.ROOT, timeout=900)
    if rc != 0:
        broken.append({"stage": "translator", "detail": (so + se)[-3000:]})
        common.violation(ctx, {"broken": "translator dump_rules.py failed on the current tree: the rule table cannot be regenerated",
                               "detail": (so + se)[-3000:]}, no_input=True)
        common.write_evidence(ctx, None, {"evaluations": 0, "distinct_nontrivial": 0, "exhaustive": False, "broken": broken})
        return
    tsum = json.loads(so.strip().split("\n")[-1])
    t_translate = time.time() - t0
    # (a') the regression tables of PartH / PartI, regenerated from /repo's git HISTORY (pre- and post-fix trees extracted
    #      with `git archive`, plum's registration and plum's resolver run on them in fresh interpreters)
    D = load_translator()
    reg = {"available": False}
    try:
        H = D.regression_history()
        reg = {"available": H["available"], "why": H.get("why")}
        if H["available"]:
            reg.update(repository=H["repository"], regenerated_file_changed=D.emit_regression_lean(H), tables={
                fn: {"commit": e["commit"], "file": e["file"], "pre_tree": e["pre"]["sha"][:12], "post_tree": e["post"]["sha"][:12],
                     "rules_pre": len(e["pre"]["sigs"]), "rules_post": len(e["post"]["sigs"]),
                     "real_calls_on_each_tree": e["pre"]["calls"], "distinct_tuples_observed": len(e["pre"]["observed"]),
                     "real_resolver_failures_pre": sum(1 for o in e["pre"]["observed"] if o["out"][0] != "U"),
                     "real_resolver_failures_post": sum(1 for o in e["post"]["observed"] if o["out"][0] != "U")}
                for fn, e in H["tables"].items()})
        else:
            print(f"note: regression tables not regenerated ({H['why']}); the committed PartHTables.lean is used", flush=True)
    except Exception as ex:  # noqa: BLE001  (extraction / historical interpreter failed: machinery, the committed file stays)
        H = {"available": False}
        reg = {"available": False, "why": f"{type(ex).__name__}: {str(ex)[:1500]}"}
        broken.append({"stage": "regression tables: regeneration from /repo's history failed", "detail": reg["why"]})
    t_regr = time.time() - t0 - t_translate
    # (b) Lean gate
    gate, gate_err = None, None
    try:
        gate = common.lean_gate(ctx, MODULE)
        for sub in SUBMODULES:
            g = common.lean_gate(ctx, sub)
            gate["obligations"] += g["obligations"]
            gate["discharged"] += g["discharged"]
            gate["theorems"] = sorted(set(gate["theorems"]) | set(g["theorems"]))
            gate["checker_cmd"] += " && " + g["checker_cmd"]
        if ctx.thorough:
            rc, so, se = common.sh(["lake", "env", "leanchecker"] + PARTS, cwd=common.LEAN_DIR, timeout=3000)
            gate["checker_cmd"] += " && lake env leanchecker " + " ".join(PARTS)
            if rc != 0:
                raise common.LeanGateError("leanchecker rejected the part modules:\n" + (so + se)[-2000:])
    except common.LeanGateError as ex:
        gate_err = str(ex)
        # lean_gate builds the whole library; other modules are edited concurrently.  Only a failure
        # of the C04 modules themselves says something about C04.
        rc, out = common.lake_build([MODULE] + SUBMODULES)
        if rc == 0 and "forbidden tokens" not in gate_err and "leanchecker" not in gate_err:
            raise RuntimeError("the Lean library does not build outside the C04 modules (machinery failure, not a C04 result):\n" + gate_err[-2000:])
        broken.append({"stage": "lean gate", "detail": gate_err[-3000:]})
    t_gate = time.time() - t0 - t_translate - t_regr
    # the model's answer for every tuple (needs only the table and the model, not the theorems)
    rc, out = common.lake_build(["ColaVerif.Gen.RuleTable"])
    if rc != 0:
        raise RuntimeError("generated RuleTable.lean does not compile:\n" + out[-3000:])
    lean, _order = run_lean_driver()
    # (c) correspondence on real instances
    m = D.load()
    if H["available"]:
        reg["post_equals_today"] = D.post_equals_today(H, m)
        drift = {k: v for k, v in reg["post_equals_today"].items() if v is not True}
        if drift:
            # not a C04 failure: the `_fixed` theorems stay true of the repaired commits; they just no longer describe today's rows
            print("note: PartH `_post` tables (the repaired commits) are not today's tables any more: " + json.dumps(drift), flush=True)
    js = json.load(open(LATTICE_JSON))
    active = {n: [c["name"] for c in fn["clauses"]] for n, fn in m.functions.items() if fn["clauses"]}
    if gate_err is not None and active:
        broken[-1].update(hint=("a clause of CLAUSES (dump_rules.py) is ACTIVE again, so `clauses_f` is not `[]` and "
                                "C04_no_recorded_exception fails by design: the failing calls are reported below; recording them as "
                                "an exception needs a deliberate restatement of that theorem"), active_clauses=active)
    if sorted(js["functions"]) != sorted(m.functions):
        raise RuntimeError("/repo changed during the check (set of dispatched functions); re-run")
    for name, fn in m.functions.items():
        if json.loads(json.dumps(fn["sigs"])) != js["functions"][name]["sigs"]:
            raise RuntimeError(f"/repo changed during the check: signatures of {name} differ between the translator run and now; re-run")
        if [[list(a), c] for a, c in fn["tuples"]] != js["functions"][name]["tuples"] or \
                set(lean.get(name, {})) != set(fn["tuples"]):
            raise RuntimeError(f"lattice of {name}: translator run, in-process model and Lean driver differ")
    if ctx.replay:
        rp = json.load(open(ctx.replay))
        if rp.get("cached"):
            cf, _cs, _ce = cached_stream(D, m, lean)
            same = [f for f in cf if (f["form"], f["labels"], f["variant"], f["pass"]) == (rp["form"], rp["labels"], rp.get("variant", ""), rp["pass"])]
            print(json.dumps({"replayed": "the whole cached stream (the finding depends on the calls before it)", "cached_findings_now": len(cf),
                              "the_recorded_one_again": bool(same)}))
            for f in same[:1]:
                common.violation(ctx, dict(f, replay_of=ctx.replay))
        elif "nested" in rp and "form" in rp:
            # the outer call once more, run to completion with every resolution recorded
            only = {i for i, (fo, it, _n, _a, tag, _f) in enumerate(call_sites(D, m))
                    if fo["name"] == rp["form"] and it["labels"] == rp["labels"] and tag == rp.get("variant", "")}
            findings, _ = judge_nested(m, lean, nested_stream(D, m, only=only))
            same = [f for f in findings if f["nested"]["fn"] == rp["nested"]["fn"] and f["nested"]["classes"] == rp["nested"]["classes"]]
            print(json.dumps({"replayed": f"{rp['form']} on {rp['labels']} {rp.get('variant', '')} (run to completion, all resolutions recorded)",
                              "nested_findings_now": len(findings), "the_recorded_one_again": bool(same)}))
            for f in same[:1]:
                common.violation(ctx, dict(f, replay_of=ctx.replay))
        elif "form" in rp:
            text, ex = real_call(D, m, rp["form"], rp["labels"], rp.get("variant", ""))
            print(json.dumps({"replayed": text, "raised": None if ex is None else f"{type(ex).__name__}: {str(ex)[:300]}"}))
            import plum
            if isinstance(ex, (plum.AmbiguousLookupError, plum.NotFoundLookupError)):
                common.violation(ctx, dict(rp, replay_of=ctx.replay))
        else:
            print(json.dumps({"replayed": None, "note": "replay file names no input (broken gate / correspondence)"}))
        return
    stats = {"calls": 0, "evaluations": 0, "nontrivial": set(), "natural": set()}
    mismatches, failures, errors, uncovered, samples = correspondence(ctx, D, m, lean, stats)
    t_corr = time.time() - t0 - t_translate - t_gate - t_regr
    # (c') the same calls run to completion: every nested resolution must be a lattice tuple, resolved as the model says
    tot = nested_stream(D, m)
    nfind, nsummary = judge_nested(m, lean, tot)
    t_nested = time.time() - t0 - t_translate - t_gate - t_corr - t_regr
    # (c'') the same calls with plum's method cache ON and never cleared, twice (second pass: other instances of the same classes)
    cfind, csummary, cerrors = cached_stream(D, m, lean)
    t_cached = time.time() - t0 - t_translate - t_gate - t_corr - t_regr - t_nested
    if cerrors:
        broken.append({"stage": "cached stream: calls that could not be judged", "count": len(cerrors), "first": cerrors[:5]})
    if tot["calls"] != stats["calls"]:
        raise RuntimeError(f"nested stream ran {tot['calls']} calls, the correspondence {stats['calls']}")
    if tot["registry_changed"]:
        broken.append({"stage": "running the rule bodies changed the registry (a body registers rules: the generated table was not the full one)",
                       "functions": sorted(tot["registry_changed"])})
    if mismatches:
        broken.append({"stage": "correspondence", "count": len(mismatches), "first": mismatches[:10]})
    if errors:
        broken.append({"stage": "correspondence: public call failed before any resolution", "count": len(errors), "first": errors[:10]})
    if uncovered:
        broken.append({"stage": "correspondence: lattice tuples no real call reached", "count": len(uncovered), "first": uncovered[:10]})
    # model-side failures the real side did not show (cannot happen when the correspondence holds)
    lean_fail = [(n, k) for n, d in lean.items() for k, (o, _, _) in d.items() if o[0] != "U"]
    # (d) failing inputs: replay every distinct (function, candidate set) as a plain public call
    import plum
    known = common.known_clauses("C04")
    seen = {}
    for f in failures:
        clause, what = clause_of(m, f["fn"], f["key"], f["outcome"])
        if clause in seen:
            seen[clause]["count"] += 1
            if seen[clause]["confirmed"] or f["forced"]:
                continue
        text, ex = real_call(D, m, f["form"], f["labels"], f["variant"])
        confirmed = isinstance(ex, (plum.AmbiguousLookupError, plum.NotFoundLookupError))
        ent = seen.setdefault(clause, {"count": 1, "confirmed": False, "what": what})
        if confirmed and not ent["confirmed"]:
            ent.update(confirmed=True, payload={
                "clause": clause, "function": f["fn"], "form": f["form"], "labels": f["labels"], "variant": f["variant"],
                "classes": describe(m, m.functions[f["fn"]], f["key"][0]), "conditions": f["key"][1],
                "call": text, "exception": type(ex).__name__, "message": str(ex)[:1500],
                "what": what or "rule selection fails on an admitted argument tuple",
                "forced_annotations": f["forced"]})
    reported = 0
    for clause, ent in seen.items():
        if not ent["confirmed"]:
            continue
        if clause in known:
            common.known_finding(ctx, clause, f"{ent['payload']['call']} raises {ent['payload']['exception']} ({ent['count']} lattice calls)")
        else:
            ent["payload"]["failing_calls_in_class"] = ent["count"]
            common.violation(ctx, ent["payload"])
            reported += 1
    reported += report_nested(ctx, nfind)
    for f in cfind[:4]:
        common.violation(ctx, dict(f, findings_of_this_kind=len(cfind)))
        reported += 1
    unconfirmed = [c for c, e in seen.items() if not e["confirmed"]]
    if unconfirmed:
        broken.append({"stage": "real resolver fails inside interception but the plain call does not raise a lookup error", "clauses": unconfirmed})
    if broken and not reported:
        # gate / correspondence broken and no real failing call explains it (a finding that is only
        # recorded in known_findings.json must also be declared in CLAUSES of dump_rules.py)
        common.violation(ctx, {"broken": [b["stage"] for b in broken], "detail": broken, "lean_model_failures": len(lean_fail)}, no_input=True)
    # rules that are never selected anywhere on the lattice (not a C04 defect; reported)
    selected = {n: {o[1] for (o, _, _) in d.values() if o[0] == "U"} for n, d in lean.items()}
    never = [f"{n}: signature {i} ({fn['sigs'][i]['repr']}) @ {fn['sigs'][i]['impl']}" + (" [conditional]" if fn["sigs"][i]["cond"] is not None else "")
             for n, fn in sorted(m.functions.items()) for i in range(len(fn["sigs"])) if i not in selected.get(n, set())]
    # (e) evidence
    lat = {name: len(fn["tuples"]) for name, fn in sorted(m.functions.items())}
    forms_n = {fo["name"]: len(fo["items"]) for fo in m.forms}
    cov = {
        "evaluations": stats["evaluations"],
        "distinct_nontrivial": len(stats["nontrivial"]),
        "distinct": sum(lat.values()),
        "exhaustive": True,
        "rule": ("complete enumeration: every public call form (FORMS in harness/translators/dump_rules.py) on every combination of "
                 "its admitted argument domains — operator kinds = every concrete LinearOperator subclass found by reflection "
                 "(one representative parametrisation per @parametric kind), admitted algorithm classes per function, omitted vs "
                 "explicit optional arguments, keyword vs positional — and, where a conditional rule can match, every truth value of "
                 "its condition, steered through the annotation wrappers cola.SelfAdjoint/PSD/Stiefel/Unitary (forced by overwriting "
                 "`annotations` only where the kind fixes them itself) and a Product with non-square factors.  Each call is run on "
                 "real instances with plum's Resolver.resolve intercepted and compared with the Lean model's answer for that tuple.  "
                 "distinct = lattice tuples (function, argument classes, condition bits); non-trivial = at least two registered "
                 "signatures match the tuple (measured by the Lean model).  Second stream (`nested_resolutions`): the same calls "
                 "run to completion with EVERY resolution recorded (nested dispatch inside the selected rules included); each "
                 "observed tuple must be a lattice tuple and be resolved as the model says"),
        "lattice_sizes": lat,
        "public_form_items": forms_n,
        "public_calls_executed": stats["calls"],
        "tuples_reached_without_forcing": len(stats["natural"]),
        "functions": len(m.functions),
        "signatures": sum(len(fn["sigs"]) for fn in m.functions.values()),
        "classes": len(m.classes),
        "kinds": [k["name"] + (" (stub instance)" if k["stub"] else "") for k in m.kinds],
        "skipped_modules": [s[0] for s in m.skipped_modules],
        "active_clauses": {n: [c["name"] for c in fn["clauses"]] for n, fn in m.functions.items() if fn["clauses"]},
        "inactive_clauses": m.inactive_clauses,
        "real_resolver_failures": len(failures),
        "mismatches": len(mismatches),
        "uncovered": len(uncovered),
        "samples": samples[:12],
        "never_selected_on_lattice": never,
        "nested_resolutions": nsummary,
        "cached_resolutions": csummary,
        "regression_tables": reg,
        "timing_s": {"translator": round(t_translate, 1), "regression_tables": round(t_regr, 1), "lean_gate": round(t_gate, 1),
                     "correspondence": round(t_corr, 1), "nested_stream": round(t_nested, 1), "cached_stream": round(t_cached, 1)},
        "translator": tsum,
        "trusted_base_extra": [
            "harness/translators/dump_rules.py: reflection of plum's registry into RuleTable.lean, and the lattice tables FORMS / ALGS / DOMAINS (the statement of which calls the documentation admits)",
            "beartype's is_bearable / TypeHint order on the hints that occur equals the subclass table (checked by the translator on every pair of classes and hints, and end to end by the correspondence)",
        ],
    }
    if broken:
        cov["broken"] = broken
    common.write_evidence(ctx, gate, cov, assumptions=[
        "Operator kinds that cannot be constructed on the NumPy backend (Jacobian, Hessian, ConvolveND: they need jax's jvp / vjp / convolve) are represented by stub instances of the real class whose `_matmat` / `_rmatmat` are shadowed by a fixed 3x3 matrix, so that rule bodies run on them in stream (c'); rule selection only inspects the class, `annotations` and, for Product, the factor shapes (round 5: Kernel, FFT, AdaNysPrecond are real instances now)",
        "one representative parametrisation per @parametric kind (e.g. Product[Dense, Dense]): no registered hint is a parametrised class, so all parametrisations of a kind have the same superclasses among the hints",
        "registration order is the one produced by `import cola` followed by the remaining modules in sorted order (the candidate loop is order dependent)",
        "errors raised by the selected rule are outside C04: in stream (c) calls are aborted after rule selection; in stream (c') the bodies run and their exceptions are counted by class (`nested_resolutions.body_exceptions`), the resolutions recorded before the exception are still judged",
        "stream (c') observes the nested dispatch of the bodies AS EXECUTED on the 3x3 instances of the lattice with reduced iteration budgets (max_iters<=4, bs<=3) and plum's method cache switched off; branches of a body that these inputs do not take (size thresholds of Auto, convergence-dependent paths) are not observed",
        "a runtime class that is another parametrisation of a @parametric kind is identified with the representative of the class table only after checking equal superclasses among all non-parametrised classes of the table (no registered hint is a parametrised class: checked)",
        "stream (c''), cached resolutions: plum's `_cache` is cleared once and then left alone while every call site is called twice (lattice instances, then shallow copies = other objects of the same classes), the call being aborted after `Function._resolve_method_with_cache` returned; what is observed is the OUTER resolution of each call under the cache history this ordering produces (per function: the order of `call_sites`), not every interleaving",
        "a call of stream (c') that the selected rule refuses with `assert A.isa(PSD)` / `assert A.isa(SelfAdjoint)` is re-run with `annotations |= {PSD, SelfAdjoint}` forced on the operator arguments (true of the SPD lattice instances, forced on the others), so that the body behind the assertion is observed; `unobserved_share` counts the calls (and re-runs) that end in an exception NOT raised by an explicit assert / raise statement of cola",
        "PartH / PartI regression tables: the reduced class universe (19 classes), the three commits and the index lists `structured` / `kinds` are hand-written (dump_rules.py REGRESSION_*, PartH.lean); rows, hierarchy and the real resolver's answers are regenerated from `git archive` trees of /repo's history on every run; that the `_post` tables are today's tables is checked by the harness (`regression_tables.post_equals_today`), a difference is printed and recorded, not a violation",
    ])
    if gate_err is not None:
        restore_committed_table()
    print(json.dumps({"tuples": cov["distinct"], "evaluations": cov["evaluations"], "distinct_nontrivial": cov["distinct_nontrivial"],
                      "calls": stats["calls"], "mismatches": len(mismatches), "real_failures": len(failures),
                      "uncovered": len(uncovered), "errors": len(errors),
                      "nested": {k: nsummary[k] for k in ("resolutions_observed", "nested_resolutions_observed", "distinct_nested_tuples",
                                                           "distinct_nested_tuples_in_lattice", "real_vs_model_mismatches",
                                                           "calls_ending_in_body_exception", "unobserved_share")} |
                                {"not_in_lattice": len([f for f in nfind if f["kind"] != "real-vs-model"])},
                      "cached": {k: csummary[k] for k in ("calls_first_pass", "cache_hits_first_pass", "cache_hits_second_pass",
                                                          "cached_vs_model_mismatches")},
                      "regression_tables": {"available": reg["available"], "post_equals_today": reg.get("post_equals_today")},
                      "gate": (gate or {}).get("obligations"),
                      "gate_broken": gate_err is not None, "timing_s": cov["timing_s"]}))
